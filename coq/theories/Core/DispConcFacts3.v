(* C26 -- one-thread refinement: the interleaving models of Core/DispConc.v, run with ONE thread, are the
   sequential models of Core/Disposables.v (the abstract container: held items + disposed flag).  For every
   history h there is a schedule length n after which the thread has finished, the log is the sequential
   log and the shared state is the sequential final state; every longer schedule changes nothing.  So every
   sequential theorem (conservation, exactly-once, ...) is a theorem about the one-thread runs of the
   transition systems, and quiescence is reachable for every program. *)
From RxVerif Require Import Base.Prelude Core.Disposables Core.DisposablesFacts Core.DispConc Core.DispConcFacts.
Local Open Scope nat_scope.

Section OneThread.
Context {Sh L O S : Type}.
Variable start : O -> L.
Variable act : Sh -> L -> Sh * option L * list obs.
Notation thread := (@thread L O).
Notation config := (@config Sh L O).
Notation tstep := (@tstep Sh L O start act).
Notation crun := (@crun Sh L O start act).

(* a call positioned at local state l in shared state s runs to completion, alone: final shared state and
   the outputs of all its actions *)
Inductive runs_to : Sh -> L -> Sh -> list obs -> Prop :=
| RT_last : forall s l s' out, act s l = (s', None, out) -> runs_to s l s' out
| RT_more : forall s l s1 l1 out1 s' out2,
    act s l = (s1, Some l1, out1) -> runs_to s1 l1 s' out2 -> runs_to s l s' (out1 ++ out2).

Lemma runs_to_crun : forall s l s' out, runs_to s l s' out ->
  forall (t : thread) todo hist log, next_frame start t = Some (l, todo, hist) ->
  exists n, crun (Config s [t] log) (repeat 0 (Datatypes.S n))
            = Config s' [Thread None todo hist] (log ++ map (pair 0) out).
Proof.
  induction 1 as [s l s' out A|s l s1 l1 out1 s' out2 A R IH]; intros t todo hist log F.
  - exists 0. cbn [repeat]. rewrite crun_cons, crun_nil. unfold DispConc.tstep.
    cbn [c_ths nth_error c_sh c_log]. rewrite F, A. reflexivity.
  - destruct (IH (Thread (Some l1) todo hist) todo hist (log ++ map (pair 0) out1) eq_refl) as [n Hn].
    exists (Datatypes.S n). change (repeat 0 (Datatypes.S (Datatypes.S n))) with (0 :: repeat 0 (Datatypes.S n)).
    rewrite crun_cons. unfold DispConc.tstep at 1. cbn [c_ths nth_error c_sh c_log]. rewrite F, A.
    cbn [set_nth]. rewrite Hn, map_app, app_assoc. reflexivity.
Qed.

(* the sequential model, an abstraction of the shared state, a renaming of observations, an invariant *)
Variable seq : S -> O -> S * list obs.
Variable abs : Sh -> S.
Variable f : obs -> obs.
Variable ok : Sh -> Prop.
Hypothesis call_refines : forall s o, ok s ->
  exists s' out, runs_to s (start o) s' out /\ ok s' /\
                 abs s' = fst (seq (abs s) o) /\ map f out = snd (seq (abs s) o).

Lemma one_thread_gen : forall h s hist lg, ok s ->
  exists n, let c := crun (Config s [Thread None h hist] lg) (repeat 0 n) in
    c_ths c = [Thread None [] (rev h ++ hist)] /\ ok (c_sh c) /\
    abs (c_sh c) = final seq (abs s) h /\
    map f (plain (c_log c)) = map f (plain lg) ++ log seq (abs s) h.
Proof.
  induction h as [|o r IH]; intros s hist lg K.
  - exists 0. cbn [repeat]. rewrite crun_nil. cbn [c_ths c_sh c_log rev app]. rewrite final_nil, log_nil, app_nil_r. auto.
  - destruct (call_refines s o K) as (s' & out & R & K' & HA & HO).
    destruct (runs_to_crun _ _ _ _ R (Thread None (o :: r) hist) r (o :: hist) lg eq_refl) as [n1 H1].
    destruct (IH s' (o :: hist) (lg ++ map (pair 0) out) K') as [n2 H2].
    exists (Datatypes.S n1 + n2). rewrite repeat_app, crun_app, H1.
    destruct H2 as (T & K2 & A2 & L2). cbv zeta. split; [|split; [|split]].
    + rewrite T. cbn [rev]. rewrite <- app_assoc. reflexivity.
    + exact K2.
    + rewrite A2, HA, final_cons. reflexivity.
    + rewrite L2, plain_app, plain_tag, map_app, HO, HA, log_cons, app_assoc. reflexivity.
Qed.

(* once the single thread has finished, further scheduling changes nothing *)
Lemma finished_stutter : forall (c : config) hist m, c_ths c = [Thread None [] hist] -> crun c (repeat 0 m) = c.
Proof.
  intros c hist m T. induction m as [|m IH]; [reflexivity|].
  cbn [repeat]. rewrite crun_cons. unfold DispConc.tstep. rewrite T. cbn [nth_error next_frame t_cur t_todo]. exact IH.
Qed.

Theorem one_thread_refines : forall h s0, ok s0 ->
  exists n, forall m, let c := crun (cinit s0 [h]) (repeat 0 (n + m)) in
    map f (plain (c_log c)) = log seq (abs s0) h /\
    abs (c_sh c) = final seq (abs s0) h /\
    quiescent c = true.
Proof.
  intros h s0 K. destruct (one_thread_gen h s0 [] [] K) as [n (T & _ & A & Lg)]. exists n. intros m.
  cbv zeta. rewrite repeat_app, crun_app.
  change (cinit s0 [h]) with (Config s0 [@Thread L O None h []] []).
  rewrite (finished_stutter _ _ m T). split; [exact Lg|]. split; [exact A|].
  unfold quiescent. rewrite T. reflexivity.
Qed.
End OneThread.

(* ---- the dispose-the-list loop of a call, alone ------------------------------------------------------ *)
Lemma cc_calls_run : forall r (s : cstate) i ret,
  runs_to cc_act s (CL_calls (i :: r) ret) s (map ODisp (i :: r) ++ ret).
Proof.
  induction r as [|j r IH]; intros s i ret.
  - apply RT_last. reflexivity.
  - change (map ODisp (i :: j :: r) ++ ret) with ([ODisp i] ++ (map ODisp (j :: r) ++ ret)).
    eapply RT_more; [reflexivity|apply IH].
Qed.

Lemma sc_calls_run : forall k r (x : xstate) i ret,
  runs_to (sc_act k) x (SL_calls (i :: r) ret) x (map ODisp (i :: r) ++ ret).
Proof.
  induction r as [|j r IH]; intros x i ret.
  - apply RT_last. reflexivity.
  - change (map ODisp (i :: j :: r) ++ ret) with ([ODisp i] ++ (map ODisp (j :: r) ++ ret)).
    eapply RT_more; [reflexivity|apply IH].
Qed.

(* a locked block that hands a list of items to the loop *)
Lemma cc_lock_calls : forall s s' o l,
  cc_act s (CL_lock o) = (let '(l', out) := calls CL_calls l [] in (s', l', out)) ->
  runs_to cc_act s (CL_lock o) s' (map ODisp l).
Proof.
  intros s s' o [|i r] H; cbn [calls] in H.
  - apply RT_last. exact H.
  - rewrite <- (app_nil_r (map ODisp (i :: r))). change (map ODisp (i :: r) ++ []) with ([] ++ (map ODisp (i :: r) ++ [])).
    eapply RT_more; [exact H|apply cc_calls_run].
Qed.

Lemma sc_lock_calls : forall k x x' o l,
  sc_act k x (SL_lock o) = (let '(l', out) := calls SL_calls l [] in (x', l', out)) ->
  runs_to (sc_act k) x (SL_lock o) x' (map ODisp l).
Proof.
  intros k x x' o [|i r] H; cbn [calls] in H.
  - apply RT_last. exact H.
  - rewrite <- (app_nil_r (map ODisp (i :: r))). change (map ODisp (i :: r) ++ []) with ([] ++ (map ODisp (i :: r) ++ [])).
    eapply RT_more; [exact H|apply sc_calls_run].
Qed.

Lemma map_ODisp_opt_list : forall o, map ODisp (opt_list o) = opt_disp o.
Proof. intros [i|]; reflexivity. Qed.

Ltac fin := do 2 eexists; split; [|split; [exact I|split; [reflexivity|rewrite map_id; reflexivity]]].

(* ---- CompositeDisposable ----------------------------------------------------------------------------- *)
Lemma cc_call_refines : forall s o, True ->
  exists s' out, runs_to cc_act s (cc_start o) s' out /\ True /\
                 (fun x : cstate => x) s' = fst (c_step s o) /\ map (fun b : obs => b) out = snd (c_step s o).
Proof.
  intros [items d] o _.
  destruct o as [i|i| | |i| | |]; cbn [cc_start c_step c_disposed c_items].
  - (* add *) destruct d.
    + fin.
      change [ODisp i] with ([] ++ (map ODisp [i] ++ [])).
      eapply RT_more; [reflexivity|apply cc_calls_run].
    + fin.
      apply RT_last. reflexivity.
  - (* remove *) destruct d.
    + fin.
      apply RT_last. reflexivity.
    + destruct (mem i items) eqn:M.
      * fin.
        change [ODisp i; OBool true] with ([] ++ ([] ++ (map ODisp [i] ++ [OBool true]))).
        eapply RT_more; [reflexivity|]. eapply RT_more; [cbn [cc_act c_items c_disposed]; rewrite M; reflexivity|].
        apply cc_calls_run.
      * fin.
        change [OBool false] with ([] ++ [OBool false]).
        eapply RT_more; [reflexivity|]. apply RT_last. cbn [cc_act c_items c_disposed]. rewrite M. reflexivity.
  - (* dispose *) destruct d.
    + fin.
      apply RT_last. reflexivity.
    + fin.
      change (map ODisp items) with ([] ++ map ODisp items).
      eapply RT_more; [reflexivity|]. apply cc_lock_calls. reflexivity.
  - (* clear *)
    fin.
    apply cc_lock_calls. reflexivity.
  - fin. apply RT_last. reflexivity.
  - fin. apply RT_last. reflexivity.
  - fin. apply RT_last. reflexivity.
  - fin. apply RT_last. reflexivity.
Qed.

Theorem cc_one_thread_refines : forall l0 h, exists n, forall m,
  let c := cc_run l0 [h] (repeat 0 (n + m)) in
  plain (c_log c) = log c_step (c_init l0) h /\
  c_sh c = final c_step (c_init l0) h /\
  quiescent c = true.
Proof.
  intros l0 h.
  destruct (one_thread_refines cc_start cc_act c_step (fun x => x) (fun b => b) (fun _ => True)
              cc_call_refines h (c_init l0) I) as [n H].
  exists n. intros m. specialize (H m). cbv zeta in *. rewrite map_id in H. exact H.
Qed.

(* ---- the one-slot containers ------------------------------------------------------------------------- *)
Definition slot_seq (k : slot_kind) : sstate -> sop -> sstate * list obs :=
  match k with KSerial => ser_step | KMultiple => mad_step | KSingle => sad_step end.
(* the interleaving model names the rejected item ([ORej i]); the sequential log has one [ORaise] per call *)
Definition unrej (b : obs) : obs := match b with ORej _ => ORaise | _ => b end.
Definition slot_f (k : slot_kind) : obs -> obs := match k with KSingle => unrej | _ => fun b => b end.

Lemma map_slot_f_disp : forall k l, map (slot_f k) (map ODisp l) = map ODisp l.
Proof. intros k l. rewrite map_map. destruct k; reflexivity. Qed.

Ltac sfin := do 2 eexists; split; [|split; [exact I|split]].

Lemma sc_call_refines : forall k x o, True ->
  exists x' out, runs_to (sc_act k) x (sc_start o) x' out /\ True /\
                 x_s x' = fst (slot_seq k (x_s x) o) /\ map (slot_f k) out = snd (slot_seq k (x_s x) o).
Proof.
  intros k [[cur d] dr] o _. destruct o as [i| | |].
  - (* set *) destruct k; cbn [sc_start slot_seq ser_step mad_step sad_step x_s s_disposed s_cur].
    + destruct d.
      * sfin; [apply (sc_lock_calls KSerial _ _ _ [i]); reflexivity|reflexivity|reflexivity].
      * sfin; [apply (sc_lock_calls KSerial _ _ _ (opt_list cur)); reflexivity|reflexivity|].
        rewrite map_slot_f_disp, map_ODisp_opt_list. reflexivity.
    + destruct d.
      * sfin; [apply (sc_lock_calls KMultiple _ _ _ [i]); reflexivity|reflexivity|reflexivity].
      * sfin; [apply RT_last; reflexivity|reflexivity|reflexivity].
    + destruct cur as [c|].
      * sfin; [apply RT_last; reflexivity|reflexivity|reflexivity].
      * destruct d.
        -- sfin; [apply (sc_lock_calls KSingle _ _ _ [i]); reflexivity|reflexivity|reflexivity].
        -- sfin; [apply RT_last; reflexivity|reflexivity|reflexivity].
  - (* dispose: the same text in the three classes *)
    assert (E : slot_seq k (SState cur d) SDispose = slot_dispose (SState cur d)) by (destruct k; reflexivity).
    cbn [x_s]. rewrite E. unfold slot_dispose. cbn [s_disposed s_cur sc_start]. destruct d.
    + sfin; [apply RT_last; destruct k; reflexivity|reflexivity|destruct k; reflexivity].
    + sfin; [apply (sc_lock_calls k _ _ _ (opt_list cur)); destruct k; reflexivity|reflexivity|].
      rewrite map_slot_f_disp, map_ODisp_opt_list. reflexivity.
  - sfin; [apply RT_last; reflexivity|destruct k; reflexivity|destruct k; reflexivity].
  - sfin; [apply RT_last; reflexivity|destruct k; reflexivity|destruct k; reflexivity].
Qed.

Theorem sc_one_thread_refines : forall k h, exists n, forall m,
  let c := sc_run k [h] (repeat 0 (n + m)) in
  map (slot_f k) (plain (c_log c)) = log (slot_seq k) s_init h /\
  x_s (c_sh c) = final (slot_seq k) s_init h /\
  quiescent c = true.
Proof.
  intros k h.
  exact (one_thread_refines sc_start (sc_act k) (slot_seq k) x_s (slot_f k) (fun _ => True)
           (sc_call_refines k) h x_init I).
Qed.

Corollary serial_one_thread_refines : forall h, exists n, forall m,
  let c := sc_run KSerial [h] (repeat 0 (n + m)) in
  plain (c_log c) = log ser_step s_init h /\ x_s (c_sh c) = final ser_step s_init h /\ quiescent c = true.
Proof.
  intros h. destruct (sc_one_thread_refines KSerial h) as [n H]. exists n. intros m. specialize (H m).
  cbv zeta in *. cbn [slot_f slot_seq] in H. rewrite map_id in H. exact H.
Qed.

Corollary multiple_one_thread_refines : forall h, exists n, forall m,
  let c := sc_run KMultiple [h] (repeat 0 (n + m)) in
  plain (c_log c) = log mad_step s_init h /\ x_s (c_sh c) = final mad_step s_init h /\ quiescent c = true.
Proof.
  intros h. destruct (sc_one_thread_refines KMultiple h) as [n H]. exists n. intros m. specialize (H m).
  cbv zeta in *. cbn [slot_f slot_seq] in H. rewrite map_id in H. exact H.
Qed.

Corollary single_one_thread_refines : forall h, exists n, forall m,
  let c := sc_run KSingle [h] (repeat 0 (n + m)) in
  map unrej (plain (c_log c)) = log sad_step s_init h /\ x_s (c_sh c) = final sad_step s_init h /\
  quiescent c = true.
Proof. intros h. exact (sc_one_thread_refines KSingle h). Qed.

(* ---- what the refinement buys: the sequential exactly-once statements hold of the one-thread runs ------- *)
Lemma disposes_map_unrej : forall i l, disposes i (map unrej l) = disposes i l.
Proof.
  intros i l. unfold disposes. induction l as [|b t IH]; [reflexivity|].
  cbn [map filter]. destruct b; cbn [unrej is_disp]; try exact IH. destruct (Nat.eqb i i0); cbn [length]; rewrite IH; reflexivity.
Qed.

(* CompositeDisposable, one thread, run to completion: every item was disposed once per hand-over except
   for the occurrences still held; after a dispose() nothing is held *)
Corollary composite_one_thread_exactly_once : forall l0 h i, exists n, forall m,
  let c := cc_run l0 [h] (repeat 0 (n + m)) in
  quiescent c = true /\
  disposes i (plain (c_log c)) + cnt i (c_items (c_sh c)) = cnt i l0 + c_hadds i h /\
  (In CDispose h -> c_items (c_sh c) = [] /\ disposes i (plain (c_log c)) = cnt i l0 + c_hadds i h).
Proof.
  intros l0 h i. destruct (cc_one_thread_refines l0 h) as [n H]. exists n. intros m. specialize (H m).
  cbv zeta in *. destruct H as (HL & HS & HQ). rewrite HL, HS. split; [exact HQ|].
  pose proof (composite_conservation l0 h i) as C. split; [exact C|].
  intros D. apply in_split in D. destruct D as (h1 & h2 & ->).
  pose proof (c_disposed_after_dispose h1 h2 (c_init l0)) as DD.
  pose proof (c_final_ok (h1 ++ CDispose :: h2) (c_init l0) (c_init_ok l0) DD) as E.
  split; [exact E|]. rewrite E in C. cbn [cnt filter length] in C. rewrite Nat.add_0_r in C. exact C.
Qed.

Corollary serial_one_thread_exactly_once : forall h i, exists n, forall m,
  let c := sc_run KSerial [h] (repeat 0 (n + m)) in
  quiescent c = true /\
  disposes i (plain (c_log c)) + ocnt i (s_cur (x_s (c_sh c))) = s_hsets i h /\
  (In SDispose h -> s_cur (x_s (c_sh c)) = None /\ disposes i (plain (c_log c)) = s_hsets i h).
Proof.
  intros h i. destruct (serial_one_thread_refines h) as [n H]. exists n. intros m. specialize (H m).
  cbv zeta in *. destruct H as (HL & HS & HQ). rewrite HL, HS. split; [exact HQ|].
  pose proof (serial_conservation h i) as C. split; [exact C|].
  intros D. apply in_split in D. destruct D as (h1 & h2 & ->).
  pose proof (serial_disposed_after_dispose h1 h2) as DD.
  pose proof (ser_final_ok (h1 ++ SDispose :: h2) s_init s_init_ok DD) as E.
  split; [exact E|]. rewrite E in C. rewrite ocnt_none, Nat.add_0_r in C. exact C.
Qed.

(* SingleAssignmentDisposable: every assignment was rejected (the call raised), or its item is the current
   one, or the item was disposed exactly once *)
Corollary single_one_thread_exactly_once : forall h i, exists n, forall m,
  let c := sc_run KSingle [h] (repeat 0 (n + m)) in
  quiescent c = true /\
  disposes i (plain (c_log c)) + ocnt i (s_cur (x_s (c_sh c))) + s_rejected i h (outs sad_step s_init h)
    = s_hsets i h /\
  (In SDispose h -> s_cur (x_s (c_sh c)) = None).
Proof.
  intros h i. destruct (single_one_thread_refines h) as [n H]. exists n. intros m. specialize (H m).
  cbv zeta in *. destruct H as (HL & HS & HQ). rewrite <- (disposes_map_unrej i), HL, HS. split; [exact HQ|].
  split; [apply sad_conservation|].
  intros D. apply in_split in D. destruct D as (h1 & h2 & ->).
  apply (sad_final_ok _ s_init s_init_ok). apply sad_disposed_after_dispose.
Qed.
