(* Facts about Core/RealTime.v (C34) and the not-early / not-after-cancel theorems of the
   EventLoopScheduler family (model Core/EventLoop.v), over ALL schedules. *)
From RxVerif Require Import Base.Prelude Core.RealTime Core.EventLoop Core.EventLoopFacts.
From Coq Require Import Permutation Sorted.
Local Open Scope Z_scope.

(* ======================================================================= *)
(* ImmediateScheduler *)
Lemma imm_schedule_spec : forall clock a, imm_schedule clock a = [IStart a clock; IEnd a; IRet a].
Proof. reflexivity. Qed.

Lemma imm_relative_spec : forall clock d a,
  (0 < d -> imm_relative clock d a = [IWouldBlock a]) /\
  (d <= 0 -> imm_relative clock d a = [IStart a clock; IEnd a; IRet a]).
Proof.
  intros. unfold imm_relative, imm_schedule. split; intros H.
  - destruct (d >? 0) eqn:E; [reflexivity|]. rewrite Z.gtb_ltb in E. apply Z.ltb_ge in E. lia.
  - destruct (d >? 0) eqn:E; [|reflexivity]. apply Z.gtb_lt in E. lia.
Qed.

(* absolute: raises iff the due time is in the future of the clock reading; otherwise the action
   runs inside the call, at a clock reading that is not before the due time *)
Lemma imm_absolute_spec : forall clock t later a, 0 <= later ->
  (clock < t -> imm_absolute clock t later a = [IWouldBlock a]) /\
  (t <= clock -> imm_absolute clock t later a = [IStart a (clock + later); IEnd a; IRet a] /\ t <= clock + later).
Proof.
  intros clock t later a L. unfold imm_absolute. destruct (imm_relative_spec (clock + later) (t - clock) a) as [R1 R2].
  split; intros H; [apply R1; lia|]. split; [apply R2; lia|lia].
Qed.

(* ======================================================================= *)
(* NewThreadScheduler.schedule_absolute *)
Lemma newthread_abs_not_early : forall t now1 now2, now1 <= now2 -> t <= newthread_abs_due t now1 now2.
Proof. intros. unfold newthread_abs_due. lia. Qed.

(* ======================================================================= *)
(* TimeoutScheduler *)
Lemma tnth_upd_same : forall A (l : list A) k x old,
  nth_error l k = Some old -> nth_error (tupd k x l) k = Some x.
Proof.
  induction l as [|y t IH]; intros k x old H; [destruct k; discriminate H|].
  destruct k as [|k']; cbn [tupd nth_error] in *; [reflexivity|]. eapply IH, H.
Qed.
Lemma tnth_upd_other : forall A (l : list A) k j x, j <> k -> nth_error (tupd k x l) j = nth_error l j.
Proof.
  induction l as [|y t IH]; intros k j x H; [destruct k; reflexivity|].
  destruct k as [|k'], j as [|j']; cbn [tupd nth_error]; try reflexivity; [congruence|]. apply IH. congruence.
Qed.
Lemma tupd_length : forall A (l : list A) k x, length (tupd k x l) = length l.
Proof.
  induction l as [|y t IH]; intros k x; [destruct k; reflexivity|].
  destruct k; cbn [tupd length]; [reflexivity|]. rewrite IH. reflexivity.
Qed.

(* the thread table after a step *)
Lemma tnth_after : forall (ths : list tthread) tid me (ext : list tthread) j st old,
  nth_error ths tid = Some old -> (length ext <= 1)%nat ->
  nth_error (tupd tid me ths ++ ext) j = Some st ->
  (j = tid /\ st = me) \/ (j <> tid /\ nth_error ths j = Some st) \/ (ext = [st]).
Proof.
  intros ths tid me ext j st old O LE H. destruct (Nat.eq_dec j tid) as [->|N].
  - rewrite nth_error_app1 in H by (rewrite tupd_length; apply nth_error_Some; congruence).
    erewrite tnth_upd_same in H by exact O. inv H. left. auto.
  - destruct (Nat.lt_ge_cases j (length ths)) as [LT|GE].
    + rewrite nth_error_app1 in H by (rewrite tupd_length; exact LT). rewrite tnth_upd_other in H by exact N.
      right. left. auto.
    + rewrite nth_error_app2 in H by (rewrite tupd_length; exact GE). right. right.
      destruct ext as [|x [|y e]]; [destruct (j - length (tupd tid me ths))%nat; discriminate H| |cbn in LE; lia].
      destruct (j - length (tupd tid me ths))%nat as [|k]; [inv H; reflexivity|destruct k; discriminate H].
Qed.

Lemma in_tstamp : forall tid clk out tid' t e,
  In (tid', t, e) (tstamp tid clk out) <-> tid' = tid /\ t = clk /\ In e out.
Proof.
  intros. unfold tstamp. rewrite in_map_iff. split.
  - intros [x [E I]]. inv E. auto.
  - intros [-> [-> I]]. exists e. auto.
Qed.

Lemma trun_invariant : forall P : tconfig -> Prop,
  (forall c tid, P c -> P (ttstep c tid)) -> (forall c d, P c -> P (ttick c d)) ->
  forall sched c, P c -> P (trun c sched).
Proof.
  intros P Hs Ht. induction sched as [|m s IH]; intros c H; [exact H|].
  cbn. apply IH. destruct m; cbn; auto.
Qed.

Definition timer_ok (c : tconfig) (a : nat) (due : Z) (ph : tph) : Prop :=
  match ph with
  | PNew iv => due <= tclock (t_sh c) + iv
  | PWaiting dl => due <= dl
  | PFire | PRunning =>
      due <= tclock (t_sh c) /\ forall tid t, In (tid, t, TCancelRet a) (t_log c) -> due <= t
  | PDone => True
  end.

Definition invR (c : tconfig) : Prop :=
  (forall tid t e, In (tid, t, e) (t_log c) -> t <= tclock (t_sh c)) /\
  (forall a, tmem a (tflags (t_sh c)) = false -> forall tid t, ~ In (tid, t, TCancelRet a) (t_log c)) /\
  (forall tid a due ph, nth_error (t_ths c) tid = Some (Timer a due ph) -> timer_ok c a due ph) /\
  (forall tid t a due, In (tid, t, TStart a due) (t_log c) ->
     due <= t /\ forall tid' t', In (tid', t', TCancelRet a) (t_log c) -> due <= t').

Lemma invR_init : forall t0 progs, invR (tinit t0 progs).
Proof.
  intros. unfold invR, tinit. cbn [t_sh t_ths t_log tclock tflags]. refine (conj _ (conj _ (conj _ _))).
  - intros tid t e [].
  - intros a _ tid t [].
  - intros tid a due ph H. apply nth_error_In in H. apply in_map_iff in H. destruct H as [p [E _]]. discriminate E.
  - intros tid t a due [].
Qed.

Lemma invR_tick : forall c d, invR c -> invR (ttick c d).
Proof.
  intros c d (R1 & R2 & R3 & R4). unfold invR, ttick. cbn [t_sh t_ths t_log tclock tflags].
  refine (conj _ (conj _ (conj _ _))).
  - intros tid t e I. specialize (R1 tid t e I). lia.
  - exact R2.
  - intros tid a due ph N. specialize (R3 tid a due ph N). unfold timer_ok in *. cbn [t_sh t_log tclock] in *.
    destruct ph; auto; try lia; (destruct R3 as [X Y]; split; [lia|exact Y]).
  - exact R4.
Qed.

Lemma invR_step : forall c tid, invR c -> invR (ttstep c tid).
Proof.
  intros c tid (R1 & R2 & R3 & R4). unfold ttstep.
  destruct (nth_error (t_ths c) tid) as [[pending todo|a due ph]|] eqn:N; [| |exact (conj R1 (conj R2 (conj R3 R4)))].
  - (* a caller *)
    destruct (caller_step (length (t_ths c)) (t_sh c) pending todo) as [[[[s' me] out] sp]|] eqn:CS;
      [|exact (conj R1 (conj R2 (conj R3 R4)))].
    assert (SUM : tclock s' = tclock (t_sh c) /\
                  (* flags and cancel events *)
                  ((tflags s' = tflags (t_sh c) /\ forall b, ~ In (TCancelRet b) out) \/
                   (exists b, tflags s' = b :: tflags (t_sh c) /\ out = [TCancelRet b] /\ sp = None)) /\
                  (forall a due, ~ In (TStart a due) out) /\
                  (exists p t, me = Caller p t) /\
                  (forall th, sp = Some th -> exists a due iv, th = Timer a due (PNew iv) /\ due <= tclock (t_sh c) + iv)).
    { unfold caller_step in CS. destruct pending as [[t a]|].
      - inv CS. repeat split; eauto; try (left; split; [reflexivity|]); try (intros; intros [X|[X|[]]]; discriminate X).
        intros th X. inv X. do 3 eexists. split; [reflexivity|]. lia.
      - destruct todo as [|[a|d a|t a|a] r]; inv CS.
        + repeat split; eauto; try (left; split; [reflexivity|]); try (intros; intros [X|[X|[]]]; discriminate X).
          intros th X. inv X. do 3 eexists. split; [reflexivity|]. lia.
        + repeat split; eauto; try (left; split; [reflexivity|]); try (intros; intros [X|[X|[]]]; discriminate X).
          intros th X. inv X. do 3 eexists. split; [reflexivity|]. lia.
        + repeat split; eauto; try (left; split; [reflexivity|]); try (intros; intros []). intros th X. discriminate X.
        + repeat split; eauto; try (intros; intros [X|[]]; discriminate X); [|intros th X; discriminate X].
          right. eexists. repeat split. }
    destruct SUM as (CK & FL & NS & (p & t & ->) & SP).
    assert (EXT : (length (match sp with Some th => [th] | None => [] end) <= 1)%nat) by (destruct sp; cbn; lia).
    unfold invR. cbn [t_sh t_ths t_log]. rewrite CK. refine (conj _ (conj _ (conj _ _))).
    + intros tid' t' e I. apply in_app_or in I. destruct I as [I|I]; [eapply R1, I|]. apply in_tstamp in I. lia.
    + intros a F tid' t' I. apply in_app_or in I. destruct FL as [[FE NC]|(b & FE & -> & ->)].
      * rewrite FE in F. destruct I as [I|I]; [eapply R2; eassumption|]. apply in_tstamp in I. eapply NC, I.
      * rewrite FE in F. cbn in F. apply orb_false_iff in F. destruct F as [F1 F2].
        destruct I as [I|I]; [eapply R2; eassumption|]. apply in_tstamp in I. destruct I as [_ [_ [I|[]]]]. inv I.
        rewrite Nat.eqb_refl in F1. discriminate F1.
    + intros j a due ph E. destruct (tnth_after _ _ _ _ _ _ _ N EXT E) as [[_ X]|[[NE E']|X]].
      * discriminate X.
      * specialize (R3 j a due ph E'). unfold timer_ok in *. cbn [t_sh t_log]. rewrite CK.
        destruct ph; auto; (destruct R3 as [X Y]; split; [exact X|]; intros tid' t' I; apply in_app_or in I;
        destruct I as [I|I]; [eapply Y, I|]; apply in_tstamp in I; lia).
      * destruct sp as [th|]; [|discriminate X]. inv X. destruct (SP _ eq_refl) as (a0 & due0 & iv & E0 & LE).
        inv E0. unfold timer_ok. cbn [t_sh]. rewrite CK. exact LE.
    + intros tid' t' a due I. apply in_app_or in I. destruct I as [I|I]; [|apply in_tstamp in I; exfalso; eapply NS, I].
      destruct (R4 _ _ _ _ I) as [X Y]. split; [exact X|]. intros tid'' t'' I'. apply in_app_or in I'.
      destruct I' as [I'|I']; [eapply Y, I'|]. apply in_tstamp in I'. destruct I' as [_ [-> _]].
      specialize (R1 _ _ _ I). lia.
  - (* a timer thread *)
    destruct (timer_step (t_sh c) a ph) as [[ph' out]|] eqn:TS; [|exact (conj R1 (conj R2 (conj R3 R4)))].
    pose proof (R3 tid a due ph N) as OK.
    assert (NOC : forall b, ~ In (TCancelRet b)
                   (match ph with PFire => [TStart a due] | _ => out end)).
    { intros b. unfold timer_step in TS. destruct ph as [iv|dl| | |].
      - destruct (tmem a (tflags (t_sh c))); inv TS; cbn; intuition discriminate.
      - destruct (tmem a (tflags (t_sh c))); [inv TS; cbn; intuition discriminate|].
        destruct (dl <=? tclock (t_sh c)); inv TS; cbn; intuition discriminate.
      - cbn; intuition discriminate.
      - inv TS; cbn; intuition discriminate.
      - discriminate TS. }
    unfold invR. cbn [t_sh t_ths t_log]. refine (conj _ (conj _ (conj _ _))).
    + intros tid' t' e I. apply in_app_or in I. destruct I as [I|I]; [eapply R1, I|]. apply in_tstamp in I. lia.
    + intros b F tid' t' I. apply in_app_or in I. destruct I as [I|I]; [eapply R2; eassumption|].
      apply in_tstamp in I. eapply NOC, I.
    + intros j a0 due0 ph0 E. destruct (Nat.eq_dec j tid) as [->|NE].
      * erewrite tnth_upd_same in E by exact N. inv E. unfold timer_ok in *. cbn [t_sh t_log].
        unfold timer_step in TS. destruct ph.
        -- destruct (tmem a0 (tflags (t_sh c))); inv TS; [exact I|exact OK].
        -- destruct (tmem a0 (tflags (t_sh c))) eqn:F; [inv TS; exact I|].
           destruct (deadline <=? tclock (t_sh c)) eqn:D; inv TS. apply Z.leb_le in D. split; [lia|].
           intros tid' t' I'. apply in_app_or in I'. destruct I' as [I'|[]]. exfalso. eapply R2; eassumption.
        -- inv TS. destruct OK as [X Y]. split; [exact X|]. intros tid' t' I'. apply in_app_or in I'.
           destruct I' as [I'|I']; [eapply Y, I'|]. apply in_tstamp in I'. destruct I' as [_ [_ [I'|[]]]]. discriminate I'.
        -- inv TS. exact I.
        -- discriminate TS.
      * rewrite tnth_upd_other in E by exact NE. specialize (R3 j a0 due0 ph0 E). unfold timer_ok in *. cbn [t_sh t_log].
        destruct ph0; auto; (destruct R3 as [X Y]; split; [exact X|]; intros tid' t' I'; apply in_app_or in I';
        destruct I' as [I'|I']; [eapply Y, I'|]; apply in_tstamp in I'; exfalso; eapply NOC, I').
    + intros tid' t' a0 due0 I. apply in_app_or in I. destruct I as [I|I].
      * destruct (R4 _ _ _ _ I) as [X Y]. split; [exact X|]. intros tid'' t'' I'. apply in_app_or in I'.
        destruct I' as [I'|I']; [eapply Y, I'|]. apply in_tstamp in I'. exfalso. eapply NOC, I'.
      * apply in_tstamp in I. destruct I as [-> [-> I]]. unfold timer_step in TS. destruct ph as [iv|dl| | |].
        -- destruct (tmem a (tflags (t_sh c))); inv TS; cbn in I; intuition discriminate.
        -- destruct (tmem a (tflags (t_sh c))); [inv TS; cbn in I; intuition discriminate|].
           destruct (dl <=? tclock (t_sh c)); inv TS; cbn in I; intuition discriminate.
        -- destruct I as [I|[]]. inv I. unfold timer_ok in OK. destruct OK as [X Y]. split; [exact X|].
           intros tid'' t'' I'. apply in_app_or in I'. destruct I' as [I'|I']; [eapply Y, I'|].
           apply in_tstamp in I'. destruct I' as [_ [_ [I'|[]]]]. discriminate I'.
        -- inv TS; cbn in I; intuition discriminate.
        -- discriminate TS.
Qed.

Lemma invR_run : forall t0 progs sched, invR (trun (tinit t0 progs) sched).
Proof. intros. apply trun_invariant; auto using invR_step, invR_tick, invR_init. Qed.

Theorem timeout_not_early : forall t0 progs sched tid t a due,
  In (tid, t, TStart a due) (t_log (trun (tinit t0 progs) sched)) -> due <= t.
Proof. intros. destruct (invR_run t0 progs sched) as (_ & _ & _ & R4). destruct (R4 _ _ _ _ H) as [X _]. exact X. Qed.

Theorem timeout_not_after_cancel : forall t0 progs sched tid t a due tid' t',
  In (tid, t, TStart a due) (t_log (trun (tinit t0 progs) sched)) ->
  In (tid', t', TCancelRet a) (t_log (trun (tinit t0 progs) sched)) -> due <= t'.
Proof. intros. destruct (invR_run t0 progs sched) as (_ & _ & _ & R4). destruct (R4 _ _ _ _ H) as [_ Y]. eapply Y; eassumption. Qed.

(* ======================================================================= *)
(* EventLoopScheduler family: never after a dispose that returned before the due time *)
Lemma checks_nil_in : forall out i b, checks out = [] -> ~ In (ECheck i b) out.
Proof.
  intros out i b H I. assert (In i (checks out)) by (apply checks_in; eexists; exact I). rewrite H in H0. destruct H0.
Qed.

Lemma log_in_L : forall (c : config) tid t e, In (tid, t, e) (c_log c) -> In e (L c).
Proof. intros c tid t e I. unfold L, evs. apply in_map_iff. exists (tid, t, e). split; [reflexivity|exact I]. Qed.

Lemma L_in_log : forall (c : config) e, In e (L c) -> exists tid t, In (tid, t, e) (c_log c).
Proof.
  intros c e I. unfold L, evs in I. apply in_map_iff in I. destruct I as [[[tid t] e'] [E I]]. cbn in E. subst.
  eauto.
Qed.

Section Facts.
Variable eie : bool.
Variable body : nat -> list op.
Notation cstep := (cstep eie body).
Notation run := (run eie body).

Definition invM (c : config) : Prop :=
  (forall tid t e, In (tid, t, e) (c_log c) -> t <= clock (c_sh c)) /\
  (forall tid t i b, In (tid, t, ECheck i b) (c_log c) -> it_due i <= t) /\
  (forall i, In (ECheck i false) (L c) ->
     forall tid t, In (tid, t, ECancelRet (it_lbl i)) (c_log c) -> it_due i <= t).

Lemma invM_init : forall t0 progs, invM (init t0 progs).
Proof.
  intros. unfold invM, L, init. cbn. refine (conj _ (conj _ _)).
  - intros tid t e [].
  - intros tid t i b [].
  - intros i [].
Qed.

Lemma invM_tick : forall c d, invM c -> invM (tick c d).
Proof.
  intros c d (M1 & M2 & M3). unfold invM, L, tick in *. cbn [c_sh c_log clock] in *. refine (conj _ (conj M2 M3)).
  intros tid t e I. specialize (M1 tid t e I). lia.
Qed.

Lemma invM_step : forall c tid c', invAll eie c -> invM c -> cstep c tid c' -> invM c'.
Proof.
  intros c tid c' (A & D & S & _) (M1 & M2 & M3) St.
  pose proof (cstep_clock eie body _ _ _ A St) as CK.
  destruct D as (_ & _ & _ & _ & _ & _ & _ & D8). destruct S as (_ & _ & _ & S4).
  (* an is_cancelled() test made in this step is on the head of the pending items *)
  assert (EX : exists s' ths' out, c' = Config s' ths' (c_log c ++ stamp tid (clock (c_sh c)) out) /\
            forall i b, In (ECheck i b) out -> it_due i <= clock (c_sh c) /\
                                (b = false -> mem (it_lbl i) (cancelled (c_sh c)) = false)).
  { inv St; do 3 eexists; (split; [reflexivity|]); intros i b I.
    - exfalso. pose proof (callish_in _ _ (opstep_callish _ _ _ _ _ _ _ _ _ H0) I) as X. discriminate X.
    - destruct (inflight_loop eie body _ _ _ _ _ _ _ A H H0) as [IF _].
      inv H0; cbn in I; try (intuition discriminate).
      + destruct I as [I|[]]. inv I. split; [apply D8; rewrite IF; left; reflexivity|discriminate].
      + destruct I as [I|[]]. inv I. split; [apply D8; rewrite IF; left; reflexivity|auto].
      + exfalso. pose proof (callish_in _ _ (opstep_callish _ _ _ _ _ _ _ _ _ H1) I) as X. discriminate X. }
  destruct EX as (s' & ths' & out & -> & NEWCHK). cbn [c_sh] in CK.
  assert (LE : L (Config s' ths' (c_log c ++ stamp tid (clock (c_sh c)) out)) = L c ++ out)
    by (unfold L; cbn [c_log]; rewrite evs_app, evs_stamp; reflexivity).
  unfold invM. cbn [c_log c_sh]. rewrite CK. refine (conj _ (conj _ _)).
  - intros tid' t e I. apply in_app_or in I. destruct I as [I|I]; [eapply M1, I|]. apply in_stamp in I. lia.
  - intros tid' t i b I. apply in_app_or in I. destruct I as [I|I]; [eapply M2, I|]. apply in_stamp in I.
    destruct I as [_ [-> I]]. apply NEWCHK in I. apply I.
  - intros i IC tid' t I. rewrite LE in IC. apply in_app_or in IC. apply in_app_or in I.
    destruct I as [I|I].
    + destruct IC as [IC|IC]; [eapply M3; eassumption|].
      (* the test is new, the cancel is old: the flag was set, the test cannot have returned False *)
      exfalso. destruct (NEWCHK _ _ IC) as [_ MF]. specialize (MF eq_refl).
      rewrite <- S4 in MF. rewrite (mem_seen_after (L c) [] (it_lbl i)) in MF; [discriminate MF|].
      right. eapply log_in_L, I.
    + apply in_stamp in I. destruct I as [_ [-> _]]. destruct IC as [IC|IC].
      * destruct (L_in_log _ _ IC) as [tid0 [t0 I0]]. specialize (M2 _ _ _ _ I0). specialize (M1 _ _ _ I0). lia.
      * apply NEWCHK in IC. apply IC.
Qed.

Lemma invAllM_run : forall sched c, invAll eie c -> invM c -> invM (run c sched).
Proof.
  intros sched c A M. apply (run_invariant2 eie body invM (invAll eie)); auto.
  - intros. apply invAll_run. assumption.
  - intros. eapply invM_step; eassumption.
  - intros. apply invM_tick. assumption.
Qed.

(* an action that starts: every dispose() of its disposable returned at a clock reading that is not
   before its due time.  (Contrapositive: disposed before its due time => never starts.) *)
Theorem el_not_after_cancel_before_due : forall t0 progs sched tid t i tid' t',
  let c := run (init t0 progs) sched in
  In (tid, t, EStart i) (c_log c) -> In (tid', t', ECancelRet (it_lbl i)) (c_log c) -> it_due i <= t'.
Proof.
  intros t0 progs sched tid t i tid' t' c IS IC.
  pose proof (invAllM_run sched _ (invAll_init eie t0 progs) (invM_init t0 progs)) as (_ & _ & M3). fold c in M3.
  eapply M3; [|exact IC]. eapply el_started_was_accepted. eapply log_in_L, IS.
Qed.
End Facts.
