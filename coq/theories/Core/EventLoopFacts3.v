(* C34 (and C31): the due time of an accepted item is EXACTLY what the call that made it computed
   -- clock reading of the call's first step (+ max(0, d) for schedule_relative; the argument for
   schedule_absolute) -- and the composed statement for NewThreadScheduler / ThreadPoolScheduler, whose
   schedule_absolute(t) turns t into the delay t - now1 and hands it to schedule_relative of a fresh
   EventLoopScheduler(exit_if_empty=True) whose clock reads now2 >= now1 or later: the action never starts
   before t, and never after a dispose() that returned before t. *)
From RxVerif Require Import Base.Prelude Core.EventLoop Core.EventLoopFacts Core.EventLoopFacts2
  Core.RealTime Core.RealTimeFacts.
From Coq Require Import Permutation Sorted.
Local Open Scope Z_scope.

(* what a call step does to the call in progress, exactly *)
Lemma opstep_due_exact : forall ntid s cur todo s' cur' todo' out sp,
  opstep ntid s cur todo s' cur' todo' out sp ->
  forall u a due, cur_is cur' u a due ->
     cur_is cur u a due \/
     (In (ECall u a) out /\ u = nuid s /\
      ((In (SchedNow a) todo /\ due = clock s) \/ (exists d, In (SchedRel d a) todo /\ due = clock s + Z.max 0 d) \/
       In (SchedAbs due a) todo)).
Proof.
  intros ntid s cur todo s' cur' todo' out sp O u0 a0 due0. unfold cur_is.
  inv O; intros [X|X]; try discriminate X; inv X.
  - right. split; [left; reflexivity|]. split; [reflexivity|]. left. split; [left; reflexivity|reflexivity].
  - right. split; [left; reflexivity|]. split; [reflexivity|]. right. left. exists d. split; [left; reflexivity|reflexivity].
  - right. split; [left; reflexivity|]. split; [reflexivity|]. right. right. left. reflexivity.
  - left. left. reflexivity.
Qed.

Lemma cstep_nuid : forall eie body c tid c', cstep eie body c tid c' -> (nuid (c_sh c) <= nuid (c_sh c'))%nat.
Proof.
  intros eie body c tid c' S. inv S; cbn [c_sh].
  - apply (opstep_uids _ _ _ _ _ _ _ _ _ H0).
  - inv H0; unfold set_q; cbn [nuid]; try lia. apply (opstep_uids _ _ _ _ _ _ _ _ _ H1).
Qed.

(* one step: either a call step of a scheduling thread / of a loop thread inside an action, or a step
   that emits no call event and leaves no call in progress *)
Lemma cstep_cases : forall eie body c tid c', cstep eie body c tid c' ->
  exists st st' s' out (sp : bool),
    nth_error (c_ths c) tid = Some st /\
    c' = Config s' (upd tid st' (c_ths c) ++ (if sp then [TLoop LNew] else [])) (c_log c ++ stamp tid (clock (c_sh c)) out) /\
    (opstep (length (c_ths c)) (c_sh c) (tcur st) (ttodo st) s' (tcur st') (ttodo st') out sp \/
     ((exists ph, st = TLoop ph) /\ sp = false /\ (forall e, In e out -> callish e = false) /\ tcur st' = None /\
      (ttodo st' = [] \/ exists a, ttodo st' = body a))).
Proof.
  intros eie body c tid c' S. inv S.
  - exists (TSched cur todo), (TSched cur' todo'), s', out, sp. split; [assumption|]. split; [reflexivity|]. left. exact H0.
  - exists (TLoop ph), (TLoop ph'), s', out, sp. split; [assumption|]. split; [reflexivity|].
    inv H0; try (right; split; [eexists; reflexivity|]; repeat split; cbn;
                 try (intros e [X|[]]; subst; reflexivity); try (intros e []);
                 try (left; destruct r; reflexivity); try (left; destruct ready; reflexivity);
                 try (left; reflexivity); try (destruct r; reflexivity); try (destruct ready; reflexivity); fail).
    + right. split; [eexists; reflexivity|]. repeat split; cbn; try (intros e [X|[]]; subst; reflexivity). right. eauto.
    + left. cbn [tcur ttodo]. assumption.
Qed.

Section Exact.
Variable eie : bool.
Variable body : nat -> list op.
Variable progs : list (list op).
Variable t0 : Z.
Notation cstep := (cstep eie body).
Notation run := (run eie body).
Notation src := (src body progs).

(* the call (uid u, action a) is in the log, was made at a clock reading tc >= t0, and due is what that
   call computes from tc *)
Definition linkedX (c : config) (u a : nat) (due : Z) : Prop :=
  exists tid tc, In (tid, tc, ECall u a) (c_log c) /\ t0 <= tc /\
    ((src (SchedNow a) /\ due = tc) \/ (exists d, src (SchedRel d a) /\ due = tc + Z.max 0 d) \/
     src (SchedAbs due a)).

Definition invKX (c : config) : Prop :=
  t0 <= clock (c_sh c) /\
  (forall t st o, nth_error (c_ths c) t = Some st -> In o (ttodo st) -> src o) /\
  (forall t st u a due, nth_error (c_ths c) t = Some st -> cur_is (tcur st) u a due -> linkedX c u a due) /\
  (forall i, In (EAcc i) (L c) -> linkedX c (it_uid i) (it_lbl i) (it_due i)).

Lemma invKX_init : invKX (init t0 progs).
Proof.
  unfold invKX, init, L. cbn [c_ths c_log c_sh sh0 clock evs map]. split; [lia|]. repeat split.
  - intros t st o N I. apply nth_error_In, in_map_iff in N. destruct N as [p [<- Hp]]. left. exists p. auto.
  - intros t st u a due N C. apply nth_error_In, in_map_iff in N. destruct N as [p [<- Hp]].
    destruct C as [C|C]; discriminate C.
  - intros i [].
Qed.

Lemma linkedX_mono : forall c s' ths' tid out u a due,
  linkedX c u a due -> linkedX (Config s' ths' (c_log c ++ stamp tid (clock (c_sh c)) out)) u a due.
Proof.
  intros c s' ths' tid out u a due (t1 & tc & I & H). exists t1, tc. split; [|exact H].
  cbn [c_log]. apply in_or_app. left. exact I.
Qed.

Lemma invKX_step : forall c tid c', invA c -> invKX c -> cstep c tid c' -> invKX c'.
Proof.
  intros c tid c' A (K0 & K1 & K2 & K3) S. pose proof (cstep_clock eie body _ _ _ A S) as CK.
  destruct (cstep_cases _ _ _ _ _ S) as (st & st' & s' & out & sp & N & -> & [O|(_ & -> & CE & TC & TT)]).
  - destruct (opstep_due _ _ _ _ _ _ _ _ _ O) as (D1 & _ & D3).
    pose proof (opstep_due_exact _ _ _ _ _ _ _ _ _ O) as D2.
    assert (NEW : forall u a due, cur_is (tcur st') u a due ->
              linkedX (Config s' (upd tid st' (c_ths c) ++ (if sp then [TLoop LNew] else []))
                              (c_log c ++ stamp tid (clock (c_sh c)) out)) u a due).
    { intros u a due C. destruct (D2 u a due C) as [C0|(I & _ & H)].
      - apply linkedX_mono. eapply K2; [exact N|exact C0].
      - exists tid, (clock (c_sh c)). split; [|split; [exact K0|]].
        + cbn [c_log]. apply in_or_app. right. apply in_stamp. auto.
        + destruct H as [[H ->]|[(d & H & ->)|H]].
          * left. split; [|reflexivity]. eapply K1; eassumption.
          * right. left. exists d. split; [|reflexivity]. eapply K1; eassumption.
          * right. right. eapply K1; eassumption. }
    unfold invKX. rewrite L_step. cbn [c_ths c_sh] in *. split; [lia|]. repeat split.
    + intros t x o E I. destruct (nth_after _ _ _ _ _ _ _ N E) as [[-> ->]|[[NE E']| ->]].
      * eapply K1; [exact N|]. apply D1, I.
      * eapply K1; eassumption.
      * destruct I.
    + intros t x u a due E C. destruct (nth_after _ _ _ _ _ _ _ N E) as [[-> ->]|[[NE E']| ->]].
      * apply NEW, C.
      * apply linkedX_mono. eapply K2; eassumption.
      * destruct C as [C|C]; discriminate C.
    + intros i I. apply in_app_or in I. destruct I as [I|I]; [apply linkedX_mono, K3, I|].
      apply linkedX_mono. eapply K2; [exact N|]. right. apply D3, I.
  - unfold invKX. rewrite L_step. cbn [c_ths c_sh app] in *. rewrite app_nil_r. split; [lia|]. repeat split.
    + intros t x o E I. destruct (Nat.eq_dec t tid) as [->|NE].
      * erewrite nth_upd_same in E by exact N. inv E. destruct TT as [TT|[a TT]]; rewrite TT in I; [destruct I|].
        right. eauto.
      * rewrite nth_upd_other in E by exact NE. eapply K1; eassumption.
    + intros t x u a due E C. destruct (Nat.eq_dec t tid) as [->|NE].
      * erewrite nth_upd_same in E by exact N. inv E. rewrite TC in C. destruct C as [C|C]; discriminate C.
      * rewrite nth_upd_other in E by exact NE. apply linkedX_mono. eapply K2; eassumption.
    + intros i I. apply in_app_or in I. destruct I as [I|I]; [apply linkedX_mono, K3, I|].
      specialize (CE _ I). discriminate CE.
Qed.

Lemma invKX_tick : forall c d, invKX c -> invKX (tick c d).
Proof.
  intros c d (K0 & K). split; [|exact K]. cbn [tick c_sh clock]. lia.
Qed.

Lemma invKX_run : forall sched, invKX (run (init t0 progs) sched).
Proof.
  intros sched. apply (run_invariant2 eie body invKX (invAll eie)).
  - intros. apply invAll_run. assumption.
  - intros c tid c' (A & _) K S. eapply invKX_step; eassumption.
  - intros. apply invKX_tick. assumption.
  - apply invAll_init.
  - apply invKX_init.
Qed.

(* an accepted item: the call that made it is in the log (same uid, same action), it was made at a clock
   reading tc >= t0 and the item's due time is EXACTLY what that call computes: tc for schedule, tc + max(0, d)
   for a schedule_relative(d) of that action occurring in the programs / bodies, the argument for
   schedule_absolute *)
Theorem el_accepted_due_exact : forall sched i,
  let c := run (init t0 progs) sched in
  In (EAcc i) (L c) ->
  exists tid tc, In (tid, tc, ECall (it_uid i) (it_lbl i)) (c_log c) /\ t0 <= tc /\
    ((src (SchedNow (it_lbl i)) /\ it_due i = tc) \/
     (exists d, src (SchedRel d (it_lbl i)) /\ it_due i = tc + Z.max 0 d) \/
     src (SchedAbs (it_due i) (it_lbl i))).
Proof. intros sched i c I. exact (proj2 (proj2 (proj2 (invKX_run sched))) i I). Qed.
End Exact.

(* ---- NewThreadScheduler / ThreadPoolScheduler: schedule_absolute(t, a) composed with the inner loop ----
   Outer call at clock reading now1: delay t - now1.  Inner EventLoopScheduler created afterwards: its clock
   reads t0 = now2 >= now1 at the earliest.  [only_rel a d o]: the only scheduling call for action a anywhere
   (programs of all threads, action bodies) is schedule_relative(d, a); other threads and bodies may do
   anything else, in particular dispose a's disposable and schedule other actions. *)
Definition only_rel (a : nat) (d : Z) (o : op) : Prop :=
  match o with
  | SchedNow b => b <> a
  | SchedRel d' b => b = a -> d' = d
  | SchedAbs _ b => b <> a
  | _ => True
  end.

Theorem newthread_absolute_composed : forall eie body progs t now1 now2 a sched,
  now1 <= now2 ->
  (forall o, src body progs o -> only_rel a (t - now1) o) ->
  let c := run eie body (init now2 progs) sched in
  forall tid ts i, In (tid, ts, EStart i) (c_log c) -> it_lbl i = a ->
    t <= it_due i /\ t <= ts /\ forall tid' t', In (tid', t', ECancelRet a) (c_log c) -> t <= t'.
Proof.
  intros eie body progs t now1 now2 a sched Hn Ho c tid ts i IS <-.
  pose proof (el_started_was_accepted eie body now2 progs sched i (log_in_L _ _ _ _ IS)) as [IA _].
  destruct (el_accepted_due_exact eie body progs now2 sched i IA) as (tid0 & tc & _ & Htc & H).
  assert (D : t <= it_due i).
  { destruct H as [[H _]|[(d & H & ->)|H]]; apply Ho in H; cbn [only_rel] in H.
    - exfalso. apply H. reflexivity.
    - rewrite (H eq_refl). lia.
    - exfalso. apply H. reflexivity. }
  split; [exact D|]. split.
  - pose proof (el_not_early eie body now2 progs sched tid ts i IS). lia.
  - intros tid' t' IC. pose proof (el_not_after_cancel_before_due eie body now2 progs sched tid ts i tid' t' IS IC). lia.
Qed.

(* ---- the same for the one-call program, by uid: the scheduler is fresh, the only outside call is
   schedule_relative(t - now1, a) (uid 0); the action body is ARBITRARY (it may schedule a again, cancel,
   dispose the scheduler) *)
Section OneCall.
Variable eie : bool.
Variable body : nat -> list op.
Variables (d : Z) (a : nat) (t now2 : Z).
Hypothesis Ht : forall clk, now2 <= clk -> t <= clk + Z.max 0 d.
Notation cstep := (cstep eie body).
Notation run := (run eie body).

Definition invZ (c : config) : Prop :=
  now2 <= clock (c_sh c) /\
  (nuid (c_sh c) = 0%nat -> c_ths c = [TSched None [SchedRel d a]]) /\
  (forall tt st a' due, nth_error (c_ths c) tt = Some st -> cur_is (tcur st) 0%nat a' due -> a' = a /\ t <= due) /\
  (forall i, In (EAcc i) (L c) -> it_uid i = 0%nat -> it_lbl i = a /\ t <= it_due i).

Lemma invZ_init : invZ (init now2 [[SchedRel d a]]).
Proof.
  unfold invZ, init, L. cbn [c_ths c_log c_sh sh0 clock nuid evs map]. split; [lia|]. repeat split.
  - destruct tt as [|[|tt]]; cbn in H; inv H. destruct H0 as [C|C]; discriminate C.
  - destruct tt as [|[|tt]]; cbn in H; inv H. destruct H0 as [C|C]; discriminate C.
  - destruct H.
  - destruct H.
Qed.

Lemma only_thread : forall tid st, nth_error [TSched None [SchedRel d a]] tid = Some st ->
  tid = 0%nat /\ st = TSched None [SchedRel d a].
Proof. intros [|[|tid]] st H; cbn in H; inv H. split; reflexivity. Qed.

Lemma invZ_step : forall c tid c', invA c -> invZ c -> cstep c tid c' -> invZ c'.
Proof.
  intros c tid c' A (Z0 & Z1 & Z2 & Z3) S. pose proof (cstep_clock eie body _ _ _ A S) as CK.
  pose proof (cstep_nuid _ _ _ _ _ S) as NU.
  destruct (cstep_cases _ _ _ _ _ S) as (st & st' & s' & out & sp & N & -> & [O|((ph & ->) & -> & CE & TC & TT)]).
  - destruct (opstep_due _ _ _ _ _ _ _ _ _ O) as (_ & _ & D3).
    pose proof (opstep_due_exact _ _ _ _ _ _ _ _ _ O) as D2.
    unfold invZ. rewrite L_step. cbn [c_ths c_sh] in *. split; [lia|]. split; [|split].
    + intros E. exfalso. assert (E0 : nuid (c_sh c) = 0%nat) by lia. rewrite (Z1 E0) in N.
      destruct (only_thread _ _ N) as [-> ->]. cbn [tcur ttodo] in O. inv O. cbn [bump nuid] in E. discriminate E.
    + intros tt x a' due E C. destruct (nth_after _ _ _ _ _ _ _ N E) as [[-> ->]|[[NE E']| ->]].
      * destruct (D2 _ _ _ C) as [C0|(_ & U & H)]; [eapply Z2; [exact N|exact C0]|].
        rewrite (Z1 (eq_sym U)) in N. destruct (only_thread _ _ N) as [-> ->]. cbn [ttodo] in H.
        destruct H as [[[H|[]] _]|[(d' & [H|[]] & ->)|[H|[]]]]; inv H. split; [reflexivity|]. apply Ht, Z0.
      * eapply Z2; eassumption.
      * destruct C as [C|C]; discriminate C.
    + intros i I U. apply in_app_or in I. destruct I as [I|I]; [apply Z3; assumption|].
      pose proof (D3 i I) as C. rewrite U in C. eapply Z2; [exact N|]. right. exact C.
  - unfold invZ. rewrite L_step. cbn [c_ths c_sh app] in *. rewrite app_nil_r. split; [lia|]. split; [|split].
    + intros E. exfalso. assert (E0 : nuid (c_sh c) = 0%nat) by lia. rewrite (Z1 E0) in N.
      destruct (only_thread _ _ N) as [_ X]. discriminate X.
    + intros tt x a' due E C. destruct (Nat.eq_dec tt tid) as [->|NE].
      * erewrite nth_upd_same in E by exact N. inv E. rewrite TC in C. destruct C as [C|C]; discriminate C.
      * rewrite nth_upd_other in E by exact NE. eapply Z2; eassumption.
    + intros i I U. apply in_app_or in I. destruct I as [I|I]; [apply Z3; assumption|].
      specialize (CE _ I). discriminate CE.
Qed.

Lemma invZ_run : forall sched, invZ (run (init now2 [[SchedRel d a]]) sched).
Proof.
  intros sched. apply (run_invariant2 eie body invZ (invAll eie)).
  - intros. apply invAll_run. assumption.
  - intros c tid c' (A & _) K S. eapply invZ_step; eassumption.
  - intros c k _ (Z0 & Z). split; [|exact Z]. cbn [tick c_sh clock]. lia.
  - apply invAll_init.
  - apply invZ_init.
Qed.
End OneCall.

Theorem newthread_absolute_one_call : forall eie body t now1 now2 a sched,
  now1 <= now2 ->
  let c := run eie body (init now2 [[SchedRel (t - now1) a]]) sched in
  forall tid ts i, In (tid, ts, EStart i) (c_log c) -> it_uid i = 0%nat ->
    it_lbl i = a /\ t <= ts /\ forall tid' t', In (tid', t', ECancelRet a) (c_log c) -> t <= t'.
Proof.
  intros eie body t now1 now2 a sched Hn c tid ts i IS U.
  pose proof (el_started_was_accepted eie body now2 _ sched i (log_in_L _ _ _ _ IS)) as [IA _].
  assert (Ht : forall clk, now2 <= clk -> t <= clk + Z.max 0 (t - now1)) by (intros; lia).
  destruct (invZ_run eie body (t - now1) a t now2 Ht sched) as (_ & _ & _ & Z3).
  destruct (Z3 i IA U) as [EL D]. split; [exact EL|]. split.
  - pose proof (el_not_early eie body now2 _ sched tid ts i IS). lia.
  - intros tid' t' IC. rewrite <- EL in IC.
    pose proof (el_not_after_cancel_before_due eie body now2 _ sched tid ts i tid' t' IS IC). lia.
Qed.
