(* Periodic scheduling on virtual time: specification-level definitions.

   The executable model of PeriodicScheduler.schedule_periodic
   (reactivex/scheduler/periodicscheduler.py) is part of Core/VTime.v:
     [SPeriodic p f st0]  -- disp = MultipleAssignmentDisposable();
                             disp.disposable = self.schedule_relative(period, periodic, state)
     [invoke _ (PPer pid st)] -- the [periodic] closure: if disp.is_disposed: return;
                             state = action(state)  (on exception: disp.dispose(); raise);
                             disp.disposable = scheduler.schedule_relative(period - elapsed, periodic, state)
                             (elapsed = virtual time the action took, e.g. by scheduler.sleep)
     [SPCancel pid] / [dispose_per] -- disposing the returned disposable.
   This file states what is expected of it. *)
From RxVerif Require Import Base.Prelude Core.VTime.

(* ticks of the pid-th periodic subscription recorded in a log: (state, clock), newest first *)
Fixpoint ticks_of (pid : nat) (l : list event) : list (Z * Z) :=
  match l with
  | [] => []
  | ETick q st k :: t => if Nat.eqb q pid then (st, k) :: ticks_of pid t else ticks_of pid t
  | _ :: t => ticks_of pid t
  end.

(* state handed to the k-th call (k = 0, 1, ...) as long as the calls before it returned a state *)
Fixpoint pstate (f : ptable) (st0 : Z) (k : nat) : option Z :=
  match k with
  | O => Some st0
  | S k' => match pstate f st0 k' with
            | Some st => match plookup f st with PNext _ _ st' => Some st' | _ => None end
            | None => None
            end
  end.

(* virtual time the call on state st takes (the action sleeps) *)
Definition pelapsed (f : ptable) (st : Z) : Z :=
  match plookup f st with PNext _ sl _ => Z.of_N sl | _ => 0 end.

(* distance between the start of the first call and the start of the k-th one:
   each call j < k contributes max(period, time the call took) -- the period when the
   call fits into it (elapsed-time compensation), its own duration when it overruns
   (the next call then starts as soon as it ends, and nothing is caught up) *)
Fixpoint tsum (f : ptable) (p : Z) (st : Z) (k : nat) : Z :=
  match k with
  | O => 0
  | S k' => Z.max p (pelapsed f st) +
            match plookup f st with PNext _ _ st' => tsum f p st' k' | _ => 0 end
  end.

(* no call before the k-th one takes longer than the period *)
Definition ontime (f : ptable) (p : Z) (st : Z) (k : nat) : Prop :=
  forall j x, (j < k)%nat -> pstate f st j = Some x -> pelapsed f x <= p.

(* The calls a periodic subscription makes up to time t when nothing else is
   scheduled: [clk] is the clock, [due] the due time of the pending call, [st] its
   state.  A call starts at max(clk, due); if it returns a state after taking sl
   virtual time, the next call is due one period after the START of this one
   (schedule_relative(period - elapsed) issued at start + elapsed), whatever sl is;
   calls go on while the pending call is due at or before t, until the action
   raises or disposes the subscription ([n] bounds the number of calls considered). *)
Fixpoint solo_spec (f : ptable) (p : Z) (n : nat) (clk due st t : Z) : list (Z * Z) :=
  match n with
  | O => []
  | S n' =>
      if t <? due then []
      else let T := Z.max clk due in
           (st, T) :: match plookup f st with
                      | PNext _ sl st' => solo_spec f p n' (T + Z.of_N sl) (T + p) st' t
                      | _ => []
                      end
  end.

(* no call of a periodic action after its subscription was disposed (log newest first) *)
Fixpoint no_tick_after_dispose (l : list event) : Prop :=
  match l with
  | [] => True
  | e :: older =>
      match e with
      | ETick pid _ _ => ~ In (EPDispose pid) older
      | _ => True
      end /\ no_tick_after_dispose older
  end.

(* interval(p) / timer(p, p) on a periodic scheduler: schedule_periodic(p, action, 0) with
   action(count) = on_next(count); return count + 1.  As a finite table for runs
   of at most n ticks (the default entry is never reached in such runs). *)
Fixpoint count_table_l (n : nat) : list (Z * pres) :=
  match n with
  | O => []
  | S k => count_table_l k ++ [(Z.of_nat k, PNext [] 0%N (Z.of_nat k + 1))]
  end.
Definition count_table (n : nat) : ptable := (count_table_l n, PRaise [] 99).
