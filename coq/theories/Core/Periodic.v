(* Periodic scheduling on virtual time: specification-level definitions.

   The executable model of PeriodicScheduler.schedule_periodic
   (reactivex/scheduler/periodicscheduler.py) is part of Core/VTime.v:
     [SPeriodic p f st0]  -- disp = MultipleAssignmentDisposable();
                             disp.disposable = self.schedule_relative(period, periodic, state)
     [invoke _ (PPer pid st)] -- the [periodic] closure: if disp.is_disposed: return;
                             state = action(state)  (on exception: disp.dispose(); raise);
                             disp.disposable = scheduler.schedule_relative(period - elapsed, periodic, state)
                             (virtual time: elapsed = 0)
     [SPCancel pid] / [dispose_per] -- disposing the returned disposable.
   This file states what is expected of it. *)
From RxVerif Require Import Base.Prelude Core.VTime.

(* ticks of the pid-th periodic subscription recorded in a log: (state, clock), newest first *)
Fixpoint ticks_of (pid : nat) (l : list event) : list (Z * Z) :=
  match l with
  | [] => []
  | ETick q st k :: t => if Nat.eqb q pid then (st, k) :: ticks_of pid t else ticks_of pid t
  | _ :: t => ticks_of pid t
  end.

(* state handed to the k-th call (k = 0, 1, ...) as long as the calls before it returned a state *)
Fixpoint pstate (f : ptable) (st0 : Z) (k : nat) : option Z :=
  match k with
  | O => Some st0
  | S k' => match pstate f st0 k' with
            | Some st => match plookup f st with PNext _ st' => Some st' | _ => None end
            | None => None
            end
  end.

(* The calls a periodic subscription makes up to time t when nothing else is
   scheduled: first call at [due] with state [st], then one per period, each with
   the state returned by the previous one, until the action raises or disposes
   the subscription ([n] bounds the number of calls considered). *)
Fixpoint solo_spec (f : ptable) (p : Z) (n : nat) (due st t : Z) : list (Z * Z) :=
  match n with
  | O => []
  | S n' =>
      if t <? due then []
      else (st, due) :: match plookup f st with
                        | PNext _ st' => solo_spec f p n' (due + p) st' t
                        | _ => []
                        end
  end.

(* no call of a periodic action after its subscription was disposed (log newest first) *)
Fixpoint no_tick_after_dispose (l : list event) : Prop :=
  match l with
  | [] => True
  | e :: older =>
      match e with
      | ETick pid _ _ => ~ In (EPDispose pid) older
      | _ => True
      end /\ no_tick_after_dispose older
  end.

(* interval(p) / timer(p, p) on a periodic scheduler: schedule_periodic(p, action, 0) with
   action(count) = on_next(count); return count + 1.  As a finite table for runs
   of at most n ticks (the default entry is never reached in such runs). *)
Fixpoint count_table_l (n : nat) : list (Z * pres) :=
  match n with
  | O => []
  | S k => count_table_l k ++ [(Z.of_nat k, PNext [] (Z.of_nat k + 1))]
  end.
Definition count_table (n : nat) : ptable := (count_table_l n, PRaise [] 99).
