(* C36 -- facts about Core/TimeConv.v *)
From Coq Require Import ZArith Lia Bool.
From RxVerif Require Import Core.TimeConv.
Open Scope Z_scope.

(* ---- exact conversions between datetimes and timedeltas ------------------------------ *)
Lemma dt_td_dt : forall d, to_datetime_td (to_timedelta_dt d) = d.
Proof. intros d. unfold to_datetime_td, to_timedelta_dt, epoch_plus, dt_minus_epoch, utc_zero. lia. Qed.

Lemma td_dt_td : forall t, to_timedelta_dt (to_datetime_td t) = t.
Proof. intros t. unfold to_datetime_td, to_timedelta_dt, epoch_plus, dt_minus_epoch, utc_zero. lia. Qed.

Lemma to_timedelta_dt_strict : forall d d', d < d' <-> to_timedelta_dt d < to_timedelta_dt d'.
Proof. intros. unfold to_timedelta_dt, dt_minus_epoch, utc_zero. lia. Qed.

Lemma to_datetime_td_strict : forall t t', t < t' <-> to_datetime_td t < to_datetime_td t'.
Proof. intros. unfold to_datetime_td, epoch_plus, utc_zero. lia. Qed.

(* ---- rounding an integer quotient to nearest, ties to even ------------------------------ *)
Lemma rne_div_err : forall a b, 0 < b -> 2 * Z.abs (rne_div a b * b - a) <= b.
Proof.
  intros a b Hb. unfold rne_div.
  pose proof (Z.div_mod a b ltac:(lia)) as Hdm. pose proof (Z.mod_pos_bound a b Hb) as Hr.
  destruct (2 * (a mod b) <? b) eqn:E1; [apply Z.ltb_lt in E1; nia|]. apply Z.ltb_ge in E1.
  destruct (b <? 2 * (a mod b)) eqn:E2; [apply Z.ltb_lt in E2; nia|]. apply Z.ltb_ge in E2.
  destruct (Z.even (a / b)); nia.
Qed.

Lemma rne_div_unique : forall a b r, 0 < b -> 2 * Z.abs (a - r * b) < b -> rne_div a b = r.
Proof.
  intros a b r Hb H. pose proof (rne_div_err a b Hb) as He.
  set (R := rne_div a b) in *. nia.
Qed.

Lemma rne_div_mono : forall a a' b, 0 < b -> a <= a' -> rne_div a b <= rne_div a' b.
Proof.
  intros a a' b Hb Ha. unfold rne_div.
  pose proof (Z.div_mod a b ltac:(lia)) as D. pose proof (Z.mod_pos_bound a b Hb) as R.
  pose proof (Z.div_mod a' b ltac:(lia)) as D'. pose proof (Z.mod_pos_bound a' b Hb) as R'.
  pose proof (Z.div_le_mono a a' b Hb Ha) as Q.
  assert (Hq : a / b = a' / b \/ a / b + 1 <= a' / b) by lia.
  destruct (2 * (a mod b) <? b) eqn:E1; destruct (2 * (a' mod b) <? b) eqn:E1';
  destruct (b <? 2 * (a mod b)) eqn:E2; destruct (b <? 2 * (a' mod b)) eqn:E2';
  repeat match goal with
         | H : (_ <? _) = true |- _ => apply Z.ltb_lt in H
         | H : (_ <? _) = false |- _ => apply Z.ltb_ge in H
         end;
  try lia;
  destruct Hq as [Hq|Hq];
  try (rewrite <- Hq in *); 
  destruct (Z.even (a / b)) eqn:Ev; try destruct (Z.even (a' / b)) eqn:Ev'; try nia; try lia.
Qed.

(* ---- the arithmetic core of the round trip --------------------------------------------- *)
(* P = 2^s is the inverse spacing of the seconds value (s >= 20: spacing below 1 us),
   P' = 2^s' that of frac * 1e6 (s' >= 33) *)
Lemma roundtrip_core : forall P P' mf r m' : Z,
  1048576 <= P -> 8589934592 <= P' ->
  2 * Z.abs (mf * 1000000 - r * P) <= 1000000 ->
  2 * Z.abs (m' * P - mf * 1000000 * P') <= P ->
  2 * Z.abs (m' - r * P') < P'.
Proof.
  intros P P' mf r m' HP HP' H1 H2.
  assert (E : (m' - r * P') * P = (m' * P - mf * 1000000 * P') + P' * (mf * 1000000 - r * P)) by ring.
  set (A := mf * 1000000 - r * P) in *. set (B := m' * P - mf * 1000000 * P') in *.
  set (D := m' - r * P') in *.
  destruct (Z_lt_le_dec (2 * Z.abs D) P') as [Hlt|Hge]; [exact Hlt|exfalso].
  assert (H3 : 2 * Z.abs (D * P) <= P + P' * 1000000).
  { rewrite E. pose proof (Z.abs_triangle B (P' * A)). rewrite Z.abs_mul in H. 
    rewrite (Z.abs_eq P') in H by lia. nia. }
  rewrite Z.abs_mul in H3. rewrite (Z.abs_eq P) in H3 by lia.
  assert (H4 : P' * P <= P + P' * 1000000) by nia.
  nia.
Qed.

(* ---- exponents chosen by rn in the two places the round trip uses it ------------------- *)
Lemma log2_us : Z.log2 us_per_s = 19.
Proof. reflexivity. Qed.

Lemma scaled_neg : forall a b e, e < 0 ->
  scaled_num a e = a * 2 ^ (- e) /\ scaled_den b e = b.
Proof.
  intros a b e He. unfold scaled_num, scaled_den.
  assert (H : (e <? 0) = true) by (apply Z.ltb_lt; exact He). rewrite H. split; reflexivity.
Qed.

Lemma rn_exp_seconds : forall n, n <> 0 -> Z.abs n < 2 ^ 33 * us_per_s ->
  -1074 <= rn_exp n us_per_s <= -20.
Proof.
  intros n Hn Hb. unfold rn_exp. rewrite log2_us.
  assert (Hpos : 0 < Z.abs n) by lia.
  assert (Hl : Z.log2 (Z.abs n) <= 52).
  { assert (Z.log2 (Z.abs n) < 53); [|lia]. apply Z.log2_lt_pow2; [exact Hpos|].
    unfold us_per_s in Hb. change (2 ^ 53) with 9007199254740992. change (2 ^ 33) with 8589934592 in Hb. lia. }
  assert (Hl0 : 0 <= Z.log2 (Z.abs n)) by apply Z.log2_nonneg.
  set (e0 := Z.log2 (Z.abs n) - 19 - 53).
  assert (He0 : e0 <= -20) by (unfold e0; lia).
  destruct (2 ^ 53 <=? scaled_num (Z.abs n) e0 / scaled_den us_per_s e0) eqn:Hq.
  - apply Z.leb_le in Hq.
    destruct (Z.eq_dec e0 (-20)) as [E|E]; [|lia].
    exfalso. destruct (scaled_neg (Z.abs n) us_per_s e0 ltac:(lia)) as [S1 S2].
    rewrite S1, S2, E in Hq. change (- -20) with 20 in Hq.
    assert (Hd : Z.abs n * 2 ^ 20 / us_per_s < 2 ^ 53).
    { apply Z.div_lt_upper_bound; [reflexivity|]. unfold us_per_s in *.
      change (2 ^ 53) with 9007199254740992. change (2 ^ 20) with 1048576.
      change (2 ^ 33) with 8589934592 in Hb. lia. }
    lia.
  - lia.
Qed.

Lemma rn_exp_frac : forall mf s, 0 <= s -> mf <> 0 -> Z.abs mf < 2 ^ s ->
  rn_exp (mf * us_per_s) (2 ^ s) <= -33.
Proof.
  intros mf s Hs Hmf Hb. unfold rn_exp.
  rewrite Z.log2_pow2 by exact Hs.
  assert (Ha : 0 < Z.abs (mf * us_per_s)) by (unfold us_per_s; lia).
  assert (Hl : Z.log2 (Z.abs (mf * us_per_s)) < s + 20).
  { apply Z.log2_lt_pow2; [exact Ha|]. rewrite Z.pow_add_r by lia.
    rewrite Z.abs_mul. unfold us_per_s. change (2 ^ 20) with 1048576.
    assert (0 < 2 ^ s) by (apply Z.pow_pos_nonneg; lia). nia. }
  set (e0 := Z.log2 (Z.abs (mf * us_per_s)) - s - 53).
  assert (e0 <= -34) by (unfold e0; lia).
  destruct (2 ^ 53 <=? scaled_num (Z.abs (mf * us_per_s)) e0 / scaled_den (2 ^ s) e0); lia.
Qed.

(* ---- the round trip ------------------------------------------------------------------------ *)
(* microseconds -> float seconds (total_seconds) -> microseconds (timedelta(seconds=) /
   fromtimestamp): exact below 2^33 s *)
Theorem roundtrip_us : forall n, Z.abs n < 2 ^ 33 * us_per_s ->
  us_of_float (to_seconds_td n) = n.
Proof.
  intros n Hb. unfold to_seconds_td, rn.
  destruct (n =? 0) eqn:Hz; [apply Z.eqb_eq in Hz; subst; reflexivity|].
  apply Z.eqb_neq in Hz.
  pose proof (rn_exp_seconds n Hz Hb) as He. set (e := rn_exp n us_per_s) in *.
  destruct (scaled_neg n us_per_s e ltac:(lia)) as [S1 S2]. rewrite S1, S2.
  set (s := - e) in *. assert (Hs : 20 <= s <= 1074) by (unfold s; lia).
  set (P := 2 ^ s). assert (HP : 1048576 <= P).
  { unfold P. change 1048576 with (2 ^ 20). apply Z.pow_le_mono_r; lia. }
  set (m := rne_div (n * P) us_per_s).
  pose proof (rne_div_err (n * P) us_per_s ltac:(reflexivity)) as Hm. fold m in Hm.
  unfold us_of_float, fl_trunc, fl_frac.
  assert (Hlt : (e <? 0) = true) by (apply Z.ltb_lt; lia). rewrite Hlt. fold s. fold P.
  set (q := Z.quot m P). set (mf := Z.rem m P).
  assert (Hqr : m = P * q + mf) by (apply Z.quot_rem'; lia).
  assert (Hmf : Z.abs mf < P) by (pose proof (Z.rem_bound_abs m P); unfold mf; lia).
  set (r := n - q * us_per_s).
  assert (H1 : 2 * Z.abs (mf * 1000000 - r * P) <= 1000000).
  { unfold r, us_per_s in *. replace (mf * 1000000 - (n - q * 1000000) * P) with (m * 1000000 - n * P) by (rewrite Hqr; ring). exact Hm. }
  unfold fl_mul_us. rewrite Hlt. fold s. fold P. unfold rn.
  destruct (mf * us_per_s =? 0) eqn:Hz2.
  - (* the seconds value is a whole number *)
    apply Z.eqb_eq in Hz2. assert (Hmf0 : mf = 0) by (unfold us_per_s in Hz2; lia).
    replace (fl_rhe (F 0 0)) with 0 by reflexivity.
    assert (Hr0 : r = 0).
    { rewrite Hmf0 in H1. rewrite Z.mul_0_l, Z.sub_0_l, Z.abs_opp, Z.abs_mul in H1.
      rewrite (Z.abs_eq P) in H1 by lia. nia. }
    unfold r in Hr0. lia.
  - apply Z.eqb_neq in Hz2. assert (Hmf0 : mf <> 0) by (intros E; rewrite E in Hz2; apply Hz2; reflexivity).
    pose proof (rn_exp_frac mf s ltac:(lia) Hmf0 Hmf) as He'. fold P in He'.
    set (e' := rn_exp (mf * us_per_s) P) in *.
    destruct (scaled_neg (mf * us_per_s) P e' ltac:(lia)) as [T1 T2]. rewrite T1, T2.
    unfold fl_rhe. assert (Hlt' : (e' <? 0) = true) by (apply Z.ltb_lt; lia). rewrite Hlt'.
    set (s' := - e') in *. set (P' := 2 ^ s').
    assert (HP' : 8589934592 <= P').
    { unfold P'. change 8589934592 with (2 ^ 33). apply Z.pow_le_mono_r; unfold s'; lia. }
    assert (HPpos : 0 < P) by lia.
    set (m' := rne_div (mf * us_per_s * P') P).
    pose proof (rne_div_err (mf * us_per_s * P') P HPpos) as Hm'. fold m' in Hm'.
    assert (Hr : rne_div m' P' = r).
    { apply rne_div_unique; [lia|].
      apply (roundtrip_core P P' mf r m'); assumption. }
    rewrite Hr. unfold r. ring.
Qed.

(* aligned floats: the double nearest to a microsecond count is a fixed point of
   float -> microseconds -> float *)
Corollary roundtrip_float : forall n, Z.abs n < 2 ^ 33 * us_per_s ->
  to_seconds_td (us_of_float (to_seconds_td n)) = to_seconds_td n.
Proof. intros n H. rewrite roundtrip_us by exact H. reflexivity. Qed.

Corollary roundtrip_datetime : forall d, Z.abs d < 2 ^ 33 * us_per_s ->
  to_datetime_float (to_seconds_dt d) = d.
Proof.
  intros d H. unfold to_datetime_float, to_seconds_dt, dt_minus_epoch, epoch_plus, utc_zero.
  rewrite Z.sub_0_r. rewrite roundtrip_us by exact H. lia.
Qed.

Corollary roundtrip_timedelta : forall t, Z.abs t < 2 ^ 33 * us_per_s ->
  to_timedelta_float (to_seconds_td t) = t.
Proof. intros t H. unfold to_timedelta_float. apply roundtrip_us. exact H. Qed.

(* the bound is sharp: just above 2^33 s two neighbouring microsecond counts share one double *)
Lemma roundtrip_fails_beyond :
  us_of_float (to_seconds_td (2 ^ 33 * us_per_s + 1)) <> 2 ^ 33 * us_per_s + 1.
Proof. vm_compute. discriminate. Qed.

(* ---- monotonicity of rounding to binary64 ------------------------------------------------- *)
(* 2^e = up e / dn e *)
Definition up (e : Z) : Z := 2 ^ (Z.max e 0).
Definition dn (e : Z) : Z := 2 ^ (Z.max (- e) 0).

Lemma up_pos : forall e, 0 < up e.
Proof. intros e. unfold up. apply Z.pow_pos_nonneg; lia. Qed.
Lemma dn_pos : forall e, 0 < dn e.
Proof. intros e. unfold dn. apply Z.pow_pos_nonneg; lia. Qed.

Lemma scaled_updn : forall a b e, scaled_num a e = a * dn e /\ scaled_den b e = b * up e.
Proof.
  intros a b e. unfold scaled_num, scaled_den, up, dn.
  destruct (e <? 0) eqn:E.
  - apply Z.ltb_lt in E. rewrite (Z.max_l (- e) 0) by lia. rewrite (Z.max_r e 0) by lia.
    change (2 ^ 0) with 1. split; ring.
  - apply Z.ltb_ge in E. rewrite (Z.max_r (- e) 0) by lia. rewrite (Z.max_l e 0) by lia.
    change (2 ^ 0) with 1. split; ring.
Qed.

Lemma pow_shift : forall e e', e <= e' -> up e' * dn e = 2 ^ (e' - e) * up e * dn e'.
Proof.
  intros e e' H. unfold up, dn.
  destruct (Z_lt_le_dec e 0) as [A|A]; destruct (Z_lt_le_dec e' 0) as [B|B].
  - rewrite (Z.max_r e' 0), (Z.max_r e 0), (Z.max_l (- e) 0), (Z.max_l (- e') 0) by lia.
    change (2 ^ 0) with 1. replace (- e) with ((e' - e) + (- e')) by lia.
    rewrite Z.pow_add_r by lia. ring.
  - rewrite (Z.max_l e' 0), (Z.max_r e 0), (Z.max_l (- e) 0), (Z.max_r (- e') 0) by lia.
    change (2 ^ 0) with 1. replace (e' - e) with (e' + - e) by lia.
    rewrite Z.pow_add_r by lia. ring.
  - lia.
  - rewrite (Z.max_l e' 0), (Z.max_l e 0), (Z.max_r (- e) 0), (Z.max_r (- e') 0) by lia.
    change (2 ^ 0) with 1. replace (2 ^ e') with (2 ^ ((e' - e) + e)) by (f_equal; lia).
    rewrite Z.pow_add_r by lia. ring.
Qed.

(* up e * 2^j = dn e * 2^i  when e = i - j *)
Lemma updn_split : forall i j, 0 <= i -> 0 <= j -> up (i - j) * 2 ^ j = dn (i - j) * 2 ^ i.
Proof.
  intros i j Hi Hj. unfold up, dn. destruct (Z_lt_le_dec (i - j) 0) as [A|A].
  - rewrite (Z.max_r (i - j) 0), (Z.max_l (- (i - j)) 0) by lia. change (2 ^ 0) with 1.
    replace (2 ^ j) with (2 ^ (- (i - j) + i)) by (f_equal; lia).
    rewrite Z.pow_add_r by lia. ring.
  - rewrite (Z.max_l (i - j) 0), (Z.max_r (- (i - j)) 0) by lia. change (2 ^ 0) with 1.
    replace (2 ^ i) with (2 ^ ((i - j) + j)) by (f_equal; lia).
    rewrite Z.pow_add_r by lia. ring.
Qed.

(* what the exponent chosen by rn guarantees (a, b > 0):  a/b < 2^53 * 2^e, and, unless the
   exponent is clamped at -1074 (subnormal), 2^52 * 2^e <= a/b *)
Lemma rn_exp_spec : forall a b, 0 < a -> 0 < b ->
  let e := rn_exp a b in
  -1074 <= e /\ a * dn e < 2 ^ 53 * (b * up e) /\ (-1074 < e -> 2 ^ 52 * (b * up e) <= a * dn e).
Proof.
  intros a b Ha Hb. unfold rn_exp. rewrite (Z.abs_eq a) by lia.
  destruct (Z.log2_spec a Ha) as [La1 La2]. destruct (Z.log2_spec b Hb) as [Lb1 Lb2].
  pose proof (Z.log2_nonneg a) as Hla. pose proof (Z.log2_nonneg b) as Hlb.
  set (la := Z.log2 a) in *. set (lb := Z.log2 b) in *.
  set (e0 := la - lb - 53).
  destruct (scaled_updn a b e0) as [S1 S2]. rewrite S1, S2.
  pose proof (up_pos e0) as U0. pose proof (dn_pos e0) as D0.
  assert (Hsplit : up e0 * 2 ^ (lb + 53) = dn e0 * 2 ^ la).
  { unfold e0. replace (la - lb - 53) with (la - (lb + 53)) by lia. apply updn_split; lia. }
  assert (P53 : 2 ^ (lb + 53) = 2 ^ 53 * 2 ^ lb) by (rewrite Z.pow_add_r by lia; ring).
  assert (Plb : 2 ^ (Z.succ lb) = 2 * 2 ^ lb) by (rewrite Z.pow_succ_r by lia; ring).
  assert (Pla : 2 ^ (Z.succ la) = 2 * 2 ^ la) by (rewrite Z.pow_succ_r by lia; ring).
  assert (Plbpos : 0 < 2 ^ lb) by (apply Z.pow_pos_nonneg; lia).
  assert (Plapos : 0 < 2 ^ la) by (apply Z.pow_pos_nonneg; lia).
  change (2 ^ 53) with 9007199254740992 in *. change (2 ^ 52) with 4503599627370496.
  (* A: 2^52 <= a / (b 2^e0) < 2^54 *)
  assert (A1 : 4503599627370496 * (b * up e0) <= a * dn e0) by nia.
  assert (A2 : a * dn e0 < 2 * 9007199254740992 * (b * up e0)) by nia.
  set (X := a * dn e0) in *. set (Y := b * up e0) in *.
  assert (HY : 0 < Y) by (unfold Y; nia).
  pose proof (Z.div_mod X Y ltac:(lia)) as DM. pose proof (Z.mod_pos_bound X Y HY) as MB.
  set (q0 := X / Y) in *.
  assert (G : forall e1, (e1 = e0 \/ e1 = e0 + 1) ->
              a * dn e1 < 9007199254740992 * (b * up e1) ->
              4503599627370496 * (b * up e1) <= a * dn e1 ->
              -1074 <= Z.max e1 (-1074) /\
              a * dn (Z.max e1 (-1074)) < 9007199254740992 * (b * up (Z.max e1 (-1074))) /\
              (-1074 < Z.max e1 (-1074) -> 4503599627370496 * (b * up (Z.max e1 (-1074))) <= a * dn (Z.max e1 (-1074)))).
  { intros e1 _ N2 N3. destruct (Z_lt_le_dec e1 (-1074)) as [C|C].
    - rewrite Z.max_r by lia. split; [lia|]. split; [|lia].
      pose proof (pow_shift e1 (-1074) ltac:(lia)) as PS.
      pose proof (up_pos e1). pose proof (dn_pos e1). pose proof (up_pos (-1074)). pose proof (dn_pos (-1074)).
      assert (1 <= 2 ^ (-1074 - e1)) by (pose proof (Z.pow_pos_nonneg 2 (-1074 - e1)); lia).
      set (k := 2 ^ (-1074 - e1)) in *.
      (* a dn(e) dn(e1) < 2^53 b up(e1) dn(e) <= 2^53 b up(e1) dn(e) k = 2^53 b up(e) dn(e1) *)
      assert (T1 : a * dn e1 * dn (-1074) < 9007199254740992 * (b * up e1) * dn (-1074))
        by (apply Z.mul_lt_mono_pos_r; assumption).
      assert (T0 : 0 <= 9007199254740992 * (b * up e1) * dn (-1074)) by nia.
      assert (T2 : 9007199254740992 * (b * up e1) * dn (-1074) <= 9007199254740992 * (b * up e1) * dn (-1074) * k) by nia.
      assert (T3 : a * dn (-1074) * dn e1 < 9007199254740992 * (b * up (-1074)) * dn e1).
      { replace (9007199254740992 * (b * up (-1074)) * dn e1) with (9007199254740992 * b * (up (-1074) * dn e1)) by ring.
        rewrite PS. replace (9007199254740992 * b * (k * up e1 * dn (-1074)))
          with (9007199254740992 * (b * up e1) * dn (-1074) * k) by ring.
        replace (a * dn (-1074) * dn e1) with (a * dn e1 * dn (-1074)) by ring. lia. }
      apply Z.mul_lt_mono_pos_r in T3; assumption.
    - rewrite Z.max_l by lia. split; [lia|]. split; [exact N2 | intros _; exact N3]. }
  destruct (9007199254740992 <=? q0) eqn:Q.
  - apply Z.leb_le in Q. apply G; [right; reflexivity| |].
    + pose proof (pow_shift e0 (e0 + 1) ltac:(lia)) as PS. replace (e0 + 1 - e0) with 1 in PS by lia.
      change (2 ^ 1) with 2 in PS.
      pose proof (up_pos (e0 + 1)). pose proof (dn_pos (e0 + 1)).
      assert (a * dn (e0 + 1) * dn e0 < 9007199254740992 * b * (up (e0 + 1) * dn e0)).
      { rewrite PS. unfold X, Y in A2. nia. }
      nia.
    + pose proof (pow_shift e0 (e0 + 1) ltac:(lia)) as PS. replace (e0 + 1 - e0) with 1 in PS by lia.
      change (2 ^ 1) with 2 in PS.
      pose proof (up_pos (e0 + 1)). pose proof (dn_pos (e0 + 1)).
      assert (HX : 9007199254740992 * Y <= X) by nia.
      assert (4503599627370496 * b * (up (e0 + 1) * dn e0) <= a * dn (e0 + 1) * dn e0).
      { rewrite PS. unfold X, Y in HX. nia. }
      nia.
  - apply Z.leb_gt in Q. apply G; [left; reflexivity| |].
    + fold X Y. nia.
    + fold X Y. exact A1.
Qed.

Lemma rne_div_scale : forall a b k, 0 < b -> 0 < k -> rne_div (a * k) (b * k) = rne_div a b.
Proof.
  intros a b k Hb Hk. unfold rne_div.
  rewrite Z.div_mul_cancel_r by lia. rewrite Z.mul_mod_distr_r by lia.
  pose proof (Z.mod_pos_bound a b Hb) as R.
  assert (E1 : (2 * (a mod b * k) <? b * k) = (2 * (a mod b) <? b)).
  { destruct (2 * (a mod b) <? b) eqn:E; [apply Z.ltb_lt in E; apply Z.ltb_lt; nia | apply Z.ltb_ge in E; apply Z.ltb_ge; nia]. }
  assert (E2 : (b * k <? 2 * (a mod b * k)) = (b <? 2 * (a mod b))).
  { destruct (b <? 2 * (a mod b)) eqn:E; [apply Z.ltb_lt in E; apply Z.ltb_lt; nia | apply Z.ltb_ge in E; apply Z.ltb_ge; nia]. }
  rewrite E1, E2. reflexivity.
Qed.

Lemma rne_div_mono_frac : forall a b a' b', 0 < b -> 0 < b' -> a * b' <= a' * b ->
  rne_div a b <= rne_div a' b'.
Proof.
  intros a b a' b' Hb Hb' H.
  rewrite <- (rne_div_scale a b b') by assumption.
  rewrite <- (rne_div_scale a' b' b) by assumption.
  rewrite (Z.mul_comm b' b). apply rne_div_mono; [nia | exact H].
Qed.

Lemma rne_div_exact : forall k b, 0 < b -> rne_div (k * b) b = k.
Proof. intros k b Hb. apply rne_div_unique; [exact Hb|]. replace (k * b - k * b) with 0 by ring. simpl. lia. Qed.

Lemma rne_div_le_bound : forall X Y k, 0 < Y -> X <= k * Y -> rne_div X Y <= k.
Proof. intros X Y k HY H. rewrite <- (rne_div_exact k Y HY). apply rne_div_mono; assumption. Qed.

Lemma rne_div_ge_bound : forall X Y k, 0 < Y -> k * Y <= X -> k <= rne_div X Y.
Proof. intros X Y k HY H. rewrite <- (rne_div_exact k Y HY). apply rne_div_mono; assumption. Qed.

Lemma rn_pos_form : forall a b, 0 < a -> rn a b = F (rne_div (a * dn (rn_exp a b)) (b * up (rn_exp a b))) (rn_exp a b).
Proof.
  intros a b Ha. unfold rn. assert (E : (a =? 0) = false) by (apply Z.eqb_neq; lia). rewrite E.
  destruct (scaled_updn a b (rn_exp a b)) as [S1 S2]. rewrite S1, S2. reflexivity.
Qed.

(* rounding to binary64 is monotone (positive fractions) *)
Lemma rn_mono_pos : forall a b a' b', 0 < a -> 0 < b -> 0 < a' -> 0 < b' -> a * b' <= a' * b ->
  fl_le (rn a b) (rn a' b').
Proof.
  intros a b a' b' Ha Hb Ha' Hb' H.
  rewrite (rn_pos_form a b Ha), (rn_pos_form a' b' Ha').
  destruct (rn_exp_spec a b Ha Hb) as [N1 [N2 N3]]. destruct (rn_exp_spec a' b' Ha' Hb') as [N1' [N2' N3']].
  set (e := rn_exp a b) in *. set (e' := rn_exp a' b') in *.
  pose proof (up_pos e) as U. pose proof (dn_pos e) as D. pose proof (up_pos e') as U'. pose proof (dn_pos e') as D'.
  change (2 ^ 53) with 9007199254740992 in *. change (2 ^ 52) with 4503599627370496 in *.
  unfold fl_le.
  destruct (Z_lt_le_dec e' e) as [C|C].
  - (* impossible: a/b would be at least 2^52 2^e >= 2^53 2^e' > a'/b' *)
    exfalso. specialize (N3 ltac:(lia)).
    pose proof (pow_shift e' e ltac:(lia)) as PS.
    assert (K : 2 <= 2 ^ (e - e')).
    { change 2 with (2 ^ 1) at 1. apply Z.pow_le_mono_r; lia. }
    set (k := 2 ^ (e - e')) in *.
    (* 2^52 b U <= a D ;  a' D' < 2^53 b' U' ;  a b' <= a' b ;  U D' = k U' D *)
    assert (T1 : 4503599627370496 * (b * up e) * (b' * dn e') <= a * dn e * (b' * dn e')) by (apply Z.mul_le_mono_nonneg_r; nia).
    assert (T2 : a * dn e * (b' * dn e') <= a' * b * (dn e * dn e')) by nia.
    assert (T3 : a' * dn e' * (b * dn e) < 9007199254740992 * (b' * up e') * (b * dn e)) by (apply Z.mul_lt_mono_pos_r; nia).
    assert (T4 : 4503599627370496 * (b * b') * (up e * dn e') < 9007199254740992 * (b * b') * (up e' * dn e)) by nia.
    rewrite PS in T4.
    assert (BB : 0 < b * b') by nia. assert (UD : 0 < up e' * dn e) by nia.
    nia.
  - destruct (Z.eq_dec e e') as [E|E].
    + rewrite <- E. rewrite Z.min_id, Z.sub_diag. change (2 ^ 0) with 1. rewrite !Z.mul_1_r.
      apply rne_div_mono_frac; [nia | nia | nia].
    + assert (Hlt : e < e') by lia. rewrite Z.min_l by lia. rewrite Z.sub_diag. change (2 ^ 0) with 1. rewrite Z.mul_1_r.
      specialize (N3' ltac:(lia)).
      assert (M1 : rne_div (a * dn e) (b * up e) <= 9007199254740992) by (apply rne_div_le_bound; nia).
      assert (M2 : 4503599627370496 <= rne_div (a' * dn e') (b' * up e')) by (apply rne_div_ge_bound; nia).
      assert (K : 2 <= 2 ^ (e' - e)).
      { change 2 with (2 ^ 1) at 1. apply Z.pow_le_mono_r; lia. }
      nia.
Qed.

(* ---- signs ---------------------------------------------------------------------------------- *)
Lemma rne_div_tie_even : forall a b, 0 < b -> 2 * Z.abs (rne_div a b * b - a) = b -> Z.even (rne_div a b) = true.
Proof.
  intros a b Hb. unfold rne_div.
  pose proof (Z.div_mod a b ltac:(lia)) as Hdm. pose proof (Z.mod_pos_bound a b Hb) as Hr.
  destruct (2 * (a mod b) <? b) eqn:E1; [apply Z.ltb_lt in E1; nia|]. apply Z.ltb_ge in E1.
  destruct (b <? 2 * (a mod b)) eqn:E2; [apply Z.ltb_lt in E2; nia|]. apply Z.ltb_ge in E2.
  destruct (Z.even (a / b)) eqn:Ev; intros _; [exact Ev|].
  rewrite Z.even_add. rewrite Ev. reflexivity.
Qed.

Lemma rne_div_charact : forall a b R, 0 < b ->
  2 * Z.abs (R * b - a) <= b -> (2 * Z.abs (R * b - a) = b -> Z.even R = true) -> rne_div a b = R.
Proof.
  intros a b R Hb H1 H2.
  pose proof (rne_div_err a b Hb) as E1. pose proof (rne_div_tie_even a b Hb) as E2.
  set (Q := rne_div a b) in *.
  assert (D : Q = R \/ Q = R + 1 \/ R = Q + 1) by nia.
  destruct D as [D|[D|D]]; [exact D| |].
  - exfalso. assert (T1 : 2 * Z.abs (Q * b - a) = b) by nia. assert (T2 : 2 * Z.abs (R * b - a) = b) by nia.
    specialize (E2 T1). specialize (H2 T2). rewrite D in E2. rewrite Z.even_add in E2. rewrite H2 in E2. discriminate.
  - exfalso. assert (T1 : 2 * Z.abs (Q * b - a) = b) by nia. assert (T2 : 2 * Z.abs (R * b - a) = b) by nia.
    specialize (E2 T1). specialize (H2 T2). rewrite D in H2. rewrite Z.even_add in H2. rewrite E2 in H2. discriminate.
Qed.

Lemma rne_div_opp : forall a b, 0 < b -> rne_div (- a) b = - rne_div a b.
Proof.
  intros a b Hb. apply rne_div_charact; [exact Hb| |].
  - replace (- rne_div a b * b - - a) with (- (rne_div a b * b - a)) by ring. rewrite Z.abs_opp.
    apply rne_div_err. exact Hb.
  - replace (- rne_div a b * b - - a) with (- (rne_div a b * b - a)) by ring. rewrite Z.abs_opp.
    intros T. rewrite Z.even_opp. apply rne_div_tie_even; assumption.
Qed.

Definition fl_opp (x : fl) : fl := let 'F m e := x in F (- m) e.

Lemma rn_opp : forall a b, 0 < b -> rn (- a) b = fl_opp (rn a b).
Proof.
  intros a b Hb. unfold rn.
  destruct (a =? 0) eqn:E.
  - apply Z.eqb_eq in E. subst. reflexivity.
  - apply Z.eqb_neq in E. assert (E' : (- a =? 0) = false) by (apply Z.eqb_neq; lia). rewrite E'.
    assert (Hexp : rn_exp (- a) b = rn_exp a b) by (unfold rn_exp; rewrite Z.abs_opp; reflexivity).
    rewrite Hexp. set (e := rn_exp a b).
    destruct (scaled_updn a b e) as [S1 S2]. destruct (scaled_updn (- a) b e) as [S3 _].
    rewrite S1, S2, S3. simpl. f_equal.
    replace (- a * dn e) with (- (a * dn e)) by ring. apply rne_div_opp.
    pose proof (up_pos e). nia.
Qed.

Lemma fl_le_opp : forall x y, fl_le x y -> fl_le (fl_opp y) (fl_opp x).
Proof.
  intros [m e] [m' e'] H. unfold fl_le, fl_opp in *. rewrite (Z.min_comm e' e). lia.
Qed.

Lemma rn_nonneg : forall a b, 0 <= a -> 0 < b -> exists m e, rn a b = F m e /\ 0 <= m.
Proof.
  intros a b Ha Hb. destruct (Z.eq_dec a 0) as [E|E].
  - subst. exists 0, 0. split; [reflexivity | lia].
  - rewrite rn_pos_form by lia. eexists. eexists. split; [reflexivity|].
    apply rne_div_ge_bound; [pose proof (up_pos (rn_exp a b)); nia | pose proof (dn_pos (rn_exp a b)); nia].
Qed.

Lemma fl_le_zero_nonneg : forall m e m' e', m <= 0 -> 0 <= m' -> fl_le (F m e) (F m' e').
Proof.
  intros m e m' e' H H'. unfold fl_le.
  assert (0 < 2 ^ (e - Z.min e e')) by (apply Z.pow_pos_nonneg; lia).
  assert (0 < 2 ^ (e' - Z.min e e')) by (apply Z.pow_pos_nonneg; lia). nia.
Qed.

(* rounding to binary64 is monotone, same positive denominator, any signs *)
Lemma rn_mono : forall a a' b, 0 < b -> a <= a' -> fl_le (rn a b) (rn a' b).
Proof.
  intros a a' b Hb H.
  destruct (Z_lt_le_dec 0 a) as [Pa|Na].
  - apply rn_mono_pos; try lia. nia.
  - destruct (Z_lt_le_dec a' 0) as [Na'|Pa'].
    + (* both negative *)
      replace a with (- - a) by ring. replace a' with (- - a') by ring.
      rewrite (rn_opp (- a) b Hb), (rn_opp (- a') b Hb). apply fl_le_opp.
      apply rn_mono_pos; try lia. nia.
    + (* a <= 0 <= a' *)
      destruct (rn_nonneg a' b Pa' Hb) as [m' [e' [E' M']]]. rewrite E'.
      destruct (rn_nonneg (- a) b ltac:(lia) Hb) as [m [e [E M]]].
      replace a with (- - a) by ring. rewrite (rn_opp (- a) b Hb), E. simpl.
      apply fl_le_zero_nonneg; lia.
Qed.

(* to_seconds preserves the order of timedeltas and of aware datetimes (ALL values) *)
Theorem to_seconds_td_mono : forall n n', n <= n' -> fl_le (to_seconds_td n) (to_seconds_td n').
Proof. intros n n' H. apply rn_mono; [reflexivity | exact H]. Qed.

Theorem to_seconds_dt_mono : forall d d', d <= d' -> fl_le (to_seconds_dt d) (to_seconds_dt d').
Proof. intros d d' H. apply to_seconds_td_mono. unfold dt_minus_epoch, utc_zero. lia. Qed.

(* float -> microseconds preserves the order of the floats that denote microsecond counts
   (the doubles nearest to n / 10^6, |n| < 2^33 * 10^6) *)
Theorem us_of_float_mono_aligned : forall n n',
  Z.abs n < 2 ^ 33 * us_per_s -> Z.abs n' < 2 ^ 33 * us_per_s -> n <= n' ->
  us_of_float (to_seconds_td n) <= us_of_float (to_seconds_td n').
Proof. intros n n' H H' L. rewrite !roundtrip_us by assumption. exact L. Qed.

(* ... and within that range to_seconds is strictly increasing (distinct microsecond counts
   give distinct doubles) *)
Theorem to_seconds_injective_in_range : forall n n',
  Z.abs n < 2 ^ 33 * us_per_s -> Z.abs n' < 2 ^ 33 * us_per_s ->
  to_seconds_td n = to_seconds_td n' -> n = n'.
Proof. intros n n' H H' E. rewrite <- (roundtrip_us n H), <- (roundtrip_us n' H'), E. reflexivity. Qed.

(* ---- float seconds -> microseconds is monotone for ALL floats -------------------------------- *)
(* the same value written with a smaller exponent *)
Lemma rn_exp_scale2 : forall a b k, a <> 0 -> 0 < b -> 0 <= k ->
  rn_exp (a * 2 ^ k) (b * 2 ^ k) = rn_exp a b.
Proof.
  intros a b k Ha Hb Hk. unfold rn_exp.
  assert (Pk : 0 < 2 ^ k) by (apply Z.pow_pos_nonneg; lia).
  rewrite Z.abs_mul. rewrite (Z.abs_eq (2 ^ k)) by lia.
  rewrite Z.log2_mul_pow2 by lia. rewrite Z.log2_mul_pow2 by lia.
  replace (k + Z.log2 (Z.abs a) - (k + Z.log2 b) - 53) with (Z.log2 (Z.abs a) - Z.log2 b - 53) by lia.
  set (e0 := Z.log2 (Z.abs a) - Z.log2 b - 53).
  destruct (scaled_updn (Z.abs a * 2 ^ k) (b * 2 ^ k) e0) as [S1 S2].
  destruct (scaled_updn (Z.abs a) b e0) as [S3 S4]. rewrite S1, S2, S3, S4.
  replace (Z.abs a * 2 ^ k * dn e0) with (Z.abs a * dn e0 * 2 ^ k) by ring.
  replace (b * 2 ^ k * up e0) with (b * up e0 * 2 ^ k) by ring.
  rewrite Z.div_mul_cancel_r; [reflexivity | pose proof (up_pos e0); nia | lia].
Qed.

Lemma rn_scale2 : forall a b k, 0 < b -> 0 <= k -> rn (a * 2 ^ k) (b * 2 ^ k) = rn a b.
Proof.
  intros a b k Hb Hk. assert (Pk : 0 < 2 ^ k) by (apply Z.pow_pos_nonneg; lia).
  unfold rn. destruct (a =? 0) eqn:E.
  - apply Z.eqb_eq in E. subst. reflexivity.
  - apply Z.eqb_neq in E. assert (E' : (a * 2 ^ k =? 0) = false) by (apply Z.eqb_neq; nia). rewrite E'.
    rewrite rn_exp_scale2 by assumption. set (e := rn_exp a b).
    destruct (scaled_updn (a * 2 ^ k) (b * 2 ^ k) e) as [S1 S2].
    destruct (scaled_updn a b e) as [S3 S4]. rewrite S1, S2, S3, S4. f_equal.
    replace (a * 2 ^ k * dn e) with (a * dn e * 2 ^ k) by ring.
    replace (b * 2 ^ k * up e) with (b * up e * 2 ^ k) by ring.
    apply rne_div_scale; [pose proof (up_pos e); nia | lia].
Qed.

Definition shift_invariant (f : fl -> Z) : Prop :=
  forall m e j, 0 <= j -> f (F (m * 2 ^ j) (e - j)) = f (F m e).
Definition mono_same_exp (f : fl -> Z) : Prop :=
  forall k M M', M <= M' -> f (F M k) <= f (F M' k).

Lemma mono_by_common_exponent : forall f, shift_invariant f -> mono_same_exp f ->
  forall x y, fl_le x y -> f x <= f y.
Proof.
  intros f Hs Hm [m e] [m' e'] H. unfold fl_le in H. set (k := Z.min e e') in *.
  rewrite <- (Hs m e (e - k)) by lia. rewrite <- (Hs m' e' (e' - k)) by lia.
  replace (e - (e - k)) with k by lia. replace (e' - (e' - k)) with k by lia.
  apply Hm. exact H.
Qed.

Lemma fl_rhe_shift : shift_invariant fl_rhe.
Proof.
  intros m e j Hj. unfold fl_rhe.
  assert (Pj : 0 < 2 ^ j) by (apply Z.pow_pos_nonneg; lia).
  destruct (e - j <? 0) eqn:A; destruct (e <? 0) eqn:B;
    try apply Z.ltb_lt in A; try apply Z.ltb_ge in A; try apply Z.ltb_lt in B; try apply Z.ltb_ge in B.
  - replace (- (e - j)) with (- e + j) by lia. rewrite Z.pow_add_r by lia.
    apply rne_div_scale; [apply Z.pow_pos_nonneg; lia | lia].
  - replace (m * 2 ^ j) with (m * 2 ^ e * 2 ^ (- (e - j))).
    + apply rne_div_exact. apply Z.pow_pos_nonneg; lia.
    + rewrite <- Z.mul_assoc. rewrite <- Z.pow_add_r by lia. do 2 f_equal. lia.
  - lia.
  - rewrite <- Z.mul_assoc. rewrite <- Z.pow_add_r by lia. do 2 f_equal. lia.
Qed.

Lemma fl_rhe_same_exp : mono_same_exp fl_rhe.
Proof.
  intros k M M' H. unfold fl_rhe. destruct (k <? 0) eqn:A.
  - apply rne_div_mono; [apply Z.pow_pos_nonneg; apply Z.ltb_lt in A; lia | exact H].
  - apply Z.ltb_ge in A. assert (0 < 2 ^ k) by (apply Z.pow_pos_nonneg; lia). nia.
Qed.

Lemma fl_rhe_mono : forall x y, fl_le x y -> fl_rhe x <= fl_rhe y.
Proof. apply mono_by_common_exponent; [exact fl_rhe_shift | exact fl_rhe_same_exp]. Qed.

(* contribution of the fractional part mf / P, P = 2^s *)
Definition contrib (mf P : Z) : Z := fl_rhe (rn (mf * us_per_s) P).

Lemma contrib_mono : forall mf mf' P, 0 < P -> mf <= mf' -> contrib mf P <= contrib mf' P.
Proof.
  intros mf mf' P HP H. unfold contrib. apply fl_rhe_mono. apply rn_mono; [exact HP | unfold us_per_s; lia].
Qed.

Lemma contrib_full : forall s, 0 <= s -> contrib (2 ^ s) (2 ^ s) = us_per_s /\ contrib (- 2 ^ s) (2 ^ s) = - us_per_s.
Proof.
  intros s Hs. unfold contrib. split.
  - replace (2 ^ s * us_per_s) with (us_per_s * 2 ^ s) by ring.
    replace (rn (us_per_s * 2 ^ s) (2 ^ s)) with (rn (us_per_s * 2 ^ s) (1 * 2 ^ s)) by (rewrite Z.mul_1_l; reflexivity).
    rewrite rn_scale2 by lia. vm_compute. reflexivity.
  - replace (- 2 ^ s * us_per_s) with (- us_per_s * 2 ^ s) by ring.
    replace (rn (- us_per_s * 2 ^ s) (2 ^ s)) with (rn (- us_per_s * 2 ^ s) (1 * 2 ^ s)) by (rewrite Z.mul_1_l; reflexivity).
    rewrite rn_scale2 by lia. vm_compute. reflexivity.
Qed.

Lemma contrib_zero : forall P, contrib 0 P = 0.
Proof. intros P. reflexivity. Qed.

Lemma us_of_float_form : forall m e, e < 0 ->
  us_of_float (F m e) = Z.quot m (2 ^ (- e)) * us_per_s + contrib (Z.rem m (2 ^ (- e))) (2 ^ (- e)).
Proof.
  intros m e He. unfold us_of_float, fl_trunc, fl_frac, fl_mul_us, contrib.
  assert (A : (e <? 0) = true) by (apply Z.ltb_lt; exact He). rewrite !A. reflexivity.
Qed.

Lemma us_of_float_form_nonneg : forall m e, 0 <= e -> us_of_float (F m e) = m * 2 ^ e * us_per_s.
Proof.
  intros m e He. unfold us_of_float, fl_trunc, fl_frac.
  assert (A : (e <? 0) = false) by (apply Z.ltb_ge; exact He). rewrite A.
  replace (fl_rhe (fl_mul_us (F 0 0))) with 0 by reflexivity. ring.
Qed.

Lemma us_of_float_shift : shift_invariant us_of_float.
Proof.
  intros m e j Hj. assert (Pj : 0 < 2 ^ j) by (apply Z.pow_pos_nonneg; lia).
  destruct (Z_lt_le_dec e 0) as [B|B].
  - (* both exponents negative *)
    rewrite (us_of_float_form _ (e - j)) by lia. rewrite (us_of_float_form m e) by lia.
    replace (- (e - j)) with (- e + j) by lia. rewrite Z.pow_add_r by lia.
    set (P := 2 ^ (- e)). assert (HP : 0 < P) by (apply Z.pow_pos_nonneg; lia).
    rewrite Z.quot_mul_cancel_r by lia. rewrite Z.mul_rem_distr_r by lia.
    unfold contrib. f_equal. f_equal.
    replace (Z.rem m P * 2 ^ j * us_per_s) with (Z.rem m P * us_per_s * 2 ^ j) by ring.
    apply rn_scale2; lia.
  - rewrite (us_of_float_form_nonneg m e) by lia.
    destruct (Z_lt_le_dec (e - j) 0) as [A|A].
    + rewrite us_of_float_form by lia.
      set (P := 2 ^ (- (e - j))). assert (HP : 0 < P) by (apply Z.pow_pos_nonneg; lia).
      assert (E : m * 2 ^ j = m * 2 ^ e * P).
      { unfold P. rewrite <- Z.mul_assoc. rewrite <- Z.pow_add_r by lia. do 2 f_equal. lia. }
      rewrite E. rewrite Z.quot_mul by lia. rewrite Z.rem_mul by lia. rewrite contrib_zero. ring.
    + rewrite us_of_float_form_nonneg by lia.
      replace (2 ^ e) with (2 ^ j * 2 ^ (e - j)) by (rewrite <- Z.pow_add_r by lia; f_equal; lia). ring.
Qed.

Lemma us_of_float_same_exp : mono_same_exp us_of_float.
Proof.
  intros k M M' H. destruct (Z_lt_le_dec k 0) as [A|A].
  - rewrite !us_of_float_form by lia. set (s := - k). set (P := 2 ^ s).
    assert (Hs : 0 <= s) by (unfold s; lia).
    assert (HP : 0 < P) by (apply Z.pow_pos_nonneg; lia).
    pose proof (Z.quot_rem' M P) as QM. pose proof (Z.quot_rem' M' P) as QM'.
    pose proof (Z.rem_bound_abs M P ltac:(lia)) as BM. pose proof (Z.rem_bound_abs M' P ltac:(lia)) as BM'.
    rewrite (Z.abs_eq P) in BM, BM' by lia.
    set (q := Z.quot M P) in *. set (q' := Z.quot M' P) in *.
    set (r := Z.rem M P) in *. set (r' := Z.rem M' P) in *.
    assert (Hq : q <= q') by (apply Z.quot_le_mono; lia).
    destruct (contrib_full s Hs) as [CF CFn]. fold P in CF, CFn.
    assert (Cup : forall x, x <= P -> contrib x P <= us_per_s) by (intros x Hx; rewrite <- CF; apply contrib_mono; lia).
    assert (Clo : forall x, - P <= x -> - us_per_s <= contrib x P) by (intros x Hx; rewrite <- CFn; apply contrib_mono; lia).
    assert (Cnn : forall x, 0 <= x -> 0 <= contrib x P) by (intros x Hx; rewrite <- (contrib_zero P); apply contrib_mono; lia).
    assert (Cnp : forall x, x <= 0 -> contrib x P <= 0) by (intros x Hx; rewrite <- (contrib_zero P); apply contrib_mono; lia).
    destruct (Z.eq_dec q q') as [E|E].
    + rewrite <- E. assert (r <= r') by nia. pose proof (contrib_mono r r' P HP H0). lia.
    + assert (Hq1 : q + 1 <= q') by lia. unfold us_per_s in *.
      destruct (Z_lt_le_dec M 0) as [N|N].
      * (* M < 0: its fractional part is <= 0 *)
        assert (r <= 0) by (unfold r; apply Z.rem_nonpos; lia).
        pose proof (Cnp r H0). pose proof (Clo r' ltac:(lia)). nia.
      * assert (0 <= r) by (unfold r; apply Z.rem_nonneg; lia).
        assert (0 <= r') by (unfold r'; apply Z.rem_nonneg; lia).
        pose proof (Cup r ltac:(lia)). pose proof (Cnn r' H1). nia.
  - rewrite !us_of_float_form_nonneg by lia. assert (0 < 2 ^ k) by (apply Z.pow_pos_nonneg; lia).
    unfold us_per_s. nia.
Qed.

(* float seconds -> microseconds (fromtimestamp / timedelta(seconds=)) preserves order, ALL floats *)
Theorem us_of_float_mono : forall x y, fl_le x y -> us_of_float x <= us_of_float y.
Proof. apply mono_by_common_exponent; [exact us_of_float_shift | exact us_of_float_same_exp]. Qed.

Theorem float_conversions_mono : forall x y, fl_le x y ->
  to_timedelta_float x <= to_timedelta_float y /\ to_datetime_float x <= to_datetime_float y.
Proof.
  intros x y H. pose proof (us_of_float_mono x y H).
  unfold to_timedelta_float, to_datetime_float, epoch_plus, utc_zero. lia.
Qed.
