(* C30: log-level "one at a time": between two starts of actions of one trampoline the
   first action has returned (audit thm-C28-C30, C30 (b)).  No ghost counter is used in
   the statement; the proof relates the log to the FInvoke frames on the threads' stacks. *)
From RxVerif Require Import Base.Prelude Core.Trampoline Core.TrampolineFacts.

(* the action of trampoline k that is open at the head of a log (newest first): the newest
   EStart k / EEnd k event decides *)
Fixpoint cur (k : key) (lg : list event) : option (nat * Z) :=
  match lg with
  | [] => None
  | EStart k' id l _ _ _ _ _ :: t => if key_eqb k' k then Some (id, l) else cur k t
  | EEnd k' _ _ _ :: t => if key_eqb k' k then None else cur k t
  | _ :: t => cur k t
  end.

(* every EStart k happens when no action of k is open, every EEnd k id l closes the open
   action (id, l) of k *)
Fixpoint brk (k : key) (lg : list event) : Prop :=
  match lg with
  | [] => True
  | e :: t =>
      match e with
      | EStart k' _ _ _ _ _ _ _ => if key_eqb k' k then cur k t = None else True
      | EEnd k' id l _ => if key_eqb k' k then cur k t = Some (id, l) else True
      | _ => True
      end /\ brk k t
  end.

Definition optl {A} (o : option A) : list A := match o with Some x => [x] | None => [] end.

(* the invocations of trampoline k in progress on a stack *)
Fixpoint finv (k : key) (s : list frame) : list (nat * Z) :=
  match s with
  | [] => []
  | FInvoke k' id l :: r => if key_eqb k' k then (id, l) :: finv k r else finv k r
  | _ :: r => finv k r
  end.

Definition frames_k (k : key) (ts : list thread) : list (nat * Z) :=
  flat_map (fun t => finv k (stk t)) ts.

Lemma flat_map_nth {A B} (f : A -> list B) : forall ts n t, nth_error ts n = Some t ->
  flat_map f ts = flat_map f (firstn n ts) ++ f t ++ flat_map f (skipn (S n) ts).
Proof.
  induction ts as [|a ts IH]; intros [|n] t H; cbn in H; try discriminate.
  - inversion H; subst. reflexivity.
  - cbn [flat_map firstn skipn]. rewrite (IH n t H), <- app_assoc. reflexivity.
Qed.

Lemma flat_map_set_nth {A B} (f : A -> list B) : forall ts n t t', nth_error ts n = Some t ->
  flat_map f (set_nth n t' ts) = flat_map f (firstn n ts) ++ f t' ++ flat_map f (skipn (S n) ts).
Proof.
  induction ts as [|a ts IH]; intros [|n] t t' H; cbn in H; try discriminate.
  - reflexivity.
  - cbn [set_nth flat_map firstn skipn]. rewrite (IH n t t' H), <- app_assoc. reflexivity.
Qed.

Lemma length_finv k : forall s, Z.of_nat (length (finv k s)) = sumf (inv_c k) s.
Proof.
  induction s as [|f s IH]; [reflexivity|].
  destruct f as [top cs|k' it|k' id l|l|k' r ph]; cbn [finv sumf inv_c]; try (rewrite IH; lia).
  destruct (key_eqb k' k); cbn [length]; lia.
Qed.

Lemma length_frames_k k : forall ts, Z.of_nat (length (frames_k k ts)) = sumf (invs k) ts.
Proof.
  induction ts as [|t ts IH]; [reflexivity|].
  unfold frames_k in *. cbn [flat_map sumf]. rewrite app_length, Nat2Z.inj_add, IH.
  unfold invs at 1. rewrite length_finv. reflexivity.
Qed.

Lemma app3_optl {A} (X Y Z : list A) o : X ++ Y ++ Z = optl o -> (length (X ++ Y ++ Z) <= 1)%nat.
Proof. intros ->. destruct o; cbn; lia. Qed.

(* one micro-step of thread th, seen from trampoline k0 *)
Lemma brk_local : forall c th w t w' t' k0 (X Y : list (nat * Z)),
  mstep c th w t = Some (w', t') ->
  (forall x r rest, stk t = FRun k0 (x :: r) P2 :: rest -> cur k0 (log w) = None) ->
  X ++ finv k0 (stk t) ++ Y = optl (cur k0 (log w)) ->
  brk k0 (log w) ->
  X ++ finv k0 (stk t') ++ Y = optl (cur k0 (log w')) /\ brk k0 (log w').
Proof.
  intros c th w [s ex] w' t' k0 X Y H St K B. cbn [stk] in *.
  mstep_inv H; wsimpl; cbn [finv cur brk] in *; try (keycase k0 k); cbn [finv cur brk] in *;
    try (split; [exact K | try exact B; repeat split; exact B]).
  - (* an exception leaves the action: EEnd k id l true *)
    pose proof (app3_optl _ _ _ _ K) as L.
    destruct X; [|cbn in L; rewrite app_length in L; cbn in L; lia].
    cbn [app] in *. destruct (finv k rest); [|cbn in L; lia].
    destruct Y; [|cbn in L; lia]. cbn [app] in *.
    destruct (cur k (log w)) as [p|]; [|discriminate]. cbn in K. inversion K; subst.
    split; [reflexivity | split; [reflexivity | exact B]].
  - (* the action returns: EEnd k id l false *)
    pose proof (app3_optl _ _ _ _ K) as L.
    destruct X; [|cbn in L; rewrite app_length in L; cbn in L; lia].
    cbn [app] in *. destruct (finv k rest); [|cbn in L; lia].
    destruct Y; [|cbn in L; lia]. cbn [app] in *.
    destruct (cur k (log w)) as [p|]; [|discriminate]. cbn in K. inversion K; subst.
    split; [reflexivity | split; [reflexivity | exact B]].
  - (* an action of k starts *)
    pose proof (St _ _ _ eq_refl) as N. rewrite N in K. cbn [optl] in K.
    apply app_eq_nil in K. destruct K as [-> K]. apply app_eq_nil in K. destruct K as [K ->].
    rewrite K. split; [reflexivity | split; [exact N | exact B]].
Qed.

Definition BInv (cf : config) : Prop :=
  (forall k, frames_k k (snd cf) = optl (cur k (log (fst cf)))) /\
  (forall k, brk k (log (fst cf))).

Lemma BInv_step c cf s : Inv c cf -> BInv cf -> BInv (cstep c cf s).
Proof.
  destruct cf as [w ts]. intros (W & C & _) [K B]. cbn [fst snd] in *.
  unfold cstep. destruct s as [th|d]; [|split; [exact K | exact B]].
  destruct (nth_error ts th) as [t|] eqn:N; [|split; [exact K | exact B]].
  destruct (mstep c th w t) as [[w' t']|] eqn:M; [|split; [exact K | exact B]].
  assert (L : forall k0, frames_k k0 (set_nth th t' ts) = optl (cur k0 (log w')) /\ brk k0 (log w')).
  { intro k0. unfold frames_k. rewrite (flat_map_set_nth _ ts th t t' N).
    apply (brk_local c th w t w' t' k0 _ _ M).
    - intros x r rest E. destruct t as [s ex]. cbn [stk] in E. subst s.
      pose proof (start_active_zero w ts th k0 x r rest ex W C N) as A0.
      destruct (C k0) as (C1 & _). cbn [fst snd] in C1. rewrite A0 in C1.
      rewrite <- length_frames_k in C1. specialize (K k0).
      destruct (cur k0 (log w)); [|reflexivity]. rewrite K in C1. cbn in C1. lia.
    - pose proof (flat_map_nth (fun t0 => finv k0 (stk t0)) ts th t N) as E. cbv beta in E.
      rewrite <- E. apply K.
    - apply B. }
  split; intro k0; apply (L k0).
Qed.

Lemma BInv_init c0 hs : BInv (start_config c0 hs).
Proof.
  split; intro k; cbn [start_config fst snd init_world log cur brk optl]; [|exact I].
  unfold frames_k. induction hs as [|h hs IH]; [reflexivity|]. cbn. exact IH.
Qed.

Lemma crun_BInv c : forall sch cf, Inv c cf -> BInv cf -> BInv (crun c cf sch).
Proof.
  induction sch as [|s sch IH]; intros cf I B; [exact B|]. cbn [crun fold_left].
  apply IH; [apply Inv_step; exact I | apply BInv_step; assumption].
Qed.

Theorem reachable_brk c c0 hs sch k : brk k (log (fst (crun c (start_config c0 hs) sch))).
Proof. apply (crun_BInv c sch _ (Inv_init c c0 hs) (BInv_init c0 hs)). Qed.

(* ---- pure list reasoning on a bracketed log ------------------------------------- *)

Lemma brk_app k : forall l2 l1, brk k (l2 ++ l1) -> brk k l1.
Proof. induction l2 as [|e l2 IH]; intros l1 H; [exact H|]. apply IH. cbn in H. tauto. Qed.

Lemma brk_between k x lx thx dx cx dkx ddx l1 : forall l2,
  brk k (l2 ++ EStart k x lx thx dx cx dkx ddx :: l1) ->
  (cur k (l2 ++ EStart k x lx thx dx cx dkx ddx :: l1) = None -> exists r, In (EEnd k x lx r) l2) /\
  (forall id l, cur k (l2 ++ EStart k x lx thx dx cx dkx ddx :: l1) = Some (id, l) ->
                (id = x /\ l = lx) \/ exists r, In (EEnd k x lx r) l2).
Proof.
  induction l2 as [|e l2 IH]; intro B.
  - cbn [app cur]. rewrite key_eqb_refl. split; [discriminate|].
    intros id l E. inversion E; subst. left. split; reflexivity.
  - cbn [app] in *. cbn [brk] in B. destruct B as [Be B]. destruct (IH B) as [IH1 IH2].
    assert (Lift : forall P : Prop, (exists r, In (EEnd k x lx r) l2) -> P \/ exists r, In (EEnd k x lx r) (e :: l2)).
    { intros P [r Hr]. right. exists r. right. exact Hr. }
    destruct e; cbn [cur]; try (split; [intro E; destruct (IH1 E) as [r Hr]; exists r; right; exact Hr
                                       | intros id0 l0 E; destruct (IH2 _ _ E) as [?|[r Hr]]; [left; assumption | right; exists r; right; exact Hr]]).
    + (* EStart *)
      destruct (key_eqb k0 k) eqn:Ek.
      * split; [discriminate|]. intros id0 l0 _. destruct (IH1 Be) as [r Hr]. right. exists r. right. exact Hr.
      * split; [intro E; destruct (IH1 E) as [r Hr]; exists r; right; exact Hr
               | intros id0 l0 E; destruct (IH2 _ _ E) as [?|[r Hr]]; [left; assumption | right; exists r; right; exact Hr]].
    + (* EEnd *)
      destruct (key_eqb k0 k) eqn:Ek.
      * apply key_eqb_eq in Ek. subst k0. split; [|discriminate]. intros _.
        destruct (IH2 _ _ Be) as [[-> ->]|[r Hr]]; [exists raised; left; reflexivity | exists r; right; exact Hr].
      * split; [intro E; destruct (IH1 E) as [r Hr]; exists r; right; exact Hr
               | intros id0 l0 E; destruct (IH2 _ _ E) as [?|[r Hr]]; [left; assumption | right; exists r; right; exact Hr]].
Qed.

(* START/END BRACKET.  In every run (any threads, schedules, both code versions): if two
   actions of one trampoline start, the earlier one (x) has ended -- returned or raised --
   before the later one (y) starts. *)
Theorem start_end_bracket : forall c c0 hs sch k l3 y ly thy dy cy dky ddy l2 x lx thx dx cx dkx ddx l1,
  log (fst (crun c (start_config c0 hs) sch))
    = l3 ++ EStart k y ly thy dy cy dky ddy :: l2 ++ EStart k x lx thx dx cx dkx ddx :: l1 ->
  exists r, In (EEnd k x lx r) l2.
Proof.
  intros c c0 hs sch k l3 y ly thy dy cy dky ddy l2 x lx thx dx cx dkx ddx l1 E.
  pose proof (reachable_brk c c0 hs sch k) as B. rewrite E in B. apply brk_app in B.
  cbn [brk] in B. rewrite key_eqb_refl in B. destruct B as [N B].
  exact (proj1 (brk_between k x lx thx dx cx dkx ddx l1 l2 B) N).
Qed.

(* and an action ends only while it is the open one: every EEnd k id l is preceded by its
   EStart k id l with no other start or end of k in between *)
Lemma cur_some_start k : forall lg id l, cur k lg = Some (id, l) ->
  exists l2 th due clk dk d l1, lg = l2 ++ EStart k id l th due clk dk d :: l1 /\
    forall e, In e l2 -> match e with EStart k' _ _ _ _ _ _ _ | EEnd k' _ _ _ => k' <> k | _ => True end.
Proof.
  induction lg as [|e lg IH]; intros id l E; [discriminate|].
  assert (Skip : cur k lg = Some (id, l) ->
                 match e with EStart k' _ _ _ _ _ _ _ | EEnd k' _ _ _ => k' <> k | _ => True end ->
                 exists l2 th due clk dk d l1, e :: lg = l2 ++ EStart k id l th due clk dk d :: l1 /\
                   forall e0, In e0 l2 -> match e0 with EStart k' _ _ _ _ _ _ _ | EEnd k' _ _ _ => k' <> k | _ => True end).
  { intros E' He. destruct (IH _ _ E') as (l2 & th & due & clk & dk & d & l1 & -> & F).
    exists (e :: l2), th, due, clk, dk, d, l1. split; [reflexivity|].
    intros e0 [<-|H0]; [exact He | apply F; exact H0]. }
  destruct e; cbn [cur] in E; try (apply Skip; [exact E | exact I]).
  - destruct (key_eqb k0 k) eqn:Ek.
    + apply key_eqb_eq in Ek. subst k0. inversion E; subst.
      exists [], th, due, clk, depth_k, depth, lg. split; [reflexivity | intros e0 []].
    + apply Skip; [exact E|]. intro; subst. rewrite key_eqb_refl in Ek. discriminate.
  - destruct (key_eqb k0 k) eqn:Ek; [discriminate|].
    apply Skip; [exact E|]. intro; subst. rewrite key_eqb_refl in Ek. discriminate.
Qed.

Theorem end_closes_its_start : forall c c0 hs sch k l3 id l r l0,
  log (fst (crun c (start_config c0 hs) sch)) = l3 ++ EEnd k id l r :: l0 ->
  exists l2 th due clk dk d l1, l0 = l2 ++ EStart k id l th due clk dk d :: l1 /\
    forall e, In e l2 -> match e with EStart k' _ _ _ _ _ _ _ | EEnd k' _ _ _ => k' <> k | _ => True end.
Proof.
  intros c c0 hs sch k l3 id l r l0 E.
  pose proof (reachable_brk c c0 hs sch k) as B. rewrite E in B. apply brk_app in B.
  cbn [brk] in B. rewrite key_eqb_refl in B. destruct B as [N _].
  exact (cur_some_start k l0 id l N).
Qed.
