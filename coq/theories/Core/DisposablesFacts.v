(* Facts about the sequential disposable models (Core/Disposables.v): every
   statement quantifies over ALL call histories (induction over the list). *)
From RxVerif Require Import Base.Prelude Core.Disposables.
Local Open Scope nat_scope.

(* ---- generic ------------------------------------------------------------ *)
Section RunFacts.
Context {S O : Type} (step : S -> O -> S * list obs).

Lemma run_cons : forall s o t,
  run step s (o :: t) =
  (fst (run step (fst (step s o)) t), snd (step s o) :: snd (run step (fst (step s o)) t)).
Proof.
  intros s o t. cbn [run]. destruct (step s o) as [s1 out]. cbn [fst snd].
  destruct (run step s1 t) as [s2 os]. reflexivity.
Qed.

Lemma final_nil : forall s, final step s [] = s.
Proof. reflexivity. Qed.
Lemma log_nil : forall s, log step s [] = [].
Proof. reflexivity. Qed.

Lemma final_cons : forall s o t, final step s (o :: t) = final step (fst (step s o)) t.
Proof. intros. unfold final. rewrite run_cons. reflexivity. Qed.

Lemma outs_cons : forall s o t,
  outs step s (o :: t) = snd (step s o) :: outs step (fst (step s o)) t.
Proof. intros. unfold outs. rewrite run_cons. reflexivity. Qed.

Lemma log_cons : forall s o t,
  log step s (o :: t) = snd (step s o) ++ log step (fst (step s o)) t.
Proof. intros. unfold log. rewrite outs_cons. reflexivity. Qed.

Lemma final_app : forall h1 h2 s, final step s (h1 ++ h2) = final step (final step s h1) h2.
Proof.
  induction h1 as [|o t IH]; intros h2 s; [reflexivity|].
  cbn [app]. rewrite !final_cons. apply IH.
Qed.

Lemma outs_app : forall h1 h2 s,
  outs step s (h1 ++ h2) = outs step s h1 ++ outs step (final step s h1) h2.
Proof.
  induction h1 as [|o t IH]; intros h2 s; [reflexivity|].
  cbn [app]. rewrite !outs_cons, final_cons, IH. reflexivity.
Qed.

Lemma log_app : forall h1 h2 s,
  log step s (h1 ++ h2) = log step s h1 ++ log step (final step s h1) h2.
Proof. intros. unfold log. rewrite outs_app, concat_app. reflexivity. Qed.

Lemma outs_single : forall s o, outs step s [o] = [snd (step s o)].
Proof. intros. rewrite outs_cons. reflexivity. Qed.

Lemma outs_snoc_last : forall h o s,
  last (outs step s (h ++ [o])) [] = snd (step (final step s h) o).
Proof. intros. rewrite outs_app, outs_single, last_last. reflexivity. Qed.

Lemma outs_length : forall h s, length (outs step s h) = length h.
Proof.
  induction h as [|o t IH]; intros s; [reflexivity|].
  rewrite outs_cons. cbn [length]. rewrite IH. reflexivity.
Qed.
End RunFacts.

Lemma disposes_app : forall i a b, disposes i (a ++ b) = disposes i a + disposes i b.
Proof. intros. unfold disposes. rewrite filter_app, app_length. reflexivity. Qed.
Lemma raises_app : forall a b, raises (a ++ b) = raises a + raises b.
Proof. intros. unfold raises. rewrite filter_app, app_length. reflexivity. Qed.
Lemma runs_app : forall a b, runs (a ++ b) = runs a + runs b.
Proof. intros. unfold runs. rewrite filter_app, app_length. reflexivity. Qed.

Lemma disposes_map_ODisp : forall i l, disposes i (map ODisp l) = cnt i l.
Proof.
  intros i l. unfold disposes, cnt. induction l as [|x t IH]; [reflexivity|].
  cbn [map filter is_disp]. destruct (Nat.eqb i x); cbn [length]; rewrite IH; reflexivity.
Qed.

Lemma disposes_opt_disp : forall i o, disposes i (opt_disp o) = ocnt i o.
Proof.
  intros i [j|]; [|reflexivity]. unfold disposes, ocnt. cbn. destruct (Nat.eqb i j); reflexivity.
Qed.

Lemma cnt_app : forall i a b, cnt i (a ++ b) = cnt i a + cnt i b.
Proof. intros. unfold cnt. rewrite filter_app, app_length. reflexivity. Qed.

Lemma cnt_cons : forall i x t, cnt i (x :: t) = (if Nat.eqb i x then 1 else 0) + cnt i t.
Proof. intros. unfold cnt. cbn [filter]. destruct (Nat.eqb i x); reflexivity. Qed.

Lemma cnt_remove_first_same : forall i l, mem i l = true -> S (cnt i (remove_first i l)) = cnt i l.
Proof.
  intros i l. induction l as [|x t IH]; intros Hm; [discriminate|].
  cbn [remove_first]. rewrite cnt_cons. cbn [mem existsb] in Hm.
  destruct (Nat.eqb i x) eqn:E; [reflexivity|].
  cbn [orb] in Hm. rewrite cnt_cons, E. cbn [Nat.add]. apply IH. exact Hm.
Qed.

Lemma cnt_remove_first_other : forall i j l, i <> j -> cnt i (remove_first j l) = cnt i l.
Proof.
  intros i j l Hij. induction l as [|x t IH]; [reflexivity|].
  cbn [remove_first]. destruct (Nat.eqb j x) eqn:E.
  - apply Nat.eqb_eq in E. subst x. rewrite cnt_cons.
    destruct (Nat.eqb i j) eqn:E2; [apply Nat.eqb_eq in E2; contradiction|reflexivity].
  - rewrite !cnt_cons, IH. reflexivity.
Qed.

Lemma cnt_mem : forall i l, mem i l = true <-> 0 < cnt i l.
Proof.
  intros i l. induction l as [|x t IH]; cbn [mem existsb].
  - split; [discriminate|]. unfold cnt. cbn. lia.
  - rewrite cnt_cons. destruct (Nat.eqb i x); cbn [orb].
    + split; [lia|reflexivity].
    + exact IH.
Qed.

Lemma cnt_zero_not_mem : forall i l, cnt i l = 0 <-> mem i l = false.
Proof.
  intros i l. destruct (mem i l) eqn:E.
  - apply cnt_mem in E. split; [lia|discriminate].
  - split; [reflexivity|]. intros _. destruct (cnt i l) eqn:C; [reflexivity|].
    assert (H : mem i l = true) by (apply cnt_mem; lia). congruence.
Qed.

(* ======================================================================= *)
(* Disposable / BooleanDisposable                                           *)
Definition is_ddispose (o : dop) : bool := match o with DDispose => true | _ => false end.

Lemma d_run_gen : forall h s,
  final d_step s h = (s || existsb is_ddispose h)%bool /\
  runs (log d_step s h) = (if s then 0 else if existsb is_ddispose h then 1 else 0).
Proof.
  induction h as [|o t IH]; intros s.
  - rewrite final_nil, log_nil. cbn. rewrite orb_false_r. destruct s; auto.
  - rewrite final_cons, log_cons, runs_app. destruct (IH (fst (d_step s o))) as [IH1 IH2].
    rewrite IH1, IH2. destruct o, s; cbn; auto; destruct (existsb is_ddispose t); auto.
Qed.

(* the action runs exactly once iff dispose() was called at all, whatever the history *)
Lemma disposable_action_once : forall h,
  runs (log d_step d_init h) = (if existsb is_ddispose h then 1 else 0) /\
  final d_step d_init h = existsb is_ddispose h.
Proof. intros h. destruct (d_run_gen h d_init) as [A B]. split; [exact B|exact A]. Qed.

Lemma disposable_action_at_most_once : forall h, runs (log d_step d_init h) <= 1.
Proof. intros h. destruct (disposable_action_once h) as [A _]. rewrite A. destruct (existsb _ _); lia. Qed.

(* is_disposed is reported by every query that follows a dispose() *)
Lemma disposable_reports : forall h1 h2,
  last (outs d_step d_init (h1 ++ DDispose :: h2 ++ [DIsDisposed])) [] = [OBool true].
Proof.
  intros h1 h2.
  replace (h1 ++ DDispose :: h2 ++ [DIsDisposed]) with ((h1 ++ DDispose :: h2) ++ [DIsDisposed])
    by (rewrite <- app_assoc; reflexivity).
  rewrite outs_snoc_last.
  destruct (d_run_gen (h1 ++ DDispose :: h2) d_init) as [A _]. rewrite A.
  rewrite existsb_app. cbn. rewrite orb_true_r. reflexivity.
Qed.

Lemma b_run_gen : forall h s,
  final b_step s h = (s || existsb is_ddispose h)%bool /\
  runs (log b_step s h) = 0 /\ (forall i, disposes i (log b_step s h) = 0).
Proof.
  induction h as [|o t IH]; intros s.
  - rewrite final_nil, log_nil. cbn. rewrite orb_false_r. auto.
  - rewrite final_cons, log_cons, runs_app. destruct (IH (fst (b_step s o))) as [IH1 [IH2 IH3]].
    rewrite IH1, IH2. split; [|split].
    + destruct o, s; cbn; auto.
    + destruct o; reflexivity.
    + intros i. rewrite disposes_app, IH3. destruct o; reflexivity.
Qed.

(* BooleanDisposable only flips its flag *)
Lemma boolean_flag_only : forall h,
  final b_step d_init h = existsb is_ddispose h /\
  runs (log b_step d_init h) = 0 /\ (forall i, disposes i (log b_step d_init h) = 0).
Proof. intros h. exact (b_run_gen h d_init). Qed.

(* ======================================================================= *)
(* CompositeDisposable                                                      *)
Definition c_hadds (i : item) (h : list cop) : nat := list_sum (map (c_adds i) h).
Definition is_cdispose (o : cop) : bool := match o with CDispose => true | _ => false end.
(* invariant of reachable states: a disposed composite holds nothing *)
Definition c_ok (s : cstate) : Prop := c_disposed s = true -> c_items s = [].

Lemma c_step_ok : forall s o, c_ok s -> c_ok (fst (c_step s o)).
Proof.
  unfold c_ok. intros s o H. destruct o as [j|j| | |j| | |]; cbn [c_step]; try exact H.
  - destruct (c_disposed s) eqn:D; cbn [fst c_items c_disposed]; [rewrite D; exact H|discriminate].
  - destruct (c_disposed s) eqn:D; cbn [fst]; [rewrite D; exact H|].
    destruct (mem j (c_items s)); cbn [fst c_items c_disposed]; [discriminate|rewrite D; discriminate].
  - destruct (c_disposed s) eqn:D; cbn [fst c_items c_disposed]; [rewrite D; exact H|reflexivity].
  - cbn [fst c_items c_disposed]. reflexivity.
Qed.

Lemma c_final_ok : forall h s, c_ok s -> c_ok (final c_step s h).
Proof.
  induction h as [|o t IH]; intros s H; [exact H|].
  rewrite final_cons. apply IH, c_step_ok, H.
Qed.

Lemma c_init_ok : forall l, c_ok (c_init l).
Proof. intros l H. discriminate. Qed.

(* one call: what is disposed plus what is held afterwards = what was held plus what was handed over *)
Lemma c_step_conservation : forall s o i,
  disposes i (snd (c_step s o)) + cnt i (c_items (fst (c_step s o))) = cnt i (c_items s) + c_adds i o.
Proof.
  intros s o i. destruct o as [j|j| | |j| | |]; cbn [c_step c_adds].
  - destruct (c_disposed s); cbn [fst snd c_items].
    + unfold disposes. cbn. destruct (Nat.eqb i j); cbn; lia.
    + rewrite cnt_app, cnt_cons. unfold disposes, cnt at 3. cbn. destruct (Nat.eqb i j); lia.
  - destruct (c_disposed s); cbn [fst snd c_items]; [unfold disposes; cbn; lia|].
    destruct (mem j (c_items s)) eqn:M; cbn [fst snd c_items]; [|unfold disposes; cbn; lia].
    unfold disposes. cbn [filter is_disp]. destruct (Nat.eqb i j) eqn:E.
    + apply Nat.eqb_eq in E. subst j. pose proof (cnt_remove_first_same i _ M). cbn [length]. lia.
    + apply Nat.eqb_neq in E. rewrite (cnt_remove_first_other i j _ E). cbn [length]. lia.
  - destruct (c_disposed s) eqn:D; cbn [fst snd c_items]; [unfold disposes; cbn; lia|].
    rewrite disposes_map_ODisp. unfold cnt at 2. cbn. lia.
  - cbn [fst snd c_items]. rewrite disposes_map_ODisp. unfold cnt at 2. cbn. lia.
  - cbn [fst snd]. unfold disposes. cbn. lia.
  - cbn [fst snd]. unfold disposes. cbn. lia.
  - cbn [fst snd]. unfold disposes. cbn. lia.
  - cbn [fst snd]. unfold disposes. cbn. lia.
Qed.

Lemma composite_conservation_gen : forall h s i,
  disposes i (log c_step s h) + cnt i (c_items (final c_step s h)) = cnt i (c_items s) + c_hadds i h.
Proof.
  induction h as [|o t IH]; intros s i.
  - rewrite log_nil, final_nil. unfold c_hadds, disposes. cbn. lia.
  - rewrite log_cons, final_cons, disposes_app.
    pose proof (IH (fst (c_step s o)) i) as H1. pose proof (c_step_conservation s o i) as H2.
    unfold c_hadds in *. cbn [map list_sum]. lia.
Qed.

(* CONSERVATION, all histories: for every item, (#dispose() calls it received)
   + (#occurrences still held) = (#times it was handed to the container). *)
Lemma composite_conservation : forall l h i,
  disposes i (log c_step (c_init l) h) + cnt i (c_items (final c_step (c_init l) h))
  = cnt i l + c_hadds i h.
Proof. intros. apply composite_conservation_gen. Qed.

Lemma c_disposed_sticky : forall h s, c_disposed s = true -> c_disposed (final c_step s h) = true.
Proof.
  induction h as [|o t IH]; intros s H; [exact H|].
  rewrite final_cons. apply IH. destruct o; cbn [c_step]; rewrite ?H; cbn [fst c_disposed]; auto.
Qed.

Lemma c_disposed_after_dispose : forall h1 h2 s, c_disposed (final c_step s (h1 ++ CDispose :: h2)) = true.
Proof.
  intros. rewrite final_app, final_cons. apply c_disposed_sticky.
  cbn [c_step]. destruct (c_disposed (final c_step s h1)) eqn:D; cbn [fst c_disposed]; auto.
Qed.

(* once the container is disposed, EVERY item handed over (before or after) got exactly as many
   dispose() calls as it was handed over: exactly one for an item added once *)
Lemma composite_disposed_all_once : forall l h i,
  c_disposed (final c_step (c_init l) h) = true ->
  disposes i (log c_step (c_init l) h) = cnt i l + c_hadds i h.
Proof.
  intros l h i D. pose proof (composite_conservation l h i) as C.
  pose proof (c_final_ok h (c_init l) (c_init_ok l) D) as E. rewrite E in C. unfold cnt at 1 in C. cbn in C. lia.
Qed.

(* an item handed over exactly once: no dispose() while held, exactly one once it is not held any more
   (removed, cleared, or the container was disposed) *)
Lemma composite_item_once : forall l h i,
  cnt i l + c_hadds i h = 1 ->
  (mem i (c_items (final c_step (c_init l) h)) = true -> disposes i (log c_step (c_init l) h) = 0) /\
  (mem i (c_items (final c_step (c_init l) h)) = false -> disposes i (log c_step (c_init l) h) = 1).
Proof.
  intros l h i U. pose proof (composite_conservation l h i) as C. split; intros M.
  - apply cnt_mem in M. lia.
  - apply cnt_zero_not_mem in M. lia.
Qed.

(* an item added to a disposed container is disposed at once, by that very call *)
Lemma composite_add_after_dispose : forall l h1 h2 i,
  let s := final c_step (c_init l) (h1 ++ CDispose :: h2) in
  c_step s (CAdd i) = (s, [ODisp i]).
Proof.
  intros l h1 h2 i s. cbn [c_step]. unfold s. rewrite c_disposed_after_dispose. reflexivity.
Qed.

(* remove of a held item disposes it (once) and returns True; remove of anything else is silent *)
Lemma composite_remove_held : forall l h i,
  let s := final c_step (c_init l) h in
  snd (c_step s (CRemove i)) = if mem i (c_items s) then [ODisp i; OBool true] else [OBool false].
Proof.
  intros l h i s. cbn [c_step]. destruct (c_disposed s) eqn:D.
  - pose proof (c_final_ok h (c_init l) (c_init_ok l) D) as E. fold s in E. rewrite E. reflexivity.
  - destruct (mem i (c_items s)); reflexivity.
Qed.

(* ======================================================================= *)
(* one-slot containers                                                      *)
Definition s_hsets (i : item) (h : list sop) : nat := list_sum (map (s_sets i) h).
Definition s_ok (s : sstate) : Prop := s_disposed s = true -> s_cur s = None.

Lemma ocnt_none : forall i, ocnt i None = 0.
Proof. reflexivity. Qed.

Lemma slot_dispose_conservation : forall s i,
  disposes i (snd (slot_dispose s)) + ocnt i (s_cur (fst (slot_dispose s))) = ocnt i (s_cur s).
Proof.
  intros s i. unfold slot_dispose. destruct (s_disposed s); cbn [fst snd s_cur].
  - unfold disposes. cbn. lia.
  - rewrite disposes_opt_disp, ocnt_none. lia.
Qed.

Lemma slot_query_id : forall s o, fst (slot_query s o) = s.
Proof. intros s o. destruct o; reflexivity. Qed.
Lemma slot_query_silent : forall s o i, disposes i (snd (slot_query s o)) = 0.
Proof. intros s o i. destruct o; reflexivity. Qed.
Lemma slot_query_noraise : forall s o, raises (snd (slot_query s o)) = 0.
Proof. intros s o. destruct o; reflexivity. Qed.

(* ---- SerialDisposable --------------------------------------------------- *)
Lemma ser_step_conservation : forall s o i,
  disposes i (snd (ser_step s o)) + ocnt i (s_cur (fst (ser_step s o))) = ocnt i (s_cur s) + s_sets i o.
Proof.
  intros s o i. destruct o as [j| | |]; cbn [ser_step s_sets].
  - destruct (s_disposed s); cbn [fst snd s_cur].
    + unfold disposes. cbn. destruct (Nat.eqb i j); cbn; lia.
    + rewrite disposes_opt_disp. cbn [ocnt]. destruct (Nat.eqb i j); lia.
  - pose proof (slot_dispose_conservation s i). lia.
  - rewrite slot_query_id, slot_query_silent. lia.
  - rewrite slot_query_id, slot_query_silent. lia.
Qed.

Lemma serial_conservation_gen : forall h s i,
  disposes i (log ser_step s h) + ocnt i (s_cur (final ser_step s h)) = ocnt i (s_cur s) + s_hsets i h.
Proof.
  induction h as [|o t IH]; intros s i.
  - rewrite log_nil, final_nil. unfold s_hsets, disposes. cbn. lia.
  - rewrite log_cons, final_cons, disposes_app.
    pose proof (IH (fst (ser_step s o)) i) as H1. pose proof (ser_step_conservation s o i) as H2.
    unfold s_hsets in *. cbn [map list_sum]. lia.
Qed.

Lemma serial_conservation : forall h i,
  disposes i (log ser_step s_init h) + ocnt i (s_cur (final ser_step s_init h)) = s_hsets i h.
Proof. intros. rewrite serial_conservation_gen. reflexivity. Qed.

Lemma slot_dispose_ok : forall s, s_ok (fst (slot_dispose s)).
Proof. intros s. unfold slot_dispose, s_ok. destruct (s_disposed s) eqn:D; cbn [fst s_cur s_disposed]; auto.
  intros _. Abort.
