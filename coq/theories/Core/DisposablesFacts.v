(* Facts about the sequential disposable models (Core/Disposables.v): every
   statement quantifies over ALL call histories (induction over the list). *)
From RxVerif Require Import Base.Prelude Core.Disposables.
Local Open Scope nat_scope.

(* ---- generic ------------------------------------------------------------ *)
Section RunFacts.
Context {S O : Type} (step : S -> O -> S * list obs).

Lemma run_cons : forall s o t,
  run step s (o :: t) =
  (fst (run step (fst (step s o)) t), snd (step s o) :: snd (run step (fst (step s o)) t)).
Proof.
  intros s o t. cbn [run]. destruct (step s o) as [s1 out]. cbn [fst snd].
  destruct (run step s1 t) as [s2 os]. reflexivity.
Qed.

Lemma final_nil : forall s, final step s [] = s.
Proof. reflexivity. Qed.
Lemma log_nil : forall s, log step s [] = [].
Proof. reflexivity. Qed.

Lemma final_cons : forall s o t, final step s (o :: t) = final step (fst (step s o)) t.
Proof. intros. unfold final. rewrite run_cons. reflexivity. Qed.

Lemma outs_cons : forall s o t,
  outs step s (o :: t) = snd (step s o) :: outs step (fst (step s o)) t.
Proof. intros. unfold outs. rewrite run_cons. reflexivity. Qed.

Lemma log_cons : forall s o t,
  log step s (o :: t) = snd (step s o) ++ log step (fst (step s o)) t.
Proof. intros. unfold log. rewrite outs_cons. reflexivity. Qed.

Lemma final_app : forall h1 h2 s, final step s (h1 ++ h2) = final step (final step s h1) h2.
Proof.
  induction h1 as [|o t IH]; intros h2 s; [reflexivity|].
  cbn [app]. rewrite !final_cons. apply IH.
Qed.

Lemma outs_app : forall h1 h2 s,
  outs step s (h1 ++ h2) = outs step s h1 ++ outs step (final step s h1) h2.
Proof.
  induction h1 as [|o t IH]; intros h2 s; [reflexivity|].
  cbn [app]. rewrite !outs_cons, final_cons, IH. reflexivity.
Qed.

Lemma log_app : forall h1 h2 s,
  log step s (h1 ++ h2) = log step s h1 ++ log step (final step s h1) h2.
Proof. intros. unfold log. rewrite outs_app, concat_app. reflexivity. Qed.

Lemma outs_single : forall s o, outs step s [o] = [snd (step s o)].
Proof. intros. rewrite outs_cons. reflexivity. Qed.

Lemma outs_snoc_last : forall h o s,
  last (outs step s (h ++ [o])) [] = snd (step (final step s h) o).
Proof. intros. rewrite outs_app, outs_single, last_last. reflexivity. Qed.

Lemma outs_length : forall h s, length (outs step s h) = length h.
Proof.
  induction h as [|o t IH]; intros s; [reflexivity|].
  rewrite outs_cons. cbn [length]. rewrite IH. reflexivity.
Qed.
End RunFacts.

Lemma disposes_app : forall i a b, disposes i (a ++ b) = disposes i a + disposes i b.
Proof. intros. unfold disposes. rewrite filter_app, app_length. reflexivity. Qed.
Lemma raises_app : forall a b, raises (a ++ b) = raises a + raises b.
Proof. intros. unfold raises. rewrite filter_app, app_length. reflexivity. Qed.
Lemma runs_app : forall a b, runs (a ++ b) = runs a + runs b.
Proof. intros. unfold runs. rewrite filter_app, app_length. reflexivity. Qed.

Lemma list_sum_cons : forall x l, list_sum (x :: l) = x + list_sum l.
Proof. reflexivity. Qed.
Lemma disposes_cons : forall i o l, disposes i (o :: l) = (if is_disp i o then 1 else 0) + disposes i l.
Proof. intros. unfold disposes. cbn [filter]. destruct (is_disp i o); reflexivity. Qed.
Lemma disposes_nil : forall i, disposes i [] = 0.
Proof. reflexivity. Qed.
Lemma cnt_nil : forall i, cnt i [] = 0.
Proof. reflexivity. Qed.

Lemma disposes_map_ODisp : forall i l, disposes i (map ODisp l) = cnt i l.
Proof.
  intros i l. unfold disposes, cnt. induction l as [|x t IH]; [reflexivity|].
  cbn [map filter is_disp]. destruct (Nat.eqb i x); cbn [length]; rewrite IH; reflexivity.
Qed.

Lemma disposes_opt_disp : forall i o, disposes i (opt_disp o) = ocnt i o.
Proof.
  intros i [j|]; [|reflexivity]. unfold disposes, ocnt. cbn. destruct (Nat.eqb i j); reflexivity.
Qed.

Lemma cnt_app : forall i a b, cnt i (a ++ b) = cnt i a + cnt i b.
Proof. intros. unfold cnt. rewrite filter_app, app_length. reflexivity. Qed.

Lemma cnt_cons : forall i x t, cnt i (x :: t) = (if Nat.eqb i x then 1 else 0) + cnt i t.
Proof. intros. unfold cnt. cbn [filter]. destruct (Nat.eqb i x); reflexivity. Qed.

Lemma cnt_remove_first_same : forall i l, mem i l = true -> S (cnt i (remove_first i l)) = cnt i l.
Proof.
  intros i l. induction l as [|x t IH]; intros Hm; [discriminate|].
  cbn [remove_first]. rewrite cnt_cons. cbn [mem existsb] in Hm.
  destruct (Nat.eqb i x) eqn:E; [reflexivity|].
  cbn [orb] in Hm. rewrite cnt_cons, E. cbn [Nat.add]. apply IH. exact Hm.
Qed.

Lemma cnt_remove_first_other : forall i j l, i <> j -> cnt i (remove_first j l) = cnt i l.
Proof.
  intros i j l Hij. induction l as [|x t IH]; [reflexivity|].
  cbn [remove_first]. destruct (Nat.eqb j x) eqn:E.
  - apply Nat.eqb_eq in E. subst x. rewrite cnt_cons.
    destruct (Nat.eqb i j) eqn:E2; [apply Nat.eqb_eq in E2; contradiction|reflexivity].
  - rewrite !cnt_cons, IH. reflexivity.
Qed.

Lemma cnt_mem : forall i l, mem i l = true <-> 0 < cnt i l.
Proof.
  intros i l. induction l as [|x t IH]; cbn [mem existsb].
  - split; [discriminate|]. unfold cnt. cbn. lia.
  - rewrite cnt_cons. destruct (Nat.eqb i x); cbn [orb].
    + split; [lia|reflexivity].
    + exact IH.
Qed.

Lemma cnt_zero_not_mem : forall i l, cnt i l = 0 <-> mem i l = false.
Proof.
  intros i l. destruct (mem i l) eqn:E.
  - apply cnt_mem in E. split; [lia|discriminate].
  - split; [reflexivity|]. intros _. destruct (cnt i l) eqn:C; [reflexivity|].
    assert (H : mem i l = true) by (apply cnt_mem; lia). congruence.
Qed.

(* ======================================================================= *)
(* Disposable / BooleanDisposable                                           *)
Definition is_ddispose (o : dop) : bool := match o with DDispose => true | _ => false end.

Lemma d_run_gen : forall h s,
  final d_step s h = (s || existsb is_ddispose h)%bool /\
  runs (log d_step s h) = (if s then 0 else if existsb is_ddispose h then 1 else 0).
Proof.
  induction h as [|o t IH]; intros s.
  - rewrite final_nil, log_nil. cbn. rewrite orb_false_r. destruct s; auto.
  - rewrite final_cons, log_cons, runs_app. destruct (IH (fst (d_step s o))) as [IH1 IH2].
    rewrite IH1, IH2. destruct o, s; cbn; auto; destruct (existsb is_ddispose t); auto.
Qed.

(* the action runs exactly once iff dispose() was called at all, whatever the history *)
Lemma disposable_action_once : forall h,
  runs (log d_step d_init h) = (if existsb is_ddispose h then 1 else 0) /\
  final d_step d_init h = existsb is_ddispose h.
Proof. intros h. destruct (d_run_gen h d_init) as [A B]. split; [exact B|exact A]. Qed.

Lemma disposable_action_at_most_once : forall h, runs (log d_step d_init h) <= 1.
Proof. intros h. destruct (disposable_action_once h) as [A _]. rewrite A. destruct (existsb _ _); lia. Qed.

(* is_disposed is reported by every query that follows a dispose() *)
Lemma disposable_reports : forall h1 h2,
  last (outs d_step d_init (h1 ++ DDispose :: h2 ++ [DIsDisposed])) [] = [OBool true].
Proof.
  intros h1 h2.
  replace (h1 ++ DDispose :: h2 ++ [DIsDisposed]) with ((h1 ++ DDispose :: h2) ++ [DIsDisposed])
    by (rewrite <- app_assoc; reflexivity).
  rewrite outs_snoc_last.
  destruct (d_run_gen (h1 ++ DDispose :: h2) d_init) as [A _]. rewrite A.
  rewrite existsb_app. cbn. rewrite orb_true_r. reflexivity.
Qed.

Lemma b_run_gen : forall h s,
  final b_step s h = (s || existsb is_ddispose h)%bool /\
  runs (log b_step s h) = 0 /\ (forall i, disposes i (log b_step s h) = 0).
Proof.
  induction h as [|o t IH]; intros s.
  - rewrite final_nil, log_nil. cbn. rewrite orb_false_r. auto.
  - rewrite final_cons, log_cons, runs_app. destruct (IH (fst (b_step s o))) as [IH1 [IH2 IH3]].
    rewrite IH1, IH2. split; [|split].
    + destruct o, s; cbn; auto.
    + destruct o; reflexivity.
    + intros i. rewrite disposes_app, IH3. destruct o; reflexivity.
Qed.

(* BooleanDisposable only flips its flag *)
Lemma boolean_flag_only : forall h,
  final b_step d_init h = existsb is_ddispose h /\
  runs (log b_step d_init h) = 0 /\ (forall i, disposes i (log b_step d_init h) = 0).
Proof. intros h. exact (b_run_gen h d_init). Qed.

(* ======================================================================= *)
(* CompositeDisposable                                                      *)
Definition c_hadds (i : item) (h : list cop) : nat := list_sum (map (c_adds i) h).
Definition is_cdispose (o : cop) : bool := match o with CDispose => true | _ => false end.
(* invariant of reachable states: a disposed composite holds nothing *)
Definition c_ok (s : cstate) : Prop := c_disposed s = true -> c_items s = [].

Lemma c_step_ok : forall s o, c_ok s -> c_ok (fst (c_step s o)).
Proof.
  unfold c_ok. intros s o H. destruct o as [j|j| | |j| | |]; cbn [c_step]; try exact H.
  - destruct (c_disposed s) eqn:D; cbn [fst c_items c_disposed]; [rewrite D; exact H|discriminate].
  - destruct (c_disposed s) eqn:D; cbn [fst]; [rewrite D; exact H|].
    destruct (mem j (c_items s)); cbn [fst c_items c_disposed]; [discriminate|rewrite D; discriminate].
  - destruct (c_disposed s) eqn:D; cbn [fst c_items c_disposed]; [rewrite D; exact H|reflexivity].
  - cbn [fst c_items c_disposed]. reflexivity.
Qed.

Lemma c_final_ok : forall h s, c_ok s -> c_ok (final c_step s h).
Proof.
  induction h as [|o t IH]; intros s H; [exact H|].
  rewrite final_cons. apply IH, c_step_ok, H.
Qed.

Lemma c_init_ok : forall l, c_ok (c_init l).
Proof. intros l H. discriminate. Qed.

(* one call: what is disposed plus what is held afterwards = what was held plus what was handed over *)
Lemma c_step_conservation : forall s o i,
  disposes i (snd (c_step s o)) + cnt i (c_items (fst (c_step s o))) = cnt i (c_items s) + c_adds i o.
Proof.
  intros s o i. destruct o as [j|j| | |j| | |]; cbn [c_step c_adds].
  - destruct (c_disposed s); cbn [fst snd c_items].
    + rewrite disposes_cons, disposes_nil. cbn [is_disp]. destruct (Nat.eqb i j); lia.
    + rewrite cnt_app, cnt_cons, cnt_nil, disposes_nil. destruct (Nat.eqb i j); lia.
  - destruct (c_disposed s); cbn [fst snd c_items].
    { rewrite disposes_cons, disposes_nil. cbn [is_disp]. lia. }
    destruct (mem j (c_items s)) eqn:M; cbn [fst snd c_items].
    2:{ rewrite disposes_cons, disposes_nil. cbn [is_disp]. lia. }
    rewrite !disposes_cons, disposes_nil. cbn [is_disp]. destruct (Nat.eqb i j) eqn:E.
    + apply Nat.eqb_eq in E. subst j. pose proof (cnt_remove_first_same i _ M). lia.
    + apply Nat.eqb_neq in E. rewrite (cnt_remove_first_other i j _ E). lia.
  - destruct (c_disposed s) eqn:D; cbn [fst snd c_items]; [rewrite disposes_nil; lia|].
    rewrite disposes_map_ODisp, cnt_nil. lia.
  - cbn [fst snd c_items]. rewrite disposes_map_ODisp, cnt_nil. lia.
  - cbn [fst snd]. rewrite disposes_cons, disposes_nil. cbn [is_disp]. lia.
  - cbn [fst snd]. rewrite disposes_cons, disposes_nil. cbn [is_disp]. lia.
  - cbn [fst snd]. rewrite disposes_cons, disposes_nil. cbn [is_disp]. lia.
  - cbn [fst snd]. rewrite disposes_cons, disposes_nil. cbn [is_disp]. lia.
Qed.

Lemma composite_conservation_gen : forall h s i,
  disposes i (log c_step s h) + cnt i (c_items (final c_step s h)) = cnt i (c_items s) + c_hadds i h.
Proof.
  induction h as [|o t IH]; intros s i.
  - rewrite log_nil, final_nil. unfold c_hadds, disposes. cbn. lia.
  - rewrite log_cons, final_cons, disposes_app.
    pose proof (IH (fst (c_step s o)) i) as H1. pose proof (c_step_conservation s o i) as H2.
    unfold c_hadds in *. cbn [map]. rewrite list_sum_cons. lia.
Qed.

(* CONSERVATION, all histories: for every item, (#dispose() calls it received)
   + (#occurrences still held) = (#times it was handed to the container). *)
Lemma composite_conservation : forall l h i,
  disposes i (log c_step (c_init l) h) + cnt i (c_items (final c_step (c_init l) h))
  = cnt i l + c_hadds i h.
Proof. intros. apply composite_conservation_gen. Qed.

Lemma c_disposed_sticky : forall h s, c_disposed s = true -> c_disposed (final c_step s h) = true.
Proof.
  induction h as [|o t IH]; intros s H; [exact H|].
  rewrite final_cons. apply IH. destruct o; cbn [c_step]; rewrite ?H; cbn [fst c_disposed]; auto.
Qed.

Lemma c_disposed_after_dispose : forall h1 h2 s, c_disposed (final c_step s (h1 ++ CDispose :: h2)) = true.
Proof.
  intros. rewrite final_app, final_cons. apply c_disposed_sticky.
  cbn [c_step]. destruct (c_disposed (final c_step s h1)) eqn:D; cbn [fst c_disposed]; auto.
Qed.

(* once the container is disposed, EVERY item handed over (before or after) got exactly as many
   dispose() calls as it was handed over: exactly one for an item added once *)
Lemma composite_disposed_all_once : forall l h i,
  c_disposed (final c_step (c_init l) h) = true ->
  disposes i (log c_step (c_init l) h) = cnt i l + c_hadds i h.
Proof.
  intros l h i D. pose proof (composite_conservation l h i) as C.
  pose proof (c_final_ok h (c_init l) (c_init_ok l) D) as E. rewrite E in C. unfold cnt at 1 in C. cbn in C. lia.
Qed.

(* an item handed over exactly once: no dispose() while held, exactly one once it is not held any more
   (removed, cleared, or the container was disposed) *)
Lemma composite_item_once : forall l h i,
  cnt i l + c_hadds i h = 1 ->
  (mem i (c_items (final c_step (c_init l) h)) = true -> disposes i (log c_step (c_init l) h) = 0) /\
  (mem i (c_items (final c_step (c_init l) h)) = false -> disposes i (log c_step (c_init l) h) = 1).
Proof.
  intros l h i U. pose proof (composite_conservation l h i) as C. split; intros M.
  - apply cnt_mem in M. lia.
  - apply cnt_zero_not_mem in M. lia.
Qed.

(* an item added to a disposed container is disposed at once, by that very call *)
Lemma composite_add_after_dispose : forall l h1 h2 i,
  let s := final c_step (c_init l) (h1 ++ CDispose :: h2) in
  c_step s (CAdd i) = (s, [ODisp i]).
Proof.
  intros l h1 h2 i s. cbn [c_step]. unfold s. rewrite c_disposed_after_dispose. reflexivity.
Qed.

(* remove of a held item disposes it (once) and returns True; remove of anything else is silent *)
Lemma composite_remove_held : forall l h i,
  let s := final c_step (c_init l) h in
  snd (c_step s (CRemove i)) = if mem i (c_items s) then [ODisp i; OBool true] else [OBool false].
Proof.
  intros l h i s. cbn [c_step]. destruct (c_disposed s) eqn:D.
  - pose proof (c_final_ok h (c_init l) (c_init_ok l) D) as E. fold s in E. rewrite E. reflexivity.
  - destruct (mem i (c_items s)); reflexivity.
Qed.

(* ======================================================================= *)
(* one-slot containers                                                      *)
Definition s_hsets (i : item) (h : list sop) : nat := list_sum (map (s_sets i) h).
Definition s_ok (s : sstate) : Prop := s_disposed s = true -> s_cur s = None.

Lemma ocnt_none : forall i, ocnt i None = 0.
Proof. reflexivity. Qed.

Lemma slot_dispose_conservation : forall s i,
  disposes i (snd (slot_dispose s)) + ocnt i (s_cur (fst (slot_dispose s))) = ocnt i (s_cur s).
Proof.
  intros s i. unfold slot_dispose. destruct (s_disposed s); cbn [fst snd s_cur].
  - unfold disposes. cbn. lia.
  - rewrite disposes_opt_disp, ocnt_none. lia.
Qed.

Lemma slot_query_id : forall s o, fst (slot_query s o) = s.
Proof. intros s o. destruct o; reflexivity. Qed.
Lemma slot_query_silent : forall s o i, disposes i (snd (slot_query s o)) = 0.
Proof. intros s o i. destruct o; reflexivity. Qed.
Lemma slot_query_noraise : forall s o, raises (snd (slot_query s o)) = 0.
Proof. intros s o. destruct o; reflexivity. Qed.

(* ---- SerialDisposable --------------------------------------------------- *)
Lemma ser_step_conservation : forall s o i,
  disposes i (snd (ser_step s o)) + ocnt i (s_cur (fst (ser_step s o))) = ocnt i (s_cur s) + s_sets i o.
Proof.
  intros s o i. destruct o as [j| | |]; cbn [ser_step s_sets].
  - destruct (s_disposed s); cbn [fst snd s_cur].
    + unfold disposes. cbn. destruct (Nat.eqb i j); cbn; lia.
    + rewrite disposes_opt_disp. cbn [ocnt]. destruct (Nat.eqb i j); lia.
  - pose proof (slot_dispose_conservation s i). lia.
  - rewrite slot_query_id, slot_query_silent. lia.
  - rewrite slot_query_id, slot_query_silent. lia.
Qed.

Lemma serial_conservation_gen : forall h s i,
  disposes i (log ser_step s h) + ocnt i (s_cur (final ser_step s h)) = ocnt i (s_cur s) + s_hsets i h.
Proof.
  induction h as [|o t IH]; intros s i.
  - rewrite log_nil, final_nil. unfold s_hsets, disposes. cbn. lia.
  - rewrite log_cons, final_cons, disposes_app.
    pose proof (IH (fst (ser_step s o)) i) as H1. pose proof (ser_step_conservation s o i) as H2.
    unfold s_hsets in *. cbn [map]. rewrite list_sum_cons. lia.
Qed.

Lemma serial_conservation : forall h i,
  disposes i (log ser_step s_init h) + ocnt i (s_cur (final ser_step s_init h)) = s_hsets i h.
Proof. intros. rewrite serial_conservation_gen. reflexivity. Qed.

Lemma slot_dispose_ok : forall s, s_ok s -> s_ok (fst (slot_dispose s)).
Proof.
  intros s H. unfold slot_dispose. destruct (s_disposed s) eqn:D; cbn [fst]; [exact H|].
  intros _. reflexivity.
Qed.

Lemma slot_dispose_disposed : forall s, s_disposed (fst (slot_dispose s)) = true.
Proof. intros s. unfold slot_dispose. destruct (s_disposed s) eqn:D; cbn [fst s_disposed]; auto. Qed.

Lemma ser_step_ok : forall s o, s_ok s -> s_ok (fst (ser_step s o)).
Proof.
  intros s o H. destruct o as [j| | |]; cbn [ser_step].
  - destruct (s_disposed s) eqn:D; cbn [fst]; [exact H|]. intros X. discriminate X.
  - apply slot_dispose_ok, H.
  - rewrite slot_query_id. exact H.
  - rewrite slot_query_id. exact H.
Qed.

Lemma ser_final_ok : forall h s, s_ok s -> s_ok (final ser_step s h).
Proof.
  induction h as [|o t IH]; intros s H; [exact H|]. rewrite final_cons. apply IH, ser_step_ok, H.
Qed.

Lemma s_init_ok : s_ok s_init.
Proof. intros H. discriminate H. Qed.

(* once disposed, every item ever assigned received exactly as many dispose() calls as assignments *)
Lemma serial_disposed_all_once : forall h i,
  s_disposed (final ser_step s_init h) = true ->
  disposes i (log ser_step s_init h) = s_hsets i h.
Proof.
  intros h i D. pose proof (serial_conservation h i) as C.
  rewrite (ser_final_ok h s_init s_init_ok D) in C. rewrite ocnt_none in C. lia.
Qed.

(* an item assigned exactly once: not disposed while it is the current one, disposed exactly once
   as soon as it is not (replaced, or the container was disposed) *)
Lemma serial_item_once : forall h i,
  s_hsets i h = 1 ->
  (s_cur (final ser_step s_init h) = Some i -> disposes i (log ser_step s_init h) = 0) /\
  (s_cur (final ser_step s_init h) <> Some i -> disposes i (log ser_step s_init h) = 1).
Proof.
  intros h i U. pose proof (serial_conservation h i) as C. split; intros M.
  - rewrite M in C. cbn [ocnt] in C. rewrite Nat.eqb_refl in C. lia.
  - destruct (s_cur (final ser_step s_init h)) as [j|]; cbn [ocnt] in C.
    + destruct (Nat.eqb i j) eqn:E; [apply Nat.eqb_eq in E; subst j; contradiction|lia].
    + lia.
Qed.

Lemma slot_disposed_sticky : forall (step : sstate -> sop -> sstate * list obs),
  (forall s o, s_disposed s = true -> s_disposed (fst (step s o)) = true) ->
  forall h s, s_disposed s = true -> s_disposed (final step s h) = true.
Proof.
  intros step Hs. induction h as [|o t IH]; intros s H; [exact H|].
  rewrite final_cons. apply IH, Hs, H.
Qed.

Lemma ser_sticky1 : forall s o, s_disposed s = true -> s_disposed (fst (ser_step s o)) = true.
Proof.
  intros s o H. destruct o; cbn [ser_step]; rewrite ?slot_query_id; auto.
  - rewrite H. exact H.
  - apply slot_dispose_disposed.
Qed.

Lemma serial_disposed_after_dispose : forall h1 h2,
  s_disposed (final ser_step s_init (h1 ++ SDispose :: h2)) = true.
Proof.
  intros. rewrite final_app, final_cons. apply (slot_disposed_sticky ser_step ser_sticky1).
  cbn [ser_step]. apply slot_dispose_disposed.
Qed.

Lemma serial_set_after_dispose : forall h1 h2 i,
  let s := final ser_step s_init (h1 ++ SDispose :: h2) in ser_step s (SSet i) = (s, [ODisp i]).
Proof. intros h1 h2 i s. cbn [ser_step]. unfold s. rewrite serial_disposed_after_dispose. reflexivity. Qed.

(* replacing disposes the previous item, by that very call *)
Lemma serial_replace_disposes_old : forall s i j,
  s_disposed s = false -> s_cur s = Some j -> snd (ser_step s (SSet i)) = [ODisp j].
Proof. intros s i j D C. cbn [ser_step]. rewrite D, C. reflexivity. Qed.

(* ---- SingleAssignmentDisposable (current tree) ---------------------------- *)
(* assignments of item i that were rejected (the call raised) *)
Fixpoint s_rejected (i : item) (h : list sop) (os : list (list obs)) : nat :=
  match h, os with
  | o :: h', out :: os' => (if 0 <? raises out then s_sets i o else 0) + s_rejected i h' os'
  | _, _ => 0
  end.

Lemma sad_step_conservation : forall s o i,
  disposes i (snd (sad_step s o)) + ocnt i (s_cur (fst (sad_step s o)))
  + (if 0 <? raises (snd (sad_step s o)) then s_sets i o else 0) = ocnt i (s_cur s) + s_sets i o.
Proof.
  intros s o i. destruct o as [j| | |]; cbn [sad_step s_sets].
  - destruct (s_cur s) as [c|] eqn:C; cbn [fst snd].
    + rewrite C. cbn. lia.
    + destruct (s_disposed s); cbn [fst snd s_cur].
      * rewrite disposes_cons, disposes_nil. cbn [is_disp]. rewrite C. cbn. destruct (Nat.eqb i j); lia.
      * rewrite disposes_nil. cbn. destruct (Nat.eqb i j); lia.
  - pose proof (slot_dispose_conservation s i). unfold slot_dispose in *.
    destruct (s_disposed s); cbn [fst snd] in *.
    + cbn. lia.
    + replace (raises (opt_disp (s_cur s))) with 0 by (destruct (s_cur s); reflexivity).
      cbn [s_cur ocnt] in *. cbn. lia.
  - rewrite slot_query_id, slot_query_silent, slot_query_noraise. cbn. lia.
  - rewrite slot_query_id, slot_query_silent, slot_query_noraise. cbn. lia.
Qed.

Lemma sad_conservation_gen : forall h s i,
  disposes i (log sad_step s h) + ocnt i (s_cur (final sad_step s h)) + s_rejected i h (outs sad_step s h)
  = ocnt i (s_cur s) + s_hsets i h.
Proof.
  induction h as [|o t IH]; intros s i.
  - rewrite log_nil, final_nil. unfold s_hsets. cbn. lia.
  - rewrite log_cons, final_cons, outs_cons, disposes_app. cbn [s_rejected].
    pose proof (IH (fst (sad_step s o)) i) as H1. pose proof (sad_step_conservation s o i) as H2.
    unfold s_hsets in *. cbn [map]. rewrite list_sum_cons. lia.
Qed.

(* conservation: every assignment is either rejected (raised), or its item is the current one, or the
   item received exactly one dispose() *)
Lemma sad_conservation : forall h i,
  disposes i (log sad_step s_init h) + ocnt i (s_cur (final sad_step s_init h))
  + s_rejected i h (outs sad_step s_init h) = s_hsets i h.
Proof. intros. rewrite sad_conservation_gen. reflexivity. Qed.

Lemma sad_step_ok : forall s o, s_ok s -> s_ok (fst (sad_step s o)).
Proof.
  intros s o H. destruct o as [j| | |]; cbn [sad_step].
  - destruct (s_cur s) eqn:C; cbn [fst]; [exact H|].
    destruct (s_disposed s) eqn:D; cbn [fst]; [exact H|]. intros X. discriminate X.
  - apply slot_dispose_ok, H.
  - rewrite slot_query_id. exact H.
  - rewrite slot_query_id. exact H.
Qed.

Lemma sad_final_ok : forall h s, s_ok s -> s_ok (final sad_step s h).
Proof.
  induction h as [|o t IH]; intros s H; [exact H|]. rewrite final_cons. apply IH, sad_step_ok, H.
Qed.

Lemma sad_disposed_all_once : forall h i,
  s_disposed (final sad_step s_init h) = true ->
  disposes i (log sad_step s_init h) + s_rejected i h (outs sad_step s_init h) = s_hsets i h.
Proof.
  intros h i D. pose proof (sad_conservation h i) as C.
  rewrite (sad_final_ok h s_init s_init_ok D) in C. rewrite ocnt_none in C. lia.
Qed.

Lemma sad_sticky1 : forall s o, s_disposed s = true -> s_disposed (fst (sad_step s o)) = true.
Proof.
  intros s o H. destruct o; cbn [sad_step]; rewrite ?slot_query_id; auto.
  - destruct (s_cur s); cbn [fst]; [exact H|]. rewrite H. exact H.
  - apply slot_dispose_disposed.
Qed.

(* while no dispose() happens, the container stays live and an assigned item stays assigned *)
Lemma sad_live_keeps : forall h s,
  existsb is_sdispose h = false -> s_disposed s = false ->
  s_disposed (final sad_step s h) = false /\
  (forall c, s_cur s = Some c -> s_cur (final sad_step s h) = Some c) /\
  (forall i, disposes i (log sad_step s h) = 0).
Proof.
  induction h as [|o t IH]; intros s N D.
  - rewrite final_nil, log_nil. auto.
  - cbn [existsb] in N. apply orb_false_iff in N. destruct N as [N1 N2].
    rewrite final_cons, log_cons. destruct o as [j| | |]; try discriminate N1.
    + cbn [sad_step]. destruct (s_cur s) as [c|] eqn:C; cbn [fst snd].
      * destruct (IH s N2 D) as [A [B E]]. split; [exact A|]. split.
        -- intros c' Hc. apply B. congruence.
        -- intros i. rewrite disposes_app, E. reflexivity.
      * rewrite D. cbn [fst snd].
        destruct (IH (SState (Some j) false) N2 eq_refl) as [A [B E]]. split; [exact A|]. split.
        -- intros c' Hc. discriminate Hc.
        -- intros i. rewrite disposes_app, E. reflexivity.
    + cbn [sad_step]. rewrite slot_query_id. destruct (IH s N2 D) as [A [B E]].
      split; [exact A|]. split; [exact B|]. intros i. rewrite disposes_app, E. reflexivity.
    + cbn [sad_step]. rewrite slot_query_id. destruct (IH s N2 D) as [A [B E]].
      split; [exact A|]. split; [exact B|]. intros i. rewrite disposes_app, E. reflexivity.
Qed.

(* A second assignment to a SingleAssignmentDisposable that is not disposed is rejected, whatever
   else (other than dispose) happened in between; it changes nothing. *)
Lemma sad_second_assignment_rejected : forall h1 h2 i j,
  existsb is_sdispose (h1 ++ SSet i :: h2) = false ->
  let s := final sad_step s_init (h1 ++ SSet i :: h2) in
  sad_step s (SSet j) = (s, [ORaise]).
Proof.
  intros h1 h2 i j N s. rewrite existsb_app in N. apply orb_false_iff in N. destruct N as [N1 N2].
  cbn [existsb is_sdispose orb] in N2.
  destruct (sad_live_keeps h1 s_init N1 eq_refl) as [A1 [_ _]].
  assert (exists c, s_cur (final sad_step s_init (h1 ++ [SSet i])) = Some c /\
                    s_disposed (final sad_step s_init (h1 ++ [SSet i])) = false) as [c [Hc Hd]].
  { rewrite final_app, final_cons, final_nil. cbn [sad_step].
    destruct (s_cur (final sad_step s_init h1)) as [c|] eqn:C; cbn [fst].
    - exists c. split; [exact C|exact A1].
    - rewrite A1. cbn [fst]. exists i. split; reflexivity. }
  assert (s = final sad_step (final sad_step s_init (h1 ++ [SSet i])) h2) as Hs.
  { unfold s. rewrite <- final_app, <- app_assoc. reflexivity. }
  destruct (sad_live_keeps h2 _ N2 Hd) as [_ [B _]]. specialize (B c Hc). rewrite <- Hs in B.
  cbn [sad_step]. rewrite B. reflexivity.
Qed.

(* ... and the first assignment is never rejected *)
Definition is_sset (o : sop) : bool := match o with SSet _ => true | _ => false end.
Lemma sad_no_set_no_current : forall h s,
  existsb is_sset h = false -> s_cur s = None -> s_cur (final sad_step s h) = None.
Proof.
  induction h as [|o t IH]; intros s N C; [exact C|].
  cbn [existsb] in N. apply orb_false_iff in N. destruct N as [N1 N2]. rewrite final_cons.
  apply IH; [exact N2|]. destruct o; try discriminate N1; cbn [sad_step]; rewrite ?slot_query_id; auto.
  unfold slot_dispose. destruct (s_disposed s); cbn [fst s_cur]; auto.
Qed.

Lemma sad_first_assignment_accepted : forall h i,
  existsb is_sset h = false ->
  raises (snd (sad_step (final sad_step s_init h) (SSet i))) = 0.
Proof.
  intros h i N. cbn [sad_step]. rewrite (sad_no_set_no_current h s_init N eq_refl).
  destruct (s_disposed _); reflexivity.
Qed.

Lemma sad_disposed_after_dispose : forall h1 h2,
  s_disposed (final sad_step s_init (h1 ++ SDispose :: h2)) = true.
Proof.
  intros. rewrite final_app, final_cons. apply (slot_disposed_sticky sad_step sad_sticky1).
  cbn [sad_step]. apply slot_dispose_disposed.
Qed.

(* assignment after dispose(): disposed at once (never kept, never rejected) *)
Lemma sad_set_after_dispose : forall h1 h2 i,
  let s := final sad_step s_init (h1 ++ SDispose :: h2) in sad_step s (SSet i) = (s, [ODisp i]).
Proof.
  intros h1 h2 i s. cbn [sad_step]. unfold s.
  rewrite (sad_final_ok _ s_init s_init_ok (sad_disposed_after_dispose h1 h2)).
  rewrite sad_disposed_after_dispose. reflexivity.
Qed.

(* ---- MultipleAssignmentDisposable ------------------------------------------ *)
Fixpoint disp_ids (l : list obs) : list item :=
  match l with [] => [] | ODisp i :: t => i :: disp_ids t | _ :: t => disp_ids t end.
Fixpoint sets_of (h : list sop) : list item :=
  match h with [] => [] | SSet i :: t => i :: sets_of t | _ :: t => sets_of t end.
Definition last_set (h : list sop) : option item :=
  match rev (sets_of h) with [] => None | i :: _ => Some i end.
Definition opt_items (o : option item) : list item := match o with Some i => [i] | None => [] end.

Lemma disp_ids_app : forall a b, disp_ids (a ++ b) = disp_ids a ++ disp_ids b.
Proof.
  induction a as [|x t IH]; intros b; [reflexivity|]. cbn [app disp_ids]. destruct x; rewrite IH; reflexivity.
Qed.

Lemma sets_of_app : forall a b, sets_of (a ++ b) = sets_of a ++ sets_of b.
Proof.
  induction a as [|x t IH]; intros b; [reflexivity|]. cbn [app sets_of]. destruct x; rewrite IH; reflexivity.
Qed.

(* no dispose(): nothing is ever disposed, the current item is the last one assigned *)
Lemma mad_live : forall h s,
  existsb is_sdispose h = false -> s_disposed s = false ->
  s_disposed (final mad_step s h) = false /\
  disp_ids (log mad_step s h) = [] /\
  s_cur (final mad_step s h) = match last_set h with Some i => Some i | None => s_cur s end.
Proof.
  induction h as [|o t IH]; intros s N D.
  - rewrite final_nil, log_nil. auto.
  - cbn [existsb] in N. apply orb_false_iff in N. destruct N as [N1 N2].
    rewrite final_cons, log_cons, disp_ids_app. destruct o as [j| | |]; try discriminate N1.
    + cbn [mad_step]. rewrite D. cbn [fst snd].
      destruct (IH (SState (Some j) false) N2 eq_refl) as [A [B C]].
      split; [exact A|]. split; [rewrite B; reflexivity|]. rewrite C.
      unfold last_set. cbn [sets_of rev s_cur]. destruct (rev (sets_of t)) as [|x r] eqn:R; reflexivity.
    + cbn [mad_step]. rewrite slot_query_id. destruct (IH s N2 D) as [A [B C]].
      split; [exact A|]. split; [rewrite B; reflexivity|]. rewrite C. reflexivity.
    + cbn [mad_step]. rewrite slot_query_id. destruct (IH s N2 D) as [A [B C]].
      split; [exact A|]. split; [rewrite B; reflexivity|]. rewrite C. reflexivity.
Qed.

(* once disposed: each later assignment is disposed at once, nothing else *)
Lemma mad_dead : forall h s,
  s_disposed s = true -> s_cur s = None -> disp_ids (log mad_step s h) = sets_of h.
Proof.
  induction h as [|o t IH]; intros s D C; [reflexivity|].
  rewrite log_cons, disp_ids_app. destruct o as [j| | |]; cbn [mad_step sets_of].
  - rewrite D. cbn [fst snd disp_ids app]. rewrite (IH s D C). reflexivity.
  - unfold slot_dispose. rewrite D. cbn [fst snd disp_ids app]. apply (IH s D C).
  - rewrite slot_query_id. cbn [slot_query snd disp_ids app]. apply (IH s D C).
  - rewrite slot_query_id. cbn [slot_query snd disp_ids app]. apply (IH s D C).
Qed.

(* complete characterisation of the dispose() calls a MultipleAssignmentDisposable makes:
   none before the first dispose(); at the first dispose() the current (= last assigned) item;
   afterwards every newly assigned item, at once *)
Lemma mad_characterisation_live : forall h,
  existsb is_sdispose h = false -> disp_ids (log mad_step s_init h) = [].
Proof. intros h N. destruct (mad_live h s_init N eq_refl) as [_ [B _]]. exact B. Qed.

Lemma mad_characterisation : forall h1 h2,
  existsb is_sdispose h1 = false ->
  disp_ids (log mad_step s_init (h1 ++ SDispose :: h2)) = opt_items (last_set h1) ++ sets_of h2.
Proof.
  intros h1 h2 N. destruct (mad_live h1 s_init N eq_refl) as [A [B C]].
  rewrite log_app, disp_ids_app, B, log_cons, disp_ids_app. cbn [app mad_step].
  unfold slot_dispose. rewrite A. cbn [fst snd]. rewrite C. cbn [s_init s_cur].
  rewrite (mad_dead h2 (SState None true) eq_refl eq_refl).
  destruct (last_set h1); reflexivity.
Qed.

(* ---- ScheduledDisposable --------------------------------------------------- *)
(* number of queued actions the scheduler actually ran *)
Fixpoint eff_runs (q : nat) (h : list schop) : nat :=
  match h with
  | [] => 0
  | SchDispose :: t => eff_runs (S q) t
  | SchRunOne :: t => match q with O => eff_runs O t | S q' => S (eff_runs q' t) end
  | SchIsDisposed :: t => eff_runs q t
  end.
Definition is_sched (o : obs) : bool := match o with OSched => true | _ => false end.
Definition scheds (l : list obs) : nat := length (filter is_sched l).
Definition is_schdispose (o : schop) : bool := match o with SchDispose => true | _ => false end.

Lemma scheduled_gen : forall h inner q i,
  s_ok inner ->
  (forall j, ocnt j (s_cur inner) <= (if Nat.eqb j i then 1 else 0)) ->
  let s := SchState inner q in
  (forall j, disposes j (log sch_step s h) =
             if 0 <? eff_runs q h then ocnt j (s_cur inner) else 0) /\
  s_disposed (sch_inner (final sch_step s h)) = (s_disposed inner || (0 <? eff_runs q h))%bool.
Proof.
  induction h as [|o t IH]; intros inner q i OK U s.
  - rewrite log_nil, final_nil. cbn. rewrite orb_false_r. split; [intros; reflexivity|reflexivity].
  - unfold s. rewrite log_cons, final_cons. destruct o; cbn [sch_step eff_runs].
    + cbn [fst snd sch_inner sch_queue]. destruct (IH inner (S q) i OK U) as [A B]. split; [|exact B].
      intros j. rewrite disposes_app, A. reflexivity.
    + destruct q as [|q']; cbn [sch_queue].
      * cbn [fst snd]. destruct (IH inner 0 i OK U) as [A B]. split; [|exact B].
        intros j. rewrite disposes_app, A. reflexivity.
      * cbn [sch_inner sad_step]. unfold slot_dispose.
        destruct (s_disposed inner) eqn:D; cbn [fst snd].
        -- assert (OK' := OK D).
           destruct (IH inner q' i OK U) as [A B]. split.
           ++ intros j. rewrite disposes_app, A, OK', disposes_cons, disposes_nil. cbn [s_cur ocnt is_disp].
              change (0 <? S (eff_runs q' t)) with true. cbn iota.
              destruct (0 <? eff_runs q' t); reflexivity.
           ++ rewrite B, D. reflexivity.
        -- assert (s_ok (SState None true)) as OK2 by (intros _; reflexivity).
           assert (forall j, ocnt j (s_cur (SState None true)) <= (if Nat.eqb j i then 1 else 0)) as U2
             by (intros j; cbn; lia).
           destruct (IH (SState None true) q' i OK2 U2) as [A B]. split.
           ++ intros j. rewrite disposes_app, A, disposes_cons, disposes_opt_disp. cbn [s_cur ocnt is_disp].
              change (0 <? S (eff_runs q' t)) with true. cbn iota.
              destruct (0 <? eff_runs q' t); lia.
           ++ rewrite B. change (0 <? S (eff_runs q' t)) with true. cbn [s_disposed orb]. reflexivity.
    + cbn [fst snd]. destruct (IH inner q i OK U) as [A B]. split; [|exact B].
      intros j. rewrite disposes_app, A. reflexivity.
Qed.

(* the wrapped item is disposed exactly once iff the scheduler ran at least one of the queued
   actions, never otherwise, and nothing else is disposed; is_disposed reports exactly that *)
Lemma scheduled_once : forall h i,
  let s0 := sch_init i in
  disposes i (log sch_step s0 h) = (if 0 <? eff_runs 0 h then 1 else 0) /\
  (forall j, j <> i -> disposes j (log sch_step s0 h) = 0) /\
  s_disposed (sch_inner (final sch_step s0 h)) = (0 <? eff_runs 0 h).
Proof.
  intros h i s0. unfold s0, sch_init. cbn [sad_step s_init s_cur s_disposed fst].
  assert (s_ok (SState (Some i) false)) as OK by (intros X; discriminate X).
  assert (forall j, ocnt j (s_cur (SState (Some i) false)) <= (if Nat.eqb j i then 1 else 0)) as U.
  { intros j. cbn. destruct (Nat.eqb j i); lia. }
  destruct (scheduled_gen h _ 0 i OK U) as [A B]. split; [|split].
  - rewrite A. cbn [s_cur ocnt]. rewrite Nat.eqb_refl. reflexivity.
  - intros j Hj. rewrite A. cbn [s_cur ocnt].
    destruct (Nat.eqb j i) eqn:E; [apply Nat.eqb_eq in E; contradiction|].
    destruct (0 <? eff_runs 0 h); reflexivity.
  - rewrite B. reflexivity.
Qed.

(* every dispose() call schedules one action (repeated calls schedule repeatedly) *)
Lemma scheduled_schedules_each : forall h s,
  scheds (log sch_step s h) = length (filter is_schdispose h).
Proof.
  induction h as [|o t IH]; intros s; [reflexivity|].
  rewrite log_cons. unfold scheds in *. rewrite filter_app, app_length, IH.
  destruct o; cbn [sch_step filter is_schdispose].
  - reflexivity.
  - destruct (sch_queue s); cbn [snd]; [reflexivity|].
    cbn [sad_step]. unfold slot_dispose. destruct (s_disposed (sch_inner s)); cbn [snd]; [reflexivity|].
    destruct (s_cur (sch_inner s)); reflexivity.
  - reflexivity.
Qed.

(* ======================================================================= *)
(* RefCountDisposable                                                       *)
Definition is_live (d : dep) : bool := match d with DInner true => true | _ => false end.
Definition live (l : list dep) : nat := length (filter is_live l).
Definition is_rget (o : rop) : bool := match o with RGet => true | _ => false end.
Definition gets (h : list rop) : nat := length (filter is_rget h).
Definition is_rdispose (o : rop) : bool := match o with RDispose => true | _ => false end.
Definition is_rdisp (k : nat) (o : rop) : bool := match o with RDispDep j => Nat.eqb k j | _ => false end.
(* dependent k was disposed (at least once) in h *)
Definition dispd (k : nat) (h : list rop) : bool := existsb (is_rdisp k) h.
(* a history only disposes dependents that were handed out before ([n] handed out so far) *)
Fixpoint rwf (n : nat) (h : list rop) : bool :=
  match h with
  | [] => true
  | RGet :: t => rwf (S n) t
  | RDispDep k :: t => (k <? n) && rwf n t
  | _ :: t => rwf n t
  end.
Definition b2n (b : bool) : nat := if b then 1 else 0.
Definition u_disposes (l : list obs) : nat := disposes underlying l.

Definition r_ok (s : rstate) : Prop :=
  r_count s = Z.of_nat (live (r_deps s)) /\
  (r_disposed s = true <-> (r_primary s = true /\ live (r_deps s) = 0)).

Lemma live_app : forall a b, live (a ++ b) = live a + live b.
Proof. intros. unfold live. rewrite filter_app, app_length. reflexivity. Qed.
Lemma live_nil : live [] = 0.
Proof. reflexivity. Qed.
Lemma live_cons : forall d l, live (d :: l) = b2n (is_live d) + live l.
Proof. intros. unfold live. cbn [filter]. destruct (is_live d); reflexivity. Qed.

Lemma live_set_nth : forall l k d d',
  nth_error l k = Some d -> live (set_nth k d' l) + b2n (is_live d) = live l + b2n (is_live d').
Proof.
  induction l as [|x t IH]; intros k d d' H.
  - destruct k; discriminate H.
  - destruct k as [|k']; cbn [nth_error] in H; cbn [set_nth].
    + injection H as ->. rewrite !live_cons. lia.
    + rewrite !live_cons. specialize (IH k' d d' H). lia.
Qed.

Lemma set_nth_length : forall A (l : list A) k x, length (set_nth k x l) = length l.
Proof.
  induction l as [|y t IH]; intros k x; [destruct k; reflexivity|]. destruct k; cbn [set_nth length]; [reflexivity|].
  rewrite IH. reflexivity.
Qed.

Lemma set_nth_same : forall A (l : list A) k x, nth_error l k = Some x -> set_nth k x l = l.
Proof.
  induction l as [|y t IH]; intros k x H; [destruct k; reflexivity|]. destruct k; cbn [nth_error] in H; cbn [set_nth].
  - injection H as ->. reflexivity.
  - rewrite IH; [reflexivity|exact H].
Qed.

Lemma nth_set_nth_eq : forall A (l : list A) k x, k < length l -> nth_error (set_nth k x l) k = Some x.
Proof.
  induction l as [|y t IH]; intros k x H; [cbn in H; lia|]. destruct k; cbn [set_nth nth_error]; [reflexivity|].
  apply IH. cbn in H. lia.
Qed.

Lemma nth_set_nth_neq : forall A (l : list A) k j x, k <> j -> nth_error (set_nth j x l) k = nth_error l k.
Proof.
  induction l as [|y t IH]; intros k j x H; [destruct j; reflexivity|].
  destruct j, k; cbn [set_nth nth_error]; try reflexivity; [lia|]. apply IH. lia.
Qed.

Lemma live_zero_nth : forall l k, live l = 0 -> nth_error l k <> Some (DInner true).
Proof.
  induction l as [|x t IH]; intros k H; [destruct k; discriminate|].
  rewrite live_cons in H. destruct k; cbn [nth_error].
  - intros E. injection E as ->. cbn in H. lia.
  - apply IH. lia.
Qed.

Lemma live_pos_nth : forall l, live l <> 0 -> exists k, nth_error l k = Some (DInner true).
Proof.
  induction l as [|x t IH]; intros H; [unfold live in H; cbn in H; lia|].
  rewrite live_cons in H. destruct x as [[|]|b].
  - exists 0. reflexivity.
  - cbn in H. destruct (IH H) as [k Hk]. exists (S k). exact Hk.
  - cbn in H. destruct (IH H) as [k Hk]. exists (S k). exact Hk.
Qed.

(* release() on a consistent state that still has at least one outstanding token *)
Lemma r_release_spec : forall c p d deps,
  d = false -> (c = Z.of_nat (S (live deps)))%Z ->
  let s' := fst (r_release (RState c p d deps)) in
  r_count s' = Z.of_nat (live deps) /\ r_primary s' = p /\ r_deps s' = deps /\
  r_disposed s' = (p && (live deps =? 0))%bool /\
  snd (r_release (RState c p d deps)) = if (p && (live deps =? 0))%bool then [ODisp underlying] else [].
Proof.
  intros c p d deps D C. unfold r_release. cbn [r_disposed r_count r_primary r_deps]. subst d.
  assert (((c - 1 =? 0)%Z) = (live deps =? 0)) as E.
  { destruct (live deps =? 0) eqn:L.
    - apply Nat.eqb_eq in L. apply Z.eqb_eq. lia.
    - apply Nat.eqb_neq in L. apply Z.eqb_neq. lia. }
  rewrite E. rewrite andb_comm.
  destruct (p && (live deps =? 0))%bool eqn:PL; cbn [fst snd r_count r_primary r_deps r_disposed];
    repeat split; try lia; try reflexivity.
Qed.

Lemma r_step_ok : forall s o, r_ok s -> r_ok (fst (r_step s o)).
Proof.
  intros [c p d deps] o [Hc Hd]. cbn [r_count r_primary r_disposed r_deps] in *.
  destruct o as [|k| |]; cbn [r_step r_count r_primary r_disposed r_deps].
  - destruct d; cbn [fst]; unfold r_ok; cbn [r_count r_primary r_disposed r_deps];
      rewrite live_app, live_cons, live_nil; cbn [is_live b2n].
    + split; [lia|]. destruct Hd as [H1 H2]. destruct (H1 eq_refl) as [P L].
      split; [intros _; split; [exact P|lia]|reflexivity].
    + split; [lia|]. split; [discriminate|]. intros [_ L]. lia.
  - destruct (nth_error deps k) as [[[|]|b]|] eqn:N; cbn [fst]; try (split; assumption).
    + pose proof (live_set_nth deps k _ (DInner false) N) as LS. cbn [is_live b2n] in LS.
      assert (d = false) as D.
      { destruct d; [|reflexivity]. destruct Hd as [H1 _]. destruct (H1 eq_refl) as [_ L].
        exfalso. apply (live_zero_nth deps k L N). }
      assert (c = Z.of_nat (S (live (set_nth k (DInner false) deps))))%Z as C by lia.
      destruct (r_release_spec c p d (set_nth k (DInner false) deps) D C) as [R1 [R2 [R3 [R4 _]]]].
      unfold r_ok. rewrite R1, R2, R3, R4. split; [reflexivity|].
      rewrite andb_true_iff, Nat.eqb_eq. reflexivity.
    + pose proof (live_set_nth deps k _ (DInert true) N) as LS. cbn [is_live b2n] in LS.
      unfold r_ok. cbn [r_count r_primary r_disposed r_deps].
      replace (live (set_nth k (DInert true) deps)) with (live deps) by lia. split; assumption.
  - destruct d eqn:D; cbn [fst]; [split; assumption|].
    destruct p eqn:P; cbn [fst]; [split; assumption|].
    destruct (c =? 0)%Z eqn:C0; cbn [fst]; unfold r_ok; cbn [r_count r_primary r_disposed r_deps].
    + apply Z.eqb_eq in C0. split; [exact Hc|]. split; [intros _; split; [reflexivity|lia]|reflexivity].
    + apply Z.eqb_neq in C0. split; [exact Hc|]. split; [discriminate|]. intros [_ L]. lia.
  - cbn [fst]. split; assumption.
Qed.

Lemma r_final_ok : forall h s, r_ok s -> r_ok (final r_step s h).
Proof.
  induction h as [|o t IH]; intros s H; [exact H|]. rewrite final_cons. apply IH, r_step_ok, H.
Qed.

Lemma r_init_ok : r_ok r_init.
Proof.
  unfold r_ok, r_init. cbn. split; [reflexivity|]. split; [discriminate|]. intros [X _]. discriminate X.
Qed.

(* one call: the underlying item is disposed by this call iff this call is the one that releases *)
Lemma r_step_u : forall s o, r_ok s ->
  u_disposes (snd (r_step s o)) + b2n (r_disposed s) = b2n (r_disposed (fst (r_step s o))) /\
  (forall j, j <> underlying -> disposes j (snd (r_step s o)) = 0).
Proof.
  intros [c p d deps] o [Hc Hd]. cbn [r_count r_primary r_disposed r_deps] in *. unfold u_disposes.
  destruct o as [|k| |]; cbn [r_step r_count r_primary r_disposed r_deps].
  - destruct d; cbn [fst snd r_disposed]; split; try reflexivity; intros; reflexivity.
  - destruct (nth_error deps k) as [[[|]|b]|] eqn:N; cbn [fst snd r_disposed];
      try (split; [reflexivity|intros; reflexivity]).
    pose proof (live_set_nth deps k _ (DInner false) N) as LS. cbn [is_live b2n] in LS.
    assert (d = false) as D.
    { destruct d; [|reflexivity]. destruct Hd as [H1 _]. destruct (H1 eq_refl) as [_ L].
      exfalso. apply (live_zero_nth deps k L N). }
    assert (c = Z.of_nat (S (live (set_nth k (DInner false) deps))))%Z as C by lia.
    destruct (r_release_spec c p d (set_nth k (DInner false) deps) D C) as [_ [_ [_ [R4 R5]]]].
    rewrite R4, R5. subst d.
    destruct (p && (live (set_nth k (DInner false) deps) =? 0))%bool.
    + split; [reflexivity|]. intros j Hj. rewrite disposes_cons, disposes_nil. cbn [is_disp].
      destruct (Nat.eqb j underlying) eqn:E; [apply Nat.eqb_eq in E; contradiction|reflexivity].
    + split; [reflexivity|]. intros; reflexivity.
  - destruct d eqn:D; cbn [fst snd r_disposed]; [split; [reflexivity|intros; reflexivity]|].
    destruct p eqn:P; cbn [fst snd r_disposed]; [split; [reflexivity|intros; reflexivity]|].
    destruct (c =? 0)%Z; cbn [fst snd r_disposed].
    + split; [reflexivity|]. intros j Hj. rewrite disposes_cons, disposes_nil. cbn [is_disp].
      destruct (Nat.eqb j underlying) eqn:E; [apply Nat.eqb_eq in E; contradiction|reflexivity].
    + split; [reflexivity|]. intros; reflexivity.
  - cbn [fst snd]. split; [destruct d; reflexivity|intros; reflexivity].
Qed.

Lemma rc_log_gen : forall h s, r_ok s ->
  u_disposes (log r_step s h) + b2n (r_disposed s) = b2n (r_disposed (final r_step s h)) /\
  (forall j, j <> underlying -> disposes j (log r_step s h) = 0).
Proof.
  induction h as [|o t IH]; intros s H.
  - rewrite log_nil, final_nil. split; [reflexivity|intros; reflexivity].
  - rewrite log_cons, final_cons. destruct (r_step_u s o H) as [A1 A2].
    destruct (IH _ (r_step_ok s o H)) as [B1 B2]. unfold u_disposes in *. split.
    + rewrite disposes_app. lia.
    + intros j Hj. rewrite disposes_app, A2, B2; auto.
Qed.

(* the number of dispose() calls on the underlying item is 1 if the object is released, else 0 *)
Lemma rc_underlying_is_released_flag : forall h,
  u_disposes (log r_step r_init h) = b2n (r_disposed (final r_step r_init h)).
Proof. intros h. destruct (rc_log_gen h r_init r_init_ok) as [A _]. cbn [r_init r_disposed b2n] in A. lia. Qed.

Lemma rc_at_most_once : forall h, u_disposes (log r_step r_init h) <= 1.
Proof. intros h. rewrite rc_underlying_is_released_flag. destruct (r_disposed _); cbn; lia. Qed.

Lemma rc_only_underlying : forall h j, j <> underlying -> disposes j (log r_step r_init h) = 0.
Proof. intros h j Hj. destruct (rc_log_gen h r_init r_init_ok) as [_ B]. apply B, Hj. Qed.

(* after the release nothing is disposed any more, whatever is called (in particular dependents
   requested afterwards are inert) *)
Lemma rc_after_release_silent : forall h1 h2 j,
  u_disposes (log r_step r_init h1) = 1 -> disposes j (log r_step (final r_step r_init h1) h2) = 0.
Proof.
  intros h1 h2 j U. pose proof (r_final_ok h1 r_init r_init_ok) as OK.
  destruct (rc_log_gen h2 _ OK) as [A B]. rewrite rc_underlying_is_released_flag in U.
  destruct (Nat.eq_dec j underlying) as [->|Hj]; [|apply B, Hj].
  destruct (r_disposed (final r_step r_init h1)); [|discriminate U]. cbn [b2n] in A. unfold u_disposes in A.
  destruct (r_disposed (final r_step (final r_step r_init h1) h2)); cbn [b2n] in A; lia.
Qed.

Lemma rc_get_after_release_inert : forall h1,
  u_disposes (log r_step r_init h1) = 1 ->
  let s := final r_step r_init h1 in
  r_step s RGet = (RState (r_count s) (r_primary s) (r_disposed s) (r_deps s ++ [DInert false]), []).
Proof.
  intros h1 U s. rewrite rc_underlying_is_released_flag in U. fold s in U.
  cbn [r_step]. destruct (r_disposed s); [reflexivity|discriminate U].
Qed.

(* ---- primary flag ---------------------------------------------------------- *)
Lemma r_primary_gen : forall h s, r_ok s ->
  r_primary (final r_step s h) = (r_primary s || existsb is_rdispose h)%bool.
Proof.
  induction h as [|o t IH]; intros s H.
  - rewrite final_nil. cbn. rewrite orb_false_r. reflexivity.
  - rewrite final_cons, (IH _ (r_step_ok s o H)). cbn [existsb].
    destruct s as [c p d deps]. destruct H as [Hc Hd]. cbn [r_count r_primary r_disposed r_deps] in *.
    destruct o as [|k| |]; cbn [r_step is_rdispose r_count r_primary r_disposed r_deps].
    + destruct d; reflexivity.
    + destruct (nth_error deps k) as [[[|]|b]|] eqn:N; cbn [fst r_primary]; try reflexivity.
      unfold r_release. cbn [r_disposed r_count r_primary r_deps]. destruct d; cbn [fst r_primary]; [reflexivity|].
      destruct ((c - 1 =? 0)%Z && p)%bool; reflexivity.
    + destruct d eqn:D; cbn [fst r_primary].
      * destruct Hd as [H1 _]. destruct (H1 eq_refl) as [P _]. rewrite P. reflexivity.
      * destruct p; cbn [fst r_primary]; [reflexivity|]. destruct (c =? 0)%Z; reflexivity.
    + reflexivity.
Qed.

(* ---- positions of handles ---------------------------------------------------- *)
Lemma r_release_deps : forall s, r_deps (fst (r_release s)) = r_deps s.
Proof.
  intros s. unfold r_release. destruct (r_disposed s); [reflexivity|].
  destruct ((r_count s - 1 =? 0)%Z && r_primary s)%bool; reflexivity.
Qed.

Lemma r_release_disposed_mono : forall s, r_disposed s = true -> r_disposed (fst (r_release s)) = true.
Proof. intros s H. unfold r_release. rewrite H. exact H. Qed.

Lemma r_step_length : forall s o,
  length (r_deps (fst (r_step s o))) = length (r_deps s) + b2n (is_rget o).
Proof.
  intros s o. destruct o as [|k| |]; cbn [r_step is_rget b2n].
  - destruct (r_disposed s); cbn [fst r_deps]; rewrite app_length; reflexivity.
  - destruct (nth_error (r_deps s) k) as [[[|]|b]|]; cbn [fst r_deps];
      rewrite ?r_release_deps; cbn [r_deps]; rewrite ?set_nth_length; lia.
  - destruct (r_disposed s); [cbn; lia|]. destruct (r_primary s); [cbn; lia|].
    destruct (r_count s =? 0)%Z; cbn; lia.
  - cbn. lia.
Qed.

Lemma r_final_length : forall h s, length (r_deps (final r_step s h)) = length (r_deps s) + gets h.
Proof.
  induction h as [|o t IH]; intros s.
  - rewrite final_nil. unfold gets. cbn. lia.
  - rewrite final_cons, IH, r_step_length. unfold gets. cbn [filter]. destruct (is_rget o); cbn [b2n length]; lia.
Qed.

(* status of a handle after one more call *)
Definition dep_after (d : dep) (hit : bool) : dep :=
  match d with
  | DInner b => DInner (b && negb hit)
  | DInert b => DInert (b || hit)
  end.

Lemma r_step_nth : forall s o k d,
  nth_error (r_deps s) k = Some d ->
  nth_error (r_deps (fst (r_step s o))) k = Some (dep_after d (is_rdisp k o)).
Proof.
  intros s o k d N. assert (k < length (r_deps s)) as L by (apply nth_error_Some; congruence).
  destruct o as [|j| |]; cbn [r_step is_rdisp].
  - destruct (r_disposed s); cbn [fst r_deps]; rewrite nth_error_app1 by exact L; rewrite N;
      destruct d as [b|b]; cbn; rewrite ?andb_true_r, ?orb_false_r; reflexivity.
  - destruct (Nat.eqb k j) eqn:E.
    + apply Nat.eqb_eq in E. subst j. rewrite N. destruct d as [[|]|b]; cbn [fst r_deps dep_after].
      * rewrite r_release_deps. cbn [r_deps]. rewrite nth_set_nth_eq by exact L. reflexivity.
      * rewrite N. reflexivity.
      * rewrite nth_set_nth_eq by exact L. cbn. rewrite orb_true_r. reflexivity.
    + apply Nat.eqb_neq in E.
      assert (dep_after d false = d) as DA by (destruct d as [b|b]; cbn; rewrite ?andb_true_r, ?orb_false_r; reflexivity).
      rewrite DA.
      destruct (nth_error (r_deps s) j) as [[[|]|b]|]; cbn [fst r_deps]; rewrite ?r_release_deps; cbn [r_deps];
        rewrite ?nth_set_nth_neq by exact E; exact N.
  - assert (dep_after d false = d) as DA by (destruct d as [b|b]; cbn; rewrite ?andb_true_r, ?orb_false_r; reflexivity).
    rewrite DA. destruct (r_disposed s); [exact N|]. destruct (r_primary s); [exact N|].
    destruct (r_count s =? 0)%Z; exact N.
  - assert (dep_after d false = d) as DA by (destruct d as [b|b]; cbn; rewrite ?andb_true_r, ?orb_false_r; reflexivity).
    rewrite DA. exact N.
Qed.

Lemma dep_after_after : forall d a b, dep_after (dep_after d a) b = dep_after d (a || b).
Proof.
  intros [x|x] a b; cbn; f_equal.
  - rewrite negb_orb, andb_assoc. reflexivity.
  - rewrite orb_assoc. reflexivity.
Qed.

Lemma r_final_nth : forall h s k d,
  nth_error (r_deps s) k = Some d ->
  nth_error (r_deps (final r_step s h)) k = Some (dep_after d (dispd k h)).
Proof.
  induction h as [|o t IH]; intros s k d N.
  - rewrite final_nil. unfold dispd. cbn [existsb]. rewrite N. f_equal.
    destruct d; cbn; rewrite ?andb_true_r, ?orb_false_r; reflexivity.
  - rewrite final_cons. rewrite (IH _ k _ (r_step_nth s o k d N)). rewrite dep_after_after. reflexivity.
Qed.

Lemma r_disposed_sticky1 : forall s o, r_disposed s = true -> r_disposed (fst (r_step s o)) = true.
Proof.
  intros s o H. destruct o as [|k| |]; cbn [r_step]; rewrite ?H; cbn [fst r_disposed]; auto.
  destruct (nth_error (r_deps s) k) as [[[|]|b]|]; cbn [fst r_disposed]; auto;
    try (apply r_release_disposed_mono; exact H).
Qed.

(* a handle created during h: by which RGet, and what state the object was in at that moment *)
Lemma r_created : forall h s k d,
  length (r_deps s) <= k ->
  nth_error (r_deps (final r_step s h)) k = Some d ->
  exists h1 h2, h = h1 ++ RGet :: h2 /\ length (r_deps s) + gets h1 = k /\
    d = dep_after (if r_disposed (final r_step s h1) then DInert false else DInner true) (dispd k h2).
Proof.
  induction h as [|o t IH]; intros s k d L N.
  - rewrite final_nil in N. apply nth_error_None in L. congruence.
  - rewrite final_cons in N. pose proof (r_step_length s o) as SL.
    destruct (Nat.lt_ge_cases k (length (r_deps (fst (r_step s o))))) as [Lt|Ge].
    + (* created by this very call *)
      destruct o as [|j| |]; cbn [is_rget b2n] in SL; try lia.
      assert (k = length (r_deps s)) as -> by lia.
      exists [], t. split; [reflexivity|]. split; [unfold gets; cbn; lia|].
      rewrite final_nil.
      assert (nth_error (r_deps (fst (r_step s RGet))) (length (r_deps s)) =
              Some (if r_disposed s then DInert false else DInner true)) as N0.
      { cbn [r_step]. destruct (r_disposed s); cbn [fst r_deps];
          rewrite nth_error_app2 by lia; rewrite Nat.sub_diag; reflexivity. }
      rewrite (r_final_nth t _ _ _ N0) in N. injection N as <-. reflexivity.
    + destruct (IH _ k d Ge N) as [h1 [h2 [E [G D]]]].
      exists (o :: h1), h2. split; [rewrite E; reflexivity|]. split.
      * unfold gets in *. cbn [filter]. destruct (is_rget o); cbn [b2n length] in *; lia.
      * rewrite final_cons. exact D.
Qed.

Lemma rwf_dispd_bound : forall h1 n k rest,
  rwf n (h1 ++ rest) = true -> dispd k h1 = true -> k < n + gets h1.
Proof.
  induction h1 as [|o t IH]; intros n k rest W D; [discriminate D|].
  cbn [app] in W. unfold dispd in D. cbn [existsb] in D. unfold gets. cbn [filter].
  destruct o as [|j| |]; cbn [rwf is_rdisp is_rget orb length] in *.
  - specialize (IH (S n) k rest W D). unfold gets in IH. lia.
  - apply andb_true_iff in W. destruct W as [W1 W2]. apply Nat.ltb_lt in W1.
    destruct (Nat.eqb k j) eqn:E.
    + apply Nat.eqb_eq in E. subst j. lia.
    + cbn [orb] in D. specialize (IH n k rest W2 D). unfold gets in IH. lia.
  - specialize (IH n k rest W D). unfold gets in IH. lia.
  - specialize (IH n k rest W D). unfold gets in IH. lia.
Qed.

Lemma dispd_app : forall k a b, dispd k (a ++ b) = (dispd k a || dispd k b)%bool.
Proof. intros. unfold dispd. apply existsb_app. Qed.

(* ONLY AFTER: if the underlying item was disposed then dispose() was called on the primary and every
   dependent handed out was disposed -- except those requested after the release (which are inert) *)
Lemma rc_released_only_after : forall h,
  u_disposes (log r_step r_init h) = 1 ->
  existsb is_rdispose h = true /\
  forall k, k < gets h ->
    dispd k h = true \/
    exists h1 h2, h = h1 ++ RGet :: h2 /\ gets h1 = k /\ u_disposes (log r_step r_init h1) = 1.
Proof.
  intros h U. rewrite rc_underlying_is_released_flag in U.
  pose proof (r_final_ok h r_init r_init_ok) as [_ [H1 _]].
  destruct (r_disposed (final r_step r_init h)) eqn:D; [|discriminate U].
  destruct (H1 eq_refl) as [P L]. split.
  - rewrite (r_primary_gen h r_init r_init_ok) in P. exact P.
  - intros k Hk.
    assert (k < length (r_deps (final r_step r_init h))) as Lk by (rewrite r_final_length; cbn; lia).
    destruct (nth_error (r_deps (final r_step r_init h)) k) as [d|] eqn:N;
      [|apply nth_error_None in N; lia].
    destruct (r_created h r_init k d (Nat.le_0_l _) N) as [h1 [h2 [E [G Dd]]]]. cbn [r_init r_deps length] in G.
    destruct (r_disposed (final r_step r_init h1)) eqn:D1.
    + right. exists h1, h2. split; [exact E|]. split; [lia|].
      rewrite rc_underlying_is_released_flag, D1. reflexivity.
    + left. cbn [dep_after andb] in Dd. destruct (dispd k h2) eqn:D2.
      * rewrite E, dispd_app. unfold dispd at 2. cbn [existsb is_rdisp]. fold (dispd k h2). rewrite D2.
        rewrite !orb_true_r. reflexivity.
      * cbn [negb] in Dd. subst d. exfalso. exact (live_zero_nth _ k L N).
Qed.

(* EXACTLY WHEN: if dispose() was called on the primary and every dependent handed out was disposed,
   the underlying item has been disposed (once) *)
Lemma rc_released_when_all_done : forall h,
  rwf 0 h = true -> existsb is_rdispose h = true ->
  (forall k, k < gets h -> dispd k h = true) ->
  u_disposes (log r_step r_init h) = 1.
Proof.
  intros h W P A. rewrite rc_underlying_is_released_flag.
  pose proof (r_final_ok h r_init r_init_ok) as [_ [_ H2]].
  destruct (r_disposed (final r_step r_init h)) eqn:D; [reflexivity|]. exfalso.
  assert (live (r_deps (final r_step r_init h)) <> 0) as L.
  { intros L0. assert (false = true) as X; [|discriminate X]. apply H2. split; [|exact L0].
    rewrite (r_primary_gen h r_init r_init_ok). exact P. }
  destruct (live_pos_nth _ L) as [k N].
  destruct (r_created h r_init k _ (Nat.le_0_l _) N) as [h1 [h2 [E [G Dd]]]]. cbn [r_init r_deps length] in G.
  assert (k < gets h) as Hk.
  { rewrite E. unfold gets. rewrite filter_app, app_length. cbn [filter is_rget length]. unfold gets in G. lia. }
  specialize (A k Hk). rewrite E, dispd_app in A. unfold dispd at 2 in A. cbn [existsb is_rdisp orb] in A.
  fold (dispd k h2) in A.
  assert (dispd k h1 = false) as B1.
  { destruct (dispd k h1) eqn:B; [|reflexivity]. rewrite E in W.
    pose proof (rwf_dispd_bound h1 0 k _ W B). lia. }
  rewrite B1 in A. cbn [orb] in A. rewrite A in Dd.
  destruct (r_disposed (final r_step r_init h1)); cbn in Dd; discriminate Dd.
Qed.

(* DOUBLE DISPOSE: disposing a dependent that was already disposed changes nothing and emits nothing *)
Lemma rc_second_dispose_noop : forall h k,
  rwf 0 h = true -> dispd k h = true ->
  r_step (final r_step r_init h) (RDispDep k) = (final r_step r_init h, []).
Proof.
  intros h k W Dk.
  assert (k < gets h) as Hk.
  { pose proof (rwf_dispd_bound h 0 k [] ) as X. rewrite app_nil_r in X. specialize (X W Dk). lia. }
  assert (k < length (r_deps (final r_step r_init h))) as Lk by (rewrite r_final_length; cbn; lia).
  destruct (nth_error (r_deps (final r_step r_init h)) k) as [d|] eqn:N; [|apply nth_error_None in N; lia].
  destruct (r_created h r_init k d (Nat.le_0_l _) N) as [h1 [h2 [E [G Dd]]]]. cbn [r_init r_deps length] in G.
  assert (dispd k h1 = false) as B1.
  { destruct (dispd k h1) eqn:B; [|reflexivity]. rewrite E in W.
    pose proof (rwf_dispd_bound h1 0 k _ W B). lia. }
  assert (dispd k h2 = true) as B2.
  { rewrite E, dispd_app, B1 in Dk. unfold dispd at 1 in Dk. cbn [existsb is_rdisp orb] in Dk. exact Dk. }
  rewrite B2 in Dd. cbn [r_step]. rewrite N.
  destruct (r_disposed (final r_step r_init h1)); cbn in Dd; subst d.
  - rewrite (set_nth_same _ _ _ _ N). destruct (final r_step r_init h); reflexivity.
  - reflexivity.
Qed.

Lemma rc_second_dispose_erasable : forall h k h',
  rwf 0 h = true -> dispd k h = true ->
  log r_step r_init (h ++ RDispDep k :: h') = log r_step r_init (h ++ h') /\
  final r_step r_init (h ++ RDispDep k :: h') = final r_step r_init (h ++ h').
Proof.
  intros h k h' W D. pose proof (rc_second_dispose_noop h k W D) as N.
  rewrite !log_app, !final_app, log_cons, final_cons, N. cbn [fst snd app]. split; reflexivity.
Qed.

(* the scheduler invoked exactly [eff_runs] queued actions (observable: ORun) *)
Lemma scheduled_runs : forall h s, runs (log sch_step s h) = eff_runs (sch_queue s) h.
Proof.
  induction h as [|o t IH]; intros s; [reflexivity|].
  rewrite log_cons, runs_app, IH. destruct s as [inner q]. destruct o; cbn [sch_step eff_runs sch_queue sch_inner].
  - reflexivity.
  - destruct q as [|q']; cbn [fst snd sch_queue]; [reflexivity|].
    cbn [sad_step]. unfold slot_dispose. destruct (s_disposed inner); cbn [fst snd sch_queue].
    + reflexivity.
    + unfold runs at 1. cbn [filter is_run]. destruct (s_cur inner); reflexivity.
  - reflexivity.
Qed.
