(* C42: the CatchScheduler run SIMULATES the run on the wrapped scheduler, for ALL raw programs
   (raising actions at any depth and raising periodic actions included) and ANY handler, up to
   the first exception the handler accepts.

   [run_catch c fuel h s hs] and [run c fuel s hs] are executed side by side.  As long as the handler
   has answered False to everything it was asked, the two states are equal field by field except
   that (1) pending bodies / periodic tables on the catch side are the wrapped ones and (2) the catch
   log has additional [EHandler] entries ([R]).  At the first accepted exception the runs part:
   the catch run swallows it and goes on, the inner run lets it escape; from then on only the
   logs written so far are related ([D]; both logs only grow).

   Consequences ([observe] = what the harness sees):
   - [catch_simulates_until_accept]: either no handler call of the whole run was answered True and
     the observations minus the handler calls ARE the inner scheduler's observations, or the
     observations before the first accepted call, minus handler calls, are a prefix of the inner
     scheduler's;
   - [catch_reject_all_simulates]: with the reject-all handler the CatchScheduler is observationally
     the inner scheduler (plus the handler calls). *)
From RxVerif Require Import Base.Prelude Core.VTime Core.VTimeFacts Core.CatchSched Core.CatchSchedFacts.

Local Open Scope Z_scope.

Definition not_ehandler (e : event) : bool := match e with EHandler _ => false | _ => true end.
Definition not_handler (o : oev) : bool := match o with OHandler _ => false | _ => true end.

Definition wpay (h : Z -> bool) (p : payload) : payload :=
  match p with PAct l b => PAct l (cwrap_body h b) | PPer pid stt => PPer pid stt end.
Definition witem (h : Z -> bool) (it : item) : item :=
  Item (i_due it) (i_cnt it) (i_id it) (i_born it) (i_sclk it) (wpay h (i_pay it)).
Definition wpi (h : Z -> bool) (pi : pinfo) : pinfo :=
  PInfo (p_period pi) (cwrap_tab h (p_fn pi)) (p_disposed pi) (p_cur pi).

Definition rawpay (p : payload) : bool := match p with PAct _ b => forallb raw_cmd b | PPer _ _ => true end.
Definition rawq (q : list item) : Prop := Forall (fun it => rawpay (i_pay it) = true) q.
Definition rawp (ps : list pinfo) : Prop := Forall (fun pi => raw_tab (p_fn pi) = true) ps.

(* the handler has rejected everything so far *)
Definition noacc (h : Z -> bool) (l : list event) : Prop := forall e, In (EHandler e) l -> h e = false.

Section Sim.
Variable h : Z -> bool.

(* sc: state of the run through the CatchScheduler; si: state of the run on the inner scheduler *)
Definition R (sc si : st) : Prop :=
  clock sc = clock si /\ queue sc = map (witem h) (queue si) /\ count sc = count si /\
  enabled sc = enabled si /\ cancelled sc = cancelled si /\ next_id sc = next_id si /\
  pers sc = map (wpi h) (pers si) /\ npops sc = npops si /\
  filter not_ehandler (log sc) = log si /\ noacc h (log sc) /\ rawq (queue si) /\ rawp (pers si).

(* parted: an accepted handler call in the catch log; what was logged before it is related *)
Definition D (sc si : st) : Prop :=
  exists lc e l0 li, log sc = lc ++ EHandler e :: l0 /\ h e = true /\ noacc h l0 /\
                     log si = li ++ filter not_ehandler l0.

Ltac Rd H := destruct H as (Hclk & Hq & Hcnt & Hen & Hcan & Hnid & Hpers & Hnp & Hlog & Hacc & Hrq & Hrp).

Ltac Rd2 H := destruct H as (Hclk2 & Hq2 & Hcnt2 & Hen2 & Hcan2 & Hnid2 & Hpers2 & Hnp2 & Hlog2 & Hacc2 & Hrq2 & Hrp2).

Lemma R_init c0 : R (init c0) (init c0).
Proof. unfold R, noacc, rawq, rawp; simpl. repeat split; try constructor. intros e []. Qed.

Lemma noacc_cons e l : not_ehandler e = true -> noacc h l -> noacc h (e :: l).
Proof. intros K N x [E|Hin]; [subst e; discriminate K | apply N, Hin]. Qed.

Lemma R_set_clock sc si k : R sc si -> R (set_clock sc k) (set_clock si k).
Proof. intro H. Rd H. unfold R; simpl. repeat split; assumption. Qed.

Lemma R_set_enabled sc si b : R sc si -> R (set_enabled sc b) (set_enabled si b).
Proof. intro H. Rd H. unfold R; simpl. repeat split; assumption. Qed.

Lemma R_add_log sc si e : not_ehandler e = true -> R sc si -> R (add_log sc e) (add_log si e).
Proof.
  intros K H. Rd H. unfold R; simpl. rewrite K, Hlog. repeat split; try assumption. apply noacc_cons; assumption.
Qed.

Lemma R_handler sc si e : h e = false -> R sc si -> R (add_log sc (EHandler e)) si.
Proof.
  intros K H. Rd H. unfold R; simpl. repeat split; try assumption.
  intros x [E|Hin]; [inversion E; subst; exact K | apply Hacc, Hin].
Qed.

Lemma R_add_notes ns : forall sc si, R sc si -> R (add_notes sc ns) (add_notes si ns).
Proof. induction ns as [|n t IH]; intros sc si H; simpl; [exact H|]. apply IH, R_add_log; [reflexivity | exact H]. Qed.

Lemma key_lt_w x y : key_lt (witem h x) (witem h y) = key_lt x y.
Proof. reflexivity. Qed.

Lemma insert_w x : forall q, insert (witem h x) (map (witem h) q) = map (witem h) (insert x q).
Proof.
  induction q as [|y t IH]; simpl; [reflexivity|]. rewrite key_lt_w. destruct (key_lt x y); simpl; [reflexivity|].
  rewrite IH. reflexivity.
Qed.

Lemma R_enqueue sc si due p : rawpay p = true -> R sc si -> R (enqueue sc due (wpay h p)) (enqueue si due p).
Proof.
  intros Hp H. Rd H. unfold R, enqueue; simpl. rewrite Hclk, Hq, Hcnt, Hen, Hcan, Hnid, Hnp.
  repeat split; try assumption.
  - apply (insert_w (Item due (count si) (next_id si) (npops si) (clock si) p)).
  - apply Forall_insert; assumption.
Qed.

Lemma R_cancel_id sc si r : R sc si -> R (cancel_id sc r) (cancel_id si r).
Proof.
  intro H. pose proof H as H0. Rd H. unfold cancel_id. rewrite Hnid. destruct (r <? next_id si)%nat; [|exact H0].
  unfold R; simpl. rewrite Hcan, Hlog. repeat split; try assumption. apply noacc_cons; [reflexivity | assumption].
Qed.

Lemma R_set_pers sc si ps : rawp ps -> R sc si -> R (set_pers sc (map (wpi h) ps)) (set_pers si ps).
Proof. intros Hp H. Rd H. unfold R; simpl. repeat split; assumption. Qed.

Lemma map_set_nth {A B} (f : A -> B) x : forall l n, map f (set_nth n x l) = set_nth n (f x) (map f l).
Proof. induction l as [|y t IH]; intros [|n]; simpl; try reflexivity. rewrite IH. reflexivity. Qed.

Lemma nth_error_w ps pid : nth_error (map (wpi h) ps) pid = option_map (wpi h) (nth_error ps pid).
Proof. revert pid. induction ps as [|y t IH]; intros [|n]; simpl; auto. Qed.

Lemma rawp_nth ps pid pi : rawp ps -> nth_error ps pid = Some pi -> raw_tab (p_fn pi) = true.
Proof. intros Hp Hn. unfold rawp in Hp. rewrite Forall_forall in Hp. apply Hp. eapply nth_error_In; eassumption. Qed.

Lemma R_dispose_per sc si pid : R sc si -> R (dispose_per sc pid) (dispose_per si pid).
Proof.
  intro H. pose proof H as H0. Rd H. unfold dispose_per. rewrite Hpers, nth_error_w.
  destruct (nth_error (pers si) pid) as [pi|] eqn:Hn; simpl; [|exact H0].
  destruct (p_disposed pi); [exact H0|].
  apply R_cancel_id. apply R_add_log; [reflexivity|].
  change (PInfo (p_period pi) (cwrap_tab h (p_fn pi)) true (p_cur pi)) with (wpi h (PInfo (p_period pi) (p_fn pi) true (p_cur pi))).
  rewrite <- Hpers, Hpers, <- map_set_nth. apply R_set_pers; [|exact H0].
  apply Forall_set_nth; [|assumption]. simpl. eapply rawp_nth; eassumption.
Qed.

Lemma R_dequeue sc si q' : rawq q' -> R sc si -> R (dequeue sc (map (witem h) q')) (dequeue si q').
Proof.
  intros Hq' H. Rd H. unfold R, dequeue; simpl. rewrite Hnp, Hcnt. repeat split; try assumption.
  destruct q'; reflexivity.
Qed.

(* ---- logs only grow ------------------------------------------------------------------ *)
Lemma prim_log s s' : prim s s' -> exists more, log s' = more ++ log s.
Proof.
  intro P. destruct P; try (exists []; reflexivity).
  - unfold cancel_id. destruct (r <? next_id s)%nat; [exists [ECancel r]|exists []]; reflexivity.
  - exists [e]. reflexivity.
  - eexists [_]. reflexivity.
Qed.

Lemma steps_log_grows s s' : steps s s' -> exists more, log s' = more ++ log s.
Proof.
  intro H. induction H as [|s1 s2 _ [m1 E1] P]; [exists []; reflexivity|].
  destruct (prim_log _ _ P) as [m2 E2]. exists (m2 ++ m1). rewrite E2, E1, app_assoc. reflexivity.
Qed.

Lemma D_grow sc si sc' si' : D sc si -> steps sc sc' -> steps si si' -> D sc' si'.
Proof.
  intros (lc & e & l0 & li & Ec & He & Hn & Ei) Sc Si.
  destruct (steps_log_grows _ _ Sc) as [mc Emc]. destruct (steps_log_grows _ _ Si) as [mi Emi].
  exists (mc ++ lc), e, l0, (mi ++ li). rewrite Emc, Ec, Emi, Ei, !app_assoc. repeat split; assumption.
Qed.

(* the moment of parting *)
Lemma D_accept sc si e : h e = true -> R sc si ->
  D (add_log (add_log sc (ERaise e)) (EHandler e)) (add_log si (ERaise e)).
Proof.
  intros He H. Rd H. exists [], e, (ERaise e :: log sc), []. simpl. rewrite Hlog.
  repeat split; try assumption; try reflexivity. apply noacc_cons; [reflexivity | assumption].
Qed.

(* ---- results ------------------------------------------------------------------------- *)
Definition Rb (rc ri : bres) : Prop :=
  match rc, ri with
  | BOk sc, BOk si => R sc si
  | BRaise e sc, BRaise e' si => e = e' /\ R sc si
  | _, _ => False
  end \/ D (bstate rc) (bstate ri).

Lemma raises_exec si k e : raw_cmd k = true -> raises k = Some e -> exec_cmd si k = BRaise e (add_log si (ERaise e)).
Proof.
  destruct k; simpl; try discriminate.
  - destruct (d <? 0); [|discriminate]. intros _ E. inversion E. reflexivity.
  - intros _ E. inversion E. reflexivity.
Qed.

(* the except clause of wrapped_action against the raising command of the plain action *)
Lemma handled_sim sc si e : R sc si ->
  Rb (exec_cmd sc (SHandled e (h e))) (BRaise e (add_log si (ERaise e))).
Proof.
  intro H. simpl. destruct (h e) eqn:He.
  - right. simpl. apply D_accept; assumption.
  - left. split; [reflexivity|]. apply R_handler; [exact He|]. apply R_add_log; [reflexivity | exact H].
Qed.

(* a command that does not raise, wrapped: same effect on related states *)
Lemma exec_cmd_sim sc si k : R sc si -> raw_cmd k = true -> raises k = None ->
  exists sc' si', exec_cmd sc (cwrap_cmd h k) = BOk sc' /\ exec_cmd si k = BOk si' /\ R sc' si'.
Proof.
  intros H Hr Hn. pose proof H as H0. Rd H.
  destruct k as [w l b|r| |d|e|e v|n|p f s0|pid]; try (simpl in Hn; discriminate).
  - rewrite cwrap_cmd_sched. simpl. do 2 eexists. split; [reflexivity|]. split; [reflexivity|].
    replace (due_of sc w) with (due_of si w) by (destruct w; simpl; rewrite ?Hclk; reflexivity).
    apply (R_enqueue sc si _ (PAct l b)); [exact Hr | exact H0].
  - simpl. do 2 eexists. split; [reflexivity|]. split; [reflexivity|]. apply R_cancel_id, H0.
  - simpl. do 2 eexists. split; [reflexivity|]. split; [reflexivity|]. apply R_set_enabled, H0.
  - simpl in *. destruct (d <? 0); [discriminate|]. do 2 eexists. split; [reflexivity|]. split; [reflexivity|].
    rewrite Hclk. apply R_set_clock, H0.
  - simpl. do 2 eexists. split; [reflexivity|]. split; [reflexivity|]. apply R_add_log; [reflexivity | exact H0].
  - simpl. do 2 eexists. split; [reflexivity|]. split; [reflexivity|].
    rewrite Hpers, map_length, Hnid, Hclk.
    change (PInfo p (cwrap_tab h f) false (next_id si)) with (wpi h (PInfo p f false (next_id si))).
    replace (map (wpi h) (pers si) ++ [wpi h (PInfo p f false (next_id si))])
      with (map (wpi h) (pers si ++ [PInfo p f false (next_id si)])) by (rewrite map_app; reflexivity).
    apply (R_enqueue _ _ _ (PPer (length (pers si)) s0)); [reflexivity|].
    apply R_set_pers; [|exact H0]. apply Forall_app. split; [assumption|]. constructor; [exact Hr | constructor].
  - simpl. do 2 eexists. split; [reflexivity|]. split; [reflexivity|]. apply R_dispose_per, H0.
Qed.

Lemma exec_body_one s c : exec_body s [c] = exec_cmd s c.
Proof. simpl. destruct (exec_cmd s c); reflexivity. Qed.

Lemma exec_body_sim b : forall sc si, R sc si -> forallb raw_cmd b = true ->
  Rb (exec_body sc (cwrap_body h b)) (exec_body si b).
Proof.
  induction b as [|x t IH]; intros sc si H Hb; [left; exact H|].
  simpl in Hb. apply andb_true_iff in Hb. destruct Hb as [Hx Ht].
  cbn [cwrap_body]. destruct (raises x) as [e|] eqn:Er.
  - rewrite exec_body_one. cbn [exec_body]. rewrite (raises_exec si x e Hx Er). apply handled_sim, H.
  - destruct (exec_cmd_sim sc si x H Hx Er) as (sc' & si' & E1 & E2 & H'). cbn [exec_body]. rewrite E1, E2.
    apply IH; assumption.
Qed.

Lemma resched_disposed_sim sc si pid p : R sc si ->
  Rb (resched_disposed sc pid p) (resched_disposed si pid p).
Proof.
  intro H. left. unfold resched_disposed.
  pose proof (R_dispose_per sc si pid H) as H1. pose proof H1 as H2. Rd H2. rewrite Hnid, Hclk.
  apply R_cancel_id. apply (R_enqueue _ _ _ (PPer pid 0)); [reflexivity | exact H1].
Qed.

Lemma invoke_sim sc si p : R sc si -> rawpay p = true -> Rb (invoke sc (wpay h p)) (invoke si p).
Proof.
  intros H Hp. destruct p as [l b|pid stt]; simpl; [apply exec_body_sim; assumption|].
  pose proof H as H0. Rd H. rewrite Hpers, nth_error_w.
  destruct (nth_error (pers si) pid) as [pi|] eqn:Hn; simpl; [|left; exact H0].
  destruct (p_disposed pi) eqn:Hd; [left; exact H0|].
  pose proof (rawp_nth _ _ _ Hrp Hn) as Hraw.
  rewrite plookup_cwrap. rewrite Hclk.
  assert (H1 : forall ns, R (add_notes (add_log sc (ETick pid stt (clock si))) ns)
                            (add_notes (add_log si (ETick pid stt (clock si))) ns)).
  { intro ns. apply R_add_notes, R_add_log; [reflexivity | exact H0]. }
  assert (Hrawr : raw_pres (plookup (p_fn pi) stt) = true).
  { clear - Hraw. destruct (p_fn pi) as [lt d]. unfold raw_tab, plookup in *; simpl in *.
    apply andb_true_iff in Hraw. destruct Hraw as [Hl Hdd].
    induction lt as [|[k v] t IH]; simpl in *; [assumption|].
    apply andb_true_iff in Hl. destruct Hl as [Hv Ht]. destruct (k =? stt); auto. }
  destruct (plookup (p_fn pi) stt) as [ns sl st'|ns|ns e|ns e v]; simpl cwrap_pres; cbv iota; try discriminate Hrawr.
  - (* PNext *)
    left. specialize (H1 ns). pose proof H1 as H2. Rd2 H2.
    set (s2c := add_notes (add_log sc (ETick pid stt (clock si))) ns) in *.
    set (s2i := add_notes (add_log si (ETick pid stt (clock si))) ns) in *.
    cbn [clock set_clock set_pers pers next_id]. rewrite Hclk2, Hnid2, Hpers2.
    change (PInfo (p_period pi) (cwrap_tab h (p_fn pi)) false (next_id s2i))
      with (wpi h (PInfo (p_period pi) (p_fn pi) false (next_id s2i))).
    rewrite <- map_set_nth.
    apply (R_enqueue _ _ _ (PPer pid st')); [reflexivity|].
    apply R_set_pers.
    + apply Forall_set_nth; [exact Hraw | exact Hrp2].
    + apply R_set_clock. exact H1.
  - (* PNextDisposed *)
    apply resched_disposed_sim. apply H1.
  - (* PRaise on the inner scheduler, PHandled through the wrapper *)
    specialize (H1 ns).
    set (s2c := add_notes (add_log sc (ETick pid stt (clock si))) ns) in *.
    set (s2i := add_notes (add_log si (ETick pid stt (clock si))) ns) in *.
    cbn [wpi p_period].
    destruct (h e) eqn:He.
    + right. eapply D_grow; [apply D_accept; [exact He | exact H1] | | ].
      * apply resched_disposed_steps.
      * simpl. apply dispose_per_steps.
    + left. split; [reflexivity|]. apply R_dispose_per. apply R_handler; [exact He|].
      apply R_add_log; [reflexivity | exact H1].
Qed.

Lemma label_of_w p : label_of (wpay h p) = label_of p.
Proof. destruct p; reflexivity. Qed.

Lemma run_item_sim sc si it q' newclk bumped : R sc si -> queue si = it :: q' ->
  Rb (run_item sc (witem h it) (map (witem h) q') newclk bumped) (run_item si it q' newclk bumped).
Proof.
  intros H Eq0. pose proof H as H0. Rd H. unfold run_item. rewrite Eq0 in Hrq. inversion Hrq as [|? ? Hit Hq']; subst.
  cbn [witem i_id]. rewrite Hcan.
  assert (H1 : forall ran, R (add_log (set_clock (dequeue sc (map (witem h) q')) newclk) (mkpop sc (witem h it) newclk bumped ran))
                             (add_log (set_clock (dequeue si q') newclk) (mkpop si it newclk bumped ran))).
  { intro ran. unfold mkpop. cbn [witem i_id i_pay i_due i_sclk i_born]. rewrite label_of_w, Hclk, Hnp.
    apply R_add_log; [reflexivity|]. apply R_set_clock. apply R_dequeue; assumption. }
  destruct (negb (memb (i_id it) (cancelled si))); [|left; apply H1].
  cbn [i_pay]. apply invoke_sim; [apply H1 | exact Hit].
Qed.

(* ---- loops --------------------------------------------------------------------------- *)
Definition Ro (oc oi : outcome) : Prop :=
  match oc, oi with
  | Finished sc, Finished si | Deadlock sc, Deadlock si | OutOfFuel sc, OutOfFuel si => R sc si
  | Raised e sc, Raised e' si => e = e' /\ R sc si
  | _, _ => False
  end \/ D (ostate oc) (ostate oi).

Lemma start_loop_sim c fuel : forall sc si sp, R sc si -> Ro (start_loop c fuel sc sp) (start_loop c fuel si sp).
Proof.
  induction fuel as [|fuel IH]; intros sc si sp H; pose proof H as H0; Rd H; simpl; rewrite Hen, Hq.
  - destruct (negb (enabled si)); [left; apply R_set_enabled, H0|].
    destruct (queue si); simpl; [left; apply R_set_enabled, H0 | left; exact H0].
  - destruct (negb (enabled si)); [left; apply R_set_enabled, H0|].
    destruct (queue si) as [|it q'] eqn:Eq; simpl; [left; apply R_set_enabled, H0|].
    assert (Hstep : forall newclk bumped sp',
      Ro match run_item sc (witem h it) (map (witem h) q') newclk bumped with
         | BOk s' => start_loop c fuel s' sp' | BRaise e s' => Raised e s' end
         match run_item si it q' newclk bumped with
         | BOk s' => start_loop c fuel s' sp' | BRaise e s' => Raised e s' end).
    { intros newclk bumped sp'. pose proof (run_item_sim sc si it q' newclk bumped H0 Eq) as S.
      pose proof (run_item_steps sc (witem h it) (map (witem h) q') newclk bumped) as Tc.
      pose proof (run_item_steps si it q' newclk bumped) as Ti.
      destruct (run_item sc (witem h it) (map (witem h) q') newclk bumped) as [sc'|ec sc'];
        destruct (run_item si it q' newclk bumped) as [si'|ei si']; simpl in S.
      - destruct S as [S|S]; [apply IH, S|]. right.
        eapply D_grow; [exact S | apply start_loop_steps | apply start_loop_steps].
      - destruct S as [[]|S]. right. eapply D_grow; [exact S | apply start_loop_steps | apply steps_refl].
      - destruct S as [[]|S]. right. eapply D_grow; [exact S | apply steps_refl | apply start_loop_steps].
      - destruct S as [S|S]; [left; exact S | right; exact S]. }
    cbn [witem i_due]. rewrite Hclk.
    destruct (clock si <? i_due it); [apply Hstep|].
    destruct (MAX_SPINNING <? sp)%nat; [|apply Hstep].
    destruct (c_kind c); [apply Hstep|]. destruct (c_prop_bump c); simpl; [left; exact H0 | apply Hstep].
Qed.

Lemma start_sim c fuel sc si : R sc si -> Ro (start c fuel sc) (start c fuel si).
Proof.
  intro H. pose proof H as H0. Rd H. unfold start. rewrite Hen. destruct (enabled si); [left; exact H0|].
  apply start_loop_sim, R_set_enabled, H0.
Qed.

Lemma finish_adv_sim sc si t : R sc si -> Ro (finish_adv sc t) (finish_adv si t).
Proof.
  intro H. pose proof H as H0. Rd H. left. unfold finish_adv. rewrite Hclk. apply R_set_enabled.
  destruct (clock si <? t); [apply R_set_clock|]; exact H0.
Qed.

Lemma advance_loop_sim fuel t : forall sc si, R sc si -> Ro (advance_loop fuel sc t) (advance_loop fuel si t).
Proof.
  induction fuel as [|fuel IH]; intros sc si H; pose proof H as H0; Rd H; simpl; rewrite Hen, Hq.
  - destruct (negb (enabled si)); [apply finish_adv_sim, H0|].
    destruct (queue si) as [|it q']; simpl; [apply finish_adv_sim, H0|].
    destruct (t <? i_due it); [apply finish_adv_sim, H0 | left; exact H0].
  - destruct (negb (enabled si)); [apply finish_adv_sim, H0|].
    destruct (queue si) as [|it q'] eqn:Eq; simpl; [apply finish_adv_sim, H0|].
    destruct (t <? i_due it); [apply finish_adv_sim, H0|].
    rewrite Hclk.
    set (newclk := if clock si <? i_due it then i_due it else clock si).
    pose proof (run_item_sim sc si it q' newclk false H0 Eq) as S.
    pose proof (run_item_steps sc (witem h it) (map (witem h) q') newclk false) as Tc.
    pose proof (run_item_steps si it q' newclk false) as Ti.
    destruct (run_item sc (witem h it) (map (witem h) q') newclk false) as [sc'|ec sc'];
      destruct (run_item si it q' newclk false) as [si'|ei si']; simpl in S.
    + destruct S as [S|S]; [apply IH, S|]. right.
      eapply D_grow; [exact S | apply advance_loop_steps | apply advance_loop_steps].
    + destruct S as [[]|S]. right. eapply D_grow; [exact S | apply advance_loop_steps | apply steps_refl].
    + destruct S as [[]|S]. right. eapply D_grow; [exact S | apply steps_refl | apply advance_loop_steps].
    + destruct S as [S|S]; [left; exact S | right; exact S].
Qed.

Lemma advance_to_sim fuel sc si t : R sc si -> Ro (advance_to fuel sc t) (advance_to fuel si t).
Proof.
  intro H. pose proof H as H0. Rd H. unfold advance_to. rewrite Hclk, Hen.
  destruct (t <? clock si); [left; split; [reflexivity | exact H0]|].
  destruct ((clock si =? t) || enabled si); [left; exact H0|].
  apply advance_loop_sim, R_set_enabled, H0.
Qed.

Lemma step_t_sim c fuel sc si cmd : R sc si -> raw_t cmd = true ->
  Ro (step_t c fuel sc (cwrap_t h cmd)) (step_t c fuel si cmd).
Proof.
  intros H Hr. destruct cmd as [k| | |t|d]; simpl.
  - destruct (raises k) as [e|] eqn:Er.
    + (* a top-level call that raises by itself is not wrapped *)
      assert (Ek : cwrap_cmd h k = k) by (destruct k; simpl in *; try discriminate; reflexivity).
      rewrite Ek, !(raises_exec _ k e Hr Er). simpl. left. split; [reflexivity|].
      apply R_add_log; [reflexivity | exact H].
    + destruct (exec_cmd_sim sc si k H Hr Er) as (sc' & si' & E1 & E2 & H'). rewrite E1, E2. left. exact H'.
  - apply start_sim, H.
  - apply start_sim. unfold silent.
    apply (R_enqueue _ _ _ (PAct (-1) [])); [reflexivity|].
    apply (R_enqueue _ _ _ (PAct (-1) [])); [reflexivity|].
    apply (R_enqueue _ _ _ (PAct (-1) [])); [reflexivity|]. exact H.
  - apply advance_to_sim, H.
  - pose proof H as H0. Rd H. rewrite Hclk. apply advance_to_sim, H0.
Qed.

(* ---- histories ----------------------------------------------------------------------- *)
Definition Rr (rc ri : result) : Prop :=
  match rc, ri with
  | RDone sc, RDone si | RDeadlock sc, RDeadlock si | ROutOfFuel sc, ROutOfFuel si => R sc si
  | _, _ => False
  end \/ D (state_of rc) (state_of ri).

Lemma D_run c fuel : forall hc hi sc si, D sc si -> D (state_of (run c fuel sc hc)) (state_of (run c fuel si hi)).
Proof. intros hc hi sc si Hd. eapply D_grow; [exact Hd | apply run_steps | apply run_steps]. Qed.

Lemma D_add_log sc si ec ei : D sc si -> D (add_log sc ec) si /\ D sc (add_log si ei) /\ D (add_log sc ec) (add_log si ei).
Proof.
  intros (lc & e & l0 & li & Ec & He & Hn & Ei).
  repeat split.
  - exists (ec :: lc), e, l0, li. simpl. rewrite Ec. repeat split; assumption.
  - exists lc, e, l0, (ei :: li). simpl. rewrite Ei. repeat split; assumption.
  - exists (ec :: lc), e, l0, (ei :: li). simpl. rewrite Ec, Ei. repeat split; assumption.
Qed.

Lemma run_sim c fuel : forall hs sc si, R sc si -> forallb raw_t hs = true ->
  Rr (run c fuel sc (catch_history h hs)) (run c fuel si hs).
Proof.
  induction hs as [|cmd t IH]; intros sc si H Hr; simpl; [left; exact H|].
  simpl in Hr. apply andb_true_iff in Hr. destruct Hr as [Hc Ht].
  pose proof (step_t_sim c fuel sc si cmd H Hc) as S.
  (* after the step each side logs its own clock (and exception); in the parted phase anything goes *)
  assert (Dcase : forall sc' si' (xc xi : st -> st),
            (forall s, exists more, log (xc s) = more ++ log s) -> (forall s, exists more, log (xi s) = more ++ log s) ->
            D sc' si' -> forall hc hi, D (state_of (run c fuel (xc sc') hc)) (state_of (run c fuel (xi si') hi))).
  { intros sc' si' xc xi Gc Gi (lc & e & l0 & li & Ec & He & Hn & Ei) hc hi. apply D_run.
    destruct (Gc sc') as [mc Emc]. destruct (Gi si') as [mi Emi].
    exists (mc ++ lc), e, l0, (mi ++ li). rewrite Emc, Ec, Emi, Ei, !app_assoc. repeat split; assumption. }
  assert (G1 : forall s, exists more, log (add_log s (EClock (clock s))) = more ++ log s)
    by (intro s; exists [EClock (clock s)]; reflexivity).
  assert (G2 : forall e s, exists more, log (add_log (add_log s (EExc e)) (EClock (clock s))) = more ++ log s)
    by (intros e s; exists [EClock (clock s); EExc e]; reflexivity).
  assert (G0 : forall s : st, exists more, log s = more ++ log s) by (intro s; exists []; reflexivity).
  destruct (step_t c fuel sc (cwrap_t h cmd)) as [sc'|ec sc'|sc'|sc'];
    destruct (step_t c fuel si cmd) as [si'|ei si'|si'|si']; simpl in S;
    destruct S as [S|S]; try (exfalso; exact S).
  all: try (right;
            first [ exact (Dcase sc' si' (fun s => add_log s (EClock (clock s))) (fun s => add_log s (EClock (clock s))) G1 G1 S _ _)
                  | exact (Dcase sc' si' (fun s => add_log s (EClock (clock s))) (fun s => add_log (add_log s (EExc ei)) (EClock (clock s))) G1 (G2 ei) S _ _)
                  | exact (Dcase sc' si' (fun s => add_log (add_log s (EExc ec)) (EClock (clock s))) (fun s => add_log s (EClock (clock s))) (G2 ec) G1 S _ _)
                  | exact (Dcase sc' si' (fun s => add_log (add_log s (EExc ec)) (EClock (clock s))) (fun s => add_log (add_log s (EExc ei)) (EClock (clock s))) (G2 ec) (G2 ei) S _ _)
                  | exact (Dcase sc' si' (fun s => add_log s (EClock (clock s))) (fun s => s) G1 G0 S _ [])
                  | exact (Dcase sc' si' (fun s => add_log (add_log s (EExc ec)) (EClock (clock s))) (fun s => s) (G2 ec) G0 S _ [])
                  | exact (Dcase sc' si' (fun s => s) (fun s => add_log s (EClock (clock s))) G0 G1 S [] _)
                  | exact (Dcase sc' si' (fun s => s) (fun s => add_log (add_log s (EExc ei)) (EClock (clock s))) G0 (G2 ei) S [] _)
                  | exact S ]; fail).
  - (* Finished / Finished *)
    pose proof S as S0. Rd S. rewrite Hclk. apply IH; [|exact Ht]. apply R_add_log; [reflexivity | exact S0].
  - (* Raised / Raised *)
    destruct S as [<- S]. pose proof S as S0. Rd S. rewrite Hclk. apply IH; [|exact Ht].
    apply R_add_log; [reflexivity|]. apply R_add_log; [reflexivity | exact S0].
  - left. exact S.
  - left. exact S.
Qed.

(* ---- observations -------------------------------------------------------------------- *)
Definition oe (e : event) : list oev :=
  match e with
  | EPop r => if r_ran r && (0 <=? r_label r) then [ORun (r_label r) (r_clk r)] else []
  | ETick pid stt clk => [OTick pid stt clk]
  | EHandler e => [OHandler e]
  | ENote n => [ONote n]
  | EExc e => [OExc e]
  | EClock k => [OClock k]
  | ECancel _ | EPDispose _ | ERaise _ => []
  end.

Lemma obs_of_oe e t acc : obs_of (e :: t) acc = obs_of t (oe e ++ acc).
Proof. destruct e; simpl; try reflexivity. destruct (r_ran r && (0 <=? r_label r)); reflexivity. Qed.

Lemma obs_of_acc l : forall acc, obs_of l acc = obs_of l [] ++ acc.
Proof.
  induction l as [|e t IH]; intro acc; [reflexivity|]. rewrite !obs_of_oe, (IH (oe e ++ acc)), (IH (oe e ++ [])).
  rewrite app_nil_r, <- app_assoc. reflexivity.
Qed.

Lemma obs_of_app a b acc : obs_of (a ++ b) acc = obs_of b [] ++ obs_of a acc.
Proof.
  revert acc. induction a as [|e t IH]; intro acc; [apply obs_of_acc|].
  change ((e :: t) ++ b) with (e :: (t ++ b)). rewrite (obs_of_oe e (t ++ b)), (obs_of_oe e t). apply IH.
Qed.

Lemma obs_of_cons e t : obs_of (e :: t) [] = obs_of t [] ++ oe e.
Proof. rewrite obs_of_oe, obs_of_acc, app_nil_r. reflexivity. Qed.

Lemma obs_of_keep l : obs_of (filter not_ehandler l) [] = filter not_handler (obs_of l []).
Proof.
  induction l as [|e t IH]; [reflexivity|]. rewrite (obs_of_cons e t), filter_app, <- IH.
  destruct e; cbn [filter not_ehandler]; rewrite ?obs_of_cons; cbn [oe filter not_handler]; rewrite ?app_nil_r; try reflexivity.
  destruct (r_ran r && (0 <=? r_label r)); reflexivity.
Qed.

Lemma obs_handler_in l e : In (OHandler e) (obs_of l []) -> In (EHandler e) l.
Proof.
  induction l as [|x t IH]; [intros []|]. rewrite obs_of_oe, obs_of_acc. intro Hin. apply in_app_or in Hin.
  destruct Hin as [Hin|Hin]; [right; apply IH, Hin|]. rewrite app_nil_r in Hin.
  destruct x; simpl in Hin; try (destruct (r_ran r && (0 <=? r_label r))); simpl in Hin;
    try (destruct Hin as [Hin|[]]; try discriminate Hin); try (destruct Hin; fail).
  inversion Hin; subst. left. reflexivity.
Qed.

Definition tail_of (r : result) : list oev :=
  match r with RDone _ => [] | RDeadlock _ => [OHang] | ROutOfFuel _ => [OFuel] end.

Lemma observe_tail r : observe r = obs_of (log (state_of r)) [] ++ tail_of r.
Proof. destruct r; simpl; [rewrite app_nil_r; reflexivity | apply obs_of_acc | apply obs_of_acc]. Qed.

Lemma tail_nh r : filter not_handler (tail_of r) = tail_of r /\ forall e, ~ In (OHandler e) (tail_of r).
Proof. destruct r; simpl; split; try reflexivity; intros e H; try (destruct H as [H|[]]; discriminate H); destruct H. Qed.

Theorem run_observe_sim c fuel hs sc si : R sc si -> forallb raw_t hs = true ->
  let oc := observe (run c fuel sc (catch_history h hs)) in
  let oi := observe (run c fuel si hs) in
  ((forall e, In (OHandler e) oc -> h e = false) /\ filter not_handler oc = oi) \/
  (exists pre e post rest, oc = pre ++ OHandler e :: post /\ h e = true /\
     (forall e', In (OHandler e') pre -> h e' = false) /\ oi = filter not_handler pre ++ rest).
Proof.
  intros H Hr oc oi. pose proof (run_sim c fuel hs sc si H Hr) as S. unfold oc, oi. clear oc oi.
  set (rc := run c fuel sc (catch_history h hs)) in *. set (ri := run c fuel si hs) in *.
  rewrite (observe_tail rc), (observe_tail ri).
  destruct S as [S|S].
  - left.
    assert (E : R (state_of rc) (state_of ri) /\ tail_of rc = tail_of ri).
    { destruct rc, ri; simpl in S; try (exfalso; exact S); split; try exact S; reflexivity. }
    destruct E as [E Et]. Rd E. split.
    + intros e Hin. apply in_app_or in Hin. destruct Hin as [Hin|Hin]; [apply Hacc, obs_handler_in, Hin|].
      exfalso. exact (proj2 (tail_nh rc) e Hin).
    + rewrite filter_app, (proj1 (tail_nh rc)), <- obs_of_keep, Hlog, Et. reflexivity.
  - right. destruct S as (lc & e & l0 & li & Ec & He & Hn & Ei).
    exists (obs_of l0 []), e, (obs_of lc [] ++ tail_of rc), (obs_of li [] ++ tail_of ri).
    split; [|split; [exact He|split]].
    + rewrite Ec, obs_of_app, obs_of_cons. cbn [oe]. rewrite <- !app_assoc. reflexivity.
    + intros e' Hin. apply Hn, obs_handler_in, Hin.
    + rewrite Ei, obs_of_app, obs_of_keep, <- app_assoc. reflexivity.
Qed.
End Sim.

(* ---- the theorems -------------------------------------------------------------------- *)
(* ANY handler, ANY raw history: up to the first accepted exception the CatchScheduler run shows
   what the inner scheduler shows (plus the handler calls) *)
Theorem catch_simulates_until_accept c fuel h c0 hs : forallb raw_t hs = true ->
  let oc := observe (run_catch c fuel h (init c0) hs) in
  let oi := observe (run c fuel (init c0) hs) in
  ((forall e, In (OHandler e) oc -> h e = false) /\ filter not_handler oc = oi) \/
  (exists pre e post rest, oc = pre ++ OHandler e :: post /\ h e = true /\
     (forall e', In (OHandler e') pre -> h e' = false) /\ oi = filter not_handler pre ++ rest).
Proof. intro Hr. unfold run_catch. apply run_observe_sim; [apply R_init | exact Hr]. Qed.

(* if no handler call of the run was answered True, the two runs show the same *)
Theorem catch_simulates_if_all_rejected c fuel h c0 hs : forallb raw_t hs = true ->
  (forall e, In (OHandler e) (observe (run_catch c fuel h (init c0) hs)) -> h e = false) ->
  filter not_handler (observe (run_catch c fuel h (init c0) hs)) = observe (run c fuel (init c0) hs).
Proof.
  intros Hr Hall. destruct (catch_simulates_until_accept c fuel h c0 hs Hr) as [[_ E]|(pre & e & post & rest & Eo & He & _)].
  - exact E.
  - exfalso. assert (Hf : h e = false) by (apply Hall; rewrite Eo; apply in_or_app; right; left; reflexivity).
    rewrite He in Hf. discriminate Hf.
Qed.

(* the reject-all handler: observationally the inner scheduler *)
Theorem catch_reject_all_simulates c fuel c0 hs : forallb raw_t hs = true ->
  filter not_handler (observe (run_catch c fuel (fun _ => false) (init c0) hs)) = observe (run c fuel (init c0) hs).
Proof. intro Hr. apply catch_simulates_if_all_rejected; [exact Hr | reflexivity]. Qed.
