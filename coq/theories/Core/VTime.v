(* Executable model of the virtual-time schedulers

     reactivex/scheduler/virtualtimescheduler.py   VirtualTimeScheduler
     reactivex/testing/testscheduler.py            TestScheduler      (numeric clock)
     reactivex/scheduler/historicalscheduler.py    HistoricalScheduler (datetime clock)
     reactivex/internal/priorityqueue.py           PriorityQueue
     reactivex/scheduler/scheduleditem.py          ScheduledItem
     reactivex/scheduler/periodicscheduler.py      PeriodicScheduler.schedule_periodic

   written from the code as it is in the working tree (no proofs here).

   Time.  Every time value is an integer number of MICROSECONDS (the resolution
   of datetime/timedelta).  All comparisons in the code are made on datetimes
   ([self.now], [item.duetime], [dt]); a numeric clock c is the float
   c/10^6 seconds and is converted by to_datetime/to_seconds, which is exact on
   the values the harness uses (multiples of 1 us of moderate size).  The two
   clock kinds differ in one place only: the amount by which start() bumps the
   clock after MAX_SPINNING same-instant items (1.0 second / 1000 us).

   Actions are finite trees of scheduler commands: an action is a label and a
   body (list of commands); [SSched] schedules a further action.  The run
   loops are structurally recursive on explicit fuel (one unit per dequeued
   item); [OutOfFuel] is a distinguished result. *)
From RxVerif Require Import Base.Prelude.

Inductive kind := Numeric | Datetime.

(* [c_prop_bump = true] is the code BEFORE the repair recorded in
   proposed_fixes/C29-datetime-spin-bump-deadlock.diff: the datetime bump in
   start() was written [self.clock += ...], which calls the property getter,
   which takes the non-reentrant [_lock] that start() is holding.  The
   working tree corresponds to [c_prop_bump = false]. *)
Record cfg := Cfg { c_kind : kind; c_prop_bump : bool }.

Definition MAX_SPINNING : nat := 100.
Definition bump_of (k : kind) : Z :=
  match k with Numeric => 1000000 (* self._clock += 1.0 *) | Datetime => 1000 (* timedelta(microseconds=1000) *) end.

(* exception raised by sleep/advance_to with a target in the past *)
Definition AOOR : Z := -1.   (* ArgumentOutOfRangeException *)

(* priorityqueue.py: MIN_COUNT = ~maxsize *)
Definition MIN_COUNT : Z := - 9223372036854775808.

(* ------------------------------------------------------------------ *)
(* Syntax of actions                                                    *)

Inductive when := Rel (d : Z) | Abs (t : Z) | Now.

(* result of one call of a periodic action on a state:
   notes = observable side effects (handler calls of a CatchScheduler wrapper) *)
Inductive pres :=
  | PNext (notes : list Z) (sl : N) (st : Z)
      (* advances the virtual clock by sl microseconds (scheduler.sleep(sl) inside the action: the
         action takes virtual time), then returns the next state st *)
  | PNextDisposed (notes : list Z)         (* disposes the periodic subscription, then returns *)
  | PRaise (notes : list Z) (e : Z)        (* raises e *)
  | PHandled (notes : list Z) (e : Z) (v : bool).
      (* CatchScheduler.schedule_periodic wrapper: the action raised e, the handler was called and
         returned v; v=true: disposes the subscription and returns None, v=false: re-raises *)

(* finite table: state -> result, with a default *)
Definition ptable : Type := (list (Z * pres) * pres)%type.
Fixpoint plookup_l (l : list (Z * pres)) (d : pres) (z : Z) : pres :=
  match l with [] => d | (k, v) :: t => if k =? z then v else plookup_l t d z end.
Definition plookup (t : ptable) (z : Z) : pres := plookup_l (fst t) (snd t) z.

Inductive scmd :=
  | SSched (w : when) (label : Z) (body : list scmd)  (* scheduler.schedule*(action[label, body]) *)
  | SCancel (r : nat)            (* dispose the disposable returned by the r-th schedule call ever made *)
  | SStop                        (* scheduler.stop() *)
  | SSleep (d : Z)               (* scheduler.sleep(d) *)
  | SRaise (e : Z)               (* raise e *)
  | SHandled (e : Z) (v : bool)  (* CatchScheduler wrapper: the wrapped action raised e, the handler was
                                    called and returned v; v=false re-raises (see Core/CatchSched.v) *)
  | SNote (n : Z)                (* an observable side effect *)
  | SPeriodic (p : Z) (f : ptable) (st0 : Z)   (* scheduler.schedule_periodic(p, f, st0) *)
  | SPCancel (pid : nat).        (* dispose the disposable returned by the pid-th schedule_periodic call *)

(* ------------------------------------------------------------------ *)
(* State                                                                *)

Inductive payload :=
  | PAct (label : Z) (body : list scmd)
  | PPer (pid : nat) (st : Z).          (* the [periodic] closure of schedule_periodic, with its state *)

(* a queue entry  (ScheduledItem, count);  id/born/sclk are ghost fields:
   id   = index of the schedule_absolute call that created it (= index of its disposable)
   born = number of items dequeued so far when it was enqueued
   sclk = clock when it was enqueued *)
Record item := Item { i_due : Z; i_cnt : Z; i_id : nat; i_born : nat; i_sclk : Z; i_pay : payload }.

Record pinfo := PInfo { p_period : Z; p_fn : ptable; p_disposed : bool; p_cur : nat }.

(* one dequeued item *)
Record poprec := PopRec {
  r_id : nat; r_label : Z; r_due : Z; r_sclk : Z;
  r_before : Z;       (* clock before the dequeue *)
  r_clk : Z;          (* clock when the action is invoked *)
  r_born : nat; r_idx : nat;   (* idx = number of items dequeued before this one *)
  r_bumped : bool;    (* the spin bump of start() happened at this dequeue *)
  r_ran : bool }.     (* false: the item was cancelled and skipped *)

Inductive event :=
  | EPop (r : poprec)
  | ETick (pid : nat) (st : Z) (clk : Z)   (* periodic action called with state st *)
  | ECancel (id : nat)
  | EPDispose (pid : nat)
  | ERaise (e : Z)                         (* a command raised e *)
  | EHandler (e : Z)                       (* CatchScheduler handler called with e *)
  | ENote (n : Z)
  | EExc (e : Z)                           (* a top-level call raised e *)
  | EClock (clk : Z).                      (* clock read after a top-level call *)

Record st := St {
  clock : Z;                (* _clock *)
  queue : list item;        (* _queue, abstract view: sorted by (duetime, count) *)
  count : Z;                (* _queue.count *)
  enabled : bool;           (* _is_enabled *)
  cancelled : list nat;     (* ids whose item.disposable is disposed *)
  next_id : nat;
  pers : list pinfo;        (* one entry per schedule_periodic call: its MultipleAssignmentDisposable *)
  npops : nat;
  log : list event }.       (* newest first *)

Definition init (c0 : Z) : st :=
  St c0 [] MIN_COUNT false [] 0 [] 0 [].

Definition set_clock (s : st) (c : Z) : st :=
  St c (queue s) (count s) (enabled s) (cancelled s) (next_id s) (pers s) (npops s) (log s).
Definition set_enabled (s : st) (b : bool) : st :=
  St (clock s) (queue s) (count s) b (cancelled s) (next_id s) (pers s) (npops s) (log s).
Definition set_pers (s : st) (p : list pinfo) : st :=
  St (clock s) (queue s) (count s) (enabled s) (cancelled s) (next_id s) p (npops s) (log s).
Definition add_log (s : st) (e : event) : st :=
  St (clock s) (queue s) (count s) (enabled s) (cancelled s) (next_id s) (pers s) (npops s) (e :: log s).
Fixpoint add_notes (s : st) (ns : list Z) : st :=
  match ns with [] => s | n :: t => add_notes (add_log s (ENote n)) t end.

(* ------------------------------------------------------------------ *)
(* PriorityQueue: heapq on (item, count) tuples.  Tuple comparison: the first
   components are compared with ScheduledItem.__eq__ (duetime equality); if
   equal the counts decide, otherwise ScheduledItem.__lt__ (duetime).  heapq
   itself is trusted to return the minimum for this order; the abstract view
   of the heap is the list sorted by it. *)
Definition key_lt (x y : item) : bool :=
  if i_due x =? i_due y then i_cnt x <? i_cnt y else i_due x <? i_due y.

Fixpoint insert (x : item) (q : list item) : list item :=
  match q with
  | [] => [x]
  | y :: t => if key_lt x y then x :: q else y :: insert x t
  end.

(* enqueue: heappush(items, (item, count)); count += 1
   (VirtualTimeScheduler.schedule_absolute: ScheduledItem(...); with _lock: enqueue) *)
Definition enqueue (s : st) (due : Z) (p : payload) : st :=
  St (clock s)
     (insert (Item due (count s) (next_id s) (npops s) (clock s) p) (queue s))
     (count s + 1) (enabled s) (cancelled s) (S (next_id s)) (pers s) (npops s) (log s).

(* dequeue: heappop; if the queue became empty the count is reset *)
Definition dequeue (s : st) (q' : list item) : st :=
  St (clock s) q' (match q' with [] => MIN_COUNT | _ => count s end)
     (enabled s) (cancelled s) (next_id s) (pers s) (S (npops s)) (log s).

Definition memb (n : nat) (l : list nat) : bool := existsb (Nat.eqb n) l.

(* item.disposable.dispose() for the r-th disposable handed out *)
Definition cancel_id (s : st) (r : nat) : st :=
  if (r <? next_id s)%nat then
    St (clock s) (queue s) (count s) (enabled s) (r :: cancelled s) (next_id s) (pers s) (npops s)
       (ECancel r :: log s)
  else s.

Fixpoint set_nth {A} (n : nat) (x : A) (l : list A) : list A :=
  match l, n with
  | [], _ => []
  | _ :: t, O => x :: t
  | y :: t, S n' => y :: set_nth n' x t
  end.

(* MultipleAssignmentDisposable.dispose() of the pid-th periodic subscription:
   marks it disposed and disposes the current inner disposable (the pending item) *)
Definition dispose_per (s : st) (pid : nat) : st :=
  match nth_error (pers s) pid with
  | None => s
  | Some pi =>
      if p_disposed pi then s
      else cancel_id (add_log (set_pers s (set_nth pid (PInfo (p_period pi) (p_fn pi) true (p_cur pi)) (pers s)))
                              (EPDispose pid))
                     (p_cur pi)
  end.

(* ------------------------------------------------------------------ *)
(* Commands (executed by an action body, or at top level).  The lock is not
   held while an action runs; schedule_absolute/stop/sleep take it for a leaf
   critical section. *)

Inductive bres := BOk (s : st) | BRaise (e : Z) (s : st).

Definition due_of (s : st) (w : when) : Z :=
  match w with
  | Rel d => clock s + d     (* schedule_relative: add(self._clock, duetime), no clamping *)
  | Abs t => t               (* schedule_absolute: a past due time is accepted *)
  | Now => clock s           (* schedule: schedule_absolute(self._clock) *)
  end.

Definition exec_cmd (s : st) (c : scmd) : bres :=
  match c with
  | SSched w l b => BOk (enqueue s (due_of s w) (PAct l b))
  | SCancel r => BOk (cancel_id s r)
  | SStop => BOk (set_enabled s false)
  | SSleep d =>
      (* sleep: dt = now + d; if self.now > dt: raise; self._clock = dt *)
      if d <? 0 then BRaise AOOR (add_log s (ERaise AOOR)) else BOk (set_clock s (clock s + d))
  | SRaise e => BRaise e (add_log s (ERaise e))
  | SHandled e v =>
      let s' := add_log (add_log s (ERaise e)) (EHandler e) in
      if v then BOk s' else BRaise e s'
  | SNote n => BOk (add_log s (ENote n))
  | SPeriodic p f st0 =>
      (* disp = MAD(); disp.disposable = self.schedule_relative(period, periodic, state) *)
      let pid := length (pers s) in
      let s1 := set_pers s (pers s ++ [PInfo p f false (next_id s)]) in
      BOk (enqueue s1 (clock s1 + p) (PPer pid st0))
  | SPCancel pid => BOk (dispose_per s pid)
  end.

Fixpoint exec_body (s : st) (b : list scmd) : bres :=
  match b with
  | [] => BOk s
  | c :: t => match exec_cmd s c with
              | BOk s' => exec_body s' t
              | r => r
              end
  end.

(* the periodic action returned after the subscription was disposed:
   [disp.disposable = scheduler.schedule_relative(...)] on a disposed MAD disposes the new item *)
Definition resched_disposed (s : st) (pid : nat) (period : Z) : bres :=
  let s2 := dispose_per s pid in
  let nid := next_id s2 in
  BOk (cancel_id (enqueue s2 (clock s2 + period) (PPer pid 0)) nid).

(* ScheduledItem.invoke for a non-cancelled item.  For a PPer payload this is the
   [periodic] closure of PeriodicScheduler.schedule_periodic; the next delay is the
   period minus the virtual time the action took. *)
Definition invoke (s : st) (p : payload) : bres :=
  match p with
  | PAct _ b => exec_body s b
  | PPer pid stt =>
      match nth_error (pers s) pid with
      | None => BOk s
      | Some pi =>
          if p_disposed pi then BOk s            (* if disp.is_disposed: return *)
          else
            let s1 := add_log s (ETick pid stt (clock s)) in
            match plookup (p_fn pi) stt with
            | PRaise ns e =>                      (* except: disp.dispose(); raise *)
                BRaise e (dispose_per (add_log (add_notes s1 ns) (ERaise e)) pid)
            | PNext ns sl st' =>
                (* now = scheduler.now; state = action(state)   -- the action sleeps sl *)
                let s2 := add_notes s1 ns in
                let s2' := set_clock s2 (clock s2 + Z.of_N sl) in
                (* time = seconds - (scheduler.now - now).total_seconds()
                   disp.disposable = scheduler.schedule_relative(time, periodic, st')
                   (schedule_relative does not clamp: a negative delay gives a due time in the past) *)
                let elapsed := clock s2' - clock s in
                let s3 := set_pers s2' (set_nth pid (PInfo (p_period pi) (p_fn pi) (p_disposed pi) (next_id s2')) (pers s2')) in
                BOk (enqueue s3 (clock s3 + (p_period pi - elapsed)) (PPer pid st'))
            | PNextDisposed ns =>                 (* the action disposed disp; the new item is disposed at once *)
                resched_disposed (add_notes s1 ns) pid (p_period pi)
            | PHandled ns e v =>
                let s2 := add_log (add_log (add_notes s1 ns) (ERaise e)) (EHandler e) in
                if v then resched_disposed s2 pid (p_period pi)       (* disp.dispose(); return None *)
                else BRaise e (dispose_per s2 pid)                   (* raise; then disp.dispose(); raise *)
            end
      end
  end.

Definition label_of (p : payload) : Z :=
  match p with PAct l _ => l | PPer pid _ => - 2 - Z.of_nat pid end.

(* the [clock] property: [with self._lock: return self._clock] *)
Definition clock_property (lock_held : bool) (s : st) : option Z :=
  if lock_held then None (* self-deadlock on the non-reentrant Lock *) else Some (clock s).

(* ------------------------------------------------------------------ *)
(* start / advance_to                                                   *)

Inductive outcome :=
  | Finished (s : st)
  | Raised (e : Z) (s : st)      (* an exception left the call; _is_enabled is NOT reset by the code *)
  | Deadlock (s : st)
  | OutOfFuel (s : st).

Definition mkpop (s : st) (it : item) (newclk : Z) (bumped ran : bool) : event :=
  EPop (PopRec (i_id it) (label_of (i_pay it)) (i_due it) (i_sclk it) (clock s) newclk
               (i_born it) (npops s) bumped ran).

(* the part of a loop iteration after the critical section:
   if not item.is_cancelled(): item.invoke() *)
Definition run_item (s : st) (it : item) (q' : list item) (newclk : Z) (bumped : bool) : bres :=
  let ran := negb (memb (i_id it) (cancelled s)) in
  let s1 := add_log (set_clock (dequeue s q') newclk) (mkpop s it newclk bumped ran) in
  if ran then invoke s1 (i_pay it) else BOk s1.

Fixpoint start_loop (c : cfg) (fuel : nat) (s : st) (spinning : nat) : outcome :=
  (* with self._lock: *)
  if negb (enabled s) then Finished (set_enabled s false)      (* break; self.stop() *)
  else match queue s with
  | [] => Finished (set_enabled s false)
  | it :: q' =>
      match fuel with
      | O => OutOfFuel s
      | S fuel' =>
          let step (newclk : Z) (bumped : bool) (spinning' : nat) :=
            match run_item s it q' newclk bumped with
            | BOk s' => start_loop c fuel' s' (S spinning')        (* spinning += 1 *)
            | BRaise e s' => Raised e s'
            end in
          if clock s <? i_due it then step (i_due it) false 0%nat   (* item.duetime > self.now *)
          else if (MAX_SPINNING <? spinning)%nat then               (* elif spinning > MAX_SPINNING *)
            match c_kind c with
            | Datetime =>
                if c_prop_bump c then
                  match clock_property true s with
                  | None => Deadlock s
                  | Some k => step (k + bump_of Datetime) true 0%nat
                  end
                else step (clock s + bump_of Datetime) true 0%nat
            | Numeric => step (clock s + bump_of Numeric) true 0%nat
            end
          else step (clock s) false spinning
      end
  end.

Definition start (c : cfg) (fuel : nat) (s : st) : outcome :=
  if enabled s then Finished s
  else start_loop c fuel (set_enabled s true) 0.

(* the final critical section of advance_to (with the repair recorded in
   proposed_fixes/C28-advance-to-clock-backwards.diff: the clock is moved to the
   target only if it is not already past it) *)
Definition finish_adv (s : st) (t : Z) : outcome :=
  Finished (set_enabled (if clock s <? t then set_clock s t else s) false).

Fixpoint advance_loop (fuel : nat) (s : st) (t : Z) : outcome :=
  if negb (enabled s) then finish_adv s t
  else match queue s with
  | [] => finish_adv s t
  | it :: q' =>
      if t <? i_due it then finish_adv s t              (* item.duetime > dt: break *)
      else match fuel with
      | O => OutOfFuel s
      | S fuel' =>
          let newclk := if clock s <? i_due it then i_due it else clock s in
          match run_item s it q' newclk false with
          | BOk s' => advance_loop fuel' s' t
          | BRaise e s' => Raised e s'
          end
      end
  end.

Definition advance_to (fuel : nat) (s : st) (t : Z) : outcome :=
  if t <? clock s then Raised AOOR s                       (* if self.now > dt: raise *)
  else if (clock s =? t) || enabled s then Finished s      (* if self.now == dt or self._is_enabled: return *)
  else advance_loop fuel (set_enabled s true) t.

(* ------------------------------------------------------------------ *)
(* Top-level histories                                                  *)

Inductive tcmd :=
  | TDo (c : scmd)
  | TStart
  | TStartTest            (* TestScheduler.start(): create@100 s, subscribe@200 s, dispose@1000 s, then start *)
  | TAdvTo (t : Z)
  | TAdvBy (d : Z).

Definition of_bres (r : bres) : outcome :=
  match r with BOk s => Finished s | BRaise e s => Raised e s end.

Definition silent (s : st) (t : Z) : st := enqueue s t (PAct (-1) []).

Definition step_t (c : cfg) (fuel : nat) (s : st) (cmd : tcmd) : outcome :=
  match cmd with
  | TDo k => of_bres (exec_cmd s k)
  | TStart => start c fuel s
  | TStartTest => start c fuel (silent (silent (silent s 100000000) 200000000) 1000000000)
  | TAdvTo t => advance_to fuel s t
  | TAdvBy d => advance_to fuel s (clock s + d)     (* advance_to(add(now, d)) *)
  end.

Inductive result := RDone (s : st) | RDeadlock (s : st) | ROutOfFuel (s : st).

Fixpoint run (c : cfg) (fuel : nat) (s : st) (cs : list tcmd) : result :=
  match cs with
  | [] => RDone s
  | cmd :: t =>
      match step_t c fuel s cmd with
      | Finished s' => run c fuel (add_log s' (EClock (clock s'))) t
      | Raised e s' => run c fuel (add_log (add_log s' (EExc e)) (EClock (clock s'))) t
      | Deadlock s' => RDeadlock s'
      | OutOfFuel s' => ROutOfFuel s'
      end
  end.

Definition state_of (r : result) : st :=
  match r with RDone s | RDeadlock s | ROutOfFuel s => s end.

(* ------------------------------------------------------------------ *)
(* Observable behaviour (what the harness can see on the implementation) *)

Inductive oev :=
  | ORun (label clk : Z) | OTick (pid : nat) (st clk : Z) | OHandler (e : Z) | ONote (n : Z)
  | OExc (e : Z) | OClock (clk : Z) | OHang | OFuel.

Fixpoint obs_of (l : list event) (acc : list oev) : list oev :=   (* l newest first; result oldest first *)
  match l with
  | [] => acc
  | e :: t =>
      obs_of t
        (match e with
         | EPop r => if r_ran r && (0 <=? r_label r) then ORun (r_label r) (r_clk r) :: acc else acc
         | ETick pid stt clk => OTick pid stt clk :: acc
         | EHandler e => OHandler e :: acc
         | ENote n => ONote n :: acc
         | EExc e => OExc e :: acc
         | EClock k => OClock k :: acc
         | ECancel _ | EPDispose _ | ERaise _ => acc
         end)
  end.

Definition observe (r : result) : list oev :=
  match r with
  | RDone s => obs_of (log s) []
  | RDeadlock s => obs_of (log s) [OHang]
  | ROutOfFuel s => obs_of (log s) [OFuel]
  end.

Definition oev_eqb (a b : oev) : bool :=
  match a, b with
  | ORun l k, ORun l' k' => (l =? l') && (k =? k')
  | OTick p s k, OTick p' s' k' => Nat.eqb p p' && (s =? s') && (k =? k')
  | OHandler e, OHandler e' => e =? e'
  | ONote n, ONote n' => n =? n'
  | OExc e, OExc e' => e =? e'
  | OClock k, OClock k' => k =? k'
  | OHang, OHang => true
  | OFuel, OFuel => true
  | _, _ => false
  end.

(* size of a history = number of actions it can ever enqueue (fuel that suffices
   when there is no periodic work) *)
Fixpoint csize (c : scmd) : nat :=
  match c with
  | SSched _ _ b => S (list_sum (map csize b))
  | _ => 0
  end.
Definition bsize (b : list scmd) : nat := list_sum (map csize b).
Definition tsize (c : tcmd) : nat :=
  match c with TDo k => csize k | TStartTest => 3 | _ => 0 end.
Definition hsize (h : list tcmd) : nat := list_sum (map tsize h).
