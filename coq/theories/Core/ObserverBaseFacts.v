From RxVerif Require Import Base.Prelude Ops.Machine Core.AutoDetach Core.AutoDetachFacts Core.ObserverBase.

Section Facts.
Context {A : Type}.

Lemma ob_run_list_eq (l : list (call A)) : forall st,
  (fix run_list (st : bool) (l : list (call A)) : bool * list (effect A) :=
     match l with
     | [] => (st, [])
     | c :: t => let '(st1, e1) := ob_run_call st c in
                 let '(st2, e2) := run_list st1 t in (st2, e1 ++ e2)
     end) st l = ob_run_calls st l.
Proof.
  induction l as [|c t IH]; intros st; [reflexivity|].
  cbn [ob_run_calls]. destruct (ob_run_call st c) as [st1 e1]. rewrite IH. reflexivity.
Qed.

Lemma ob_run_call_unfold st k during raises :
  ob_run_call st (Call k during raises) =
  match k return bool * list (effect A) with
  | KNext a =>
      if st then (st, [])
      else let '(st', es) := ob_run_calls st during in
           (st', Deliver (Next a) :: es ++ (if raises then [Raised EXN_CALLBACK] else []))
  | KError e =>
      if st then (st, [])
      else let '(_, es) := ob_run_calls true during in
           (true, Deliver (Err e) :: es ++ (if raises then [Raised EXN_CALLBACK] else []))
  | KCompleted =>
      if st then (st, [])
      else let '(_, es) := ob_run_calls true during in
           (true, Deliver Done :: es ++ (if raises then [Raised EXN_CALLBACK] else []))
  | KDispose => (true, [])
  | KFail e =>
      if st then (st, [FailReturned false])
      else let '(_, es) := ob_run_calls true during in
           (true, Deliver (Err e) :: es ++ (if raises then [Raised EXN_CALLBACK] else [FailReturned true]))
  end.
Proof. destruct k; cbn [ob_run_call]; rewrite ?ob_run_list_eq; reflexivity. Qed.

Lemma no_subdispose_app (a b : list (effect A)) :
  no_subdispose (a ++ b) = no_subdispose a ++ no_subdispose b.
Proof. apply filter_app. Qed.

Lemma no_subdispose_raised (raises : bool) (tl : list (effect A)) :
  no_subdispose ((if raises then [Raised EXN_CALLBACK] else []) ++ tl)
  = (if raises then [Raised EXN_CALLBACK] else []) ++ no_subdispose tl.
Proof. destruct raises; reflexivity. Qed.

Lemma delivered_no_subdispose (l : list (effect A)) : delivered (no_subdispose l) = delivered l.
Proof.
  induction l as [|e t IH]; [reflexivity|]. destruct e; cbn [no_subdispose filter delivered] in *;
    fold (no_subdispose t); now rewrite ?IH.
Qed.

(* Observer = AutoDetachObserver minus the subscription: same state, same
   effects once SubDispose is erased *)
Definition agrees (st : bool) (r1 r2 : bool * list (effect A)) : Prop :=
  fst r1 = fst r2 /\ snd r1 = no_subdispose (snd r2).

Lemma agrees_calls (l : list (call A)) :
  Forall (fun c => forall st, agrees st (ob_run_call st c) (run_call st c)) l ->
  forall st, agrees st (ob_run_calls st l) (run_calls st l).
Proof.
  induction 1 as [|c t Hc Ht IH]; intros st.
  - split; reflexivity.
  - cbn [ob_run_calls run_calls]. specialize (Hc st). unfold agrees in *.
    destruct (ob_run_call st c) as [s1 e1]. destruct (run_call st c) as [s1' e1'].
    cbn [fst snd] in Hc. destruct Hc as [-> ->].
    specialize (IH s1'). destruct (ob_run_calls s1' t) as [s2 e2]. destruct (run_calls s1' t) as [s2' e2'].
    cbn [fst snd] in *. destruct IH as [-> ->]. split; [reflexivity|]. now rewrite no_subdispose_app.
Qed.

Theorem ob_agrees_call (c : call A) : forall st, agrees st (ob_run_call st c) (run_call st c).
Proof.
  induction c as [k during raises IH] using call_ind'. intros st.
  rewrite ob_run_call_unfold, run_call_unfold.
  pose proof (agrees_calls during IH) as Hd. unfold agrees in *.
  destruct k as [a|e| | |e].
  - destruct st; [split; reflexivity|].
    specialize (Hd false). destruct (ob_run_calls false during) as [s es].
    destruct (run_calls false during) as [s' es']. cbn [fst snd] in *. destruct Hd as [-> ->].
    split; [reflexivity|]. cbn [no_subdispose filter]. fold (no_subdispose (es' ++ (if raises then [Raised EXN_CALLBACK] else []))).
    rewrite no_subdispose_app. destruct raises; reflexivity.
  - destruct st; [split; reflexivity|].
    specialize (Hd true). destruct (ob_run_calls true during) as [s es].
    destruct (run_calls true during) as [s' es']. cbn [fst snd] in *. destruct Hd as [_ ->].
    split; [reflexivity|]. cbn [no_subdispose filter].
    fold (no_subdispose (es' ++ [SubDispose] ++ (if raises then [Raised EXN_CALLBACK] else []))).
    rewrite no_subdispose_app. destruct raises; reflexivity.
  - destruct st; [split; reflexivity|].
    specialize (Hd true). destruct (ob_run_calls true during) as [s es].
    destruct (run_calls true during) as [s' es']. cbn [fst snd] in *. destruct Hd as [_ ->].
    split; [reflexivity|]. cbn [no_subdispose filter].
    fold (no_subdispose (es' ++ [SubDispose] ++ (if raises then [Raised EXN_CALLBACK] else []))).
    rewrite no_subdispose_app. destruct raises; reflexivity.
  - split; reflexivity.
  - destruct st; [split; reflexivity|].
    specialize (Hd true). destruct (ob_run_calls true during) as [s es].
    destruct (run_calls true during) as [s' es']. cbn [fst snd] in *. destruct Hd as [_ ->].
    split; [reflexivity|]. cbn [no_subdispose filter].
    fold (no_subdispose (es' ++ (if raises then [Raised EXN_CALLBACK] else [FailReturned true]))).
    rewrite no_subdispose_app. destruct raises; reflexivity.
Qed.

Theorem ob_agrees (h : list (call A)) (st : bool) :
  ob_run_calls st h = (fst (run_calls st h), no_subdispose (snd (run_calls st h))).
Proof.
  pose proof (agrees_calls h (proj2 (Forall_forall _ _) (fun c _ => ob_agrees_call c)) st) as [H1 H2].
  destruct (ob_run_calls st h) as [s es]. cbn [fst snd] in *. now rewrite H1, H2.
Qed.

(* C01 for the Observer base class: whatever is called on it, in whatever nesting,
   with whichever handlers raising, the handlers see Next* (Err|Done)? *)
Theorem observer_base_grammar (h : list (call A)) (st : bool) :
  wellformed (delivered (snd (ob_run_calls st h))) = true.
Proof. rewrite ob_agrees. cbn [snd]. rewrite delivered_no_subdispose. apply autodetach_grammar. Qed.

Theorem observer_base_silent_once_stopped (h : list (call A)) :
  delivered (snd (ob_run_calls true h)) = [].
Proof. rewrite ob_agrees. cbn [snd]. rewrite delivered_no_subdispose. apply autodetach_silent_once_stopped. Qed.

Theorem observer_base_no_call_after_terminal (h1 h2 : list (call A)) :
  ended (delivered (snd (ob_run_calls false h1))) = true ->
  delivered (snd (ob_run_calls (fst (ob_run_calls false h1)) h2)) = [].
Proof.
  rewrite !ob_agrees. cbn [fst snd]. rewrite !delivered_no_subdispose. apply autodetach_no_call_after_terminal.
Qed.

(* ---- as_observer(): the view in front of an observer behaves like ONE observer, as long as every call goes
   through the view (then the observer behind it is stopped only if the view is) ---- *)
Lemma lay_run_list_eq (l : list (call A)) : forall so si,
  (fix run_list (so si : bool) (l : list (call A)) : (bool * bool) * list (effect A) :=
     match l with
     | [] => ((so, si), [])
     | c :: t => let '((so1, si1), e1) := lay_run_call so si c in
                 let '(s2, e2) := run_list so1 si1 t in (s2, e1 ++ e2)
     end) so si l = lay_run_calls so si l.
Proof.
  induction l as [|c t IH]; intros so si; [reflexivity|].
  cbn [lay_run_calls]. destruct (lay_run_call so si c) as [[so1 si1] e1]. rewrite IH. reflexivity.
Qed.

Lemma lay_run_call_unfold so si k during raises :
  lay_run_call so si (Call k during raises) =
  match k return (bool * bool) * list (effect A) with
  | KNext a =>
      if so then ((so, si), [])
      else if si then ((so, si), [])
        else let '(s', es) := lay_run_calls so si during in
             (s', Deliver (Next a) :: es ++ (if raises then [Raised EXN_CALLBACK] else []))
  | KError e =>
      if so then ((so, si), [])
      else if si then ((true, si), [])
        else let '(_, es) := lay_run_calls true true during in
             ((true, true), Deliver (Err e) :: es ++ (if raises then [Raised EXN_CALLBACK] else []))
  | KCompleted =>
      if so then ((so, si), [])
      else if si then ((true, si), [])
        else let '(_, es) := lay_run_calls true true during in
             ((true, true), Deliver Done :: es ++ (if raises then [Raised EXN_CALLBACK] else []))
  | KDispose => ((true, si), [])
  | KFail e =>
      if so then ((so, si), [FailReturned false])
      else if si then ((true, si), [FailReturned true])
        else let '(_, es) := lay_run_calls true true during in
             ((true, true), Deliver (Err e) :: es ++ (if raises then [Raised EXN_CALLBACK] else [FailReturned true]))
  end.
Proof. destruct k; cbn [lay_run_call]; rewrite ?lay_run_list_eq; reflexivity. Qed.

(* invariant [si -> so]; same effects and same (outer) flag as the one-layer model *)
Definition lay_ok (r : (bool * bool) * list (effect A)) (r' : bool * list (effect A)) : Prop :=
  fst (fst r) = fst r' /\ (snd (fst r) = true -> fst (fst r) = true) /\ snd r = snd r'.

Lemma lay_ok_calls (l : list (call A)) :
  Forall (fun c => forall so si, (si = true -> so = true) -> lay_ok (lay_run_call so si c) (ob_run_call so c)) l ->
  forall so si, (si = true -> so = true) -> lay_ok (lay_run_calls so si l) (ob_run_calls so l).
Proof.
  induction 1 as [|c t Hc Ht IH]; intros so si Hinv.
  - repeat split; auto.
  - cbn [lay_run_calls ob_run_calls]. specialize (Hc so si Hinv). unfold lay_ok in *.
    destruct (lay_run_call so si c) as [[so1 si1] e1]. destruct (ob_run_call so c) as [s1 e1'].
    cbn [fst snd] in Hc. destruct Hc as (-> & Hi & ->).
    specialize (IH s1 si1 Hi). destruct (lay_run_calls s1 si1 t) as [[so2 si2] e2].
    destruct (ob_run_calls s1 t) as [s2 e2']. cbn [fst snd] in *. destruct IH as (-> & Hi2 & ->).
    repeat split; auto.
Qed.

Theorem lay_ok_call (c : call A) :
  forall so si, (si = true -> so = true) -> lay_ok (lay_run_call so si c) (ob_run_call so c).
Proof.
  induction c as [k during raises IH] using call_ind'. intros so si Hinv.
  rewrite lay_run_call_unfold, ob_run_call_unfold.
  pose proof (lay_ok_calls during IH) as Hd. unfold lay_ok in *.
  destruct k as [a|e| | |e].
  - destruct so; [repeat split; auto|].
    destruct si; [specialize (Hinv eq_refl); discriminate|].
    specialize (Hd false false Hinv). destruct (lay_run_calls false false during) as [[so' si'] es].
    destruct (ob_run_calls false during) as [s' es']. cbn [fst snd] in *. destruct Hd as (-> & Hi & ->).
    repeat split; auto.
  - destruct so; [repeat split; auto|].
    destruct si; [specialize (Hinv eq_refl); discriminate|].
    specialize (Hd true true (fun _ => eq_refl)). destruct (lay_run_calls true true during) as [[so' si'] es].
    destruct (ob_run_calls true during) as [s' es']. cbn [fst snd] in *. destruct Hd as (_ & _ & ->).
    repeat split; auto.
  - destruct so; [repeat split; auto|].
    destruct si; [specialize (Hinv eq_refl); discriminate|].
    specialize (Hd true true (fun _ => eq_refl)). destruct (lay_run_calls true true during) as [[so' si'] es].
    destruct (ob_run_calls true during) as [s' es']. cbn [fst snd] in *. destruct Hd as (_ & _ & ->).
    repeat split; auto.
  - repeat split; auto.
  - destruct so; [repeat split; auto|].
    destruct si; [specialize (Hinv eq_refl); discriminate|].
    specialize (Hd true true (fun _ => eq_refl)). destruct (lay_run_calls true true during) as [[so' si'] es].
    destruct (ob_run_calls true during) as [s' es']. cbn [fst snd] in *. destruct Hd as (_ & _ & ->).
    repeat split; auto.
Qed.

(* a fresh observer seen through as_observer(), every call made on the view: the effects are those of the
   base-class model *)
Theorem as_observer_view_is_an_observer (h : list (call A)) :
  snd (lay_run_calls false false h) = snd (ob_run_calls false h).
Proof.
  pose proof (lay_ok_calls h (proj2 (Forall_forall _ _) (fun c _ => lay_ok_call c)) false false (fun H => H)) as G.
  unfold lay_ok in G. tauto.
Qed.
End Facts.
