(* reactivex/observer/observer.py: class Observer -- the base class of Subject,
   ScheduledObserver, ... and what users pass to subscribe().  "This base class
   enforces the grammar of observers where OnError and OnCompleted are terminal
   messages."  Same vocabulary as Core/AutoDetach.v: a history is a FOREST of
   calls ([during] = calls made into the same observer while the handler of this
   call is still running, [raises] = the handler raises); effects are the handler
   invocations, exceptions leaving a method and the return value of fail().
   There is no subscription here, so [SubDispose] never occurs. *)
From RxVerif Require Import Base.Prelude Ops.Machine Core.AutoDetach.

Section Run.
Context {A : Type}.

(* is_stopped -> call -> (is_stopped', effects) *)
Fixpoint ob_run_call (st : bool) (c : call A) : bool * list (effect A) :=
  let run_list := fix run_list (st : bool) (l : list (call A)) : bool * list (effect A) :=
    match l with
    | [] => (st, [])
    | c :: t => let '(st1, e1) := ob_run_call st c in
                let '(st2, e2) := run_list st1 t in (st2, e1 ++ e2)
    end in
  match c with
  (* def on_next(self, value): if not self.is_stopped: self._on_next_core(value) *)
  | Call (KNext a) during raises =>
      if st then (st, [])
      else let '(st', es) := run_list st during in
           (st', Deliver (Next a) :: es ++ (if raises then [Raised EXN_CALLBACK] else []))
  (* def on_error(self, error): if not self.is_stopped: self.is_stopped = True; self._on_error_core(error) *)
  | Call (KError e) during raises =>
      if st then (st, [])
      else let '(_, es) := run_list true during in
           (true, Deliver (Err e) :: es ++ (if raises then [Raised EXN_CALLBACK] else []))
  (* def on_completed(self): if not self.is_stopped: self.is_stopped = True; self._on_completed_core() *)
  | Call KCompleted during raises =>
      if st then (st, [])
      else let '(_, es) := run_list true during in
           (true, Deliver Done :: es ++ (if raises then [Raised EXN_CALLBACK] else []))
  (* def dispose(self): self.is_stopped = True *)
  | Call KDispose _ _ => (true, [])
  (* def fail(self, exn): if not self.is_stopped: self.is_stopped = True; self._on_error_core(exn); return True
                          return False *)
  | Call (KFail e) during raises =>
      if st then (st, [FailReturned false])
      else let '(_, es) := run_list true during in
           (true, Deliver (Err e) :: es ++ (if raises then [Raised EXN_CALLBACK] else [FailReturned true]))
  end.

Fixpoint ob_run_calls (st : bool) (l : list (call A)) : bool * list (effect A) :=
  match l with
  | [] => (st, [])
  | c :: t => let '(st1, e1) := ob_run_call st c in
              let '(st2, e2) := ob_run_calls st1 t in (st2, e1 ++ e2)
  end.

(* def as_observer(self): return Observer(self.on_next, self.on_error, self.on_completed)
   -- a SECOND Observer whose three handlers are the bound methods of the first.  State: the stopped flag of the
   view ([so], outer) and of the observer behind it ([si], inner); every call of the history goes to the view.
   A handler invocation of the outer observer is a method call on the inner one. *)
Fixpoint lay_run_call (so si : bool) (c : call A) : (bool * bool) * list (effect A) :=
  let run_list := fix run_list (so si : bool) (l : list (call A)) : (bool * bool) * list (effect A) :=
    match l with
    | [] => ((so, si), [])
    | c :: t => let '((so1, si1), e1) := lay_run_call so si c in
                let '(s2, e2) := run_list so1 si1 t in (s2, e1 ++ e2)
    end in
  match c with
  | Call (KNext a) during raises =>
      if so then ((so, si), [])
      else (* outer._on_next_core -> inner.on_next *)
        if si then ((so, si), [])
        else let '(s', es) := run_list so si during in
             (s', Deliver (Next a) :: es ++ (if raises then [Raised EXN_CALLBACK] else []))
  | Call (KError e) during raises =>
      if so then ((so, si), [])
      else (* outer.is_stopped = True; outer._on_error_core -> inner.on_error *)
        if si then ((true, si), [])
        else let '(_, es) := run_list true true during in
             ((true, true), Deliver (Err e) :: es ++ (if raises then [Raised EXN_CALLBACK] else []))
  | Call KCompleted during raises =>
      if so then ((so, si), [])
      else if si then ((true, si), [])
        else let '(_, es) := run_list true true during in
             ((true, true), Deliver Done :: es ++ (if raises then [Raised EXN_CALLBACK] else []))
  (* outer.dispose(): only the view is stopped *)
  | Call KDispose _ _ => ((true, si), [])
  | Call (KFail e) during raises =>
      if so then ((so, si), [FailReturned false])
      else (* outer.is_stopped = True; outer._on_error_core(exn) -> inner.on_error(exn); return True *)
        if si then ((true, si), [FailReturned true])
        else let '(_, es) := run_list true true during in
             ((true, true), Deliver (Err e) :: es ++ (if raises then [Raised EXN_CALLBACK] else [FailReturned true]))
  end.

Fixpoint lay_run_calls (so si : bool) (l : list (call A)) : (bool * bool) * list (effect A) :=
  match l with
  | [] => ((so, si), [])
  | c :: t => let '((so1, si1), e1) := lay_run_call so si c in
              let '(s2, e2) := lay_run_calls so1 si1 t in (s2, e1 ++ e2)
  end.

(* the effects of the auto-detaching wrapper minus its subscription handling *)
Definition no_subdispose (l : list (effect A)) : list (effect A) :=
  filter (fun e => match e with SubDispose => false | _ => true end) l.
End Run.
