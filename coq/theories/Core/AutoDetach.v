(* reactivex/observer/autodetachobserver.py: the wrapper Observable.subscribe
   puts around every subscriber.  A history is a FOREST of calls: [during] are
   the calls made into the same wrapper while the user callback of this call
   is still running (a callback that disposes, a source that re-enters, ...),
   [raises] says whether the user callback raises. *)
From RxVerif Require Import Base.Prelude Ops.Machine.

Inductive ckind (A : Type) :=
| KNext (a : A) | KError (e : Z) | KCompleted | KDispose | KFail (e : Z).
Arguments KNext {A} a. Arguments KError {A} e. Arguments KCompleted {A}.
Arguments KDispose {A}. Arguments KFail {A} e.

Inductive call (A : Type) := Call (k : ckind A) (during : list (call A)) (raises : bool).
Arguments Call {A} k during raises.

(* observable effects, in the order they start *)
Inductive effect (A : Type) :=
| Deliver (e : ev A)          (* a user callback is invoked *)
| SubDispose                  (* self._subscription.dispose() is called *)
| Raised (e : Z)              (* an exception leaves the wrapper method *)
| FailReturned (b : bool).    (* return value of fail() *)
Arguments Deliver {A} e. Arguments SubDispose {A}. Arguments Raised {A} e. Arguments FailReturned {A} b.

Definition EXN_CALLBACK : Z := 77.   (* what a raising user callback raises *)

Section Run.
Context {A : Type}.

(* is_stopped -> call -> (is_stopped', effects) *)
Fixpoint run_call (st : bool) (c : call A) : bool * list (effect A) :=
  let run_list := fix run_list (st : bool) (l : list (call A)) : bool * list (effect A) :=
    match l with
    | [] => (st, [])
    | c :: t => let '(st1, e1) := run_call st c in
                let '(st2, e2) := run_list st1 t in (st2, e1 ++ e2)
    end in
  match c with
  | Call (KNext a) during raises =>
      if st then (st, [])
      else let '(st', es) := run_list st during in
           (st', Deliver (Next a) :: es ++ (if raises then [Raised EXN_CALLBACK] else []))
  | Call (KError e) during raises =>
      if st then (st, [])
      else let '(_, es) := run_list true during in
           (* finally: self.dispose() *)
           (true, Deliver (Err e) :: es ++ [SubDispose] ++ (if raises then [Raised EXN_CALLBACK] else []))
  | Call KCompleted during raises =>
      if st then (st, [])
      else let '(_, es) := run_list true during in
           (true, Deliver Done :: es ++ [SubDispose] ++ (if raises then [Raised EXN_CALLBACK] else []))
  | Call KDispose _ _ => (true, [SubDispose])
  | Call (KFail e) during raises =>
      if st then (st, [FailReturned false])
      else let '(_, es) := run_list true during in
           (true, Deliver (Err e) :: es ++ (if raises then [Raised EXN_CALLBACK] else [FailReturned true]))
  end.

Fixpoint run_calls (st : bool) (l : list (call A)) : bool * list (effect A) :=
  match l with
  | [] => (st, [])
  | c :: t => let '(st1, e1) := run_call st c in
              let '(st2, e2) := run_calls st1 t in (st2, e1 ++ e2)
  end.

Fixpoint delivered (es : list (effect A)) : list (ev A) :=
  match es with
  | [] => []
  | Deliver e :: t => e :: delivered t
  | _ :: t => delivered t
  end.
End Run.
