(* Transition systems of the combinators under concurrently emitting sources (C43):
   merge_all (also behind merge(a, b, ..) and flat_map), merge(max_concurrent), zip, combine_latest,
   with_latest_from, amb, window_with_time, window_with_time_or_count.

   One logical thread per source (thread i pushes a serial sequence of notifications into
   source i); for the window operators one more thread is the worker of the timer scheduler.
   A position ([pos]) is a yield point of the code:
     PG e     before the source event e is pushed (the source's own AutoDetachObserver gate
              and everything up to the next yield point belong to the step)
     PA k a   at an acquisition of the operator's lock (`with lock:` / `@synchronized(source.lock)`);
              the thread cannot step while another thread holds the lock
     PU k a   at a line, outside any locked region, that accesses a shared closure variable
     PS h a   at the subscribe() of an inner source (merge); h: the thread holds the lock meanwhile
     PI h d k inside the call d of the DOWNSTREAM observer made by the operator (entered, not yet
              returned); h: made while holding the lock; k: what the handler does afterwards
     PT       a timer worker waiting for a pending timer action
   One scheduled step runs the code from one yield point to the next.  The lock, the
   downstream AutoDetachObserver (its is_stopped flag [g_dn]) and the log are handled once, by
   [gact]; an operator is just its step function [*_step : tid -> state -> pos -> state * next].
   [fx = true] is the CURRENT /repo working tree; [fx = false] is the code before
   proposed_fixes/C43-*.diff (terminal handlers passed through / run outside the lock), kept
   only for the refutation witnesses.

   The subscriber is an AutoDetachObserver whose subscription is not wired to the sources: a
   terminal notification does not unsubscribe them (= the subscriber's terminal callback has not
   returned yet), so every source event reaches the operator -- a superset of what a wired
   subscriber lets through.  Payloads are abstracted (only the kind of each notification and the
   control state the code branches on -- queue lengths, flags, counters -- are kept).
   Tie to /repo: harness/props/C43.py (K3, medium granularity). *)
From RxVerif Require Import Base.Prelude Core.Lts.
Local Open Scope nat_scope.

Inductive sev := SNext | SErr | SDone | STick.
Inductive dev := DNext | DErr | DDone.
Inductive cobs :=
| CEnter (d : dev)      (* the operator calls observer.on_xxx *)
| CExit (d : dev)       (* ... the call returned *)
| CUser (d : dev).      (* the subscriber's callback ran (the AutoDetachObserver let it through) *)

Inductive pos :=
| PG (e : sev) | PT
| PU (k a : nat) | PA (k a : nat) | PS (h : bool) (a : nat)
| PI (h : bool) (d : dev) (k : nat).

Definition is_acq (l : pos) : bool := match l with PA _ _ => true | _ => false end.
Definition holds (l : pos) : bool := match l with PI h _ _ | PS h _ => h | _ => false end.
Definition inside (l : pos) : bool := match l with PI _ _ _ => true | _ => false end.
Definition is_term (d : dev) : bool := match d with DNext => false | _ => true end.

Record gsh (S : Type) := GS {
  g_lock : option nat;     (* who holds the operator's lock *)
  g_dn : bool;             (* is_stopped of the subscriber's AutoDetachObserver *)
  g_st : S }.
Arguments GS {S}. Arguments g_lock {S}. Arguments g_dn {S}. Arguments g_st {S}.

Definition lock_free (tid : nat) (lk : option nat) : bool :=
  match lk with None => true | Some o => Nat.eqb o tid end.

(* AutoDetachObserver.on_next / on_error / on_completed *)
Definition fin (dn : bool) (d : dev) : bool * list cobs :=
  if dn then (true, [CExit d]) else (is_term d, [CUser d; CExit d]).

Definition start (e : sev) : pos := match e with STick => PT | _ => PG e end.

Section Gen.
Context {S : Type}.
Variable ostep : nat -> S -> pos -> option (S * option pos).

Definition gact (tid : nat) (sh : gsh S) (l : pos) : option (gsh S * option pos * list cobs) :=
  if is_acq l && negb (lock_free tid (g_lock sh)) then None
  else
    match ostep tid (g_st sh) l with
    | None => None
    | Some (st', nxt) =>
        let '(dn1, out1) := match l with PI _ d _ => fin (g_dn sh) d | _ => (g_dn sh, []) end in
        let out2 := match nxt with Some (PI _ d _) => [CEnter d] | _ => [] end in
        let h' := match nxt with Some q => holds q | None => false end in
        let lk' := if h' then Some tid else if holds l || is_acq l then None else g_lock sh in
        Some (GS lk' dn1 st', nxt, out1 ++ out2)
    end.

Definition grun (st0 : S) (progs : list (list sev)) (sched : list nat) : config :=
  run start gact (init (GS None false st0) progs) sched.
End Gen.

(* ---- what the statements talk about ---------------------------------------- *)
Definition entered (l : list cobs) : list dev := flat_map (fun o => match o with CEnter d => [d] | _ => [] end) l.
Definition users (l : list cobs) : list dev := flat_map (fun o => match o with CUser d => [d] | _ => [] end) l.

(* never two calls of the downstream observer in progress at once *)
Definition cstep (st : option (list dev)) (o : cobs) : option (list dev) :=
  match st with
  | None => None
  | Some op =>
      match o with
      | CEnter d => match op with [] => Some [d] | _ => None end
      | CExit d => match op with [_] => Some [] | _ => None end
      | CUser _ => Some op
      end
  end.
Definition cfold (l : list cobs) : option (list dev) := fold_left cstep l (Some []).
Definition serial (l : list cobs) : bool := match cfold l with Some _ => true | None => false end.

(* Next* (Err|Done)? *)
Fixpoint gram (l : list dev) : bool :=
  match l with
  | [] => true
  | DNext :: r => gram r
  | _ :: r => match r with [] => true | _ => false end
  end.

Definition tin (t : @thread pos sev) : list dev := match t_cur t with Some (PI _ d _) => [d] | _ => [] end.

(* helpers on flag lists *)
Definition getb (l : list bool) (i : nat) : bool := nth i l false.
Definition getn (l : list nat) (i : nat) : nat := nth i l 0.
Definition count_true (l : list bool) : nat := length (filter (fun b => b) l).
Definition allb (l : list bool) : bool := forallb (fun b => b) l.
Definition ecode (e : sev) : nat := match e with SNext => 0 | SErr => 1 | SDone => 2 | STick => 3 end.
Definition dev_of (a : nat) : dev := match a with 0 => DNext | 1 => DErr | _ => DDone end.

(* ======================================================================= *)
(* zip  (reactivex/observable/zip.py)
     on_next(x):    queues[i].append(x)                 # outside the lock          [PU 0]
                    next_(i)                            # @synchronized(lock)       [PA 0]
       next_: if all(len(q) for q in queues): pop one of each; observer.on_next(res)        [PI DNext 0]
              if any(done and len(queue) == 0 ...): observer.on_completed()                 [PI DDone 1]
     completed(i):  @synchronized(lock)  is_completed[i] = True                              [PA 1]
                    if len(queues[i]) == 0: observer.on_completed()
     on_error:      synchronized(lock)(observer.on_error)                                    [PA 2]
   before the fix: completed(i) ran outside the lock (lines [PU 1], [PU 2]) and observer.on_error was
   handed to the sources directly. *)
Record zst := ZS { z_ql : list nat; z_cp : list bool }.
Definition zip_init (n : nat) : zst := ZS (repeat 0 n) (repeat false n).
Definition all_nonempty (ql : list nat) : bool := forallb (fun x => negb (Nat.eqb x 0)) ql.
Definition any_done_empty (ql : list nat) (cp : list bool) : bool :=
  existsb (fun qc => snd qc && Nat.eqb (fst qc) 0) (combine ql cp).

Definition zip_step (fx : bool) (tid : nat) (s : zst) (l : pos) : option (zst * option pos) :=
  let '(ZS ql cp) := s in
  match l with
  | PG SNext => Some (s, Some (PU 0 0))
  | PU 0 _ => Some (ZS (upd_nth tid (S (getn ql tid)) ql) cp, Some (PA 0 0))
  | PA 0 _ => if all_nonempty ql then Some (ZS (map pred ql) cp, Some (PI true DNext 0)) else Some (s, None)
  | PI true DNext 0 => if any_done_empty ql cp then Some (s, Some (PI true DDone 1)) else Some (s, None)
  | PG SDone => if fx then Some (s, Some (PA 1 0)) else Some (s, Some (PU 1 0))
  | PA 1 _ => let cp' := upd_nth tid true cp in
              if Nat.eqb (getn ql tid) 0 then Some (ZS ql cp', Some (PI true DDone 1)) else Some (ZS ql cp', None)
  | PU 1 _ => if fx then Some (s, None) else Some (ZS ql (upd_nth tid true cp), Some (PU 2 0))
  | PU 2 _ => if fx then Some (s, None)
              else if Nat.eqb (getn ql tid) 0 then Some (s, Some (PI false DDone 1)) else Some (s, None)
  | PG SErr => if fx then Some (s, Some (PA 2 0)) else Some (s, Some (PI false DErr 1))
  | PA 2 _ => Some (s, Some (PI true DErr 1))
  | _ => Some (s, None)
  end.

(* ======================================================================= *)
(* combine_latest  (reactivex/observable/combinelatest.py)
     on_next(x):   with lock: values[i] = x; _next(i)                                        [PA 0]
       _next: has_value[i] = True; has_value_all = has_value_all or all(has_value)
              if has_value_all: observer.on_next(..)
              elif all(done for j != i): observer.on_completed()
     on_completed: with lock: done(i): is_done[i] = True; if all(is_done): observer.on_completed()   [PA 1]
     on_error:     with lock: observer.on_error(error)                                       [PA 2]
   before the fix observer.on_error was handed to the sources directly. *)
Record clst := CL { cl_hv : list bool; cl_all : bool; cl_dn : list bool }.
Definition cl_init (n : nat) : clst := CL (repeat false n) false (repeat false n).
Definition all_done_except (i : nat) (l : list bool) : bool :=
  forallb (fun jd => Nat.eqb (fst jd) i || snd jd) (combine (seq 0 (length l)) l).

Definition cl_step (fx : bool) (tid : nat) (s : clst) (l : pos) : option (clst * option pos) :=
  let '(CL hv hva dn) := s in
  match l with
  | PG SNext => Some (s, Some (PA 0 0))
  | PA 0 _ => let hv' := upd_nth tid true hv in
              let hva' := hva || allb hv' in
              if hva' then Some (CL hv' hva' dn, Some (PI true DNext 1))
              else if all_done_except tid dn then Some (CL hv' hva' dn, Some (PI true DDone 1))
              else Some (CL hv' hva' dn, None)
  | PG SDone => Some (s, Some (PA 1 0))
  | PA 1 _ => let dn' := upd_nth tid true dn in
              if allb dn' then Some (CL hv hva dn', Some (PI true DDone 1)) else Some (CL hv hva dn', None)
  | PG SErr => if fx then Some (s, Some (PA 2 0)) else Some (s, Some (PI false DErr 1))
  | PA 2 _ => Some (s, Some (PI true DErr 1))
  | _ => Some (s, None)
  end.

(* ======================================================================= *)
(* with_latest_from  (reactivex/observable/withlatestfrom.py); thread 0 = parent, others = children
     child on_next:   with parent.lock: values[i] = value                                    [PA 0]
     child on_completed: none (default noop)
     parent on_next:  with parent.lock: if NO_VALUE not in values: observer.on_next(..)      [PA 3]
     on_error (all):  with parent.lock: observer.on_error(error)                             [PA 2]
     parent on_completed: with parent.lock: observer.on_completed()                          [PA 2]
   before the fix observer.on_error / observer.on_completed were handed over directly. *)
Record wlst := WL { wl_has : list bool }.     (* indexed by thread id; entry 0 (the parent) is unused *)
Definition wl_init (n : nat) : wlst := WL (repeat false n).

Definition wl_step (fx : bool) (tid : nat) (s : wlst) (l : pos) : option (wlst * option pos) :=
  let '(WL has) := s in
  match l with
  | PG SNext => if Nat.eqb tid 0 then Some (s, Some (PA 3 0)) else Some (s, Some (PA 0 0))
  | PA 0 _ => Some (WL (upd_nth tid true has), None)
  | PA 3 _ => if allb (tl has) then Some (s, Some (PI true DNext 1)) else Some (s, None)
  | PG SErr => if fx then Some (s, Some (PA 2 1)) else Some (s, Some (PI false DErr 1))
  | PG SDone => if Nat.eqb tid 0
                then (if fx then Some (s, Some (PA 2 2)) else Some (s, Some (PI false DDone 1)))
                else Some (s, None)
  | PA 2 a => Some (s, Some (PI true (dev_of a) 1))
  | _ => Some (s, None)
  end.

(* ======================================================================= *)
(* merge_all  (reactivex/operators/_merge.py: merge_all_); thread 0 = the outer source, whose k-th
   on_next emits inner source k (thread k); inner sources are hot.
     outer on_next:  group.add(inner_subscription)        # not under source.lock        [PU 0]
                     inner_source.subscribe(on_next, on_error, on_completed)              [PS]
     inner on_next / on_error:  synchronized(source.lock)(observer.on_xxx)                [PA 4 / PA 2]
     inner on_completed: @synchronized(source.lock): group.remove(inner_subscription)     [PA 5]
                         if is_stopped[0] and len(group) == 1: observer.on_completed()
     outer on_completed: @synchronized(source.lock): is_stopped[0] = True                 [PA 3]
                         if len(group) == 1: observer.on_completed()
     outer on_error:  synchronized(source.lock)(observer.on_error)                        [PA 2]
   before the fix the outer on_completed ran outside the lock (lines [PU 1], [PU 2]) and
   observer.on_error was handed to the outer source directly. *)
Record mast := MA { ma_stop : bool; ma_act : list bool; ma_sub : list bool; ma_emit : nat }.
Definition ma_init (n : nat) : mast := MA false (repeat false n) (repeat false n) 0.

Definition ma_step (fx : bool) (n : nat) (tid : nat) (s : mast) (l : pos) : option (mast * option pos) :=
  let '(MA stop act sub em) := s in
  if Nat.eqb tid 0 then
    match l with
    | PG SNext => let k := S em in
                  if k <? n then Some (MA stop act sub k, Some (PU 0 k)) else Some (MA stop act sub k, None)
    | PU 0 k => Some (MA stop (upd_nth k true act) sub em, Some (PS false k))
    | PS false k => Some (MA stop act (upd_nth k true sub) em, None)
    | PG SErr => if fx then Some (s, Some (PA 2 1)) else Some (s, Some (PI false DErr 1))
    | PA 2 a => Some (s, Some (PI true (dev_of a) 1))
    | PG SDone => if fx then Some (s, Some (PA 3 0)) else Some (s, Some (PU 1 0))
    | PA 3 _ => if Nat.eqb (count_true act) 0 then Some (MA true act sub em, Some (PI true DDone 1))
                else Some (MA true act sub em, None)
    | PU 1 _ => if fx then Some (s, None) else Some (MA true act sub em, Some (PU 2 0))
    | PU 2 _ => if fx then Some (s, None)
                else if Nat.eqb (count_true act) 0 then Some (s, Some (PI false DDone 1)) else Some (s, None)
    | _ => Some (s, None)
    end
  else
    match l with
    | PG SNext => if getb sub tid then Some (s, Some (PA 4 0)) else Some (s, None)
    | PG SErr => if getb sub tid then Some (s, Some (PA 2 1)) else Some (s, None)
    | PG SDone => if getb sub tid then Some (s, Some (PA 5 0)) else Some (s, None)
    | PA 4 _ => Some (s, Some (PI true DNext 1))
    | PA 2 a => Some (s, Some (PI true (dev_of a) 1))
    | PA 5 _ => let act' := upd_nth tid false act in
                if stop && Nat.eqb (count_true act') 0 then Some (MA stop act' sub em, Some (PI true DDone 1))
                else Some (MA stop act' sub em, None)
    | _ => Some (s, None)
    end.

(* ======================================================================= *)
(* merge(max_concurrent = m)  (reactivex/operators/_merge.py: merge_)
     outer on_next: @synchronized(source.lock)                                            [PA 0 k]
                    if active_count[0] < m: active_count[0] += 1; subscribe(inner)        [PS true k]
                    else: queue.append(inner)
     inner on_next / on_error: synchronized(source.lock)(observer.on_xxx)                 [PA 4 / PA 2]
     inner on_completed: @synchronized(source.lock): group.remove(subscription)           [PA 5]
                    if queue: subscribe(queue.pop(0))                                     [PS true s]
                    else: active_count[0] -= 1
                          if is_stopped[0] and active_count[0] == 0: observer.on_completed()
     outer on_completed: @synchronized(source.lock): is_stopped[0] = True                 [PA 3]
                    if active_count[0] == 0: observer.on_completed()
     outer on_error: synchronized(source.lock)(observer.on_error)                         [PA 2]
   before the fix the three outer handlers ran outside the lock: on_next through the lines
   [PU 3] (if active_count[0] < m) [PU 4] (active_count[0] += 1) [PU 5] (group.add) [PU 6] (queue.append). *)
Record mmst := MM { mm_stop : bool; mm_ac : nat; mm_q : list nat; mm_sub : list bool; mm_emit : nat }.
Definition mm_init (n : nat) : mmst := MM false 0 [] (repeat false n) 0.

Definition mm_step (fx : bool) (n m : nat) (tid : nat) (s : mmst) (l : pos) : option (mmst * option pos) :=
  let '(MM stop ac q sub em) := s in
  if Nat.eqb tid 0 then
    match l with
    | PG SNext => let k := S em in
                  if k <? n then Some (MM stop ac q sub k, Some (if fx then PA 0 k else PU 3 k))
                  else Some (MM stop ac q sub k, None)
    | PA 0 k => if ac <? m then Some (MM stop (S ac) q sub em, Some (PS true k))
                else Some (MM stop ac (q ++ [k]) sub em, None)
    | PS h k => Some (MM stop ac q (upd_nth k true sub) em, None)
    | PU 3 k => if ac <? m then Some (s, Some (PU 4 k)) else Some (s, Some (PU 6 k))
    | PU 4 k => Some (MM stop (S ac) q sub em, Some (PU 5 k))
    | PU 5 k => Some (s, Some (PS false k))
    | PU 6 k => Some (MM stop ac (q ++ [k]) sub em, None)
    | PG SErr => if fx then Some (s, Some (PA 2 1)) else Some (s, Some (PI false DErr 1))
    | PA 2 a => Some (s, Some (PI true (dev_of a) 1))
    | PG SDone => if fx then Some (s, Some (PA 3 0)) else Some (s, Some (PU 1 0))
    | PA 3 _ => if Nat.eqb ac 0 then Some (MM true ac q sub em, Some (PI true DDone 1))
                else Some (MM true ac q sub em, None)
    | PU 1 _ => if fx then Some (s, None) else Some (MM true ac q sub em, Some (PU 2 0))
    | PU 2 _ => if fx then Some (s, None)
                else if Nat.eqb ac 0 then Some (s, Some (PI false DDone 1)) else Some (s, None)
    | _ => Some (s, None)
    end
  else
    match l with
    | PG SNext => if getb sub tid then Some (s, Some (PA 4 0)) else Some (s, None)
    | PG SErr => if getb sub tid then Some (s, Some (PA 2 1)) else Some (s, None)
    | PG SDone => if getb sub tid then Some (s, Some (PA 5 0)) else Some (s, None)
    | PA 4 _ => Some (s, Some (PI true DNext 1))
    | PA 2 a => Some (s, Some (PI true (dev_of a) 1))
    | PA 5 _ => match q with
                | k :: r => Some (MM stop ac r sub em, Some (PS true k))
                | [] => let ac' := pred ac in
                        if stop && Nat.eqb ac' 0 then Some (MM stop ac' q sub em, Some (PI true DDone 1))
                        else Some (MM stop ac' q sub em, None)
                end
    | PS true k => Some (MM stop ac q (upd_nth k true sub) em, None)
    | _ => Some (s, None)
    end.

(* ======================================================================= *)
(* amb  (reactivex/operators/_amb.py); thread 0 = left, thread 1 = right
     on_xxx_left:  with left_source.lock: choice_left()      # if not choice[0]: choice[0] = "L";   [PA 0]
                                                             #    right_subscription.dispose()
                   if choice[0] == left_choice:              # outside the lock                     [PU 0]
                       observer.on_xxx(..)                   # outside the lock                     [PI false]
   (right: symmetric, same lock).  Disposing the loser's subscription stops its source's
   AutoDetachObserver: its later events are dropped before reaching the handler ([am_gate], read at PG). *)
Record amst := AM { am_choice : option nat; am_gate : list bool }.
Definition am_init : amst := AM None [false; false].

Definition am_step (tid : nat) (s : amst) (l : pos) : option (amst * option pos) :=
  let '(AM ch gate) := s in
  match l with
  | PG STick => Some (s, None)
  | PG e => if getb gate tid then Some (s, None) else Some (s, Some (PA 0 (ecode e)))
  | PA 0 a => match ch with
              | None => Some (AM (Some tid) (upd_nth (1 - tid) true gate), Some (PU 0 a))
              | Some _ => Some (s, Some (PU 0 a))
              end
  | PU 0 a => match ch with
              | Some c => if Nat.eqb c tid then Some (s, Some (PI false (dev_of a) 1)) else Some (s, None)
              | None => Some (s, None)
              end
  | _ => Some (s, None)
  end.

(* ======================================================================= *)
(* window_with_time_or_count(timespan, count)  (reactivex/operators/_windowwithtimeorcount.py)
   thread 0 = source, any other thread = worker of the timer scheduler ([STick] = start one pending
   timer action; blocked while none is pending).  All handlers and the timer action are
   @synchronized(source.lock).
     on_next:  s.on_next(x); n += 1; if n == count: n = 0; window_id += 1; s.on_completed(); s = Subject()  [PA 0]
               observer.on_next(window)                                                   [PI DNext 3]
               create_timer(new_id)     # cancels the pending timer, schedules a new one
     on_error / on_completed: s.on_xxx(); observer.on_xxx()                               [PA 2]
     action(_id): if _id != window_id: return                                              [PA 6 id]
               n = 0; window_id += 1; s.on_completed(); s = Subject(); observer.on_next(window); create_timer(new_id) *)
Record wcst := WC { wc_n : nat; wc_id : nat; wc_pend : list nat }.
Definition wc_init : wcst := WC 0 0 [0].

Definition wc_step (count : nat) (tid : nat) (s : wcst) (l : pos) : option (wcst * option pos) :=
  let '(WC n wid pend) := s in
  match l with
  | PG SNext => Some (s, Some (PA 0 0))
  | PA 0 _ => if Nat.eqb (S n) count then Some (WC 0 (S wid) pend, Some (PI true DNext 3))
              else Some (WC (S n) wid pend, None)
  | PI true DNext 3 => Some (WC n wid [wid], None)
  | PG SErr => Some (s, Some (PA 2 1))
  | PG SDone => Some (s, Some (PA 2 2))
  | PA 2 a => Some (s, Some (PI true (dev_of a) 1))
  | PT => match pend with
          | [] => None
          | i :: r => Some (WC n wid r, Some (PA 6 i))
          end
  | PA 6 i => if Nat.eqb i wid then Some (WC 0 (S wid) pend, Some (PI true DNext 3)) else Some (s, None)
  | _ => Some (s, None)
  end.

(* ======================================================================= *)
(* window_with_time(timespan, timeshift)  (reactivex/operators/_windowwithtime.py); times in ticks
     on_next:  with source.lock: for s in queue: s.on_next(x)                              [PA 0]
     on_error / on_completed: @synchronized(source.lock): windows first, then observer.on_xxx()   [PA 2]
     action:   @synchronized(source.lock)                                                  [PA 7 (2*is_span + is_shift)]
               if is_shift: queue.append(Subject()); observer.on_next(window)              [PI DNext 4 / 5]
               if is_span: queue.pop(0).on_completed()
               create_timer() *)
Record wtst := WT { wt_nq : nat; wt_shift : nat; wt_span : nat; wt_total : nat; wt_pend : list nat }.

Definition wt_create (timeshift : nat) (s : wtst) : wtst :=
  let '(WT nq nsh nsp tot pend) := s in
  let is_span := nsp <=? nsh in
  let is_shift := nsh <=? nsp in
  let tot' := if is_span then nsp else nsh in
  WT nq (if is_shift then nsh + timeshift else nsh) (if is_span then nsp + timeshift else nsp) tot'
     (pend ++ [(if is_span then 2 else 0) + (if is_shift then 1 else 0)]).
Definition wt_init (timespan timeshift : nat) : wtst := wt_create timeshift (WT 1 timeshift timespan 0 []).

Definition wt_step (timeshift : nat) (tid : nat) (s : wtst) (l : pos) : option (wtst * option pos) :=
  let '(WT nq nsh nsp tot pend) := s in
  match l with
  | PG SNext => Some (s, Some (PA 0 0))
  | PA 0 _ => Some (s, None)
  | PG SErr => Some (s, Some (PA 2 1))
  | PG SDone => Some (s, Some (PA 2 2))
  | PA 2 a => Some (s, Some (PI true (dev_of a) 1))
  | PT => match pend with
          | [] => None
          | a :: r => Some (WT nq nsh nsp tot r, Some (PA 7 a))
          end
  | PA 7 a => let sp := 2 <=? a in
              if Nat.odd a then Some (WT (S nq) nsh nsp tot pend, Some (PI true DNext (if sp then 5 else 4)))
              else Some (wt_create timeshift (WT (if sp then pred nq else nq) nsh nsp tot pend), None)
  | PI true DNext 4 => Some (wt_create timeshift s, None)
  | PI true DNext 5 => Some (wt_create timeshift (WT (pred nq) nsh nsp tot pend), None)
  | _ => Some (s, None)
  end.

(* ======================================================================= *)
(* running them *)
Definition run_zip fx progs sched := grun (zip_step fx) (zip_init (length progs)) progs sched.
Definition run_cl fx progs sched := grun (cl_step fx) (cl_init (length progs)) progs sched.
Definition run_wl fx progs sched := grun (wl_step fx) (wl_init (length progs)) progs sched.
Definition run_ma fx progs sched := grun (ma_step fx (length progs)) (ma_init (length progs)) progs sched.
Definition run_mm fx m progs sched := grun (mm_step fx (length progs) m) (mm_init (length progs)) progs sched.
Definition run_am progs sched := grun am_step am_init progs sched.
Definition run_wc count progs sched := grun (wc_step count) wc_init progs sched.
Definition run_wt span shift progs sched := grun (wt_step shift) (wt_init span shift) progs sched.

(* correspondence: one entry point; op: 0 zip 1 combine_latest 2 with_latest_from 3 merge_all
   4 merge(max_concurrent) 5 amb 6 window_with_time_or_count 7 window_with_time; ps: parameters *)
Definition comb_log (op : nat) (fx : bool) (ps : list nat) (progs : list (list sev)) (sched : list nat)
  : list (nat * cobs) :=
  match op with
  | 0 => c_log (run_zip fx progs sched)
  | 1 => c_log (run_cl fx progs sched)
  | 2 => c_log (run_wl fx progs sched)
  | 3 => c_log (run_ma fx progs sched)
  | 4 => c_log (run_mm fx (getn ps 0) progs sched)
  | 5 => c_log (run_am progs sched)
  | 6 => c_log (run_wc (getn ps 0) progs sched)
  | _ => c_log (run_wt (getn ps 0) (getn ps 1) progs sched)
  end.

Definition dev_eqb (a b : dev) : bool :=
  match a, b with DNext, DNext | DErr, DErr | DDone, DDone => true | _, _ => false end.
Definition cobs_eqb (a b : cobs) : bool :=
  match a, b with
  | CEnter x, CEnter y | CExit x, CExit y | CUser x, CUser y => dev_eqb x y
  | _, _ => false
  end.
Definition comb_log_eqb (a b : list (nat * cobs)) : bool := list_eqb (pair_eqb Nat.eqb cobs_eqb) a b.
