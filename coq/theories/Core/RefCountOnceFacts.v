(* Facts about Core/RefCountOnce.v: for ALL schedules, ANY number of threads and arbitrary programs
   (in particular any number of threads disposing the SAME dependent concurrently), release() is
   entered at most once per handle -- exactly once iff some dispose() of that handle has executed its
   locked block and the handle is an InnerDisposable. *)
From RxVerif Require Import Base.Prelude Core.Disposables Core.DisposablesFacts Core.DispConc Core.DispConcFacts
  Core.RefCountOnce.
Local Open Scope nat_scope.

(* what one action does to the list of handles *)
Lemma rc_act_deps : forall s l,
  r_deps (fst (fst (rc_act s l))) =
  match l with
  | RL_get => r_deps s ++ [if r_disposed s then DInert false else DInner true]
  | RL_inner k =>
      match nth_error (r_deps s) k with
      | Some (DInner true) => set_nth k (DInner false) (r_deps s)
      | Some (DInert _) => set_nth k (DInert true) (r_deps s)
      | _ => r_deps s
      end
  | _ => r_deps s
  end.
Proof.
  intros s l. destruct l; cbn [rc_act r_step].
  - destruct (r_disposed s); reflexivity.
  - destruct (nth_error (r_deps s) k) as [[[|]|b]|]; reflexivity.
  - destruct (r_disposed s); reflexivity.
  - destruct ((r_count s - 1 =? 0)%Z && r_primary s)%bool; reflexivity.
  - destruct (r_disposed s); reflexivity.
  - destruct (r_primary s); [reflexivity|]. destruct (r_count s =? 0)%Z; reflexivity.
  - reflexivity.
  - reflexivity.
Qed.

Lemma tstep_sh : forall (c : rconfig) tid t l todo hist,
  nth_error (c_ths c) tid = Some t -> next_frame rc_start t = Some (l, todo, hist) ->
  c_sh (tstep rc_start rc_act c tid) = fst (fst (rc_act (c_sh c) l)).
Proof.
  intros c tid t l todo hist N F. unfold tstep. rewrite N, F.
  destruct (rc_act (c_sh c) l) as [[s' l'] out]. reflexivity.
Qed.

Lemma parentless_deps : forall s k, parentless s k = match nth_error (r_deps s) k with Some (DInner false) => true | _ => false end.
Proof. reflexivity. Qed.

(* THE step lemma: a handle's parent link is cleared by exactly the steps that enter release() for it,
   and never comes back *)
Lemma parentless_step : forall (c : rconfig) tid k,
  bnat (parentless (c_sh (tstep rc_start rc_act c tid)) k) =
  bnat (parentless (c_sh c) k) + bnat (enters_release c tid k).
Proof.
  intros c tid k. unfold enters_release.
  destruct (nth_error (c_ths c) tid) as [t|] eqn:N.
  2:{ unfold tstep. rewrite N. cbn [bnat]. lia. }
  destruct (next_frame rc_start t) as [[[l todo] hist]|] eqn:F.
  2:{ unfold tstep. rewrite N, F. cbn [bnat]. lia. }
  rewrite (tstep_sh c tid t l todo hist N F).
  unfold parentless, has_parent. rewrite rc_act_deps. set (deps := r_deps (c_sh c)).
  destruct l; cbn [bnat]; try lia.
  - (* the property [disposable]: a handle is appended *)
    destruct (Nat.lt_ge_cases k (length deps)) as [LT|GE].
    + rewrite nth_error_app1 by exact LT. lia.
    + rewrite nth_error_app2 by exact GE.
      assert (nth_error deps k = None) as -> by (apply nth_error_None; exact GE).
      destruct (k - length deps) as [|[|j]]; cbn [nth_error]; [destruct (r_disposed (c_sh c))|..]; cbn [bnat]; lia.
  - (* InnerDisposable.dispose / Disposable().dispose of handle k0 *)
    destruct (Nat.eqb_spec k0 k) as [->|NE]; cbn [andb].
    + destruct (nth_error deps k) as [[[|]|b]|] eqn:NK.
      * rewrite nth_set_nth_eq by (apply nth_error_Some; congruence). cbn [bnat]. lia.
      * rewrite NK. cbn [bnat]. lia.
      * rewrite nth_set_nth_eq by (apply nth_error_Some; congruence). cbn [bnat]. lia.
      * rewrite NK. cbn [bnat]. lia.
    + assert (k <> k0) as NE' by congruence.
      destruct (nth_error deps k0) as [[[|]|b]|]; rewrite ?nth_set_nth_neq by exact NE'; cbn [bnat]; lia.
Qed.

(* along any schedule: #release() entered for handle k = did its parent link get cleared *)
Lemma release_calls_parentless : forall sched (c : rconfig) k,
  release_calls c sched k + bnat (parentless (c_sh c) k) =
  bnat (parentless (c_sh (crun rc_start rc_act c sched)) k).
Proof.
  induction sched as [|t s IH]; intros c k; [reflexivity|].
  cbn [release_calls]. rewrite crun_cons. rewrite <- IH, parentless_step. lia.
Qed.

Lemma bnat_le : forall b, bnat b <= 1.
Proof. intros []; cbn; lia. Qed.

(* from ANY configuration (so also for every suffix of a schedule) *)
Theorem release_calls_at_most_once : forall sched (c : rconfig) k, release_calls c sched k <= 1.
Proof.
  intros sched c k. pose proof (release_calls_parentless sched c k) as H.
  pose proof (bnat_le (parentless (c_sh (crun rc_start rc_act c sched)) k)). lia.
Qed.

Theorem rc_release_at_most_once : forall progs sched k, rc_release_calls progs sched k <= 1.
Proof. intros. apply release_calls_at_most_once. Qed.

Theorem rc_release_exactly : forall progs sched k,
  rc_release_calls progs sched k = bnat (parentless (c_sh (rc_run progs sched)) k).
Proof.
  intros progs sched k. unfold rc_release_calls, rc_run.
  rewrite <- release_calls_parentless. unfold parentless, cinit. cbn [c_sh r_init r_deps].
  destruct k; cbn [nth_error bnat]; lia.
Qed.

(* once release() was entered for a handle, no later step -- of any thread, under any continuation of
   the schedule -- enters it again *)
Theorem rc_release_never_again : forall progs s1 s2 k,
  rc_release_calls progs s1 k = 1 -> release_calls (rc_run progs s1) s2 k = 0.
Proof.
  intros progs s1 s2 k H. rewrite rc_release_exactly in H.
  pose proof (release_calls_parentless s2 (rc_run progs s1) k) as G.
  pose proof (bnat_le (parentless (c_sh (crun rc_start rc_act (rc_run progs s1) s2)) k)). lia.
Qed.

(* splitting a schedule *)
Lemma release_calls_app : forall s1 s2 (c : rconfig) k,
  release_calls c (s1 ++ s2) k = release_calls c s1 k + release_calls (crun rc_start rc_act c s1) s2 k.
Proof.
  induction s1 as [|t s IH]; intros s2 c k; [reflexivity|].
  cbn [app release_calls]. rewrite IH, crun_cons. lia.
Qed.
