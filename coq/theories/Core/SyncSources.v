(* Executable model for C14: synchronous never-ending sources, the trampolining
   of Observable.subscribe, and early-terminating consumers.

     reactivex/observable/observable.py      Observable.subscribe (set_disposable inside the
                                             current-thread trampoline when it is idle)
     reactivex/observable/fromiterable.py    from_iterable / of      (one action: while not disposed: next)
     reactivex/observable/range.py           range                    (one element per action, rescheduled)
     reactivex/observable/generate.py        generate                 (same shape as range)
     reactivex/operators/_repeat.py, observable/concat.py, observable/repeat.py
                                             repeat / repeat_value / concat (concat_with_iterable action)
     reactivex/scheduler/currentthreadscheduler.py, trampoline.py
                                             the queue: FIFO among items due "now" (Props/C30.v)

   written from the code as it is in the working tree (no proofs here).

   The trampoline.  All producers of a pipeline subscribed with the default
   scheduler schedule on the calling thread's CurrentThreadScheduler singleton,
   with due time "now"; by C30 (never nested, first-scheduled-first) the
   trampoline is a FIFO queue of tasks, and a task scheduled while another runs
   starts after it returns.  Observable.subscribe itself runs as the first task
   (the trampoline is idle), so every subscription of the tree is assigned
   before the first producer task starts.  [q] is that queue.

   Operators.  A pipeline is a [net]: the state allocated by its subscribe
   functions and its reaction to a notification arriving from one of its
   sources ("port") or to one of its own scheduled actions (concat), as a list of
   commands: emit downstream, complete, subscribe a source on a port, dispose
   the subscription of a port, schedule an own action.  The nets of the
   shapes C14 lists are below, each written from the operator's code.  The last
   stage of a pipeline is a [cons]umer (take, first, take_while, element_at, with
   element-wise stages in front): a state machine that says after each element
   whether it has completed.  When the root completes, the AutoDetachObserver
   disposes the subscription tree: every port dies, every queued action is
   cancelled (this is the "release" assumption of Ops/Multi.v, checked
   shape by shape by the correspondence of harness/props/C14.py).

   Work.  One unit of fuel per task dispatch / loop iteration; [pulls] counts
   the elements pulled from the never-ending source (port 0). *)
From RxVerif Require Import Base.Prelude.

(* the never-ending source on port 0 *)
Inductive kind :=
  | KIter              (* from_iterable(infinite iterator): the whole loop is ONE action *)
  | KStep              (* range(0, huge) / generate(0, always, +1): one element per action, then reschedule *)
  | KRep (l : list Z). (* repeat of from_iterable(l) (repeat_value v = KRep [v]): concat action / inner loop *)

(* what can be subscribed on a port *)
Inductive spec := SInf | SOf (l : list Z) | SNever.

Inductive ev := Next (v : Z) | Done.

Inductive ncmd :=
  | NEmit (v : Z)                 (* observer.on_next(v) *)
  | NFin                          (* observer.on_completed() *)
  | NSub (p : nat) (s : spec)     (* <source>.subscribe(...) on port p *)
  | NUnsub (p : nat)              (* dispose the subscription of port p *)
  | NSched (tag : nat).           (* scheduler.schedule(own action tag) *)

Record net := Net {
  n_st : Type;
  n_start : n_st * list ncmd;                          (* subscribe(): allocate, subscribe sources *)
  n_on : n_st -> nat -> ev -> n_st * list ncmd;        (* a source delivers a notification *)
  n_task : n_st -> nat -> n_st * list ncmd }.          (* an own scheduled action runs *)

Record cons := Cons {
  c_st : Type;
  c_init : c_st;
  c_step : c_st -> Z -> c_st * nat * bool }.           (* (state', elements emitted, completed) *)

Inductive task :=
  | TIter (p : nat)                      (* from_iterable action of the never-ending source *)
  | TStep (p : nat)                      (* range / generate action *)
  | TList (p : nat) (l : list Z) (rep : bool)   (* from_iterable action over the rest of a list;
                                                   rep: it is the inner source of repeat *)
  | TConc (p : nat)                      (* concat_with_iterable action of repeat *)
  | TNet (tag : nat).                    (* action scheduled by the net itself *)

Inductive outcome := Returned (pulls emitted : nat) (completed : bool) | OutOfFuel.

Section Sim.
Variable gen : nat -> Z.      (* the i-th element of the iterator / range *)
Variable K : kind.
Variable N : net.
Variable C : cons.

Record st := St {
  s_net : n_st N;
  s_cons : c_st C;
  s_done : bool;            (* the root observer has completed (or was disposed) *)
  s_live : list nat;        (* ports whose subscription is not disposed *)
  s_q : list task;          (* the trampoline *)
  s_idx : nat;              (* next element of the never-ending source *)
  s_pulls : nat;
  s_out : nat }.            (* elements delivered to the final observer *)

Definition memn (p : nat) (l : list nat) : bool := existsb (Nat.eqb p) l.
Fixpoint removen (p : nat) (l : list nat) : list nat :=
  match l with [] => [] | x :: t => if Nat.eqb p x then removen p t else x :: removen p t end.

Definition first_task (p : nat) (s : spec) : list task :=
  match s with
  | SInf => match K with KIter => [TIter p] | KStep => [TStep p] | KRep _ => [TConc p] end
  | SOf l => [TList p l false]
  | SNever => []
  end.

Definition apply1 (c : ncmd) (s : st) : st :=
  match c with
  | NEmit v =>
      let '(c', n, stop) := c_step C (s_cons s) v in
      if stop
      then St (s_net s) c' true [] (s_q s) (s_idx s) (s_pulls s) (s_out s + n)      (* completed: dispose the tree *)
      else St (s_net s) c' false (s_live s) (s_q s) (s_idx s) (s_pulls s) (s_out s + n)
  | NFin => St (s_net s) (s_cons s) true [] (s_q s) (s_idx s) (s_pulls s) (s_out s)
  | NSub p sp => St (s_net s) (s_cons s) (s_done s) (p :: s_live s) (s_q s ++ first_task p sp)
                    (s_idx s) (s_pulls s) (s_out s)
  | NUnsub p => St (s_net s) (s_cons s) (s_done s) (removen p (s_live s)) (s_q s)
                   (s_idx s) (s_pulls s) (s_out s)
  | NSched tag => St (s_net s) (s_cons s) (s_done s) (s_live s) (s_q s ++ [TNet tag])
                     (s_idx s) (s_pulls s) (s_out s)
  end.

(* commands of one handler call, in order; nothing is delivered after the root completed *)
Fixpoint apply (cs : list ncmd) (s : st) : st :=
  match cs with
  | [] => s
  | c :: t => if s_done s then s else apply t (apply1 c s)
  end.

Definition set_net (s : st) (n : n_st N) : st :=
  St n (s_cons s) (s_done s) (s_live s) (s_q s) (s_idx s) (s_pulls s) (s_out s).
Definition set_q (s : st) (q : list task) : st :=
  St (s_net s) (s_cons s) (s_done s) (s_live s) q (s_idx s) (s_pulls s) (s_out s).
Definition pulled (s : st) : st :=
  St (s_net s) (s_cons s) (s_done s) (s_live s) (s_q s) (S (s_idx s)) (S (s_pulls s)) (s_out s).

(* a source on port p calls its observer *)
Definition deliver (p : nat) (e : ev) (s : st) : st :=
  let '(n', cs) := n_on N (s_net s) p e in apply cs (set_net s n').

Definition rep_list : list Z := match K with KRep l => l | _ => [] end.

(* one dispatch of the trampoline / one iteration of a producer loop; None: the queue is empty *)
Definition step (s : st) : option st :=
  match s_q s with
  | [] => None
  | t :: q' =>
      if s_done s then Some (set_q s q')                   (* cancelled with the tree *)
      else
        match t with
        | TIter p =>
            (* while not disposed: value = next(iterator); observer.on_next(value) *)
            if memn p (s_live s) then Some (deliver p (Next (gen (s_idx s))) (pulled s))
            else Some (set_q s q')
        | TStep p =>
            (* observer.on_next(next(iterator)); sd.disposable = scheduler.schedule(action) *)
            if memn p (s_live s)
            then let s1 := deliver p (Next (gen (s_idx s))) (pulled (set_q s q')) in
                 Some (set_q s1 (s_q s1 ++ [TStep p]))
            else Some (set_q s q')
        | TList p (v :: l) rep =>
            if memn p (s_live s)
            then Some (deliver p (Next v) (if rep then pulled (set_q s (TList p l rep :: q'))
                                           else set_q s (TList p l rep :: q')))
            else Some (set_q s q')
        | TList p [] rep =>
            if memn p (s_live s)
            then if rep then Some (set_q s (q' ++ [TConc p]))          (* inner completed: schedule(action) *)
                 else Some (deliver p Done (set_q s q'))
            else Some (set_q s q')
        | TConc p =>
            (* if is_disposed: return; current = next(sources); current.subscribe(...) *)
            if memn p (s_live s) then Some (set_q s (q' ++ [TList p rep_list true]))
            else Some (set_q s q')
        | TNet tag =>
            let '(n', cs) := n_task N (s_net s) tag in Some (apply cs (set_net (set_q s q') n'))
        end
  end.

Fixpoint run (fuel : nat) (s : st) : outcome :=
  match step s with
  | None => Returned (s_pulls s) (s_out s) (s_done s)
  | Some s' => match fuel with O => OutOfFuel | S f => run f s' end
  end.

(* Observable.subscribe with the default scheduler: the trampoline is idle, set_disposable is
   its first task; it runs the subscribe functions of the tree (producers only enqueue) *)
Definition init : st :=
  let '(n0, cs) := n_start N in apply cs (St n0 (c_init C) false [] [] 0 0 0).

Definition run_default (fuel : nat) : outcome := run fuel init.

(* ---- a scheduler that runs the action inside schedule() ---------------- *)
(* ImmediateScheduler (or a fresh CurrentThreadScheduler(), whose trampoline is not the one
   subscribe() runs in): the producer of the never-ending source runs inside its own
   subscribe(), i.e. before the disposable that could stop it exists.  Finite sources run to
   completion inside their subscribe() as well. *)
Definition elem (i : nat) : Z :=
  match K with
  | KRep l => nth (Nat.modulo i (length l)) l 0
  | _ => gen i
  end.

Fixpoint inl (fuel : nat) (cs : list ncmd) (s : st) : option st :=     (* None: out of fuel *)
  match fuel with
  | O => None
  | S f =>
      match cs with
      | [] => Some s
      | c :: t =>
          match c with
          | NSub p SInf =>
              (* from_iterable: CompositeDisposable(scheduler.schedule(action), disp) -- action runs
                 first; range/generate/repeat: the action calls schedule(action) again from inside *)
              match inl_inf f p (St (s_net s) (s_cons s) (s_done s) (p :: s_live s) (s_q s)
                                    (s_idx s) (s_pulls s) (s_out s)) with
              | None => None
              | Some s' => inl f t s'
              end
          | NSub p (SOf l) =>
              match inl_list f p l (St (s_net s) (s_cons s) (s_done s) (p :: s_live s) (s_q s)
                                       (s_idx s) (s_pulls s) (s_out s)) with
              | None => None
              | Some s' => inl f t s'
              end
          | NSub p SNever => inl f t s
          | NSched tag =>
              let '(n', cs') := n_task N (s_net s) tag in
              match inl f cs' (set_net s n') with
              | None => None
              | Some s' => inl f t s'
              end
          | NEmit v =>
              if s_done s then inl f t s
              else let '(c', n, stop) := c_step C (s_cons s) v in
                   (* completed: the AutoDetachObserver disposes a subscription that is not assigned yet *)
                   inl f t (St (s_net s) c' stop (s_live s) (s_q s) (s_idx s) (s_pulls s) (s_out s + n))
          | NFin => inl f t (St (s_net s) (s_cons s) true (s_live s) (s_q s) (s_idx s) (s_pulls s) (s_out s))
          | NUnsub p => inl f t (St (s_net s) (s_cons s) (s_done s) (removen p (s_live s)) (s_q s)
                                    (s_idx s) (s_pulls s) (s_out s))
          end
      end
  end
with inl_inf (fuel : nat) (p : nat) (s : st) : option st :=
  match fuel with
  | O => None
  | S f =>
      (* nothing can set the producer's disposed flag: its disposable has not been returned *)
      let s1 := pulled s in
      let '(n', cs) := n_on N (s_net s1) p (Next (elem (s_idx s))) in
      match inl f cs (set_net s1 n') with
      | None => None
      | Some s' => inl_inf f p s'
      end
  end
with inl_list (fuel : nat) (p : nat) (l : list Z) (s : st) : option st :=
  match fuel with
  | O => None
  | S f =>
      match l with
      | [] => let '(n', cs) := n_on N (s_net s) p Done in inl f cs (set_net s n')
      | v :: t =>
          let '(n', cs) := n_on N (s_net s) p (Next v) in
          match inl f cs (set_net s n') with
          | None => None
          | Some s' => inl_list f p t s'
          end
      end
  end.

Definition run_inline (fuel : nat) : outcome :=
  let '(n0, cs) := n_start N in
  match inl fuel cs (St n0 (c_init C) false [] [] 0 0 0) with
  | None => OutOfFuel
  | Some s => Returned (s_pulls s) (s_out s) (s_done s)
  end.
End Sim.

(* ------------------------------------------------------------------ *)
(* Consumers                                                            *)

(* take(n), n >= 1:  remaining -= 1; on_next; if not remaining: on_completed *)
Definition c_take (n : nat) : cons :=
  Cons nat n (fun r _ => match r with
                         | O => (O, 0, true)%nat
                         | S r' => (r', 1, Nat.eqb r' 0)%nat
                         end).

(* first() = first_or_default_async: on_next; on_completed *)
Definition c_first : cons := Cons unit tt (fun _ _ => (tt, 1%nat, true)).

(* take_while(p) / take_while(p, inclusive=True) *)
Definition c_take_while (p : Z -> bool) (inclusive : bool) : cons :=
  Cons unit tt (fun _ v => if p v then (tt, 1%nat, false) else (tt, if inclusive then 1%nat else 0%nat, true)).

(* element_at(i):  if index_: index_ -= 1  else: on_next; on_completed *)
Definition c_element_at (i : nat) : cons :=
  Cons nat i (fun r _ => match r with O => (O, 1%nat, true) | S r' => (r', 0%nat, false) end).

(* never completes by itself (the pipeline ends in an operator of the net, e.g. take_until) *)
Definition c_all : cons := Cons unit tt (fun _ _ => (tt, 1%nat, false)).

(* element-wise stages in front of a consumer *)
Definition c_map (f : Z -> Z) (c : cons) : cons :=
  Cons (c_st c) (c_init c) (fun s v => c_step c s (f v)).
Definition c_filter (p : Z -> bool) (c : cons) : cons :=
  Cons (c_st c) (c_init c) (fun s v => if p v then c_step c s v else (s, 0%nat, false)).

(* ------------------------------------------------------------------ *)
(* Nets.  Port 0 is always the never-ending source.                     *)

(* source.pipe(...element-wise..., consumer);  also share(): publish + ref_count connect the
   source once, through a Subject that forwards to the single subscriber *)
Definition n_lin : net :=
  Net unit (tt, [NSub 0 SInf])
      (fun s p e => match e with Next v => (s, [NEmit v]) | Done => (s, [NFin]) end)
      (fun s _ => (s, [])).

(* merge_all over from_iterable([...]) (reactivex.merge): the outer from_iterable delivers
   the observables (coded 0 = the never-ending source, 1 = never()) on port 10 *)
Record mst := MSt { m_stopped : bool; m_active : nat }.
Definition n_merge (order : list Z) : net :=
  Net mst (MSt false 0, [NSub 10 (SOf order)])
      (fun s p e =>
         if Nat.eqb p 10 then
           match e with
           | Next c => (MSt (m_stopped s) (S (m_active s)),
                        [if c =? 0 then NSub 0 SInf else NSub (Z.to_nat c) SNever])
           | Done => (MSt true (m_active s), if Nat.eqb (m_active s) 0 then [NFin] else [])
           end
         else
           match e with
           | Next v => (s, [NEmit v])
           | Done => (MSt (m_stopped s) (pred (m_active s)),
                      if m_stopped s && Nat.eqb (pred (m_active s)) 0 then [NFin] else [])
           end)
      (fun s _ => (s, [])).

(* source.pipe(flat_map(lambda x: of(x))) = map + merge_all: inner i on port i+1 *)
Record fst_ := FSt { f_stopped : bool; f_active : nat; f_next : nat }.
Definition n_flat_map_of : net :=
  Net fst_ (FSt false 0 1, [NSub 0 SInf])
      (fun s p e =>
         if Nat.eqb p 0 then
           match e with
           | Next v => (FSt (f_stopped s) (S (f_active s)) (S (f_next s)), [NSub (f_next s) (SOf [v])])
           | Done => (FSt true (f_active s) (f_next s), if Nat.eqb (f_active s) 0 then [NFin] else [])
           end
         else
           match e with
           | Next v => (s, [NEmit v])
           | Done => (FSt (f_stopped s) (pred (f_active s)) (f_next s),
                      if f_stopped s && Nat.eqb (pred (f_active s)) 0 then [NFin] else [])
           end)
      (fun s _ => (s, [])).

(* of(1).pipe(flat_map(lambda _: source)) *)
Definition n_flat_outer : net :=
  Net mst (MSt false 0, [NSub 10 (SOf [1])])
      (fun s p e =>
         if Nat.eqb p 10 then
           match e with
           | Next _ => (MSt (m_stopped s) (S (m_active s)), [NSub 0 SInf])
           | Done => (MSt true (m_active s), if Nat.eqb (m_active s) 0 then [NFin] else [])
           end
         else
           match e with
           | Next v => (s, [NEmit v])
           | Done => (MSt (m_stopped s) (pred (m_active s)),
                      if m_stopped s && Nat.eqb (pred (m_active s)) 0 then [NFin] else [])
           end)
      (fun s _ => (s, [])).

(* switch_latest: latest = port of the current inner (0 = none yet) *)
Record sst := SSt { w_stopped : bool; w_has : bool; w_latest : nat; w_next : nat }.
Definition switch_on_inner (s : sst) (p : nat) (e : ev) : sst * list ncmd :=
  match e with
  | Next v => (s, if Nat.eqb p (w_latest s) then [NEmit v] else [])
  | Done => if Nat.eqb p (w_latest s)
            then (SSt (w_stopped s) false (w_latest s) (w_next s), if w_stopped s then [NFin] else [])
            else (s, [])
  end.

(* source.pipe(switch_map(lambda x: of(x))): inner i on port i+1; the SerialDisposable disposes
   the previous inner when the next one is assigned *)
Definition n_switch_map_of : net :=
  Net sst (SSt false false 0 1, [NSub 0 SInf])
      (fun s p e =>
         if Nat.eqb p 0 then
           match e with
           | Next v => (SSt (w_stopped s) true (w_next s) (S (w_next s)),
                        (if Nat.eqb (w_latest s) 0 then [] else [NUnsub (w_latest s)])
                        ++ [NSub (w_next s) (SOf [v])])
           | Done => (SSt true (w_has s) (w_latest s) (w_next s), if w_has s then [] else [NFin])
           end
         else switch_on_inner s p e)
      (fun s _ => (s, [])).

(* of(1).pipe(switch_map(lambda _: source)): outer on port 10, the inner is port 0, coded latest = 1 *)
Definition n_switch_outer : net :=
  Net sst (SSt false false 0 1, [NSub 10 (SOf [1])])
      (fun s p e =>
         if Nat.eqb p 10 then
           match e with
           | Next _ => (SSt (w_stopped s) true 1 2, [NSub 0 SInf])
           | Done => (SSt true (w_has s) (w_latest s) (w_next s), if w_has s then [] else [NFin])
           end
         else switch_on_inner s 1 e)
      (fun s _ => (s, [])).

(* reactivex.concat(a, b) = concat_with_iterable([a, b]): own action 0 subscribes the next source;
   the inner's on_completed schedules the action again.  first = true: (of(1,2), source),
   first = false: (source, of(1,2)); the finite source is port 1 *)
Definition n_concat (finite_first : bool) : net :=
  Net nat (0%nat, [NSched 0])
      (fun s p e =>
         match e with
         | Next v => (s, [NEmit v])
         | Done => (s, [NSched 0])
         end)
      (fun s _ =>
         match s with
         | O => (1%nat, [if finite_first then NSub 1 (SOf [1; 2]) else NSub 0 SInf])
         | S O => (2%nat, [if finite_first then NSub 0 SInf else NSub 1 (SOf [1; 2])])
         | _ => (s, [NFin])
         end).

(* reactivex.amb(a, b) with never(): the first source to react wins, the others are disposed *)
Definition n_amb (source_first : bool) : net :=
  Net bool (false,
            if source_first then [NSub 1 SNever; NSub 0 SInf; NSub 2 SNever]
            else [NSub 0 SInf; NSub 1 SNever; NSub 2 SNever])
      (fun chosen p e =>
         match e with
         | Next v => (true, (if chosen then [] else [NUnsub 1; NUnsub 2]) ++ [NEmit v])
         | Done => (true, (if chosen then [] else [NUnsub 1; NUnsub 2]) ++ [NFin])
         end)
      (fun s _ => (s, [])).

(* parent.pipe(with_latest_from(child)): the child is subscribed first.
   main = true: source.with_latest_from(of(9)); main = false: of(1).with_latest_from(source) *)
Definition n_wlf (main : bool) : net :=
  Net bool (false,
            if main then [NSub 1 (SOf [9]); NSub 0 SInf] else [NSub 0 SInf; NSub 1 (SOf [1])])
      (fun has p e =>
         let child := if main then 1%nat else 0%nat in
         if Nat.eqb p child then
           match e with Next _ => (true, []) | Done => (has, []) end
         else
           match e with Next v => (has, if has then [NEmit v] else []) | Done => (has, [NFin]) end)
      (fun s _ => (s, [])).

(* reactivex.combine_latest(a, b): ports in source order.
   first = true: (source, of(9)); first = false: (of(9), source) *)
Record cst := CSt { k_has0 : bool; k_has1 : bool; k_done0 : bool; k_done1 : bool }.
Definition n_combine (source_first : bool) : net :=
  Net cst (CSt false false false false,
           if source_first then [NSub 0 SInf; NSub 1 (SOf [9])] else [NSub 1 (SOf [9]); NSub 0 SInf])
      (fun s p e =>
         if Nat.eqb p 0 then
           match e with
           | Next v => let s' := CSt true (k_has1 s) (k_done0 s) (k_done1 s) in
                       (s', if k_has1 s then [NEmit v] else if k_done1 s then [NFin] else [])
           | Done => (CSt (k_has0 s) (k_has1 s) true (k_done1 s), if k_done1 s then [NFin] else [])
           end
         else
           match e with
           | Next v => let s' := CSt (k_has0 s) true (k_done0 s) (k_done1 s) in
                       (s', if k_has0 s then [NEmit v] else if k_done0 s then [NFin] else [])
           | Done => (CSt (k_has0 s) (k_has1 s) (k_done0 s) true, if k_done0 s then [NFin] else [])
           end)
      (fun s _ => (s, [])).

(* source.pipe(take_until(of(1))): the source is subscribed first *)
Definition n_take_until : net :=
  Net unit (tt, [NSub 0 SInf; NSub 1 (SOf [1])])
      (fun s p e =>
         if Nat.eqb p 0 then match e with Next v => (s, [NEmit v]) | Done => (s, [NFin]) end
         else match e with Next _ => (s, [NFin]) | Done => (s, []) end)
      (fun s _ => (s, [])).
