(* Transition system of reactivex/observer/scheduledobserver.py (ScheduledObserver)
   and observeonobserver.py (ObserveOnObserver), as the code is.

     def _on_next_core(self, value):            # also _on_error_core, _on_completed_core
         def action(): self.observer.on_next(value)
         self.queue.append(action)              # NOT under the lock            [LP_append]
     # ObserveOnObserver._on_next_core:  super()._on_next_core(value); self.ensure_active()

     def ensure_active(self):
         is_owner = False
         with self.lock:                                                       # [LE_lock]
             if not self.has_faulted and self.queue:
                 is_owner = not self.is_acquired
                 self.is_acquired = True
         if is_owner:
             self.disposable.disposable = self.scheduler.schedule(self.run)    # [LE_sched]

     def run(self, scheduler, state):           # invoked by the target scheduler   [LW_pop]
         with self.lock:                                                       # [LR_lock]
             if parent.queue: work = parent.queue.pop(0)
             else: parent.is_acquired = False; return
         try:
             work()                             # self.observer.on_xxx(..)  OUTSIDE the lock   [LR_enter, LR_exit]
         except Exception:
             with self.lock:                                                   # [LR_fault]
                 parent.queue = []; parent.has_faulted = True
             raise
         self.scheduler.schedule(self.run)                                     # [LR_resched]

   One step = one locked block | the unlocked queue.append | one call out of the
   object (scheduler.schedule, the delivery; the delivery is cut in two steps,
   entering and leaving the downstream observer, so that overlap is observable).

   The target scheduler is abstract: [so_pend] counts the `run` actions handed to
   it and not yet started; ANY thread whose program is [OWork] is a worker of
   that scheduler and may start a pending action at any moment (one worker = an
   event loop; several = a thread pool / new-thread scheduler).  A worker with
   nothing pending cannot step (None).

   Notifications are natural-number identifiers in the order the observer's
   `_on_*_core` methods are reached (the Observer base class drops what follows
   a terminal notification before that point: thread-local for a serial
   producer, done by the harness with [gate]).  [raises i]: the downstream
   observer raises on notification i.  [so_recv] is ghost (never read). *)
From RxVerif Require Import Base.Prelude Core.Lts.
Local Open Scope nat_scope.

Record so_state := SO {
  so_q : list nat;        (* self.queue *)
  so_acq : bool;          (* self.is_acquired *)
  so_flt : bool;          (* self.has_faulted *)
  so_pend : nat;          (* `run` actions scheduled on the target scheduler and not yet started *)
  so_recv : list nat }.   (* ghost: everything appended so far, in order *)
Definition so_init : so_state := SO [] false false 0 [].

Inductive so_op :=
| ONote (i : nat)      (* ObserveOnObserver.on_xxx: append, then ensure_active *)
| OEnq (i : nat)       (* ScheduledObserver.on_xxx: append only (ReplaySubject) *)
| OEnsure              (* ensure_active() *)
| OWork.               (* the loop of a worker of the target scheduler; never returns *)

Inductive so_loc :=
| LP_append (i : nat) (ens : bool)
| LE_lock | LE_sched
| LW_pop | LR_lock | LR_enter (i : nat) | LR_exit (i : nat) | LR_fault | LR_resched.

Inductive so_obs :=
| OSched               (* scheduler.schedule(self.run) was called *)
| OPop                 (* the scheduler starts a pending `run` *)
| OEnter (i : nat)     (* the downstream observer is entered with notification i *)
| OExit (i : nat)      (* ... and returned normally *)
| ORaise (i : nat).    (* ... and raised *)

Definition so_start (o : so_op) : so_loc :=
  match o with
  | ONote i => LP_append i true
  | OEnq i => LP_append i false
  | OEnsure => LE_lock
  | OWork => LW_pop
  end.

Section Act.
Variable raises : nat -> bool.

Definition so_act (tid : nat) (s : so_state) (l : so_loc) : option (so_state * option so_loc * list so_obs) :=
  let '(SO q acq flt pend recv) := s in
  match l with
  | LP_append i ens =>
      Some (SO (q ++ [i]) acq flt pend (recv ++ [i]), if ens then Some LE_lock else None, [])
  | LE_lock =>
      match flt, q with
      | false, _ :: _ => if acq then Some (s, None, [])
                         else Some (SO q true flt pend recv, Some LE_sched, [])
      | _, _ => Some (s, None, [])
      end
  | LE_sched => Some (SO q acq flt (S pend) recv, None, [OSched])
  | LW_pop =>
      match pend with
      | O => None
      | S p => Some (SO q acq flt p recv, Some LR_lock, [OPop])
      end
  | LR_lock =>
      match q with
      | i :: r => Some (SO r acq flt pend recv, Some (LR_enter i), [])
      | [] => Some (SO q false flt pend recv, Some LW_pop, [])
      end
  | LR_enter i => Some (s, Some (LR_exit i), [OEnter i])
  | LR_exit i =>
      if raises i then Some (s, Some LR_fault, [ORaise i])
      else Some (s, Some LR_resched, [OExit i])
  | LR_fault => Some (SO [] acq true pend recv, Some LW_pop, [])
  | LR_resched => Some (SO q acq flt (S pend) recv, Some LW_pop, [OSched])
  end.

Definition so_run (progs : list (list so_op)) (sched : list nat) : config :=
  run so_start so_act (init so_init progs) sched.
End Act.

(* ---- what the statements talk about -------------------------------------- *)
Definition entered (l : list so_obs) : list nat :=
  flat_map (fun o => match o with OEnter i => [i] | _ => [] end) l.
Definition left (l : list so_obs) : list nat :=                 (* deliveries that returned or raised *)
  flat_map (fun o => match o with OExit i | ORaise i => [i] | _ => [] end) l.

(* never two deliveries at once: scanning the log, a delivery is entered only
   when none is open and the one that ends is the open one *)
Definition sstep (st : option (list nat)) (o : so_obs) : option (list nat) :=
  match st with
  | None => None
  | Some op =>
      match o with
      | OEnter i => match op with [] => Some [i] | _ => None end
      | OExit i | ORaise i => match op with [j] => if Nat.eqb i j then Some [] else None | _ => None end
      | _ => Some op
      end
  end.
Definition sfold (l : list so_obs) : option (list nat) := fold_left sstep l (Some []).
Definition serial (l : list so_obs) : bool := match sfold l with Some _ => true | None => false end.

(* after a delivery raised, nothing further is delivered *)
Definition qstep (st : option bool) (o : so_obs) : option bool :=
  match st with
  | None => None
  | Some raised =>
      match o with
      | OEnter _ => if raised then None else Some raised
      | ORaise _ => Some true
      | _ => Some raised
      end
  end.
Definition qfold (l : list so_obs) : option bool := fold_left qstep l (Some false).
Definition quiet_after_raise (l : list so_obs) : bool := match qfold l with Some _ => true | None => false end.

(* who holds the right to drain: a `run` is pending on the scheduler, about to be scheduled
   by the thread that won the test-and-set, or active in a worker *)
Definition tok (l : so_loc) : nat :=
  match l with LE_sched | LR_lock | LR_enter _ | LR_exit _ | LR_resched => 1 | _ => 0 end.
Definition flc (l : so_loc) : nat := match l with LR_fault => 1 | _ => 0 end.   (* a run whose delivery raised *)
Definition infl (l : so_loc) : list nat := match l with LR_enter i => [i] | _ => [] end.   (* popped, not yet delivered *)
Definition opn (l : so_loc) : list nat := match l with LR_exit i => [i] | _ => [] end.     (* inside the downstream observer *)
Definition olift {A B} (f : A -> B) (d : B) (o : option A) : B := match o with Some x => f x | None => d end.
Definition ttok (t : @thread so_loc so_op) : nat := olift tok 0 (t_cur t).
Definition tfl (t : @thread so_loc so_op) : nat := olift flc 0 (t_cur t).
Definition tinfl (t : @thread so_loc so_op) : list nat := olift infl [] (t_cur t).
Definition topn (t : @thread so_loc so_op) : list nat := olift opn [] (t_cur t).
(* number of `run`s pending, being scheduled or active (at most one, theorem) *)
Definition runs_alive (c : @config so_state so_loc so_op so_obs) : nat :=
  so_pend (c_sh c) + nsum ttok (c_ths c) + nsum tfl (c_ths c).

(* the scheduler is idle and every producer call has returned *)
Definition idle (t : @thread so_loc so_op) : bool :=
  match t_cur t with
  | None => match t_todo t with [] => true | _ => false end
  | Some LW_pop => true
  | Some _ => false
  end.
Definition quiescent (c : @config so_state so_loc so_op so_obs) : bool :=
  forallb idle (c_ths c) && Nat.eqb (so_pend (c_sh c)) 0.

(* a program in which every plain enqueue is followed (same thread, no worker loop
   in between) by an ensure_active: what ReplaySubject does *)
Fixpoint has_ens (p : list so_op) : bool :=
  match p with
  | [] => false
  | OEnsure :: _ | ONote _ :: _ => true
  | OEnq _ :: r => has_ens r
  | OWork :: _ => false
  end.
Fixpoint covered (p : list so_op) : bool :=
  match p with
  | [] => true
  | OEnq _ :: r => has_ens r && covered r
  | OWork :: r => covered r
  | _ :: r => covered r
  end.

(* the thread is going to execute ensure_active: it is between the append and the locked block
   of ensure_active, or an ensure_active / observe_on notification comes next in its program *)
Definition will_ensure (t : @thread so_loc so_op) : bool :=
  match t_cur t with
  | Some (LP_append _ true) | Some LE_lock => true
  | Some (LP_append _ false) | Some LE_sched | None => has_ens (t_todo t)
  | Some _ => false
  end.

(* observe_on: each notification is one ONote *)
Definition producer (ids : list nat) : list so_op := map ONote ids.

Definition ids_of (p : list so_op) : list nat :=
  flat_map (fun o => match o with ONote i | OEnq i => [i] | _ => [] end) p.

(* Observer.on_next/on_error/on_completed drop everything after the first terminal
   notification (is_stopped): [term i] says which identifiers are terminal *)
Fixpoint gate (term : nat -> bool) (l : list nat) : list nat :=
  match l with
  | [] => []
  | i :: r => if term i then [i] else i :: gate term r
  end.

(* ---- equality of logs (correspondence) ------------------------------------ *)
Definition so_obs_eqb (a b : so_obs) : bool :=
  match a, b with
  | OSched, OSched | OPop, OPop => true
  | OEnter i, OEnter j | OExit i, OExit j | ORaise i, ORaise j => Nat.eqb i j
  | _, _ => false
  end.
Definition so_log_eqb (a b : list (nat * so_obs)) : bool := list_eqb (pair_eqb Nat.eqb so_obs_eqb) a b.
Definition mem_nat (l : list nat) (i : nat) : bool := existsb (Nat.eqb i) l.

(* ---- seeded changes of the handshake (for refutation witnesses only) ------- *)
(* ensure_active WITHOUT the is_acquired test: every call with a non-empty queue schedules a run *)
Definition so_act_noacq (raises : nat -> bool) (tid : nat) (s : so_state) (l : so_loc) :=
  let '(SO q acq flt pend recv) := s in
  match l with
  | LE_lock =>
      match flt, q with
      | false, _ :: _ => Some (SO q true flt pend recv, Some LE_sched, [])
      | _, _ => Some (s, None, [])
      end
  | _ => so_act raises tid s l
  end.

(* run() whose emptiness test and release of is_acquired are two locked blocks:
     with self.lock:  if queue: work = pop(0)  else: empty = True
     if empty:  with self.lock: is_acquired = False;  return            [inr tt] *)
Definition so_start_split (o : so_op) : so_loc + unit := inl (so_start o).
Definition so_act_split (raises : nat -> bool) (tid : nat) (s : so_state) (l : so_loc + unit)
  : option (so_state * option (so_loc + unit) * list so_obs) :=
  let '(SO q acq flt pend recv) := s in
  match l with
  | inr _ => Some (SO q false flt pend recv, Some (inl LW_pop), [])
  | inl LR_lock =>
      match q with
      | i :: r => Some (SO r acq flt pend recv, Some (inl (LR_enter i)), [])
      | [] => Some (s, Some (inr tt), [])
      end
  | inl l0 =>
      match so_act raises tid s l0 with
      | Some (s', l', out) => Some (s', match l' with Some x => Some (inl x) | None => None end, out)
      | None => None
      end
  end.
