(* C30: when no action can raise, every enqueued action is started, or skipped because it
   was cancelled (audit thm-C28-C30, C30 (a)); code of the working tree ([Cfg false]). *)
From RxVerif Require Import Base.Prelude Core.Trampoline Core.TrampolineFacts Core.TrampolineSeq.

(* hereditarily no [raise] *)
Fixpoint noraise (c : cmd) : bool :=
  match c with
  | CSched _ _ _ b => forallb noraise b
  | CEnsure _ _ b => forallb noraise b
  | CRaise _ => false
  | _ => true
  end.

Definition nr_item (x : item) : Prop := forallb noraise (i_body x) = true.

Definition nr_frame (f : frame) : Prop :=
  match f with
  | FBody _ cs => forallb noraise cs = true
  | FEnq _ it => nr_item it
  | FRun _ r ph => Forall nr_item r /\ ph <> PFin
  | _ => True
  end.

(* no item is ever dropped, and an item is skipped only after its disposable was disposed *)
Fixpoint log_nd (lg : list event) : Prop :=
  match lg with
  | [] => True
  | e :: t => match e with
              | EDrop _ _ _ => False
              | ESkip _ id => In (ECancel id) t
              | _ => True
              end /\ log_nd t
  end.

Definition cancel_logged (w : world) : Prop :=
  forall id, memb id (cancelled w) = true -> In (ECancel id) (log w).
Definition queues_nr (w : world) : Prop := forall k, Forall nr_item (t_queue (tramps w k)).

Ltac fa := repeat match goal with H : Forall _ (_ :: _) |- _ => inversion H; subst; clear H end.

Lemma nr_local : forall th w t w' t',
  mstep (Cfg false) th w t = Some (w', t') ->
  exc t = None -> Forall nr_frame (stk t) -> queues_nr w -> cancel_logged w -> log_nd (log w) ->
  exc t' = None /\ Forall nr_frame (stk t') /\ queues_nr w' /\ cancel_logged w' /\ log_nd (log w').
Proof.
  intros th w [s ex] w' t' H Hex F Q K L. cbn [stk exc] in *.
  assert (Kc : forall e, cancel_logged (World (clock w) (tramps w) (cancelled w) (next_id w) (log w)) ->
               forall tr nid clk, cancel_logged (World clk tr (cancelled w) nid (e :: log w))).
  { intros e _ tr nid clk id Hm. right. apply K. exact Hm. }
  mstep_inv H; try congruence; wsimpl; cbn [exc stk];
    repeat match goal with H : Forall _ (_ :: _) |- _ => inversion H; subst; clear H end;
    cbn [nr_frame forallb noraise] in *;
    repeat match goal with
           | H : _ && _ = true |- _ => apply andb_true_iff in H; destruct H
           | H : _ /\ _ |- _ => destruct H
           end;
    try discriminate; try (cbn in Erace; discriminate); try congruence.
  all: refine (conj eq_refl (conj _ (conj _ (conj _ _)))).
  all: try (solve [repeat (constructor; cbn [nr_frame]; auto); try (split; [auto | congruence]); auto; try congruence]).
  all: try (solve [intro k0; wsimpl; unfold upd, set_active; try (keycase k0 k); cbn [t_queue]; auto; try apply (Q k)]).
  all: try (solve [intros id0 Hm; wsimpl; cbn [In]; auto]).
  all: try (solve [wsimpl; cbn [log_nd]; auto]).
  - (* cancel *)
    intros id0 Hm. cbn [cancelled log] in *. unfold memb in Hm. cbn [existsb] in Hm.
    apply orb_true_iff in Hm. destruct Hm as [Hm|Hm];
      [apply Nat.eqb_eq in Hm; subst; left; reflexivity | right; apply K; exact Hm].
  - intro k0. wsimpl. unfold upd. keycase k0 k; cbn [t_queue]; [|apply Q].
    apply insert_Forall; [unfold nr_item in *; cbn [i_body]; assumption | apply Q].
  - intro k0. wsimpl. unfold upd. keycase k0 k; cbn [t_queue]; [|apply Q].
    apply insert_Forall; [unfold nr_item in *; cbn [i_body]; assumption | apply Q].
  - destruct (split_due_spec _ _ _ _ Esplit) as (S1 & _). pose proof (Q k) as Qk. rewrite S1 in Qk.
    apply Forall_app in Qk. destruct Qk as [Qa Qb].
    constructor; [|assumption]. cbn [nr_frame]. split; [apply Forall_app; split; assumption | congruence].
  - destruct (split_due_spec _ _ _ _ Esplit) as (S1 & _). pose proof (Q k) as Qk. rewrite S1 in Qk.
    apply Forall_app in Qk. destruct Qk as [Qa Qb].
    intro k0. wsimpl. unfold upd. keycase k0 k; cbn [t_queue]; [assumption | apply Q].
  - fa. constructor; [|assumption]. cbn [nr_frame]. split; [assumption | congruence].
  - fa. repeat (constructor; cbn [nr_frame]; auto).
  - intro k0. wsimpl. unfold upd. keycase k0 k; cbn [t_queue]; [rewrite <- Eq|]; apply Q.
Qed.

Definition NInv (cf : config) : Prop :=
  (forall t, In t (snd cf) -> exc t = None /\ Forall nr_frame (stk t)) /\
  queues_nr (fst cf) /\ cancel_logged (fst cf) /\ log_nd (log (fst cf)).

Lemma In_set_nth {A} (y : A) : forall l n u, In u (set_nth n y l) -> u = y \/ In u l.
Proof.
  induction l as [|a l IH]; intros [|n] u H; cbn in H; try contradiction.
  - destruct H as [<-|H]; [left; reflexivity | right; right; exact H].
  - destruct H as [<-|H]; [right; left; reflexivity|]. destruct (IH n u H); [left | right; right]; assumption.
Qed.

Lemma NInv_step cf s : NInv cf -> NInv (cstep (Cfg false) cf s).
Proof.
  destruct cf as [w ts]. intros (T & Q & K & L). cbn [fst snd] in *.
  unfold cstep. destruct s as [th|d]; [|repeat split; auto; apply T; assumption].
  destruct (nth_error ts th) as [t|] eqn:N; [|repeat split; auto; apply T; assumption].
  destruct (mstep (Cfg false) th w t) as [[w' t']|] eqn:M; [|repeat split; auto; apply T; assumption].
  destruct (T t (nth_error_In _ _ N)) as [Ex F].
  destruct (nr_local th w t w' t' M Ex F Q K L) as (Ex' & F' & Q' & K' & L').
  split; [|split; [|split]]; cbn [fst snd]; auto.
  intros u Hu. apply In_set_nth in Hu. destruct Hu as [->|Hu]; [split; assumption | apply T; exact Hu].
Qed.

Lemma NInv_init c0 hs : Forall (fun h => forallb noraise h = true) hs -> NInv (start_config c0 hs).
Proof.
  intro H. unfold NInv, start_config. cbn [fst snd init_world log]. split; [|split; [|split]].
  - intros t Ht. apply in_map_iff in Ht. destruct Ht as (h & <- & Hh). cbn [start_thread exc stk].
    split; [reflexivity|]. constructor; [|constructor]. cbn [nr_frame].
    rewrite Forall_forall in H. apply H. exact Hh.
  - intro k. constructor.
  - intros id Hm. discriminate Hm.
  - exact I.
Qed.

Lemma crun_NInv : forall sch cf, NInv cf -> NInv (crun (Cfg false) cf sch).
Proof. induction sch as [|s sch IH]; intros cf H; [exact H|]. cbn. apply IH. apply NInv_step. exact H. Qed.

Lemma log_nd_no_drop : forall lg k ids exn, log_nd lg -> ~ In (EDrop k ids exn) lg.
Proof.
  induction lg as [|e lg IH]; intros k ids exn L H; [exact H|].
  cbn [log_nd] in L. destruct L as [Le L]. destruct H as [->|H]; [exact Le | exact (IH _ _ _ L H)].
Qed.

Lemma log_nd_skip : forall lg k id, log_nd lg -> In (ESkip k id) lg -> In (ECancel id) lg.
Proof.
  induction lg as [|e lg IH]; intros k id L H; [destruct H|].
  cbn [log_nd] in L. destruct L as [Le L]. destruct H as [->|H]; right; [exact Le | exact (IH _ _ L H)].
Qed.

(* whole runs without raising actions log no drop; a skip is always of a cancelled item *)
Theorem noraise_log c0 hs sch : Forall (fun h => forallb noraise h = true) hs ->
  log_nd (log (fst (crun (Cfg false) (start_config c0 hs) sch))).
Proof. intro H. apply (crun_NInv sch _ (NInv_init c0 hs H)). Qed.

Lemma started_dec k id lg : started k id lg \/ ~ started k id lg.
Proof.
  destruct (existsb (ev_is_start k id) lg) eqn:E.
  - left. apply existsb_exists in E. destruct E as (e & Hin & He). destruct e; try discriminate.
    cbn in He. apply andb_true_iff in He. destruct He as [A B]. apply key_eqb_eq in A. apply Nat.eqb_eq in B.
    subst. do 6 eexists. exact Hin.
  - right. intros (l & th & due & clk & dk & d & Hin).
    assert (existsb (ev_is_start k id) lg = true); [|congruence].
    apply existsb_exists. eexists; split; [exact Hin|]. cbn. rewrite key_eqb_refl, Nat.eqb_refl. reflexivity.
Qed.

Lemma skipped_dec k id lg : skipped k id lg \/ ~ skipped k id lg.
Proof.
  destruct (existsb (ev_is_skip k id) lg) eqn:E.
  - left. apply existsb_exists in E. destruct E as (e & Hin & He). destruct e; try discriminate.
    cbn in He. apply andb_true_iff in He. destruct He as [A B]. apply key_eqb_eq in A. apply Nat.eqb_eq in B.
    subst. exact Hin.
  - right. intro Hin. assert (existsb (ev_is_skip k id) lg = true); [|congruence].
    apply existsb_exists. eexists; split; [exact Hin|]. cbn. rewrite key_eqb_refl, Nat.eqb_refl. reflexivity.
Qed.

(* EVERY SCHEDULED, NON-CANCELLED ACTION RUNS when nobody raises: in the working tree's code,
   for any threads, histories whose actions never raise (hereditarily) and any schedule, once
   every thread has returned, each enqueued item was started, or skipped -- and then its
   disposable had been disposed *)
Theorem all_started_if_no_raise : forall c0 hs sch k id,
  Forall (fun h => forallb noraise h = true) hs ->
  let cf := crun (Cfg false) (start_config c0 hs) sch in
  finished (snd cf) -> enqueued k id (log (fst cf)) ->
  started k id (log (fst cf)) \/ (skipped k id (log (fst cf)) /\ In (ECancel id) (log (fst cf))).
Proof.
  intros c0 hs sch k id H cf F E.
  pose proof (noraise_log c0 hs sch H) as L. fold cf in L.
  destruct (started_dec k id (log (fst cf))) as [S|NS]; [left; exact S|].
  destruct (skipped_dec k id (log (fst cf))) as [K|NK].
  - right. split; [exact K | exact (log_nd_skip _ _ _ L K)].
  - exfalso. apply (all_run (Cfg false) c0 hs sch k id F). fold cf.
    repeat split; auto. intros (ids & exn & Hin & _). exact (log_nd_no_drop _ _ _ _ L Hin).
Qed.

(* no item is ever dropped in such runs (at any moment, finished or not) *)
Theorem no_drop_if_no_raise : forall c0 hs sch k ids exn,
  Forall (fun h => forallb noraise h = true) hs ->
  ~ In (EDrop k ids exn) (log (fst (crun (Cfg false) (start_config c0 hs) sch))).
Proof. intros c0 hs sch k ids exn H. apply log_nd_no_drop. apply noraise_log. exact H. Qed.

(* an action is skipped only if its disposable was disposed before (all runs without raise) *)
Theorem skipped_only_if_cancelled : forall c0 hs sch k id,
  Forall (fun h => forallb noraise h = true) hs ->
  let lg := log (fst (crun (Cfg false) (start_config c0 hs) sch)) in
  In (ESkip k id) lg -> In (ECancel id) lg.
Proof. intros c0 hs sch k id H lg. apply log_nd_skip. apply noraise_log. exact H. Qed.
