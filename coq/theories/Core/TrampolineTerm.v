(* Termination of a single thread of Core/Trampoline.v: a potential that every micro-step
   decreases; a sequential history returns within the fuel of [run_history].  Used by Props/C30.v. *)
From RxVerif Require Import Base.Prelude Core.Trampoline Core.TrampolineFacts Core.TrampolineOrder Core.TrampolineSeq.

(* ---------- a potential that every micro-step of a single thread decreases ---------- *)
Definition bw (b : list cmd) : Z := Z.of_nat (bsize b).
Definition wi (x : item) : Z := 3 + bw (i_body x).
Definition wq (x : item) : Z := wi x + 5.

Definition head_due (w : world) (k : key) : bool :=
  match t_queue (tramps w k) with x :: _ => i_due x <=? clock w | [] => false end.

Definition rank (w : world) (k : key) (ph : phase) : Z :=
  match ph with
  | P1 => if head_due w k then 0 else 5
  | P2 => 4
  | P3 => 3
  | PWait _ => 2
  | PFin => 0
  end.

Definition phi (w : world) (f : frame) : Z :=
  match f with
  | FBody _ cs => 1 + bw cs
  | FEnq k it => wq it + 7
  | FInvoke _ _ _ => 1
  | FInline _ => 1
  | FRun k r ph => 1 + sumf wi r + sumf wq (t_queue (tramps w k)) + rank w k ph
  end.

Definition Phi (w : world) (t : thread) : Z :=
  (match exc t with Some _ => 1 | None => 0 end) + sumf (phi w) (stk t).

Lemma bw_nonneg : forall b, 0 <= bw b. Proof. intros; unfold bw; lia. Qed.
Lemma wi_pos : forall x, 3 <= wi x. Proof. intros; unfold wi; pose proof (bw_nonneg (i_body x)); lia. Qed.
Lemma sum_wi_nonneg : forall l, 0 <= sumf wi l.
Proof. intros; apply sumf_nonneg; intros x _; pose proof (wi_pos x); lia. Qed.
Lemma sum_wq_nonneg : forall l, 0 <= sumf wq l.
Proof. intros; apply sumf_nonneg; intros x _; unfold wq; pose proof (wi_pos x); lia. Qed.
Lemma rank_nonneg : forall w k ph, 0 <= rank w k ph.
Proof. intros; destruct ph; cbn; try lia. destruct (head_due w k); lia. Qed.
Lemma phi_pos : forall w f, 1 <= phi w f.
Proof.
  intros w f; destruct f; cbn [phi]; try lia.
  - pose proof (bw_nonneg cs); lia.
  - unfold wq. pose proof (wi_pos it); lia.
  - pose proof (sum_wi_nonneg ready). pose proof (sum_wq_nonneg (t_queue (tramps w k))).
    pose proof (rank_nonneg w k ph). lia.
Qed.
Lemma Phi_nonneg : forall w t, 0 <= Phi w t.
Proof.
  intros. unfold Phi. assert (0 <= sumf (phi w) (stk t)).
  { apply sumf_nonneg. intros x _. pose proof (phi_pos w x). lia. }
  destruct (exc t); lia.
Qed.

Lemma bw_cons : forall c cs, bw (c :: cs) = Z.of_nat (csize c) + bw cs.
Proof. intros. unfold bw, bsize. cbn [map]. change (list_sum (csize c :: map csize cs)) with (csize c + list_sum (map csize cs))%nat. lia. Qed.

(* frames below the top of a stack: a drain loop there is inside its [while ready] loop *)
Definition p2frame (f : frame) : Prop := match f with FRun _ _ ph => ph = P2 | _ => True end.
Definition below_p2 (s : list frame) : Prop := match s with [] => True | _ :: rest => Forall p2frame rest end.

Lemma below_p2_step : forall c th w t w' t',
  mstep c th w t = Some (w', t') -> below_p2 (stk t) -> below_p2 (stk t').
Proof.
  intros c th w [s ex] w' t' H B. cbn [stk] in *.
  mstep_inv H; wsimpl; cbn [below_p2] in *;
  repeat match goal with H : Forall _ (_ :: _) |- _ => inversion H; subst; clear H end;
  repeat (constructor; auto); cbn [p2frame]; auto.
  all: destruct rest; cbn; auto; inversion B; auto.
Qed.

(* the potential of the frames below the top depends on the world only through the queues *)
Lemma phi_rest_upd : forall w w' k delta rest,
  Forall p2frame rest ->
  (forall k', k' <> k -> t_queue (tramps w' k') = t_queue (tramps w k')) ->
  sumf wq (t_queue (tramps w' k)) = sumf wq (t_queue (tramps w k)) + delta ->
  sumf (phi w') rest = sumf (phi w) rest + delta * sumf (run_c k) rest.
Proof.
  intros w w' k delta rest F Ho Hk. induction rest as [|f rest IH]; [cbn; lia|].
  inversion F; subst. cbn [sumf]. rewrite (IH H2).
  destruct f; cbn [phi run_c p2frame] in *; try lia.
  subst ph. cbn [rank]. destruct (key_eqb k0 k) eqn:E.
  - apply key_eqb_eq in E. subst k0. rewrite Hk. lia.
  - rewrite Ho; [lia|]. intro; subst. rewrite key_eqb_refl in E. discriminate.
Qed.

Lemma phi_rest_same : forall w w' rest,
  Forall p2frame rest -> (forall k, t_queue (tramps w' k) = t_queue (tramps w k)) ->
  sumf (phi w') rest = sumf (phi w) rest.
Proof.
  intros w w' rest F H. induction rest as [|f rest IH]; [reflexivity|].
  inversion F; subst. cbn [sumf]. rewrite (IH H3).
  destruct f; cbn [phi p2frame] in *; try lia. subst ph. cbn [rank]. rewrite H. lia.
Qed.

(* ---------- what holds of a single thread ---------- *)
Definition SInv (c : cfg) (w : world) (t : thread) : Prop :=
  Inv c (w, [t]) /\ below_p2 (stk t) /\
  (forall k, t_signal (tramps w k) = false) /\
  (forall k, t_waiting (tramps w k) = true ->
             exists r u rest, stk t = FRun k r (PWait u) :: rest /\ exc t = None) /\
  (forall k r u rest, stk t = FRun k r (PWait u) :: rest ->
                      exists x q, t_queue (tramps w k) = x :: q /\ i_due x = u).

Lemma single_runs : forall c w t k, Inv c (w, [t]) ->
  runs k t = (if t_idle (tramps w k) then 0 else 1) /\
  (t_idle (tramps w k) = true -> t_queue (tramps w k) = []).
Proof.
  intros c w t k (_ & C & _). destruct (C k) as (_ & C2 & C3). cbn [fst snd sumf] in *. split; auto. lia.
Qed.

Lemma split_due_head : forall now q moved q',
  split_due now q = (moved, q') ->
  (match q with x :: _ => i_due x <=? now | [] => false end) = (match moved with [] => false | _ => true end).
Proof.
  intros now [|x q] moved q' H; cbn in H.
  - inversion H; reflexivity.
  - destruct (i_due x <=? now) eqn:E.
    + destruct (split_due now q). inversion H; subst. reflexivity.
    + inversion H; subst. reflexivity.
Qed.

Lemma sumf_app' : forall {A} (f : A -> Z) a b, sumf f (a ++ b) = sumf f a + sumf f b.
Proof. intros; apply sumf_app. Qed.

Lemma sum_wq_wi : forall l, sumf wq l = sumf wi l + 5 * Z.of_nat (length l).
Proof. induction l; cbn [sumf length]; [lia|]. unfold wq at 1. lia. Qed.

Lemma sum_wq_insert : forall z q, sumf wq (insert z q) = wq z + sumf wq q.
Proof.
  induction q as [|y q IH]; cbn [insert sumf]; [lia|].
  destruct (key_lt z y); cbn [sumf]; lia.
Qed.

Lemma sinv_step : forall c w t w' t',
  SInv c w t -> mstep c 0 w t = Some (w', t') -> SInv c w' t'.
Proof.
  intros c w t w' t' (I & B & SG & WT & WQ) H.
  split; [|split; [|split; [|split]]].
  - pose proof (Inv_step c (w, [t]) (Run 0) I) as I'. cbn [cstep nth_error] in I'. rewrite H in I'. exact I'.
  - eapply below_p2_step; eauto.
  - (* signal *)
    intro k0. destruct t as [s ex]. cbn [stk exc] in *.
    mstep_inv H; wsimpl; unfold upd, set_active; try (keycase k0 k); cbn [t_signal]; auto.
    destruct (t_waiting (tramps w k)) eqn:EW; [|rewrite SG; reflexivity].
    destruct (WT k EW) as (r & u & rest' & E & _). discriminate.
  - (* waiting *)
    intros k0 HW. destruct t as [s ex]. cbn [stk exc] in *.
    assert (NW : forall k1, (forall r u rest', s <> FRun k1 r (PWait u) :: rest') -> t_waiting (tramps w k1) = false).
    { intros k1 Hn. destruct (t_waiting (tramps w k1)) eqn:EW; auto.
      destruct (WT k1 EW) as (r & u & rest' & E & _). exfalso. eapply Hn; eauto. }
    mstep_inv H; wsimpl; unfold upd, set_active in HW; try (keycase k0 k); cbn [t_waiting] in HW;
    try discriminate;
    try (rewrite NW in HW by (intros; discriminate); discriminate);
    try (destruct (WT _ HW) as (r1 & u1 & rest1 & E1 & E2); discriminate).
    all: try (eexists _, _, _; split; reflexivity).
    all: destruct (WT _ HW) as (r1 & u1 & rest1 & E1 & E2); inversion E1; subst; congruence.
  - (* the runner waits for the head of its queue *)
    intros k0 r0 u0 rest0 E. destruct t as [s ex]. cbn [stk exc] in *.
    mstep_inv H; wsimpl; try discriminate; inversion E; subst;
    try (cbn [below_p2] in B; inversion B; subst;
         match goal with H : p2frame _ |- _ => cbn in H; discriminate end).
    unfold upd. rewrite key_eqb_refl. cbn [t_queue]. eexists _, _. split; eauto.
Qed.

Ltac rest_same w B :=
  repeat match goal with
  | |- context [sumf (phi ?w1) ?r] =>
      lazymatch w1 with
      | w => fail
      | _ => rewrite (phi_rest_same w w1 r B)
               by (let k0 := fresh "k0" in intro k0; wsimpl; unfold upd, set_active;
                   try match goal with |- context [key_eqb k0 ?k] =>
                         let E := fresh "E" in destruct (key_eqb k0 k) eqn:E;
                         [apply key_eqb_eq in E; subst k0|] end;
                   reflexivity)
      end
  end.

Ltac pos_facts :=
  repeat match goal with
  | |- context [bw ?b] => lazymatch goal with _ : 0 <= bw b |- _ => fail | _ => pose proof (bw_nonneg b) end
  | |- context [sumf wi ?l] => lazymatch goal with _ : 0 <= sumf wi l |- _ => fail | _ => pose proof (sum_wi_nonneg l) end
  | |- context [sumf wq ?l] => lazymatch goal with _ : 0 <= sumf wq l |- _ => fail | _ => pose proof (sum_wq_nonneg l) end
  | |- context [rank ?a ?b ?c] => lazymatch goal with _ : 0 <= rank a b c |- _ => fail | _ => pose proof (rank_nonneg a b c) end
  | |- context [wi ?x] => lazymatch goal with _ : 3 <= wi x |- _ => fail | _ => pose proof (wi_pos x) end
  end.

Lemma pot_step : forall c w t w' t',
  SInv c w t -> mstep c 0 w t = Some (w', t') -> Phi w' t' + 1 <= Phi w t.
Proof.
  intros c w t w' t' (I & B & SG & WT & WQ) H.
  assert (RK : forall k, runs k t = (if t_idle (tramps w k) then 0 else 1) /\
                         (t_idle (tramps w k) = true -> t_queue (tramps w k) = []))
    by (intro k; eapply single_runs; eauto).
  assert (WF : wf_stk (stk t)) by (destruct I as (W & _); apply W; left; reflexivity).
  destruct t as [s ex]. unfold Phi, runs in *. cbn [stk exc] in *.
  mstep_inv H; wsimpl; cbn [sumf phi below_p2 wf_stk exc stk] in *;
  try (match goal with I0 : Inv _ (?w0, _) |- _ => rest_same w0 B end; rewrite ?bw_cons; cbn [csize]; repeat (try unfold wq; try unfold wi); cbn [i_body new_item];
       pos_facts; unfold bw, bsize in *; lia).
  all: try (cbn [rank]; pos_facts; lia).
  all: try (assert (R0 : sumf (run_c k) rest = 0 /\ t_idle (tramps w k) = false)
              by (destruct (RK k) as [RK1 _]; cbn [run_c] in RK1; rewrite key_eqb_refl in RK1;
                  assert (0 <= sumf (run_c k) rest) by (apply sumf_nonneg; intros; apply run_c_nonneg);
                  destruct (t_idle (tramps w k)); split; auto; lia)).
  - (* an exception leaves the drain loop: the queue is abandoned *)
    destruct R0 as [R0 _].
    rewrite (phi_rest_upd w (exit_path w k ready 0 true) k (- sumf wq (t_queue (tramps w k))) rest B).
    + rewrite R0. pos_facts. lia.
    + intros k' Hk. unfold exit_path. wsimpl. unfold upd. rewrite key_eqb_neq by auto. reflexivity.
    + unfold exit_path. wsimpl. unfold upd. rewrite key_eqb_refl. cbn [t_queue sumf]. lia.
  - (* enqueue on an idle trampoline: this call becomes the drain loop *)
    destruct (RK k) as [RK1 RK2]. cbn [run_c] in RK1. rewrite Eidle in RK1. specialize (RK2 Eidle).
    match goal with |- context [sumf (phi ?w1) rest] => set (W1 := w1) in * end.
    assert (EQ : t_queue (tramps W1 k) = insert (Item (i_due it) (t_count (tramps w k)) (i_id it) (i_label it) (i_body it)) [])
      by (subst W1; wsimpl; unfold upd; rewrite key_eqb_refl; cbn [t_queue]; rewrite RK2; reflexivity).
    rewrite (phi_rest_upd w W1 k (wq it) rest B).
    + rewrite EQ. cbn [insert sumf]. pose proof (rank_nonneg W1 k P1).
      assert (rank W1 k P1 <= 5) by (cbn [rank]; destruct (head_due W1 k); lia).
      unfold wq, wi. cbn [i_body]. lia.
    + intros k' Hk. subst W1. wsimpl. unfold upd. rewrite key_eqb_neq by auto. reflexivity.
    + rewrite EQ, RK2. cbn [insert sumf]. unfold wq, wi. cbn [i_body]. lia.
  - (* enqueue on a busy trampoline *)
    destruct (RK k) as [RK1 RK2]. cbn [run_c] in RK1. rewrite Eidle in RK1.
    match goal with |- context [sumf (phi ?w1) rest] => set (W1 := w1) in * end.
    rewrite (phi_rest_upd w W1 k (wq it) rest B).
    + lia.
    + intros k' Hk. subst W1. wsimpl. unfold upd. rewrite key_eqb_neq by auto. reflexivity.
    + subst W1. wsimpl. unfold upd. rewrite key_eqb_refl. cbn [t_queue]. rewrite sum_wq_insert.
      unfold wq, wi. cbn [i_body]. lia.
  - (* first locked block of _run *)
    destruct R0 as [R0 _].
    match goal with |- context [sumf (phi ?w1) rest] => set (W1 := w1) in * end.
    destruct (split_due_spec _ _ _ _ Esplit) as (S1 & _).
    pose proof (split_due_head _ _ _ _ Esplit) as HD.
    assert (EQ : t_queue (tramps W1 k) = q') by (subst W1; wsimpl; unfold upd; rewrite key_eqb_refl; reflexivity).
    rewrite (phi_rest_upd w W1 k (- sumf wq moved) rest B).
    + rewrite EQ, R0. cbn [rank]. unfold head_due. rewrite HD. rewrite S1, !sumf_app'.
      rewrite (sum_wq_wi moved). pos_facts. destruct moved; cbn [length]; lia.
    + intros k' Hk. subst W1. wsimpl. unfold upd. rewrite key_eqb_neq by auto. reflexivity.
    + rewrite EQ, S1, sumf_app'. lia.
  - (* a cancelled item is skipped *)
    match goal with I0 : Inv _ (?w0, _) |- _ => rest_same w0 B end.
    wsimpl. cbn [rank]. pos_facts. lia.
  - (* invoke *)
    match goal with I0 : Inv _ (?w0, _) |- _ => rest_same w0 B end.
    wsimpl. unfold upd, set_active. rewrite key_eqb_refl. cbn [t_queue rank]. unfold wi. pos_facts. lia.
  - (* normal exit of the drain loop (queue empty) *)
    match goal with |- context [sumf (phi ?w1) rest] => set (W1 := w1) in * end.
    rewrite (phi_rest_same w W1 rest B).
    + cbn [rank]. pos_facts. lia.
    + intro k0. subst W1. wsimpl. unfold upd. destruct (key_eqb k0 k) eqn:E; [|reflexivity].
      apply key_eqb_eq in E. subst k0. cbn [t_queue]. symmetry. exact Eq.
  - (* the head of the queue is not due: wait *)
    match goal with |- context [sumf (phi ?w1) rest] => set (W1 := w1) in * end.
    assert (EQ : forall k0, t_queue (tramps W1 k0) = t_queue (tramps w k0)).
    { intro k0. subst W1. wsimpl. unfold upd. destruct (key_eqb k0 k) eqn:E; [|reflexivity].
      apply key_eqb_eq in E. subst k0. cbn [t_queue]. symmetry. exact Eq. }
    rewrite (phi_rest_same w W1 rest B EQ). rewrite EQ. cbn [rank]. lia.
  - (* the head of the queue is due by now: back to the first block *)
    cbn [rank]. unfold head_due. rewrite Eq.
    assert (E : i_due x <=? clock w' = true) by lia. rewrite E. lia.
  - (* notified: impossible with a single thread *)
    rewrite SG in Esig. discriminate.
  - (* the wait timed out: the clock is at the due time of the head *)
    match goal with |- context [sumf (phi ?w1) rest] => set (W1 := w1) in * end.
    assert (EQ : forall k0, t_queue (tramps W1 k0) = t_queue (tramps w k0)).
    { intro k0. subst W1. wsimpl. unfold upd. destruct (key_eqb k0 k) eqn:E; [|reflexivity].
      apply key_eqb_eq in E. subst k0. reflexivity. }
    rewrite (phi_rest_same w W1 rest B EQ). rewrite EQ.
    destruct (WQ k ready u rest eq_refl) as (x & q & Q1 & Q2).
    assert (HD : head_due W1 k = true).
    { unfold head_due. rewrite EQ, Q1. subst W1. wsimpl. lia. }
    cbn [rank]. rewrite HD. lia.
  - (* old code: finally *)
    destruct R0 as [R0 _].
    rewrite (phi_rest_upd w (exit_path w k ready 0 false) k (- sumf wq (t_queue (tramps w k))) rest B).
    + rewrite R0. pos_facts. lia.
    + intros k' Hk. unfold exit_path. wsimpl. unfold upd. rewrite key_eqb_neq by auto. reflexivity.
    + unfold exit_path. wsimpl. unfold upd. rewrite key_eqb_refl. cbn [t_queue sumf]. lia.
Qed.

(* ---------- a sequential run terminates within the stated fuel ---------- *)
Theorem run1_terminates : forall c fuel w t,
  SInv c w t -> Phi w t <= Z.of_nat fuel -> exists w', run1 c fuel 0 w t = Finished w'.
Proof.
  intros c. induction fuel as [|fuel IH]; intros w t S H; cbn [run1].
  - destruct (mstep c 0 w t) as [[w' t']|] eqn:M; [|eexists; reflexivity].
    pose proof (pot_step _ _ _ _ _ S M). pose proof (Phi_nonneg w' t'). lia.
  - destruct (mstep c 0 w t) as [[w' t']|] eqn:M; [|eexists; reflexivity].
    apply IH.
    + eapply sinv_step; eauto.
    + pose proof (pot_step _ _ _ _ _ S M). lia.
Qed.

Lemma SInv_init : forall c c0 h, SInv c (init_world c0) (start_thread h).
Proof.
  intros. split; [exact (Inv_init c c0 [h])|]. cbn. repeat split; auto.
  - intros k H. discriminate.
  - intros k r u rest H. discriminate.
Qed.

(* every call of a single-threaded history returns: run_history never runs out of fuel *)
Theorem run_history_finishes : forall c c0 h, exists w', run_history c c0 h = Finished w'.
Proof.
  intros. unfold run_history. apply run1_terminates; [apply SInv_init|].
  unfold Phi, start_thread. cbn [exc stk sumf phi]. unfold bw. lia.
Qed.

(* every call returns, and then every item it enqueued has been started, skipped or dropped,
   and every trampoline is idle with an empty queue *)
Theorem run_history_all_run : forall c c0 h,
  exists w', run_history c c0 h = Finished w' /\
    (forall k id, ~ pending k id (log w')) /\
    (forall k, t_idle (tramps w' k) = true /\ t_queue (tramps w' k) = [] /\ t_active (tramps w' k) = 0%nat).
Proof.
  intros c c0 h. destruct (run_history_finishes c c0 h) as (w' & R). exists w'. split; auto.
  destruct (run_history_is_crun c c0 h) as (n & t' & E & F). rewrite R in E, F. cbn [world_of] in E.
  specialize (F w' eq_refl).
  split.
  - intros k id. pose proof (all_run c c0 [h] (repeat (Run 0) n) k id) as A. cbv zeta in A.
    rewrite E in A. cbn [fst snd] in A. apply A. exact F.
  - intro k. pose proof (drained_at_return c c0 [h] (repeat (Run 0) n) k) as D. cbv zeta in D.
    rewrite E in D. cbn [fst snd] in D. apply D. exact F.
Qed.
