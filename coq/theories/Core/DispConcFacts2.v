(* More facts about the interleaving models of Core/DispConc.v (the models and Core/DispConcFacts.v are
   unchanged).  Every theorem quantifies over ALL schedules, all per-thread programs and any number of
   threads.
   - generic: the ghost history of a thread is a prefix of its program ([hist_todo_progs]), thread
     count is constant, histories only grow;
   - Disposable: at quiescence the action ran exactly once iff some program contains a dispose();
     every is_disposed query answered after any dispose() executed its first action returns True;
   - CompositeDisposable: an item handed over once is not in the container at the instant it receives
     its dispose() call;
   - SingleAssignmentDisposable without dispose(): nothing is rejected while the slot is empty, some
     assignment is accepted, every other one is rejected. *)
From RxVerif Require Import Base.Prelude Core.Disposables Core.DisposablesFacts Core.DispConc Core.DispConcFacts.
Local Open Scope Z_scope.

(* ======================================================================= *)
Section ConcFacts2.
Context {Sh L O : Type}.
Variable start : O -> L.
Variable act : Sh -> L -> Sh * option L * list obs.
Notation thread := (@thread L O).
Notation config := (@config Sh L O).
Notation tstep := (@tstep Sh L O start act).
Notation crun := (@crun Sh L O start act).

(* what a frame is, in terms of history and program text *)
Lemma next_frame_text : forall (t : thread) l todo hist,
  next_frame start t = Some (l, todo, hist) ->
  rev hist ++ todo = rev (t_hist t) ++ t_todo t /\ exists more, hist = more ++ t_hist t.
Proof.
  intros t l todo hist F. destruct (t_cur t) as [l0|] eqn:C.
  - destruct (next_frame_cur _ _ _ _ _ _ _ _ F C) as [_ ->].
    rewrite (next_frame_cur_todo _ _ _ _ _ _ _ _ F C). split; [reflexivity|exists []; reflexivity].
  - destruct (next_frame_fresh _ _ _ _ _ _ _ F C) as [o [TD [_ ->]]]. rewrite TD. split.
    + cbn [rev]. rewrite <- app_assoc. reflexivity.
    + exists [o]. reflexivity.
Qed.

(* the text of thread k: calls started so far (oldest first) followed by the calls not yet started *)
Definition text_inv (progs : list (list O)) (c : config) : Prop :=
  length (c_ths c) = length progs /\
  forall k t, nth_error (c_ths c) k = Some t -> nth_error progs k = Some (rev (t_hist t) ++ t_todo t).

Lemma text_inv_step : forall progs (c : config) tid, text_inv progs c -> text_inv progs (tstep c tid).
Proof.
  intros progs c tid [HL H].
  destruct (tstep_cases start act c tid) as [E|[t [l [todo [hist [s' [l' [out [N [F [A E]]]]]]]]]]]; rewrite E;
    [split; assumption|].
  split; cbn [c_ths]; [rewrite set_nth_length; exact HL|].
  intros k t' N'. destruct (nth_error_set_nth_cases _ _ _ _ _ _ N') as [[-> ->]|[_ N2]]; [|apply (H k t' N2)].
  cbn [t_hist t_todo]. destruct (next_frame_text t l todo hist F) as [-> _]. apply (H tid t N).
Qed.

Lemma text_inv_init : forall s progs, text_inv progs (cinit s progs).
Proof.
  intros s progs. unfold cinit. split; cbn [c_ths]; [apply map_length|].
  intros k t N. rewrite nth_error_map in N. destruct (nth_error progs k) as [p|]; [|discriminate N].
  injection N as <-. reflexivity.
Qed.

(* THE LINK between the ghost histories and the programs, every schedule, every moment *)
Theorem hist_todo_progs : forall s progs sched k t,
  nth_error (c_ths (crun (cinit s progs) sched)) k = Some t ->
  nth_error progs k = Some (rev (t_hist t) ++ t_todo t).
Proof.
  intros s progs sched k t.
  apply (crun_invariant start act (text_inv progs) (text_inv_step progs) sched _ (text_inv_init s progs)).
Qed.

Theorem ths_length : forall s progs sched,
  length (c_ths (crun (cinit s progs) sched)) = length progs.
Proof.
  intros s progs sched.
  apply (crun_invariant start act (text_inv progs) (text_inv_step progs) sched _ (text_inv_init s progs)).
Qed.

(* every program has its thread *)
Lemma thread_of_prog : forall s progs sched k p,
  nth_error progs k = Some p ->
  exists t, nth_error (c_ths (crun (cinit s progs) sched)) k = Some t /\ p = rev (t_hist t) ++ t_todo t.
Proof.
  intros s progs sched k p N.
  destruct (nth_error (c_ths (crun (cinit s progs) sched)) k) as [t|] eqn:T.
  - exists t. split; [reflexivity|]. rewrite (hist_todo_progs s progs sched k t T) in N. congruence.
  - exfalso. apply nth_error_None in T. rewrite ths_length in T.
    assert (nth_error progs k <> None) as X by congruence. apply nth_error_Some in X. lia.
Qed.

(* a quiescent thread has started (and finished) all of its program *)
Lemma quiescent_hist : forall (c : config) k t,
  quiescent c = true -> nth_error (c_ths c) k = Some t -> t_todo t = [] /\ t_cur t = None.
Proof.
  intros c k t Q N. unfold quiescent in Q. rewrite forallb_forall in Q.
  specialize (Q t (nth_error_In _ _ N)). unfold finished in Q.
  destruct (t_cur t); [discriminate Q|]. destruct (t_todo t); [split; reflexivity|discriminate Q].
Qed.

(* histories only grow *)
Lemma hist_grows_step : forall (c : config) tid k t,
  nth_error (c_ths c) k = Some t ->
  exists t' more, nth_error (c_ths (tstep c tid)) k = Some t' /\ t_hist t' = more ++ t_hist t.
Proof.
  intros c tid k t N.
  destruct (tstep_cases start act c tid) as [E|[t0 [l [todo [hist [s' [l' [out [N0 [F [A E]]]]]]]]]]]; rewrite E.
  - exists t, []. split; [exact N|reflexivity].
  - cbn [c_ths]. destruct (Nat.eq_dec k tid) as [->|NE].
    + rewrite N in N0. injection N0 as <-. destruct (next_frame_text t l todo hist F) as [_ [more ->]].
      exists (Thread l' todo (more ++ t_hist t)), more. split; [|reflexivity].
      apply nth_set_nth_eq. apply nth_error_Some. congruence.
    + exists t, []. split; [|reflexivity]. rewrite nth_set_nth_neq by exact NE. exact N.
Qed.

Lemma hist_grows : forall sched (c : config) k t,
  nth_error (c_ths c) k = Some t ->
  exists t' more, nth_error (c_ths (crun c sched)) k = Some t' /\ t_hist t' = more ++ t_hist t.
Proof.
  induction sched as [|tid s IH]; intros c k t N.
  - exists t, []. split; [exact N|reflexivity].
  - rewrite crun_cons. destruct (hist_grows_step c tid k t N) as [t1 [m1 [N1 H1]]].
    destruct (IH (tstep c tid) k t1 N1) as [t2 [m2 [N2 H2]]]. exists t2, (m2 ++ m1). split; [exact N2|].
    rewrite H2, H1, app_assoc. reflexivity.
Qed.

(* a property of the shared state that every action preserves, with a property of everything that is
   logged while it holds *)
Lemma log_suffix_invariant : forall (P : Sh -> Prop) (Q : obs -> Prop),
  (forall s l, P s -> P (fst (fst (act s l))) /\ forall o, In o (snd (act s l)) -> Q o) ->
  forall sched (c : config) more,
  P (c_sh c) -> c_log (crun c sched) = c_log c ++ more ->
  P (c_sh (crun c sched)) /\ forall tid o, In (tid, o) more -> Q o.
Proof.
  intros P Q Hs. induction sched as [|t s IH]; intros c more HP HL.
  - rewrite crun_nil in *. split; [exact HP|]. intros tid o I.
    assert (more = []) as ->.
    { apply (app_inv_head (c_log c)). rewrite app_nil_r. symmetry. exact HL. }
    destruct I.
  - rewrite crun_cons in *.
    destruct (tstep_cases start act c t) as [E|[t0 [l [todo [hist [s' [l' [out [N0 [F [A E]]]]]]]]]]].
    + rewrite E in *. apply (IH c more HP HL).
    + destruct (Hs (c_sh c) l HP) as [HP' HQ]. rewrite A in HP', HQ. cbn [fst snd] in HP', HQ.
      destruct (log_grows start act s (tstep c t)) as [m2 Hm2]. rewrite Hm2 in HL.
      rewrite E in Hm2, HL. cbn [c_log] in Hm2, HL. rewrite <- app_assoc in HL.
      apply app_inv_head in HL. subst more.
      assert (P (c_sh (tstep c t))) as HP2 by (rewrite E; exact HP').
      assert (c_log (crun (tstep c t) s) = c_log (tstep c t) ++ m2) as HL2.
      { rewrite E. cbn [c_log]. exact Hm2. }
      destruct (IH (tstep c t) m2 HP2 HL2) as [R1 R2]. split; [exact R1|].
      intros tid o I. apply in_app_or in I. destruct I as [I|I]; [|apply (R2 tid o I)].
      apply in_map_iff in I. destruct I as [o' [X I]]. injection X as _ <-. apply HQ, I.
Qed.
(* a call, once started, stays in the history: a witness "some thread has started call x" persists *)
Lemma hist_witness_step : forall (c : config) tid x,
  (exists k t, nth_error (c_ths c) k = Some t /\ In x (t_hist t)) ->
  exists k t, nth_error (c_ths (tstep c tid)) k = Some t /\ In x (t_hist t).
Proof.
  intros c tid x [k [t [N I]]]. destruct (hist_grows_step c tid k t N) as [t' [more [N' H']]].
  exists k, t'. split; [exact N'|]. rewrite H'. apply in_or_app. right. exact I.
Qed.

(* the local states a call [o] can be in: its first action's, and whatever an action leads to *)
Inductive in_call (o : O) : L -> Prop :=
| ic_start : in_call o (start o)
| ic_step : forall s l s' l' out, in_call o l -> act s l = (s', Some l', out) -> in_call o l'.

(* a call in progress is a state of the most recent call of the thread's history *)
Definition cur_inv (c : config) : Prop :=
  forall k t l, nth_error (c_ths c) k = Some t -> t_cur t = Some l ->
    exists o rest, t_hist t = o :: rest /\ in_call o l.

Lemma frame_in_call : forall (t : thread) l todo hist,
  (forall l0, t_cur t = Some l0 -> exists o rest, t_hist t = o :: rest /\ in_call o l0) ->
  next_frame start t = Some (l, todo, hist) -> exists o rest, hist = o :: rest /\ in_call o l.
Proof.
  intros t l todo hist H F. destruct (t_cur t) as [l0|] eqn:C.
  - destruct (next_frame_cur _ _ _ _ _ _ _ _ F C) as [<- ->]. apply H. reflexivity.
  - destruct (next_frame_fresh _ _ _ _ _ _ _ F C) as [o [_ [-> ->]]]. exists o, (t_hist t).
    split; [reflexivity|apply ic_start].
Qed.

Lemma cur_inv_step : forall (c : config) tid, cur_inv c -> cur_inv (tstep c tid).
Proof.
  intros c tid H.
  destruct (tstep_cases start act c tid) as [E|[t [l [todo [hist [s' [l' [out [N [F [A E]]]]]]]]]]]; rewrite E;
    [exact H|].
  unfold cur_inv. cbn [c_ths]. intros k t' l1 N' C'.
  destruct (nth_error_set_nth_cases _ _ _ _ _ _ N') as [[-> ->]|[_ N2]]; [|apply (H k t' l1 N2 C')].
  cbn [t_cur t_hist] in *. subst l'.
  destruct (frame_in_call t l todo hist (fun l0 => H tid t l0 N) F) as [o [rest [-> IC]]].
  exists o, rest. split; [reflexivity|]. apply (ic_step o (c_sh c) l s' l1 out IC A).
Qed.

Lemma cur_inv_run : forall s progs sched, cur_inv (crun (cinit s progs) sched).
Proof.
  intros s progs sched. apply (crun_invariant start act cur_inv cur_inv_step).
  intros k t l N C. unfold cinit in N. cbn [c_ths] in N. apply nth_error_In in N. apply in_map_iff in N.
  destruct N as [p [<- _]]. discriminate C.
Qed.
End ConcFacts2.

(* ======================================================================= *)
(* Disposable: exactly once iff dispose() was called                         *)

(* a Disposable thread is never parked at the locked block: the first action of a call is taken in
   the step that starts the call *)
Definition dd_called_inv (c : @config dstate dlocal dop) : Prop :=
  (forall k t, nth_error (c_ths c) k = Some t -> t_cur t <> Some DL_lock) /\
  (c_sh c = true -> exists k t, nth_error (c_ths c) k = Some t /\ In DDispose (t_hist t)).

Lemma dd_called_inv_step : forall c tid, dd_called_inv c -> dd_called_inv (tstep dd_start dd_act c tid).
Proof.
  intros c tid [H1 H2].
  destruct (tstep_cases dd_start dd_act c tid) as [E|[t [l [todo [hist [s' [l' [out [N [F [A E]]]]]]]]]]]; rewrite E;
    [split; assumption|].
  assert (tid < length (c_ths c))%nat as Ltid by (apply nth_error_Some; congruence).
  destruct (next_frame_text dd_start t l todo hist F) as [_ [more Hm]].
  split; cbn [c_sh c_ths].
  - intros k t' N'. destruct (nth_error_set_nth_cases _ _ _ _ _ _ N') as [[-> ->]|[_ N2]]; [|apply (H1 k t' N2)].
    cbn [t_cur]. destruct l, (c_sh c); cbn in A; injection A as _ <- _; discriminate.
  - intros S'. destruct (c_sh c) eqn:S0.
    + destruct (H2 eq_refl) as [k [t0 [N0 I0]]]. destruct (Nat.eq_dec k tid) as [->|NE].
      * exists tid, (Thread l' todo hist). split; [apply nth_set_nth_eq, Ltid|]. cbn [t_hist].
        rewrite N in N0. injection N0 as <-. rewrite Hm. apply in_or_app. right. exact I0.
      * exists k, t0. split; [rewrite nth_set_nth_neq by exact NE; exact N0|exact I0].
    + (* the flag is set by this very action: it is the first action of a dispose() call *)
      exists tid, (Thread l' todo hist). split; [apply nth_set_nth_eq, Ltid|]. cbn [t_hist].
      destruct l; cbn in A; injection A as <- _ _; try discriminate S'.
      destruct (t_cur t) as [l0|] eqn:C.
      * destruct (next_frame_cur _ _ _ _ _ _ _ _ F C) as [X _]. subst l0. exfalso. exact (H1 tid t N C).
      * destruct (next_frame_fresh _ _ _ _ _ _ _ F C) as [o [_ [X ->]]]. destruct o; [|discriminate X].
        left. reflexivity.
Qed.

(* converse of [disposable_conc_reports]: the flag is only ever set by a dispose() call *)
Theorem disposable_conc_flag_called : forall progs sched,
  let c := dd_run progs sched in
  c_sh c = true -> exists k t, nth_error (c_ths c) k = Some t /\ In DDispose (t_hist t).
Proof.
  intros progs sched c. unfold c, dd_run.
  apply (crun_invariant dd_start dd_act dd_called_inv dd_called_inv_step). split.
  - intros k t N. unfold cinit in N. cbn [c_ths] in N. apply nth_error_In in N. apply in_map_iff in N.
    destruct N as [p [<- _]]. discriminate.
  - cbn. discriminate.
Qed.

Lemma existsb_is_ddispose : forall p, existsb is_ddispose p = true <-> In DDispose p.
Proof.
  intros p. rewrite existsb_exists. split.
  - intros [o [I X]]. destruct o; [exact I|discriminate X].
  - intros I. exists DDispose. split; [exact I|reflexivity].
Qed.

(* the flag, once all calls have returned, says whether any program contains a dispose() *)
Theorem disposable_conc_flag_iff_called : forall progs sched,
  let c := dd_run progs sched in
  (c_sh c = true -> existsb (existsb is_ddispose) progs = true) /\
  (quiescent c = true -> c_sh c = existsb (existsb is_ddispose) progs).
Proof.
  intros progs sched c.
  assert (c_sh c = true -> existsb (existsb is_ddispose) progs = true) as D1.
  { intros S. destruct (disposable_conc_flag_called progs sched S) as [k [t [N I]]]. fold c in N.
    pose proof (hist_todo_progs dd_start dd_act d_init progs sched k t N) as P.
    apply existsb_exists. exists (rev (t_hist t) ++ t_todo t). split; [eapply nth_error_In; exact P|].
    apply existsb_is_ddispose. apply in_or_app. left. apply -> in_rev. exact I. }
  split; [exact D1|]. intros Q.
  destruct (existsb (existsb is_ddispose) progs) eqn:X.
  - apply existsb_exists in X. destruct X as [p [Ip Xp]]. apply existsb_is_ddispose in Xp.
    apply In_nth_error in Ip. destruct Ip as [k Nk].
    destruct (thread_of_prog dd_start dd_act d_init progs sched k p Nk) as [t [Nt ->]].
    fold (dd_run progs sched) in Nt. fold c in Nt.
    destruct (quiescent_hist c k t Q Nt) as [TD _]. rewrite TD, app_nil_r in Xp. apply in_rev in Xp.
    apply (disposable_conc_reports progs sched k t Nt Xp).
  - destruct (c_sh c) eqn:S; [|reflexivity]. specialize (D1 eq_refl). discriminate D1.
Qed.

(* EXACTLY ONCE IFF CALLED: once all calls of all threads have returned, the action was invoked exactly
   once if some program contains a dispose() call and not at all otherwise; and at every moment it was
   not invoked at all if no program contains one *)
Theorem disposable_conc_exactly_once_iff_called : forall progs sched,
  let c := dd_run progs sched in
  quiescent c = true ->
  runs (plain (c_log c)) = if existsb (existsb is_ddispose) progs then 1%nat else 0%nat.
Proof.
  intros progs sched c Q. destruct (disposable_conc_once progs sched) as [_ [_ H]]. fold c in H.
  rewrite (H Q). destruct (disposable_conc_flag_iff_called progs sched) as [_ E]. fold c in E.
  rewrite (E Q). reflexivity.
Qed.

Theorem disposable_conc_never_if_not_called : forall progs sched,
  existsb (existsb is_ddispose) progs = false -> runs (plain (c_log (dd_run progs sched))) = 0%nat.
Proof.
  intros progs sched X. pose proof (disposable_conc_once progs sched) as [H _]. cbv zeta in H.
  destruct (disposable_conc_flag_iff_called progs sched) as [D _]. cbv zeta in D.
  pose proof (dd_in_flight_nonneg (dd_run progs sched)) as NF.
  destruct (c_sh (dd_run progs sched)) eqn:S; [specialize (D eq_refl); congruence|].
  cbn [dd_held] in H. lia.
Qed.

(* QUERY-LEVEL REPORTING: once any thread has executed the first action of a dispose() call (a fortiori
   once any dispose() has returned), every is_disposed query answered from then on, by any thread under
   any continuation of the schedule, returns True *)
Theorem disposable_conc_query_after_dispose : forall progs s1 s2 k t more tid b,
  nth_error (c_ths (dd_run progs s1)) k = Some t -> In DDispose (t_hist t) ->
  c_log (dd_run progs (s1 ++ s2)) = c_log (dd_run progs s1) ++ more ->
  In (tid, OBool b) more -> b = true.
Proof.
  intros progs s1 s2 k t more tid b N I HL IM.
  pose proof (disposable_conc_reports progs s1 k t N I) as S. cbv zeta in S.
  unfold dd_run in HL. rewrite crun_app in HL. fold (dd_run progs s1) in HL.
  destruct (log_suffix_invariant dd_start dd_act (fun s => s = true)
              (fun o => forall b, o = OBool b -> b = true)) with (sched := s2) (c := dd_run progs s1) (more := more)
    as [_ R]; [|exact S|exact HL|exact (R tid (OBool b) IM b eq_refl)].
  intros s l ->. destruct l; cbn; (split; [reflexivity|]); intros o I0 b0 X;
    repeat (destruct I0 as [I0|I0]); try contradiction; subst o; try discriminate X;
    injection X as <-; reflexivity.
Qed.

Theorem boolean_conc_query_after_dispose : forall progs s1 s2 k t more tid b,
  nth_error (c_ths (bd_run progs s1)) k = Some t -> In DDispose (t_hist t) ->
  c_log (bd_run progs (s1 ++ s2)) = c_log (bd_run progs s1) ++ more ->
  In (tid, OBool b) more -> b = true.
Proof.
  intros progs s1 s2 k t more tid b N I HL IM.
  pose proof (boolean_conc_reports progs s1 k t N I) as S. cbv zeta in S.
  unfold bd_run in HL. rewrite crun_app in HL. fold (bd_run progs s1) in HL.
  destruct (log_suffix_invariant bd_start bd_act (fun s => s = true)
              (fun o => forall b, o = OBool b -> b = true)) with (sched := s2) (c := bd_run progs s1) (more := more)
    as [_ R]; [|exact S|exact HL|exact (R tid (OBool b) IM b eq_refl)].
  intros s l ->. destruct l; cbn; (split; [reflexivity|]); intros o I0 b0 X;
    repeat (destruct I0 as [I0|I0]); try contradiction; subst o; try discriminate X;
    injection X as <-; reflexivity.
Qed.

(* ======================================================================= *)
(* CompositeDisposable: not held at the instant of the dispose() call         *)

(* an action emits no more dispose() calls on i than the occurrences of i the acting call holds *)
Lemma cc_out_le_pl : forall i s l, zdisp i (snd (cc_act s l)) <= cc_pl i l.
Proof.
  intros i s l. destruct l as [o|o|l ret|o].
  - destruct o; cbn [cc_act cc_pl]; try destruct (c_disposed s); cbn [snd];
      rewrite ?zdisp_cons, ?zdisp_nil; cbn [is_disp]; lia.
  - pose proof (cc_pl_nonneg i (CL_lock o)) as NN.
    destruct o as [j|j| | |j| | |]; cbn [cc_act].
    + destruct (c_disposed s); cbn [snd]; rewrite zdisp_nil; exact NN.
    + destruct (mem j (c_items s)); cbn [snd]; rewrite ?zdisp_cons, ?zdisp_nil; cbn [is_disp]; lia.
    + destruct (c_items s); cbn [calls snd]; rewrite zdisp_nil; exact NN.
    + destruct (c_items s); cbn [calls snd]; rewrite zdisp_nil; exact NN.
    + cbn [snd]. rewrite zdisp_nil. exact NN.
    + cbn [snd]. rewrite zdisp_nil. exact NN.
    + cbn [snd]. rewrite zdisp_nil. exact NN.
    + cbn [snd]. rewrite zdisp_nil. exact NN.
  - destruct l as [|x r]; cbn [cc_act cc_pl snd].
    + rewrite zcnt_nil. lia.
    + pose proof (zcnt_nonneg i r). pose proof (zcnt_nonneg i []).
      assert (0 <= zdisp i ret) by (unfold zdisp; lia).
      destruct r; cbn [calls snd]; rewrite zdisp_cons, zcnt_cons, ?zdisp_nil; cbn [is_disp];
        destruct (Nat.eqb i x); lia.
  - cbn [cc_act snd cc_pl]. destruct o; cbn [c_step snd]; rewrite ?zdisp_cons, ?zdisp_nil; cbn [is_disp]; lia.
Qed.

(* NOT HELD AT THE DISPOSE: whenever a scheduled step makes an item that was handed over exactly once
   receive a dispose() call, the container holds it neither just before nor just after that step *)
Theorem composite_conc_not_held_at_dispose : forall l0 progs sched tid i,
  let c := cc_run l0 progs sched in
  let c' := tstep cc_start cc_act c tid in
  cc_total i l0 progs = 1 ->
  zdisp i (plain (c_log c')) = zdisp i (plain (c_log c)) + 1 ->
  mem i (c_items (c_sh c)) = false /\ mem i (c_items (c_sh c')) = false.
Proof.
  intros l0 progs sched tid i c c' T D.
  pose proof (composite_conc_conservation l0 progs sched i) as H. cbv zeta in H. fold c in H.
  pose proof (composite_conc_conservation l0 progs (sched ++ [tid]) i) as H'. cbv zeta in H'.
  unfold cc_run in H'. rewrite crun_app in H'. fold (cc_run l0 progs sched) in H'. fold c in H'.
  rewrite crun_cons, crun_nil in H'. fold c' in H'.
  pose proof (cc_in_flight_nonneg i c) as NF. pose proof (cc_in_flight_nonneg i c') as NF'.
  pose proof (zcnt_nonneg i (c_items (c_sh c))) as NC. pose proof (zcnt_nonneg i (c_items (c_sh c'))) as NC'.
  assert (0 <= zdisp i (plain (c_log c))) as ND by (unfold zdisp; lia).
  assert (1 <= cc_in_flight i c) as FL.
  { destruct (tstep_cases cc_start cc_act c tid) as [E|[t [l [todo [hist [s' [l' [out [N [F [A E]]]]]]]]]]];
      fold c' in E; rewrite E in D; [lia|].
    cbn [c_log] in D. rewrite plain_app, plain_tag, zdisp_app in D.
    pose proof (cc_out_le_pl i (c_sh c) l) as LE. rewrite A in LE. cbn [snd] in LE.
    pose proof (zsum_ge_elem _ (tmeasure (cc_pl i) (cc_adds i)) (c_ths c) tid t
                  (fun y => tmeasure_nonneg _ _ (cc_pl i) (cc_adds i) y (cc_pl_nonneg i)
                              (fun o => ltac:(unfold cc_adds; lia))) N) as G.
    rewrite (next_frame_measure cc_start (cc_pl i) (cc_adds i) (cc_start_ok i) t l todo hist F) in G.
    assert (0 <= zsum (cc_adds i) todo) by (apply zsum_nonneg; intros o; unfold cc_adds; lia).
    unfold cc_in_flight. lia. }
  split; apply cnt_zero_not_mem; unfold zcnt in *; lia.
Qed.

(* ======================================================================= *)
(* SingleAssignmentDisposable: exactly one of the racing assignments is accepted *)

(* while no dispose() is ever called, the container stays live, every call is a single action (no thread
   is ever parked inside a call), and nothing is rejected while the slot is empty *)
Definition sc_nodisp (c : @config xstate slocal sop) : Prop :=
  s_disposed (x_s (c_sh c)) = false /\
  (forall k t, nth_error (c_ths c) k = Some t -> ~ In SDispose (t_todo t) /\ t_cur t = None) /\
  (s_cur (x_s (c_sh c)) = None -> forall j, rejs j (plain (c_log c)) = 0%nat).

Lemma sc_nodisp_step : forall c tid, sc_nodisp c -> sc_nodisp (tstep sc_start (sc_act KSingle) c tid).
Proof.
  intros c tid [D [H R]].
  destruct (tstep_cases sc_start (sc_act KSingle) c tid) as [E|[t [l [todo [hist [s' [l' [out [N [F [A E]]]]]]]]]]];
    rewrite E; [split; [exact D|split; assumption]|].
  destruct (H tid t N) as [T1 T2].
  destruct (next_frame_fresh _ _ _ _ _ _ _ F T2) as [o [TD [-> _]]]. rewrite TD in T1.
  assert (o <> SDispose) as NO by (intros ->; apply T1; left; reflexivity).
  assert (~ In SDispose todo) as NT by (intros X; apply T1; right; exact X).
  assert (s_disposed (x_s s') = false /\ l' = None /\
          (s_cur (x_s s') = None -> s_cur (x_s (c_sh c)) = None /\ forall j, rejs j out = 0%nat)) as [D' [L' R']].
  { destruct (c_sh c) as [s dr]. cbn [x_s] in *.
    destruct o as [j| | |]; [|contradiction NO; reflexivity| |]; cbn [sc_start sc_act x_s x_dropped] in A.
    - destruct (s_cur s) eqn:C.
      + injection A as <- <- <-. cbn [x_s]. split; [exact D|]. split; [reflexivity|]. rewrite C. discriminate.
      + rewrite D in A. injection A as <- <- <-. cbn [x_s s_disposed s_cur]. split; [reflexivity|].
        split; [reflexivity|discriminate].
    - injection A as <- <- <-. cbn [x_s]. split; [exact D|]. split; [reflexivity|]. intros C. split; [exact C|].
      intros j. reflexivity.
    - injection A as <- <- <-. cbn [x_s]. split; [exact D|]. split; [reflexivity|]. intros C. split; [exact C|].
      intros j. reflexivity. }
  split; [exact D'|]. split; cbn [c_sh c_ths c_log].
  - intros k t' N'. destruct (nth_error_set_nth_cases _ _ _ _ _ _ N') as [[-> ->]|[_ N2]]; [|apply (H k t' N2)].
    cbn [t_todo t_cur]. split; [exact NT|exact L'].
  - intros C j. destruct (R' C) as [C0 R0]. rewrite plain_app, plain_tag, rejs_app, (R C0 j), (R0 j). reflexivity.
Qed.

Lemma sc_run_nodisp : forall progs sched,
  (forall p, In p progs -> ~ In SDispose p) -> sc_nodisp (sc_run KSingle progs sched).
Proof.
  intros progs sched NP. unfold sc_run.
  apply (crun_invariant sc_start (sc_act KSingle) sc_nodisp sc_nodisp_step). split; [reflexivity|]. split.
  - intros k t N. unfold cinit in N. cbn [c_ths] in N. apply nth_error_In in N. apply in_map_iff in N.
    destruct N as [p [<- Hp]]. cbn [t_todo t_cur]. split; [apply NP, Hp|reflexivity].
  - intros _ j. reflexivity.
Qed.

(* EXACTLY ONE ACCEPTED (SingleAssignmentDisposable that is never disposed), every interleaving of any
   number of assigning threads:
   - at every moment, nothing has been rejected while the slot is still empty;
   - once all calls returned, if anything was assigned then the slot holds an item;
   - once all calls returned, an item assigned exactly once was rejected exactly once unless it is the
     one the slot holds (and then not at all) *)
Theorem single_conc_exactly_one_accepted : forall progs sched,
  (forall p, In p progs -> ~ In SDispose p) ->
  let c := sc_run KSingle progs sched in
  (s_cur (x_s (c_sh c)) = None -> forall j, rejs j (plain (c_log c)) = 0%nat) /\
  (quiescent c = true -> (exists i, 0 < sc_total i progs) -> s_cur (x_s (c_sh c)) <> None) /\
  (quiescent c = true -> forall i, sc_total i progs = 1 ->
     Z.of_nat (rejs i (plain (c_log c))) = 1 - Z.of_nat (ocnt i (s_cur (x_s (c_sh c))))).
Proof.
  intros progs sched NP c. destruct (sc_run_nodisp progs sched NP) as [D [_ R]]. fold c in D, R.
  assert (KSingle <> KMultiple) as K1 by discriminate. assert (KSingle <> KSerial) as K2 by discriminate.
  destruct (slot_conc_live_silent KSingle progs sched K2 D) as [_ S]. fold c in S.
  assert (forall i, quiescent c = true ->
            Z.of_nat (rejs i (plain (c_log c))) + Z.of_nat (ocnt i (s_cur (x_s (c_sh c)))) = sc_total i progs) as EQ.
  { intros i Q. destruct (slot_conc_exact KSingle progs sched i K1) as [H _]. fold c in H.
    assert (sc_in_flight i c = 0) as F0 by (apply (quiescent_tmeasure (sc_pl i) (sc_adds i) c Q)).
    unfold zdisp in H. rewrite (S i) in H. lia. }
  split; [exact R|]. split.
  - intros Q [i Hi] C. specialize (EQ i Q). rewrite (R C i), C in EQ. cbn [ocnt] in EQ. lia.
  - intros Q i T. specialize (EQ i Q). lia.
Qed.

(* ======================================================================= *)
(* ScheduledDisposable: the wrapped item is only ever disposed ON THE SCHEDULER *)

(* a thread inside inner.dispose() -- at its locked block or making the dispose() calls -- is a worker
   that was invoked by the scheduler (it logged ORun itself), and so is every thread that ever emitted a
   dispose() call *)
Definition hc_worker_inv (c : @config schstate schlocal schop) : Prop :=
  (forall tid t, nth_error (c_ths c) tid = Some t ->
     (t_cur t = Some HL_lock \/ exists l, t_cur t = Some (HL_calls l)) -> In (tid, ORun) (c_log c)) /\
  (forall tid i, In (tid, ODisp i) (c_log c) -> In (tid, ORun) (c_log c)).

Lemma hc_worker_inv_step : forall c tid, hc_worker_inv c -> hc_worker_inv (tstep hc_start hc_act c tid).
Proof.
  intros c tid [I1 I2].
  destruct (tstep_cases hc_start hc_act c tid) as [E|[t [l [todo [hist [s' [l' [out [N [F [A E]]]]]]]]]]]; rewrite E;
    [split; assumption|].
  assert ((l = HL_lock \/ exists l0, l = HL_calls l0) -> In (tid, ORun) (c_log c)) as W.
  { intros X. apply (I1 tid t N). destruct (t_cur t) as [lc|] eqn:C.
    - destruct (next_frame_cur _ _ _ _ _ _ _ _ F C) as [-> _].
      destruct X as [->|[l0 ->]]; [left; reflexivity|right; exists l0; reflexivity].
    - exfalso. destruct (next_frame_fresh _ _ _ _ _ _ _ F C) as [o [_ [-> _]]].
      destruct X as [X|[l0 X]]; destruct o; discriminate X. }
  assert ((l' = Some HL_lock \/ (exists l0, l' = Some (HL_calls l0)) \/ exists i, In (ODisp i) out) ->
          In (tid, ORun) (c_log c ++ map (pair tid) out)) as KEY.
  { intros X. apply in_or_app. destruct l as [| | |l0|].
    - right. cbn [hc_act] in A. injection A as _ <- <-.
      destruct X as [X|[[l0 X]|[i [X|[]]]]]; discriminate X.
    - cbn [hc_act] in A. destruct (sch_queue (c_sh c)).
      + injection A as _ <- <-. destruct X as [X|[[l0 X]|[i []]]]; discriminate X.
      + injection A as _ _ <-. right. left. reflexivity.
    - left. apply W. left. reflexivity.
    - left. apply W. right. exists l0. reflexivity.
    - right. cbn [hc_act] in A. injection A as _ <- <-.
      destruct X as [X|[[l0 X]|[i [X|[]]]]]; discriminate X. }
  split; cbn [c_ths c_log].
  - intros k t' N' C'. destruct (nth_error_set_nth_cases _ _ _ _ _ _ N') as [[-> ->]|[_ N2]].
    + cbn [t_cur] in C'. apply KEY. destruct C' as [C'|C']; [left; exact C'|right; left; exact C'].
    + apply in_or_app. left. apply (I1 k t' N2 C').
  - intros k i I. apply in_app_or in I. destruct I as [I|I].
    + apply in_or_app. left. apply (I2 k i I).
    + apply in_map_iff in I. destruct I as [o [X I]]. injection X as <- ->. apply KEY. right. right.
      exists i. exact I.
Qed.

Lemma hc_run_worker_inv : forall w progs sched, hc_worker_inv (hc_run w progs sched).
Proof.
  intros. unfold hc_run. apply (crun_invariant hc_start hc_act hc_worker_inv hc_worker_inv_step). split.
  - intros tid t N C. unfold cinit in N. cbn [c_ths] in N. apply nth_error_In in N. apply in_map_iff in N.
    destruct N as [p [<- _]]. cbn [t_cur] in C. destruct C as [C|[l C]]; discriminate C.
  - intros tid i [].
Qed.

(* ONLY ON THE SCHEDULER, at every moment of every schedule (not only at quiescence): if the wrapped item
   has received its dispose() call then the scheduler has invoked at least one queued action, and the
   thread that made the dispose() call is one on which the scheduler invoked a queued action *)
Theorem scheduled_conc_only_on_scheduler : forall w progs sched tid,
  let c := hc_run w progs sched in
  (1 <= zdisp w (plain (c_log c)) -> (1 <= runs (plain (c_log c)))%nat) /\
  (In (tid, ODisp w) (c_log c) -> In (tid, ORun) (c_log c)).
Proof.
  intros w progs sched tid c. split.
  - intros D. pose proof (scheduled_conc_conservation w progs sched w) as H. cbv zeta in H. fold c in H.
    rewrite Nat.eqb_refl in H. pose proof (hc_in_flight_nonneg w c) as NF.
    destruct (hc_run_sch_ok w progs sched) as [_ O2]. fold c in O2.
    destruct (hc_run_inv w progs sched) as [_ [_ I3]]. fold c in I3. apply I3.
    destruct (s_disposed (sch_inner (c_sh c))) eqn:SD; [reflexivity|]. exfalso.
    rewrite (O2 eq_refl) in H. cbn [ocnt] in H. rewrite Nat.eqb_refl in H. lia.
  - destruct (hc_run_worker_inv w progs sched) as [_ I2]. apply I2.
Qed.
