(* More facts about the TimeoutScheduler system of Core/RealTime.v (C34): the ghost due time carried by
   TStart is the one the schedule call returned, and that one is computed from the call's argument. *)
From RxVerif Require Import Base.Prelude Core.RealTime Core.RealTimeFacts.
Local Open Scope Z_scope.
Ltac inv H := inversion H; subst; clear H.

(* ---- the due time of a call (step lemma, any state) ------------------------------------------ *)
(* schedule(a) / schedule_relative(d, a): one step; it returns due = clock + max(0, d) (d = 0 for schedule),
   starts exactly one Timer thread for [a] carrying that due time, whose interval is max(0, d) *)
Lemma timeout_due_recorded : forall ntid s o r a d,
  (o = TNow a /\ d = 0) \/ o = TRel d a ->
  caller_step ntid s None (o :: r) =
    Some (s, Caller None r, [TSpawn ntid; TRet a (tclock s + Z.max 0 d)],
          Some (Timer a (tclock s + Z.max 0 d) (PNew (Z.max 0 d)))).
Proof.
  intros ntid s o r a d [[-> ->]| ->]; cbn [caller_step].
  - replace (tclock s + Z.max 0 0) with (tclock s) by lia. reflexivity.
  - reflexivity.
Qed.

(* schedule_absolute(t, a): a step up to the clock read (nothing observable), then one step that returns
   due = t and starts the Timer with interval max(0, t - now), now = the clock at THAT step *)
Lemma timeout_due_recorded_abs : forall ntid s t a r,
  caller_step ntid s None (TAbs t a :: r) = Some (s, Caller (Some (t, a)) r, [], None) /\
  forall s2, caller_step ntid s2 (Some (t, a)) r =
    Some (s2, Caller None r, [TSpawn ntid; TRet a t], Some (Timer a t (PNew (Z.max 0 (t - tclock s2))))) /\
    t <= tclock s2 + Z.max 0 (t - tclock s2).
Proof. intros. split; [reflexivity|]. intros s2. split; [reflexivity|lia]. Qed.

(* ---- TStart's due is a due that a schedule call returned --------------------------------------- *)
Definition invR2 (c : tconfig) : Prop :=
  (forall tid a due ph, nth_error (t_ths c) tid = Some (Timer a due ph) ->
     exists tid' t', In (tid', t', TRet a due) (t_log c)) /\
  (forall tid t a due, In (tid, t, TStart a due) (t_log c) ->
     exists tid' t', In (tid', t', TRet a due) (t_log c) /\ t' <= t).

Lemma invR2_init : forall t0 progs, invR2 (tinit t0 progs).
Proof.
  intros. split.
  - intros tid a due ph H. cbn [tinit t_ths] in H. apply nth_error_In, in_map_iff in H.
    destruct H as [p [E _]]. discriminate E.
  - intros tid t a due [].
Qed.

Lemma invR2_tick : forall c d, invR2 c -> invR2 (ttick c d).
Proof. intros c d H. exact H. Qed.

Lemma caller_step_shape : forall ntid s pending todo s' me out sp,
  caller_step ntid s pending todo = Some (s', me, out, sp) ->
  (exists p t, me = Caller p t) /\ (forall a due, ~ In (TStart a due) out) /\
  (forall th, sp = Some th -> exists a due iv, th = Timer a due (PNew iv) /\ In (TRet a due) out) /\
  (length (match sp with Some th => [th] | None => [] end) <= 1)%nat.
Proof.
  intros ntid s pending todo s' me out sp CS. unfold caller_step in CS. destruct pending as [[t a]|].
  - inv CS. repeat split; eauto; try (intros; intros [X|[X|[]]]; discriminate X).
    intros th X. inv X. do 3 eexists. split; [reflexivity|]. right. left. reflexivity.
  - destruct todo as [|[a|d a|t a|a] r]; inv CS.
    + repeat split; eauto; try (intros; intros [X|[X|[]]]; discriminate X).
      intros th X. inv X. do 3 eexists. split; [reflexivity|]. right. left. reflexivity.
    + repeat split; eauto; try (intros; intros [X|[X|[]]]; discriminate X).
      intros th X. inv X. do 3 eexists. split; [reflexivity|]. right. left. reflexivity.
    + repeat split; eauto; try (intros; intros []). intros th X. discriminate X.
    + repeat split; eauto; try (intros; intros [X|[]]; discriminate X). intros th X. discriminate X.
Qed.

Lemma timer_step_no_start : forall s a ph ph' out b due,
  timer_step s a ph = Some (ph', out) -> ~ In (TStart b due) out.
Proof.
  intros s a ph ph' out b due TS I. unfold timer_step in TS. destruct ph as [iv|dl| | |].
  - destruct (tmem a (tflags s)); inv TS; cbn in I; intuition discriminate.
  - destruct (tmem a (tflags s)); [inv TS; cbn in I; intuition discriminate|].
    destruct (dl <=? tclock s); inv TS; cbn in I; intuition discriminate.
  - inv TS. destruct I.
  - inv TS; cbn in I; intuition discriminate.
  - discriminate TS.
Qed.

Lemma invR2_step : forall c tid, invR c -> invR2 c -> invR2 (ttstep c tid).
Proof.
  intros c tid (R1 & _) (T1 & T2). unfold ttstep.
  destruct (nth_error (t_ths c) tid) as [[pending todo|a due ph]|] eqn:N; [| |split; assumption].
  - destruct (caller_step (length (t_ths c)) (t_sh c) pending todo) as [[[[s' me] out] sp]|] eqn:CS; [|split; assumption].
    destruct (caller_step_shape _ _ _ _ _ _ _ _ CS) as ((p & t & ->) & NS & SP & EXT).
    split; cbn [t_ths t_log].
    + intros j a due ph E. destruct (tnth_after _ _ _ _ _ _ _ N EXT E) as [[_ X]|[[NE E']|X]].
      * discriminate X.
      * destruct (T1 j a due ph E') as (tid' & t' & I). exists tid', t'. apply in_or_app. left. exact I.
      * destruct sp as [th|]; [|discriminate X]. inv X. destruct (SP _ eq_refl) as (a0 & due0 & iv & E0 & I0). inv E0.
        exists tid, (tclock (t_sh c)). apply in_or_app. right. apply in_tstamp. auto.
    + intros j t0 a due I. apply in_app_or in I. destruct I as [I|I]; [|apply in_tstamp in I; exfalso; eapply NS, I].
      destruct (T2 _ _ _ _ I) as (tid' & t' & I' & LE). exists tid', t'. split; [apply in_or_app; left; exact I'|exact LE].
  - destruct (timer_step (t_sh c) a ph) as [[ph' out]|] eqn:TS; [|split; assumption].
    split; cbn [t_ths t_log].
    + intros j a0 due0 ph0 E. destruct (Nat.eq_dec j tid) as [->|NE].
      * erewrite tnth_upd_same in E by exact N. inv E. destruct (T1 tid a0 due0 ph N) as (tid' & t' & I).
        exists tid', t'. apply in_or_app. left. exact I.
      * rewrite tnth_upd_other in E by exact NE. destruct (T1 j a0 due0 ph0 E) as (tid' & t' & I).
        exists tid', t'. apply in_or_app. left. exact I.
    + intros j t0 a0 due0 I. apply in_app_or in I. destruct I as [I|I].
      * destruct (T2 _ _ _ _ I) as (tid' & t' & I' & LE). exists tid', t'. split; [apply in_or_app; left; exact I'|exact LE].
      * apply in_tstamp in I. destruct I as [-> [-> I]].
        assert (E : a0 = a /\ due0 = due).
        { destruct ph; try (exfalso; eapply timer_step_no_start; [exact TS|exact I]).
          destruct I as [I|[]]. inv I. auto. }
        destruct E as [-> ->]. destruct (T1 tid a due ph N) as (tid' & t' & I').
        exists tid', t'. split; [apply in_or_app; left; exact I'|]. eapply R1, I'.
Qed.

Lemma invR2_run : forall t0 progs sched, invR (trun (tinit t0 progs) sched) /\ invR2 (trun (tinit t0 progs) sched).
Proof.
  intros. apply (trun_invariant (fun c => invR c /\ invR2 c)).
  - intros c tid [A B]. split; [apply invR_step, A|apply invR2_step; assumption].
  - intros c d [A B]. split; [apply invR_tick, A|apply invR2_tick, B].
  - split; [apply invR_init|apply invR2_init].
Qed.

(* the due time an action is started with is the due time a schedule call for that action returned, and
   that call returned no later than the start *)
Theorem timeout_start_due_was_returned : forall t0 progs sched tid t a due,
  In (tid, t, TStart a due) (t_log (trun (tinit t0 progs) sched)) ->
  exists tid' t', In (tid', t', TRet a due) (t_log (trun (tinit t0 progs) sched)) /\ t' <= t.
Proof. intros. destruct (invR2_run t0 progs sched) as [_ [_ T2]]. eapply T2, H. Qed.

(* "the call returned at or before its due time" is NOT a theorem: schedule_absolute with a time in the
   past returns due = t although the clock is already past t (the action then runs at once -- late, never
   early) *)
Definition timeout_abs_past_witness : tconfig :=
  trun (tinit 100 [[TAbs 50 7%nat]]) [TMStep 0; TMStep 0; TMStep 1; TMStep 1; TMStep 1]%nat.

Lemma timeout_ret_before_due_refuted :
  t_log timeout_abs_past_witness =
    [(0%nat, 100, TSpawn 1); (0%nat, 100, TRet 7 50); (1%nat, 100, TStart 7 50)] /\
  forall tid' t', In (tid', t', TRet 7%nat 50) (t_log timeout_abs_past_witness) -> ~ t' <= 50.
Proof.
  vm_compute. split; [reflexivity|]. intros tid' t' [H|[H|[H|[]]]]; inv H. intros L. apply L. reflexivity.
Qed.
