(* C36 -- time conversions of reactivex/scheduler/scheduler.py
     to_seconds / to_datetime / to_timedelta   (+ internal/constants.py: UTC_ZERO)
   modelled exactly.

   * an aware datetime is its number of microseconds since 1970-01-01T00:00:00Z, a
     timedelta its number of microseconds (both: CPython keeps exactly this
     information; datetime +/- timedelta and aware datetime - aware datetime are exact
     integer arithmetic);
   * a finite binary64 float is [F m e] = m * 2^e.  The float operations the code
     reaches are modelled on integers, exactly:
       - timedelta.total_seconds()  = int / int true division = the correctly rounded
         (nearest, ties to even) quotient us / 10**6                      -> [rn]
       - datetime.fromtimestamp(x, utc) (_PyTime_ObjectToTimeval, ROUND_HALF_EVEN) and
         timedelta(seconds=x) (delta_new/accum):  modf(x); frac * 1e6 rounded to a
         double; that double rounded half-even to an integer; carry        -> [us_of_float]
   No proofs here (Core/TimeConvFacts.v).  Overflow to infinity is not modelled: the
   values reachable from timedeltas/datetimes are below 2^47 seconds. *)
From Coq Require Import ZArith Bool.
Open Scope Z_scope.

Definition us_per_s : Z := 1000000.

(* ---- exact part ----------------------------------------------------------------- *)
Definition utc_zero : Z := 0.                                  (* constants.py UTC_ZERO *)
Definition dt_minus_epoch (d : Z) : Z := d - utc_zero.         (* value - UTC_ZERO *)
Definition epoch_plus (t : Z) : Z := utc_zero + t.             (* UTC_ZERO + value *)

(* to_timedelta(datetime), to_datetime(timedelta) *)
Definition to_timedelta_dt (d : Z) : Z := dt_minus_epoch d.
Definition to_datetime_td (t : Z) : Z := epoch_plus t.

(* ---- binary64 ---------------------------------------------------------------------- *)
Inductive fl := F (m e : Z).        (* the value m * 2^e *)

(* a / b rounded to the nearest integer, ties to even (b > 0) *)
Definition rne_div (a b : Z) : Z :=
  let q := a / b in
  let r := a mod b in
  if 2 * r <? b then q
  else if b <? 2 * r then q + 1
  else if Z.even q then q else q + 1.

(* a / (b * 2^e) as a fraction of integers *)
Definition scaled_num (a e : Z) : Z := if e <? 0 then a * 2 ^ (- e) else a.
Definition scaled_den (b e : Z) : Z := if e <? 0 then b else b * 2 ^ e.

(* exponent of the last place of a/b in binary64: floor(log2 |a/b|) - 52, at least -1074 *)
Definition rn_exp (a b : Z) : Z :=
  let e0 := Z.log2 (Z.abs a) - Z.log2 b - 53 in
  let q0 := scaled_num (Z.abs a) e0 / scaled_den b e0 in
  let e1 := if 2 ^ 53 <=? q0 then e0 + 1 else e0 in
  Z.max e1 (-1074).

(* the binary64 nearest to a / b, ties to even (b > 0) *)
Definition rn (a b : Z) : fl :=
  if a =? 0 then F 0 0
  else let e := rn_exp a b in F (rne_div (scaled_num a e) (scaled_den b e)) e.

(* to_seconds(timedelta) = value.total_seconds();  to_seconds(datetime) = (value - UTC_ZERO).total_seconds() *)
Definition to_seconds_td (n : Z) : fl := rn n us_per_s.
Definition to_seconds_dt (d : Z) : fl := to_seconds_td (dt_minus_epoch d).

(* modf *)
Definition fl_trunc (x : fl) : Z :=
  let 'F m e := x in if e <? 0 then Z.quot m (2 ^ (- e)) else m * 2 ^ e.
Definition fl_frac (x : fl) : fl :=
  let 'F m e := x in if e <? 0 then F (Z.rem m (2 ^ (- e))) e else F 0 0.
(* floatpart *= 1e6   (one IEEE multiplication) *)
Definition fl_mul_us (x : fl) : fl :=
  let 'F m e := x in
  if e <? 0 then rn (m * us_per_s) (2 ^ (- e)) else rn (m * us_per_s * 2 ^ e) 1.
(* round half even to an integer *)
Definition fl_rhe (x : fl) : Z :=
  let 'F m e := x in if e <? 0 then rne_div m (2 ^ (- e)) else m * 2 ^ e.

(* microseconds denoted by a float number of seconds, as fromtimestamp / timedelta(seconds=) compute it *)
Definition us_of_float (x : fl) : Z :=
  fl_trunc x * us_per_s + fl_rhe (fl_mul_us (fl_frac x)).

Definition to_timedelta_float (x : fl) : Z := us_of_float x.                 (* timedelta(seconds=x) *)
Definition to_datetime_float (x : fl) : Z := epoch_plus (us_of_float x).     (* fromtimestamp(x, utc) *)
(* an int number of seconds is exact *)
Definition to_timedelta_int (s : Z) : Z := s * us_per_s.
Definition to_datetime_int (s : Z) : Z := epoch_plus (s * us_per_s).

(* ---- order on float values ------------------------------------------------------------ *)
Definition fl_le (x y : fl) : Prop :=
  let 'F m e := x in let 'F m' e' := y in
  let k := Z.min e e' in m * 2 ^ (e - k) <= m' * 2 ^ (e' - k).
Definition fl_leb (x y : fl) : bool :=
  let 'F m e := x in let 'F m' e' := y in
  let k := Z.min e e' in m * 2 ^ (e - k) <=? m' * 2 ^ (e' - k).
Definition fl_eqb (x y : fl) : bool := fl_leb x y && fl_leb y x.
