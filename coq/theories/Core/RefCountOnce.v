(* Ghost instrumentation of the RefCountDisposable transition system of Core/DispConc.v
   ([rc_start]/[rc_act], unchanged): which scheduled steps ENTER parent.release() on behalf of the
   k-th handle handed out, under an arbitrary schedule of any number of threads.

   reactivex/disposable/refcountdisposable.py, InnerDisposable.dispose:
       with self.lock:
           parent = self.parent
           self.parent = None
       if parent is not None:
           parent.release()
   The locked block is ONE action ([RL_inner k]): the thread that finds the parent link still set
   ([DInner true]) clears it in the same action and is the one that goes on to call release()
   ([RL_relread]); every other dispose() of the same handle finds [DInner false] and returns.
   [release_calls] counts, along a schedule, the steps that go on to call release() for handle k;
   the harness counts the calls of the real RefCountDisposable.release per handle under the same
   schedule and Coq compares the two ([rc_release_profile]). *)
From RxVerif Require Import Base.Prelude Core.Disposables Core.DispConc.
Local Open Scope nat_scope.

Notation rconfig := (@config rstate rlocal rop).

(* the k-th handle is an InnerDisposable whose parent link has been cleared *)
Definition parentless (s : rstate) (k : nat) : bool :=
  match nth_error (r_deps s) k with Some (DInner false) => true | _ => false end.
Definition has_parent (s : rstate) (k : nat) : bool :=
  match nth_error (r_deps s) k with Some (DInner true) => true | _ => false end.

(* does the next action of thread [tid] take handle k's parent link, i.e. go on to call release()? *)
Definition enters_release (c : rconfig) (tid k : nat) : bool :=
  match nth_error (c_ths c) tid with
  | Some t =>
      match next_frame rc_start t with
      | Some (RL_inner k', _, _) => (k' =? k) && has_parent (c_sh c) k
      | _ => false
      end
  | None => false
  end.

Definition bnat (b : bool) : nat := if b then 1 else 0.

Fixpoint release_calls (c : rconfig) (sched : list nat) (k : nat) : nat :=
  match sched with
  | [] => 0
  | t :: s => bnat (enters_release c t k) + release_calls (tstep rc_start rc_act c t) s k
  end.

Definition rc_release_calls (progs : list (list rop)) (sched : list nat) (k : nat) : nat :=
  release_calls (cinit r_init progs) sched k.

(* release() calls per handle 0..n-1 (what the harness compares with the implementation) *)
Definition rc_release_profile (progs : list (list rop)) (sched : list nat) (n : nat) : list nat :=
  map (rc_release_calls progs sched) (seq 0 n).
