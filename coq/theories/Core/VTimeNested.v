(* start() / advance_to() / advance_by() issued from INSIDE a running action.

   Core/VTime.v has no command for such a call.  These lemmas are the formal basis
   of the rendering used by harness/vt.py (g_history erases the call, or prints
   advance_by(d < 0) as the equally raising sleep(d)):

     1. the run loops invoke an item only while [enabled] is set
        ([start_loop_disabled], [advance_loop_disabled]: a loop entered with the
        flag cleared invokes nothing), and the state handed to the action has the
        flag of the loop state ([run_item_invokes_with_flag]);
     2. no command other than stop() changes the flag ([exec_cmd_keeps_enabled],
        [exec_body_keeps_enabled]): at every position of a body that is not
        preceded by stop(), the flag is still set;
     3. with the flag set, start() returns at once ([start_while_enabled]) and so
        does advance_to(t) for t >= clock ([advance_to_while_enabled]); for
        t < clock it raises ArgumentOutOfRange and changes nothing
        (VTimeFacts.advance_to_past_raises), exactly like sleep(d), d < 0.

   virtualtimescheduler.py: start [with self._lock: if self._is_enabled: return],
   advance_to [if self.now > dt: raise ...; if self.now == dt or self._is_enabled: return]. *)
From RxVerif Require Import Base.Prelude Core.VTime Core.VTimeFacts.

Lemma start_while_enabled c fuel s : enabled s = true -> start c fuel s = Finished s.
Proof. intro H. unfold start. rewrite H. reflexivity. Qed.

Lemma advance_to_while_enabled fuel s t :
  enabled s = true -> clock s <= t -> advance_to fuel s t = Finished s.
Proof.
  intros H L. unfold advance_to.
  assert (E : t <? clock s = false) by (apply Z.ltb_ge; lia).
  rewrite E, H, orb_true_r. reflexivity.
Qed.

Lemma start_loop_disabled c fuel s sp :
  enabled s = false -> start_loop c fuel s sp = Finished (set_enabled s false).
Proof. intro H. destruct fuel; simpl; rewrite H; reflexivity. Qed.

Lemma advance_loop_disabled fuel s t :
  enabled s = false -> advance_loop fuel s t = finish_adv s t.
Proof. intro H. destruct fuel; simpl; rewrite H; reflexivity. Qed.

Lemma loops_disabled c fuel s sp t :
  enabled s = false ->
  start_loop c fuel s sp = Finished (set_enabled s false) /\ advance_loop fuel s t = finish_adv s t.
Proof. intro H. exact (conj (start_loop_disabled c fuel s sp H) (advance_loop_disabled fuel s t H)). Qed.

(* the state in which run_item invokes the action *)
Definition invoke_state (s : st) (it : item) (q' : list item) (newclk : Z) (bumped : bool) : st :=
  add_log (set_clock (dequeue s q') newclk)
          (mkpop s it newclk bumped (negb (memb (i_id it) (cancelled s)))).

Lemma run_item_invokes_with_flag s it q' newclk bumped :
  run_item s it q' newclk bumped =
    (if negb (memb (i_id it) (cancelled s))
     then invoke (invoke_state s it q' newclk bumped) (i_pay it)
     else BOk (invoke_state s it q' newclk bumped))
  /\ enabled (invoke_state s it q' newclk bumped) = enabled s.
Proof. split; reflexivity. Qed.

Definition is_stop (c : scmd) : bool := match c with SStop => true | _ => false end.
Definition nostop (b : list scmd) : bool := forallb (fun c => negb (is_stop c)) b.

Definition bres_state (r : bres) : st := match r with BOk s | BRaise _ s => s end.

Lemma exec_cmd_keeps_enabled s c :
  is_stop c = false -> enabled (bres_state (exec_cmd s c)) = enabled s.
Proof.
  intro H. destruct c; simpl in *; try discriminate; try reflexivity.
  - destruct (cancel_id_fields s r) as (_ & _ & _ & A & _). exact A.
  - destruct (d <? 0); reflexivity.
  - destruct v; reflexivity.
  - destruct (dispose_per_fields s pid) as (_ & _ & A & _). exact A.
Qed.

(* the flag after ANY prefix of a body without stop(): whether the body goes on or raised there *)
Lemma exec_body_keeps_enabled b : forall s,
  nostop b = true -> enabled (bres_state (exec_body s b)) = enabled s.
Proof.
  induction b as [|c t IH]; intros s H; simpl in *; [reflexivity|].
  apply andb_true_iff in H. destruct H as [Hc Ht]. apply negb_true_iff in Hc.
  pose proof (exec_cmd_keeps_enabled s c Hc) as E.
  destruct (exec_cmd s c) as [s1|e s1]; simpl in *.
  - rewrite (IH s1 Ht). exact E.
  - exact E.
Qed.

Lemma exec_body_prefix_enabled b1 b2 s s1 :
  nostop b1 = true -> exec_body s b1 = BOk s1 ->
  enabled s1 = enabled s /\ exec_body s (b1 ++ b2) = exec_body s1 b2.
Proof.
  intros H E. split.
  - pose proof (exec_body_keeps_enabled b1 s H) as K. rewrite E in K. exact K.
  - revert s E. clear H. induction b1 as [|c t IH]; intros s E; simpl in *.
    + inversion E. reflexivity.
    + destruct (exec_cmd s c) as [s2|e s2]; [apply IH; exact E | discriminate].
Qed.
