(* C31, the dispatch of a batch: in EventLoopScheduler.run (reactivex/scheduler/eventloopscheduler.py)

       while ready:
           item = ready.popleft()
           if not item.is_cancelled():
               item.invoke()

   the is_cancelled() test is made PER ITEM, immediately before that item's invoke(): between the test
   of an item and its start the loop thread does nothing else -- no other action of this scheduler
   is tested, started or ended there (only calls made by scheduling threads can fall into that window).
   Consequently an item whose dispose() returned while an EARLIER action of the same batch was still
   running (cancelled by that action itself, or by another thread meanwhile) is never started.
   Proved over all schedules on Core/EventLoop.v with one more log scanner, [win]. *)
From RxVerif Require Import Base.Prelude Core.EventLoop Core.EventLoopFacts.
Local Open Scope Z_scope.

(* state: the item that passed is_cancelled() and has not started yet (the dispatch window is open);
   while it is open, any event of the loop other than the start of that very item is a failure *)
Fixpoint win (o : option item) (l : list ev) : option (option item) :=
  match l with
  | [] => Some o
  | ECheck i false :: r => match o with None => win (Some i) r | Some _ => None end
  | EStart i :: r => match o with Some j => if item_eqb i j then win None r else None | None => None end
  | e :: r => if callish e then win o r else match o with None => win None r | Some _ => None end
  end.

Lemma win_app : forall a b o, win o (a ++ b) = match win o a with Some o' => win o' b | None => None end.
Proof.
  induction a as [|e a IH]; intros b o; [reflexivity|]. destruct e; cbn; try apply IH.
  - destruct c; (destruct o; [reflexivity|apply IH]).
  - destruct o as [j|]; [|reflexivity]. destruct (item_eqb it j); [apply IH|reflexivity].
  - destruct o; [reflexivity|apply IH].
  - destruct o; [reflexivity|apply IH].
Qed.

Lemma win_callish : forall l o, forallb callish l = true -> win o l = Some o.
Proof.
  induction l as [|e l IH]; intros o H; [reflexivity|]. cbn in H. apply andb_true_iff in H. destruct H as [H1 H2].
  destruct e; try discriminate H1; cbn; apply IH; exact H2.
Qed.

(* in plain terms: everything between the passed test of an item and its start is a call event *)
Lemma win_spec : forall l1 i l2 o r,
  win o (l1 ++ EStart i :: l2) = Some r ->
  (o = Some i /\ forallb callish l1 = true) \/
  exists l0 w, l1 = l0 ++ ECheck i false :: w /\ forallb callish w = true.
Proof.
  induction l1 as [|e l1 IH]; intros i l2 o r H.
  - cbn in H. destruct o as [j|]; [|discriminate H]. destruct (item_eqb i j) eqn:E; [|discriminate H].
    apply item_eqb_eq in E. subst. left. split; reflexivity.
  - cbn [app] in H.
    assert (CALL : callish e = true -> win o (l1 ++ EStart i :: l2) = Some r ->
              (o = Some i /\ forallb callish (e :: l1) = true) \/
              exists l0 w, e :: l1 = l0 ++ ECheck i false :: w /\ forallb callish w = true).
    { intros C H'. destruct (IH _ _ _ _ H') as [[-> CL]|(l0 & w & -> & CL)].
      - left. split; [reflexivity|]. cbn. rewrite C. exact CL.
      - right. exists (e :: l0), w. split; [reflexivity|exact CL]. }
    assert (SKIP : win None (l1 ++ EStart i :: l2) = Some r ->
              (o = Some i /\ forallb callish (e :: l1) = true) \/
              exists l0 w, e :: l1 = l0 ++ ECheck i false :: w /\ forallb callish w = true).
    { intros H'. destruct (IH _ _ _ _ H') as [[X _]|(l0 & w & -> & CL)]; [discriminate X|].
      right. exists (e :: l0), w. split; [reflexivity|exact CL]. }
    destruct e; cbn in H; try (apply CALL; [reflexivity|exact H]).
    + (* ECheck *)
      destruct c.
      * destruct o; [discriminate H|]. apply SKIP, H.
      * destruct o; [discriminate H|]. destruct (IH _ _ _ _ H) as [[X CL]|(l0 & w & -> & CL)].
        -- inv X. right. exists [], l1. split; [reflexivity|exact CL].
        -- right. exists (ECheck it false :: l0), w. split; [reflexivity|exact CL].
    + (* EStart *)
      destruct o as [j|]; [|discriminate H]. destruct (item_eqb it j); [|discriminate H]. apply SKIP, H.
    + (* EEnd *) destruct o; [discriminate H|]. apply SKIP, H.
    + (* EExit *) destruct o; [discriminate H|]. apply SKIP, H.
Qed.

Section Facts.
Variable eie : bool.
Variable body : nat -> list op.
Notation cstep := (cstep eie body).
Notation run := (run eie body).

Definition invW (c : config) : Prop := win None (L c) = Some (at_thr tinv None c).

Lemma invW_init : forall t0 progs, invW (init t0 progs).
Proof. intros. unfold invW, L, at_thr, init. cbn. reflexivity. Qed.

Lemma invW_step : forall c tid c', invA c -> invW c -> cstep c tid c' -> invW c'.
Proof.
  intros c tid c' A W S. unfold invW in *. inv S.
  - (* a scheduling thread *)
    pose proof (opstep_callish _ _ _ _ _ _ _ _ _ H0) as CL.
    unfold L. cbn [c_log c_sh]. rewrite evs_app, evs_stamp. fold (L c).
    rewrite win_app, W, (win_callish _ _ CL).
    rewrite (at_thr_sched _ _ _ c tid cur todo) by (try reflexivity; assumption). reflexivity.
  - (* a loop thread *)
    destruct (at_thr_loop eie body _ tinv None c tid ph s' ph' out sp eq_refl A H H0) as [_ [I1 I2]].
    unfold L. cbn [c_log c_sh]. rewrite evs_app, evs_stamp. fold (L c).
    rewrite win_app, W, I1, I2.
    inv H0; rewrite ?tinv_next; cbn [tinv win callish]; rewrite ?item_eqb_refl; auto.
    (* a call inside the action *)
    pose proof (opstep_callish _ _ _ _ _ _ _ _ _ H1) as CL. rewrite (win_callish _ _ CL). reflexivity.
Qed.

Lemma invW_run : forall sched c, invA c -> invW c -> invW (run c sched).
Proof.
  intros sched c A W. apply (run_invariant2 eie body invW invA); auto.
  - intros. apply invA_run. assumption.
  - intros. eapply invW_step; eassumption.
Qed.

(* the is_cancelled() test is per item, right before its invocation: an action that starts passed its own
   test; no dispose() of its disposable had returned before that test; and between that test and the start
   there are only events of calls (made by scheduling threads) -- no other action of this scheduler is
   tested, started or ended in between *)
Theorem el_test_right_before_invoke : forall t0 progs sched l1 i l2,
  L (run (init t0 progs) sched) = l1 ++ EStart i :: l2 ->
  exists l0 w, l1 = l0 ++ ECheck i false :: w /\ ~ In (ECancelRet (it_lbl i)) l0 /\ forallb callish w = true.
Proof.
  intros t0 progs sched l1 i l2 E.
  pose proof (invW_run sched _ (invA_init t0 progs) (invW_init t0 progs)) as W. unfold invW in W. rewrite E in W.
  destruct (win_spec _ _ _ _ _ W) as [[X _]|(l0 & w & E0 & CL)]; [discriminate X|].
  exists l0, w. split; [exact E0|]. split; [|exact CL].
  destruct (reach eie body t0 progs sched) as (_ & _ & (_ & _ & S3 & _) & _).
  rewrite E, E0, <- app_assoc in S3. cbn [app] in S3. eapply cancel_ok_spec, S3.
Qed.

(* an action cancelled before the previous action of its batch finished never starts: if dispose() of
   item i's disposable returned before some action j ended, and i had not started by then, i never starts
   (the end of j cannot fall between i's test and i's start, so i's test comes after the dispose) *)
Theorem el_cancelled_during_earlier_action_never_starts : forall t0 progs sched a j b i,
  L (run (init t0 progs) sched) = a ++ EEnd j :: b ->
  In (ECancelRet (it_lbl i)) a -> ~ In (EStart i) a -> ~ In (EStart i) b.
Proof.
  intros t0 progs sched a j b i E C NA I.
  destruct (in_split _ _ I) as [b1 [b2 EB]].
  assert (E' : L (run (init t0 progs) sched) = (a ++ EEnd j :: b1) ++ EStart i :: b2).
  { rewrite E, EB, <- app_assoc. reflexivity. }
  destruct (el_test_right_before_invoke _ _ _ _ _ _ E') as (l0 & w & E0 & NC & CL).
  (* EEnd j is not a call event, so it is not in w: it lies in l0, and so does all of a *)
  assert (PRE : exists m, l0 = a ++ EEnd j :: m).
  { clear - E0 CL. revert l0 E0. induction a as [|x a IH]; intros l0 E0.
    - destruct l0 as [|y l0]; cbn in E0.
      + discriminate E0.
      + injection E0 as E1 E2. subst y. exists l0. reflexivity.
    - destruct l0 as [|y l0]; cbn in E0.
      + injection E0 as _ E2. exfalso.
        assert (In (EEnd j) w) by (rewrite <- E2; apply in_or_app; right; left; reflexivity).
        rewrite forallb_forall in CL. specialize (CL _ H). discriminate CL.
      + injection E0 as E1 E2. subst y. destruct (IH _ E2) as [m ->]. exists m. reflexivity. }
  destruct PRE as [m ->]. apply NC. apply in_or_app. left. exact C.
Qed.
End Facts.

(* ---- a witness that both cancellations really happen (non-vacuity) ---------------------------- *)
(* action 1 (first of a batch of three, all scheduled by action 0 from the loop thread, so they are
   gathered in the same cycle) cancels action 2: 2 is tested after that and skipped, 3 runs *)
Definition same_batch_body : nat -> list op :=
  body_of [(0%nat, [SchedNow 1%nat; SchedNow 2%nat; SchedNow 3%nat]); (1%nat, [Cancel 2%nat])].
Definition same_batch_witness : config :=
  run false same_batch_body (init 0 [[SchedNow 0%nat]]) (steps (repeat 0%nat 3 ++ repeat 1%nat 40)).

(* three timed items of one due time; a scheduling thread disposes item 2 while action 1 (earlier in the
   same batch) is running: 2 is tested afterwards and skipped, 3 runs *)
Definition foreign_batch_witness : config :=
  run false nobody (init 0 [[SchedAbs 1000 1%nat; SchedAbs 1000 2%nat; SchedAbs 1000 3%nat]; [Cancel 2%nat]])
      (steps (repeat 0%nat 6) ++ steps (repeat 2%nat 4) ++ [MTick 1000] ++ steps (repeat 2%nat 4) ++ steps [1%nat] ++
       steps (repeat 2%nat 12)).
