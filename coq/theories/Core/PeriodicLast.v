(* C35 / C42: in EVERY history a call of a periodic action that does not return a next state
   (it raised -- with or without a CatchScheduler handler -- or disposed its own subscription)
   is the LAST call of that subscription.

   The step lemma [periodic_stop_disposes] (such a call disposes the subscription) and the whole-run
   invariant [no_tick_after_dispose_run] (no call after a dispose) are glued here.  The glue is not an
   invariant of the primitive transitions [prim] of Core/VTimeFacts.v (the tick and the dispose are two
   separate primitive steps and [prim] allows anything between them), so it is proved on the functions
   of the model themselves: everything except the [periodic] closure extends the log without ticks
   ([tick_free]); the closure logs its tick and disposes before it returns ([tick_block]). *)
From RxVerif Require Import Base.Prelude Core.VTime Core.VTimeFacts Core.Periodic Core.PeriodicFacts Core.CatchSched.

Local Open Scope Z_scope.

Definition no_next_state (r : pres) : Prop := match r with PNext _ _ _ => False | _ => True end.

(* ---- ticks name existing subscriptions ------------------------------------------------ *)
Definition Inv11 (s : st) : Prop :=
  forall pid stt k, In (ETick pid stt k) (log s) -> (pid < length (pers s))%nat.

Lemma set_nth_length {A} (x : A) : forall l n, length (set_nth n x l) = length l.
Proof. induction l as [|y t IH]; intros [|n]; simpl; auto. Qed.

Lemma inv11_prim s s' : Inv11 s -> prim s s' -> Inv11 s'.
Proof.
  intros H HP. inversion HP; subst; clear HP; unfold Inv11 in *; try exact H.
  - unfold cancel_id. destruct (r <? next_id s)%nat; [|exact H]. simpl. intros pid stt k [X|Hin]; [discriminate | eauto].
  - simpl. intros pid stt k Hin. rewrite app_length. specialize (H pid stt k Hin). lia.
  - simpl. intros pid0 stt k Hin. rewrite set_nth_length. eauto.
  - simpl. intros pid stt k [X|Hin]; [|eauto]. subst e. simpl in H0. destruct H0 as (_ & pi & N & _).
    apply nth_error_Some. congruence.
  - simpl. intros pid stt k [X|Hin]; [discriminate | eauto].
Qed.

(* ---- the action table of a subscription never changes --------------------------------- *)
Lemma prim_pfn s s' : prim s s' -> forall pid pi, nth_error (pers s) pid = Some pi ->
  exists pi', nth_error (pers s') pid = Some pi' /\ p_fn pi' = p_fn pi.
Proof.
  intros HP pid pi Hn. inversion HP; subst; clear HP; simpl; try (exists pi; split; [assumption | reflexivity]).
  - destruct (cancel_id_fields s r) as (_ & _ & _ & _ & _ & F & _). rewrite F. exists pi. split; [assumption | reflexivity].
  - exists pi. split; [|reflexivity]. rewrite nth_error_app1; [assumption|]. apply nth_error_Some. congruence.
  - destruct (Nat.eq_dec pid0 pid) as [->|Hne].
    + exists pi'. split; [eapply nth_error_set_nth; eassumption|]. congruence.
    + exists pi. split; [|reflexivity]. rewrite nth_error_set_nth_other; assumption.
Qed.

Lemma steps_pfn s s' : steps s s' -> forall pid pi, nth_error (pers s) pid = Some pi ->
  exists pi', nth_error (pers s') pid = Some pi' /\ p_fn pi' = p_fn pi.
Proof.
  intro H. induction H as [|s1 s2 _ IH P]; intros pid pi Hn; [exists pi; split; [assumption | reflexivity]|].
  destruct (IH pid pi Hn) as (pi1 & N1 & F1). destruct (prim_pfn _ _ P pid pi1 N1) as (pi2 & N2 & F2).
  exists pi2. split; [assumption | congruence].
Qed.

Lemma prim_log_grows s s' : prim s s' -> exists more, log s' = more ++ log s.
Proof.
  intro P. destruct P; try (exists []; reflexivity).
  - unfold cancel_id. destruct (r <? next_id s)%nat; [exists [ECancel r]|exists []]; reflexivity.
  - exists [e]. reflexivity.
  - eexists [_]. reflexivity.
Qed.

Lemma steps_log_grows' s s' : steps s s' -> exists more, log s' = more ++ log s.
Proof.
  intro H. induction H as [|s1 s2 _ [m1 E1] P]; [exists []; reflexivity|].
  destruct (prim_log_grows _ _ P) as [m2 E2]. exists (m2 ++ m1). rewrite E2, E1, app_assoc. reflexivity.
Qed.

(* ---- lists ---------------------------------------------------------------------------- *)
Lemma ticks_of_app pid a b : ticks_of pid (a ++ b) = ticks_of pid a ++ ticks_of pid b.
Proof.
  induction a as [|e t IH]; [reflexivity|]. destruct e; simpl; try exact IH.
  destruct (Nat.eqb pid0 pid); simpl; [rewrite IH; reflexivity | exact IH].
Qed.

Lemma ticks_nil_notin pid l : ticks_of pid l = [] -> forall stt k, ~ In (ETick pid stt k) l.
Proof.
  induction l as [|e t IH]; intros H stt k []; [subst e; simpl in H; rewrite Nat.eqb_refl in H; discriminate H|].
  apply (IH) with (stt := stt) (k := k); [|assumption].
  destruct e; simpl in H; try exact H. destruct (Nat.eqb pid0 pid); [discriminate H | exact H].
Qed.

Lemma app_self_nil {A} (a b : list A) : a ++ b = b -> a = [].
Proof. intro H. apply (app_inv_tail b a []). exact H. Qed.

Lemma split_after {A} (x : A) : forall more L l1 l0, ~ In x more -> more ++ L = l1 ++ x :: l0 ->
  exists l1', l1 = more ++ l1' /\ L = l1' ++ x :: l0.
Proof.
  induction more as [|m ms IH]; intros L l1 l0 Hn E; [exists l1; split; [reflexivity | exact E]|].
  destruct l1 as [|y l1t]; simpl in E.
  - inversion E; subst. exfalso. apply Hn. left. reflexivity.
  - inversion E; subst. destruct (IH L l1t l0) as (l1' & E1 & E2); [intro; apply Hn; right; assumption | assumption|].
    exists l1'. split; [simpl; rewrite E1; reflexivity | exact E2].
Qed.

(* ---- the invariant -------------------------------------------------------------------- *)
(* log newest first: l1 is what happened AFTER the call *)
Definition failed_last (s : st) : Prop :=
  forall l1 pid stt k l0 pi, log s = l1 ++ ETick pid stt k :: l0 -> nth_error (pers s) pid = Some pi ->
    no_next_state (plookup (p_fn pi) stt) -> ticks_of pid l1 = [] /\ In (EPDispose pid) l1.

Definition I3 (s : st) : Prop := Inv10 s /\ Inv11 s /\ failed_last s.

(* tick-free extension *)
Definition tick_free (s s' : st) : Prop := steps s s' /\ forall pid, ticks_of pid (log s') = ticks_of pid (log s).

Lemma TF_refl s : tick_free s s.
Proof. split; [apply steps_refl | reflexivity]. Qed.

Lemma TF_trans s s' s'' : tick_free s s' -> tick_free s' s'' -> tick_free s s''.
Proof. intros [A1 B1] [A2 B2]. split; [eapply steps_trans; eassumption|]. intro pid. rewrite B2, B1. reflexivity. Qed.

Lemma TF_more s s' : tick_free s s' -> exists more, log s' = more ++ log s /\ forall pid, ticks_of pid more = [].
Proof.
  intros [A B]. destruct (steps_log_grows' _ _ A) as [more E]. exists more. split; [exact E|].
  intro pid. specialize (B pid). rewrite E, ticks_of_app in B. eapply app_self_nil. exact B.
Qed.

Lemma back_pfn s s' pid pi' : steps s s' -> (pid < length (pers s))%nat -> nth_error (pers s') pid = Some pi' ->
  exists pi, nth_error (pers s) pid = Some pi /\ p_fn pi' = p_fn pi.
Proof.
  intros St Hl Hn. destruct (nth_error (pers s) pid) as [pi|] eqn:E; [|apply nth_error_None in E; lia].
  exists pi. split; [reflexivity|]. destruct (steps_pfn _ _ St pid pi E) as (pi2 & N2 & F2). congruence.
Qed.

Lemma TF_I3 s s' : I3 s -> tick_free s s' -> I3 s'.
Proof.
  intros (H10 & H11 & Hf) T. pose proof T as [St _].
  split; [exact (steps_inv Inv10 inv10_prim _ _ St H10)|]. split; [exact (steps_inv Inv11 inv11_prim _ _ St H11)|].
  destruct (TF_more _ _ T) as (more & E & Hm).
  intros l1 pid stt k l0 pi' El Hn Hb. rewrite E in El.
  destruct (split_after (ETick pid stt k) more (log s) l1 l0 (ticks_nil_notin pid more (Hm pid) stt k) El) as (l1' & E1 & E2).
  assert (Hlt : (pid < length (pers s))%nat) by (apply (H11 pid stt k); rewrite E2; apply in_or_app; right; left; reflexivity).
  destruct (back_pfn s s' pid pi' St Hlt Hn) as (pi & N & F). rewrite F in Hb.
  destruct (Hf l1' pid stt k l0 pi E2 N Hb) as [T1 T2]. subst l1. split.
  - rewrite ticks_of_app, (Hm pid), T1. reflexivity.
  - apply in_or_app. right. exact T2.
Qed.

(* the [periodic] closure: its tick, then tick-free work that disposes the subscription if the
   call does not return a next state *)
Lemma tick_block s s' pid pi stt : I3 s -> nth_error (pers s) pid = Some pi -> p_disposed pi = false ->
  tick_free (add_log s (ETick pid stt (clock s))) s' ->
  (no_next_state (plookup (p_fn pi) stt) -> In (EPDispose pid) (log s')) -> I3 s'.
Proof.
  intros (H10 & H11 & Hf) Hn Hd T Hdis.
  assert (S1 : steps s (add_log s (ETick pid stt (clock s)))).
  { apply add_log_steps. simpl. split; [reflexivity|]. exists pi. split; assumption. }
  pose proof T as [St1 _]. assert (St : steps s s') by (eapply steps_trans; eassumption).
  split; [exact (steps_inv Inv10 inv10_prim _ _ St H10)|]. split; [exact (steps_inv Inv11 inv11_prim _ _ St H11)|].
  destruct (TF_more _ _ T) as (more & E & Hm). simpl in E.
  assert (Hnd : ~ In (EPDispose pid) (log s)).
  { intro Hin. destruct H10 as [A _]. destruct (A pid Hin) as (pi0 & N0 & D0). congruence. }
  intros l1 q stq k l0 pi' El Hq Hb. rewrite E in El.
  destruct (split_after (ETick q stq k) more _ l1 l0 (ticks_nil_notin q more (Hm q) stq k) El) as (l1' & E1 & E2).
  subst l1. destruct l1' as [|x l1'']; simpl in E2.
  - (* the call just made *)
    inversion E2; subst. rewrite app_nil_r. split; [apply Hm|].
    destruct (steps_pfn _ _ St q pi Hn) as (pi2 & N2 & F2). assert (pi2 = pi') by congruence. subst pi2.
    rewrite F2 in Hb. specialize (Hdis Hb). rewrite E in Hdis. apply in_app_or in Hdis.
    destruct Hdis as [Hin|[X|Hin]]; [exact Hin | discriminate X | contradiction].
  - (* an earlier call *)
    inversion E2; subst.
    assert (Hlt : (q < length (pers s))%nat) by (apply (H11 q stq k); rewrite H1; apply in_or_app; right; left; reflexivity).
    destruct (back_pfn s s' q pi' St Hlt Hq) as (pi0 & N0 & F0). rewrite F0 in Hb.
    destruct (Hf l1'' q stq k l0 pi0 H1 N0 Hb) as [T1 T2].
    assert (Hne : q <> pid).
    { intros ->. apply Hnd. rewrite H1. apply in_or_app. left. exact T2. }
    split.
    + rewrite ticks_of_app, (Hm q). simpl. destruct (Nat.eqb pid q) eqn:Eq; [apply Nat.eqb_eq in Eq; congruence | exact T1].
    + apply in_or_app. right. right. exact T2.
Qed.

(* ---- everything but the periodic closure is tick-free ---------------------------------- *)
Lemma add_notes_TF ns s : tick_free s (add_notes s ns).
Proof. split; [apply add_notes_steps | intro; apply ticks_add_notes]. Qed.

Lemma dispose_per_TF s pid : tick_free s (dispose_per s pid).
Proof. split; [apply dispose_per_steps | intro; apply ticks_dispose_per]. Qed.

Lemma resched_disposed_TF s pid p : tick_free s (bstate (resched_disposed s pid p)).
Proof.
  split; [apply resched_disposed_steps|]. intro q. unfold resched_disposed; simpl.
  rewrite ticks_cancel_id. simpl. apply ticks_dispose_per.
Qed.

Lemma exec_cmd_TF s c : tick_free s (bstate (exec_cmd s c)).
Proof.
  split; [apply exec_cmd_steps|]. intro q. destruct c; simpl; try reflexivity.
  - apply ticks_cancel_id.
  - destruct (d <? 0); reflexivity.
  - destruct v; reflexivity.
  - apply ticks_dispose_per.
Qed.

Lemma exec_body_TF b : forall s, tick_free s (bstate (exec_body s b)).
Proof.
  induction b as [|c t IH]; intro s; simpl; [apply TF_refl|].
  pose proof (exec_cmd_TF s c) as H. destruct (exec_cmd s c) as [s'|e s']; simpl in *; [|exact H].
  eapply TF_trans; [exact H | apply IH].
Qed.

Lemma log_event_TF s e : quiet s e -> (forall pid stt k, e <> ETick pid stt k) -> tick_free s (add_log s e).
Proof.
  intros Q Hne. split; [apply add_log_steps, Q|]. intro q. destruct e; simpl; try reflexivity.
  exfalso. eapply Hne. reflexivity.
Qed.

Lemma invoke_I3 s p : I3 s -> I3 (bstate (invoke s p)).
Proof.
  intro H. destruct p as [l b|pid stt]; [simpl; eapply TF_I3; [exact H | apply exec_body_TF]|].
  pose proof (periodic_stop_disposes s pid stt) as Hdis. simpl in *.
  destruct (nth_error (pers s) pid) as [pi|] eqn:Hn; [|exact H].
  destruct (p_disposed pi) eqn:Hd; [exact H|]. specialize (Hdis pi eq_refl Hd).
  set (s1 := add_log s (ETick pid stt (clock s))) in *.
  apply (tick_block s _ pid pi stt H Hn Hd); [|exact Hdis]. fold s1.
  assert (Hn2 : forall ns, nth_error (pers (add_notes s1 ns)) pid = Some pi).
  { intro ns. destruct (add_notes_pers ns s1) as [-> _]. exact Hn. }
  destruct (plookup (p_fn pi) stt) as [ns sl st'|ns|ns e|ns e v]; simpl.
  - set (s2 := add_notes s1 ns). split.
    + eapply steps_snoc; [|apply P_enq].
      apply steps_snoc with (s' := set_clock s2 (clock s2 + Z.of_N sl)).
      * apply steps_clock; [apply add_notes_steps | lia].
      * eapply (P_per_upd (set_clock s2 (clock s2 + Z.of_N sl)) pid pi); simpl; auto; try (intro; congruence).
        apply Hn2.
    + intro q. simpl. apply ticks_add_notes.
  - eapply TF_trans; [apply add_notes_TF | apply resched_disposed_TF].
  - eapply TF_trans; [apply add_notes_TF|]. eapply TF_trans; [|apply dispose_per_TF].
    apply log_event_TF; [exact I | intros; discriminate].
  - assert (T2 : tick_free s1 (add_log (add_log (add_notes s1 ns) (ERaise e)) (EHandler e))).
    { eapply TF_trans; [apply add_notes_TF|]. eapply TF_trans; apply log_event_TF; try exact I; intros; discriminate. }
    destruct v; simpl; (eapply TF_trans; [exact T2|]); [apply resched_disposed_TF | apply dispose_per_TF].
Qed.

Lemma run_item_I3 s it q' newclk bumped :
  queue s = it :: q' -> pop_clock_ok s it newclk bumped -> I3 s -> I3 (bstate (run_item s it q' newclk bumped)).
Proof.
  intros Hq Hc H. unfold run_item.
  assert (T : tick_free s (pop_state s it q' newclk bumped)).
  { split; [apply steps_one, P_pop; assumption | intro; reflexivity]. }
  pose proof (TF_I3 _ _ H T) as H1. unfold pop_state in H1.
  destruct (negb (memb (i_id it) (cancelled s))); simpl; [|exact H1]. apply invoke_I3, H1.
Qed.

Lemma set_enabled_I3 s b : I3 s -> I3 (set_enabled s b).
Proof. intro H. eapply TF_I3; [exact H|]. split; [apply steps_one, P_enabled | intro; reflexivity]. Qed.

Lemma start_loop_I3 c fuel : forall s sp, I3 s -> I3 (ostate (start_loop c fuel s sp)).
Proof.
  induction fuel as [|fuel IH]; intros s sp H; simpl.
  - destruct (negb (enabled s)); simpl; [apply set_enabled_I3, H|].
    destruct (queue s); simpl; [apply set_enabled_I3, H | exact H].
  - destruct (negb (enabled s)); simpl; [apply set_enabled_I3, H|].
    destruct (queue s) as [|it q'] eqn:Hq; simpl; [apply set_enabled_I3, H|].
    assert (Hstep : forall newclk bumped sp',
      pop_clock_ok s it newclk bumped ->
      I3 (ostate match run_item s it q' newclk bumped with
                 | BOk s' => start_loop c fuel s' sp'
                 | BRaise e s' => Raised e s' end)).
    { intros newclk bumped sp' Hc.
      pose proof (run_item_I3 s it q' newclk bumped Hq Hc H) as H1.
      destruct (run_item s it q' newclk bumped) as [s'|e s']; simpl in *; [apply IH, H1 | exact H1]. }
    destruct (clock s <? i_due it) eqn:E1.
    + apply Hstep. unfold pop_clock_ok. rewrite E1. auto.
    + destruct (MAX_SPINNING <? sp)%nat.
      * destruct (c_kind c).
        -- apply Hstep. unfold pop_clock_ok. rewrite E1. right. split; [reflexivity|]. exists Numeric. reflexivity.
        -- destruct (c_prop_bump c); simpl; [exact H|].
           apply Hstep. unfold pop_clock_ok. rewrite E1. right. split; [reflexivity|]. exists Datetime. reflexivity.
      * apply Hstep. unfold pop_clock_ok. rewrite E1. left. auto.
Qed.

Lemma finish_adv_I3 s t : I3 s -> I3 (ostate (finish_adv s t)).
Proof.
  intro H. eapply TF_I3; [exact H|]. split; [apply finish_adv_steps | intro; apply ticks_finish_adv].
Qed.

Lemma advance_loop_I3 fuel t : forall s, I3 s -> I3 (ostate (advance_loop fuel s t)).
Proof.
  induction fuel as [|fuel IH]; intros s H; simpl.
  - destruct (negb (enabled s)); [apply finish_adv_I3, H|].
    destruct (queue s) as [|it q']; [apply finish_adv_I3, H|].
    destruct (t <? i_due it); [apply finish_adv_I3, H | exact H].
  - destruct (negb (enabled s)); [apply finish_adv_I3, H|].
    destruct (queue s) as [|it q'] eqn:Hq; [apply finish_adv_I3, H|].
    destruct (t <? i_due it); [apply finish_adv_I3, H|].
    assert (Hc : pop_clock_ok s it (if clock s <? i_due it then i_due it else clock s) false).
    { unfold pop_clock_ok. destruct (clock s <? i_due it); auto. }
    pose proof (run_item_I3 s it q' _ false Hq Hc H) as H1.
    destruct (run_item s it q' _ false) as [s'|e s']; simpl in *; [apply IH, H1 | exact H1].
Qed.

Lemma step_t_I3 c fuel s cmd : I3 s -> I3 (ostate (step_t c fuel s cmd)).
Proof.
  intro H. destruct cmd as [k| | |t|d]; simpl.
  - pose proof (exec_cmd_TF s k) as T. destruct (exec_cmd s k); simpl in *; eapply TF_I3; eassumption.
  - unfold start. destruct (enabled s); simpl; [exact H|]. apply start_loop_I3, set_enabled_I3, H.
  - assert (H3 : I3 (silent (silent (silent s 100000000) 200000000) 1000000000)).
    { eapply TF_I3; [exact H|]. split; [|intro; reflexivity]. unfold silent.
      eapply steps_snoc; [eapply steps_snoc; [apply steps_one|]|]; apply P_enq. }
    unfold start. destruct (enabled _); simpl; [exact H3|]. apply start_loop_I3, set_enabled_I3, H3.
  - unfold advance_to. destruct (t <? clock s); simpl; [exact H|].
    destruct ((clock s =? t) || enabled s); simpl; [exact H|]. apply advance_loop_I3, set_enabled_I3, H.
  - unfold advance_to. destruct (clock s + d <? clock s); simpl; [exact H|].
    destruct ((clock s =? clock s + d) || enabled s); simpl; [exact H|]. apply advance_loop_I3, set_enabled_I3, H.
Qed.

Lemma run_I3 c fuel : forall cs s, I3 s -> I3 (state_of (run c fuel s cs)).
Proof.
  induction cs as [|cmd t IH]; intros s H; simpl; [exact H|].
  pose proof (step_t_I3 c fuel s cmd H) as H1.
  destruct (step_t c fuel s cmd) as [s'|e s'|s'|s']; simpl in *; try exact H1.
  - apply IH. eapply TF_I3; [exact H1|]. apply log_event_TF; [reflexivity | intros; discriminate].
  - apply IH. eapply TF_I3; [exact H1|].
    eapply TF_trans; apply log_event_TF; try exact I; try reflexivity; intros; discriminate.
Qed.

Lemma I3_init c0 : I3 (init c0).
Proof.
  split; [split; simpl; [tauto | exact I]|]. split; [intros pid stt k []|].
  intros l1 pid stt k l0 pi E. simpl in E. destruct l1; discriminate E.
Qed.

(* In EVERY history (any other work, any interleaving of start / advance_to / dispose, any fuel):
   after a call of a periodic action that did not return a next state, that subscription is
   disposed and its action is never called again *)
Theorem failed_call_is_last c fuel c0 hs l1 l0 pid stt k pi :
  let s := state_of (run c fuel (init c0) hs) in
  log s = l1 ++ ETick pid stt k :: l0 -> nth_error (pers s) pid = Some pi ->
  match plookup (p_fn pi) stt with PNext _ _ _ => False | _ => True end ->
  ticks_of pid l1 = [] /\ In (EPDispose pid) l1.
Proof.
  intros s E Hn Hb. destruct (run_I3 c fuel hs (init c0) (I3_init c0)) as (_ & _ & Hf).
  exact (Hf l1 pid stt k l0 pi E Hn Hb).
Qed.

(* the same through a CatchScheduler: [run_catch] is [run] on the wrapped history, and a call whose
   exception the handler accepted ([PHandled _ _ true]) does not return a next state either *)
Theorem catch_failed_call_is_last c fuel h c0 hs l1 l0 pid stt k pi :
  let s := state_of (run_catch c fuel h (init c0) hs) in
  log s = l1 ++ ETick pid stt k :: l0 -> nth_error (pers s) pid = Some pi ->
  match plookup (p_fn pi) stt with PNext _ _ _ => False | _ => True end ->
  ticks_of pid l1 = [] /\ In (EPDispose pid) l1.
Proof. unfold run_catch. apply failed_call_is_last. Qed.
