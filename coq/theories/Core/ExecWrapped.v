(* C01: [exec] (Ops/Machine.v) IS the AutoDetachObserver model (Core/AutoDetach.v)
   put around the raw handlers.

   [exec] builds the library's plumbing into the way a mealy machine is run:
   inputs behind the source's terminal are dropped, nothing is emitted behind
   the operator's own terminal, and the handlers are no longer invoked then.
   Here the handlers are iterated RAW -- every input is handed to its handler,
   the state threads through, whatever the handlers answer ([raw]) -- and the
   two wrappers Observable.subscribe puts around a subscription are the
   AutoDetach model [run_calls]:
     - the wrapper around the operator's handlers sees the source's
       notifications as calls ([in_calls]); what it lets through ([delivered])
       is what the handlers get;
     - the wrapper around the downstream observer sees the handlers' answers as
       calls ([out_calls]); what it lets through is what the subscriber gets.
   THEOREM [exec_is_wrapped_raw]: that composition is [untag (exec m ins)], for
   every machine and every input list.  So the grammar theorems stated on
   [exec] (C01_operator_grammar, C01_pipeline_grammar) are consequences of the
   AutoDetach theorem over this correspondence.

   The calls are flat ([during] = []) and their callbacks do not raise: a mealy
   handler runs to completion before the next input, and raising callbacks are
   handler results (Fail) in the machine model.  Re-entrant histories are
   covered by the AutoDetach theorems themselves, not by [exec]. *)
From RxVerif Require Import Base.Prelude Ops.Machine Ops.MachineFacts Core.AutoDetach Core.AutoDetachFacts.

Section Wrapped.
Context {A B : Type} (m : mealy A B).

(* the handlers, iterated without any liveness check *)
Fixpoint raw_from (s : m_state m) (ins : list (ev A)) : list (list B * fin) :=
  match ins with
  | [] => []
  | Next x :: rest => let '(s', outs, f) := m_next m s x in (outs, f) :: raw_from s' rest
  | Err e :: rest => m_err m s e :: raw_from s rest
  | Done :: rest => m_done m s :: raw_from s rest
  end.
Definition raw (ins : list (ev A)) : list (list B * fin) := m_pre m :: raw_from (m_init m) ins.

(* a notification as a call on a wrapper *)
Definition call_of {X} (e : ev X) : call X :=
  match e with
  | Next a => Call (KNext a) [] false
  | Err z => Call (KError z) [] false
  | Done => Call KCompleted [] false
  end.
Definition in_calls (ins : list (ev A)) : list (call A) := map call_of ins.

Definition fin_ev (f : fin) : list (ev B) :=
  match f with Cont => [] | Complete => [Done] | Fail z => [Err z] end.
Definition answer_evs (a : list B * fin) : list (ev B) := map Next (fst a) ++ fin_ev (snd a).
Definition out_calls (l : list (list B * fin)) : list (call B) := map call_of (flat_map answer_evs l).

(* ------------------------------------------------ the wrapper on flat calls -- *)
(* the source's notifications up to and including its first terminal *)
Fixpoint upto_term {X} (l : list (ev X)) : list (ev X) :=
  match l with
  | [] => []
  | Next x :: t => Next x :: upto_term t
  | e :: _ => [e]
  end.

Lemma run_calls_app {X} (a b : list (call X)) : forall st,
  run_calls st (a ++ b)
  = (fst (run_calls (fst (run_calls st a)) b), snd (run_calls st a) ++ snd (run_calls (fst (run_calls st a)) b)).
Proof.
  induction a as [|c t IH]; intros st; cbn [app run_calls].
  - cbn [fst snd app]. destruct (run_calls st b); reflexivity.
  - destruct (run_call st c) as [st1 e1]. rewrite IH.
    destruct (run_calls st1 t) as [st2 e2]. cbn [fst snd].
    destruct (run_calls st2 b) as [st3 e3]. cbn [fst snd]. now rewrite app_assoc.
Qed.

Lemma run_calls_stopped {X} (l : list (ev X)) :
  run_calls true (map call_of l) = (true, []).
Proof.
  induction l as [|e t IH]; [reflexivity|]. cbn [map run_calls].
  destruct e; cbn [call_of]; rewrite run_call_unfold, IH; reflexivity.
Qed.

(* flat, non-raising calls: the wrapper lets through exactly the notifications
   up to the first terminal, and is stopped iff there was one *)
Lemma wrapper_on_flat_calls {X} (l : list (ev X)) :
  fst (run_calls false (map call_of l)) = existsb is_terminal l
  /\ delivered (snd (run_calls false (map call_of l))) = upto_term l.
Proof.
  induction l as [|e t [IH1 IH2]]; [split; reflexivity|]. cbn [map run_calls].
  destruct e as [a|z|]; cbn [call_of]; rewrite run_call_unfold; cbn [run_calls].
  - destruct (run_calls false (map call_of t)) as [st2 e2]. cbn [fst snd app delivered existsb is_terminal orb upto_term] in *.
    split; [exact IH1|]. now rewrite IH2.
  - rewrite run_calls_stopped. cbn. split; reflexivity.
  - rewrite run_calls_stopped. cbn. split; reflexivity.
Qed.

(* ----------------------------------------------------- exec and the prefix -- *)
Lemma exec_from_upto_term (ins : list (ev A)) : forall s k,
  exec_from m s k ins = exec_from m s k (upto_term ins).
Proof.
  induction ins as [|e t IH]; intros s k; [reflexivity|].
  destruct e as [x|z|]; cbn [upto_term exec_from]; [|reflexivity|reflexivity].
  destruct (m_next m s x) as [[s' outs] f]. destruct (live f); [now rewrite IH|reflexivity].
Qed.

Lemma untag_emit k (outs : list B) f : untag (emit k outs f) = answer_evs (outs, f).
Proof.
  unfold emit, answer_evs, untag. rewrite map_app, map_map. cbn [fst snd]. f_equal.
  destruct f; reflexivity.
Qed.

Lemma terminal_answer (outs : list B) f :
  existsb is_terminal (answer_evs (outs, f)) = negb (live f).
Proof.
  unfold answer_evs. cbn [fst snd]. rewrite existsb_app.
  assert (E : existsb is_terminal (map (@Next B) outs) = false) by (induction outs; auto).
  rewrite E. destruct f; reflexivity.
Qed.

Lemma upto_term_answer (outs : list B) f rest :
  upto_term (answer_evs (outs, f) ++ rest)
  = answer_evs (outs, f) ++ (if live f then upto_term rest else []).
Proof.
  unfold answer_evs. cbn [fst snd]. induction outs as [|b t IH]; cbn [map app upto_term].
  - destruct f; reflexivity.
  - now rewrite IH.
Qed.

(* the downstream wrapper around the raw answers to a prefix-closed input *)
Lemma out_wrapper_from (ins : list (ev A)) : forall s k,
  upto_term (flat_map answer_evs (raw_from s (upto_term ins))) = untag (exec_from m s k ins).
Proof.
  induction ins as [|e t IH]; intros s k; [reflexivity|].
  destruct e as [x|z|]; cbn [upto_term raw_from exec_from].
  - destruct (m_next m s x) as [[s' outs] f]. cbn [flat_map].
    rewrite upto_term_answer, untag_app, untag_emit. f_equal.
    destruct (live f); [apply IH|reflexivity].
  - destruct (m_err m s z) as [outs f]. cbn [flat_map]. rewrite app_nil_r, untag_emit.
    rewrite <- (app_nil_r (answer_evs (outs, f))) at 1. rewrite upto_term_answer.
    destruct (live f); cbn [upto_term]; now rewrite app_nil_r.
  - destruct (m_done m s) as [outs f]. cbn [flat_map]. rewrite app_nil_r, untag_emit.
    rewrite <- (app_nil_r (answer_evs (outs, f))) at 1. rewrite upto_term_answer.
    destruct (live f); cbn [upto_term]; now rewrite app_nil_r.
Qed.

(* THEOREM: exec = output wrapper o raw handlers o input wrapper *)
Theorem exec_is_wrapped_raw (ins : list (ev A)) :
  delivered (snd (run_calls false
    (out_calls (raw (delivered (snd (run_calls false (in_calls ins))))))))
  = untag (exec m ins).
Proof.
  unfold in_calls, out_calls. rewrite (proj2 (wrapper_on_flat_calls ins)).
  rewrite (proj2 (wrapper_on_flat_calls _)).
  unfold raw, exec. destruct (m_pre m) as [outs f]. cbn [flat_map].
  rewrite upto_term_answer, untag_app, untag_emit. f_equal.
  destruct (live f); [apply out_wrapper_from|reflexivity].
Qed.

(* the two halves separately.  (1) the input wrapper: the handlers are run on
   what the wrapper around them lets through *)
Theorem exec_behind_input_wrapper (ins : list (ev A)) :
  exec m ins = exec m (delivered (snd (run_calls false (in_calls ins)))).
Proof.
  unfold in_calls. rewrite (proj2 (wrapper_on_flat_calls ins)).
  unfold exec. destruct (m_pre m) as [outs f]. destruct (live f); [|reflexivity].
  f_equal. apply exec_from_upto_term.
Qed.

(* (2) the output wrapper, for a source that respects the grammar up to its
   terminal (nothing behind it): subscriber = wrapper (raw answers) *)
Theorem exec_is_output_wrapper_on_raw (ins : list (ev A)) : upto_term ins = ins ->
  delivered (snd (run_calls false (out_calls (raw ins)))) = untag (exec m ins).
Proof.
  intros H. rewrite <- (exec_is_wrapped_raw ins). unfold in_calls.
  rewrite (proj2 (wrapper_on_flat_calls ins)), H. reflexivity.
Qed.

(* C01(b) as a consequence of C01(a): the operator grammar follows from the
   AutoDetach grammar theorem through the correspondence *)
Corollary exec_wellformed_from_autodetach (ins : list (ev A)) : wellformed (untag (exec m ins)) = true.
Proof. rewrite <- exec_is_wrapped_raw. apply autodetach_grammar. Qed.
End Wrapped.
