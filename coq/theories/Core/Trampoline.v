(* Executable model of the trampoline schedulers

     reactivex/scheduler/trampoline.py              Trampoline (run, _run, idle)
     reactivex/scheduler/trampolinescheduler.py     TrampolineScheduler
     reactivex/scheduler/currentthreadscheduler.py  CurrentThreadScheduler, CurrentThreadSchedulerSingleton
     reactivex/scheduler/scheduleditem.py           ScheduledItem
     reactivex/internal/priorityqueue.py            PriorityQueue

   written from the code as it is in the working tree (no proofs here).

   Shape of the model.  A configuration is a shared [world] (clock, one
   trampoline per key, the set of cancelled items, a ghost log) and a list of
   threads; a thread is a stack of frames (its Python call stack restricted to
   scheduler code and harness actions) and a pending exception.  [mstep] is
   ONE micro-step of one thread: one [with self._lock:] block, or one piece of
   unlocked code containing at most one access to shared state (reading the
   clock, reading [item.is_cancelled()], calling out to an action).  A
   schedule is a list of thread choices (plus "time passes" steps); theorems
   quantify over all schedules.  A single thread run to completion
   ([run1], explicit fuel) is the sequential semantics.

   Time: integer MICROSECONDS.  The clock is controlled: it advances when an
   action sleeps ([CSleep]), when the runner's [Condition.wait(seconds)] times
   out (to the due time it waited for), and by explicit [Tick] steps of a
   schedule (arbitrary passage of time between two micro-steps).

   Which trampoline a scheduler uses (get_trampoline):
     TrampolineScheduler instance i          -> [KShared i]     one per instance, shared by all threads
     CurrentThreadScheduler() instance i     -> [KInst i th]    one per (instance, calling thread)   (_tramps weak map)
     CurrentThreadScheduler.singleton()      -> [KLocal th]     one per calling thread                (thread-local)
   Lazily created trampolines are indistinguishable from trampolines that exist
   from the start (idle, empty), so [tramps] is a total map.

   Actions are finite trees of commands; a command may schedule a further
   action on any scheduler, cancel the k-th item ever created, sleep, raise,
   read schedule_required() or call ensure_trampoline. *)
From RxVerif Require Import Base.Prelude.

(* [exit_race = true] is the code BEFORE the repair recorded in
   proposed_fixes/C30-trampoline-exit-race.diff: the runner left [_run] after
   seeing the queue empty, released the lock, and only then, in [finally], took
   the lock again to set [_idle = True] and clear the queue.  The working tree
   corresponds to [exit_race = false]. *)
Record cfg := Cfg { exit_race : bool }.

(* priorityqueue.py: MIN_COUNT = ~maxsize *)
Definition MIN_COUNT : Z := - 9223372036854775808.

(* ------------------------------------------------------------------ *)
(* Schedulers, trampoline keys                                          *)

Inductive sched := TS (i : nat) | CT (i : nat) | CTS.
Inductive key := KShared (i : nat) | KInst (i th : nat) | KLocal (th : nat).

(* get_trampoline() called on thread [th] *)
Definition tkey (s : sched) (th : nat) : key :=
  match s with TS i => KShared i | CT i => KInst i th | CTS => KLocal th end.

Definition key_eqb (a b : key) : bool :=
  match a, b with
  | KShared i, KShared j => Nat.eqb i j
  | KInst i t, KInst j u => Nat.eqb i j && Nat.eqb t u
  | KLocal t, KLocal u => Nat.eqb t u
  | _, _ => false
  end.

(* the only thread that can ever reach this trampoline *)
Definition owner (k : key) : option nat :=
  match k with KShared _ => None | KInst _ th => Some th | KLocal th => Some th end.

(* ------------------------------------------------------------------ *)
(* Syntax of actions                                                    *)

Inductive when := Now | Rel (d : Z) | Abs (t : Z).

Inductive cmd :=
  | CSched (s : sched) (w : when) (label : Z) (body : list cmd)   (* s.schedule*(action[label, body]) *)
  | CCancel (r : nat)             (* dispose item.disposable of the r-th ScheduledItem ever created *)
  | CSleep (d : Z)                (* the action takes d microseconds *)
  | CRaise (e : Z)                (* raise e *)
  | CRequired (s : sched)         (* observe s.schedule_required() *)
  | CEnsure (s : sched) (label : Z) (body : list cmd).   (* s.ensure_trampoline(action[label, body]) *)

(* ------------------------------------------------------------------ *)
(* State                                                                *)

(* a queue entry (ScheduledItem, count); i_id = index of creation (ghost) *)
Record item := Item { i_due : Z; i_cnt : Z; i_id : nat; i_label : Z; i_body : list cmd }.

Record tramp := Tramp {
  t_idle : bool;           (* _idle *)
  t_queue : list item;     (* _queue, abstract view: sorted by (duetime, count) *)
  t_count : Z;             (* _queue.count *)
  t_waiting : bool;        (* the runner is inside _condition.wait *)
  t_signal : bool;         (* ... and has been notified *)
  t_active : nat }.        (* ghost: number of actions of this trampoline being executed *)

Definition fresh : tramp := Tramp true [] MIN_COUNT false false 0.

Inductive event :=
  | ECreate (k : key) (id : nat) (th : nat) (due clk : Z)    (* ScheduledItem(...) built; clk = the [now] it read *)
  | EEnq (k : key) (id : nat) (th : nat) (runner : bool)     (* enqueued under the lock; runner: this call drains *)
  | EStart (k : key) (id : nat) (label : Z) (th : nat) (due clk : Z) (depth_k depth : nat)
  | EEnd (k : key) (id : nat) (label : Z) (raised : bool)
  | ESkip (k : key) (id : nat)                               (* found cancelled, not invoked *)
  | EDrop (k : key) (ids : list nat) (exc : bool)            (* items abandoned by the runner's exit path *)
  | EIdle (k : key) (th : nat)                               (* the runner set _idle = True *)
  | ECancel (id : nat)
  | ERequired (k : key) (th : nat) (b : bool)
  | EInline (label : Z) (th : nat) (clk : Z) (depth : nat)   (* ensure_trampoline called the action directly *)
  | EInlineEnd (label : Z) (raised : bool)
  | EExc (th : nat) (e : Z).                                 (* an exception left a top-level call *)

Record world := World {
  clock : Z;
  tramps : key -> tramp;
  cancelled : list nat;     (* ids whose item.disposable is disposed *)
  next_id : nat;
  log : list event }.       (* newest first *)

Definition init_world (c0 : Z) : world := World c0 (fun _ => fresh) [] 0 [].

Definition upd (k : key) (t : tramp) (f : key -> tramp) : key -> tramp :=
  fun k' => if key_eqb k' k then t else f k'.

Definition set_tramp (w : world) (k : key) (t : tramp) : world :=
  World (clock w) (upd k t (tramps w)) (cancelled w) (next_id w) (log w).
Definition set_clock (w : world) (c : Z) : world :=
  World c (tramps w) (cancelled w) (next_id w) (log w).
Definition add_log (w : world) (e : event) : world :=
  World (clock w) (tramps w) (cancelled w) (next_id w) (e :: log w).

Definition memb (n : nat) (l : list nat) : bool := existsb (Nat.eqb n) l.

(* ------------------------------------------------------------------ *)
(* PriorityQueue: heapq on (item, count) tuples.  Tuple comparison: the first
   components are compared with ScheduledItem.__eq__ (duetime equality); if
   equal the counts decide, otherwise ScheduledItem.__lt__ (duetime).  heapq
   itself is trusted to return the minimum for this order; the abstract view
   of the heap is the list sorted by it. *)
Definition key_lt (x y : item) : bool :=
  if i_due x =? i_due y then i_cnt x <? i_cnt y else i_due x <? i_due y.

Fixpoint insert (x : item) (q : list item) : list item :=
  match q with
  | [] => [x]
  | y :: t => if key_lt x y then x :: q else y :: insert x t
  end.

(* _run, first locked block:
     while len(queue) > 0: item = peek(); if item.duetime <= now: dequeue(); ready.append(item) else: break *)
Fixpoint split_due (now : Z) (q : list item) : list item * list item :=
  match q with
  | [] => ([], [])
  | x :: t => if i_due x <=? now
              then let (a, b) := split_due now t in (x :: a, b)
              else ([], q)
  end.

(* ------------------------------------------------------------------ *)
(* Threads                                                              *)

Inductive phase :=
  | P1                 (* about to enter the first locked block of _run *)
  | P2                 (* the [while len(ready) > 0] loop *)
  | P3                 (* about to enter the last locked block of _run *)
  | PWait (until : Z)  (* inside _condition.wait(until - now) *)
  | PFin.              (* exit_race only: left _run normally, about to enter [finally] *)

Inductive frame :=
  | FBody (top : bool) (cs : list cmd)    (* remaining commands of an action body / of the top-level history *)
  | FEnq (k : key) (it : item)            (* Trampoline.run(item) about to take the lock *)
  | FInvoke (k : key) (id : nat) (label : Z)   (* item.invoke() in progress *)
  | FInline (label : Z)                   (* action(self, None) called by ensure_trampoline *)
  | FRun (k : key) (ready : list item) (ph : phase).    (* Trampoline.run / _run of the drain loop *)

Record thread := Thread { stk : list frame; exc : option Z }.

Definition is_invoke (f : frame) : bool :=
  match f with FInvoke _ _ _ | FInline _ => true | _ => false end.
Definition depth_of (s : list frame) : nat := length (filter is_invoke s).

(* due time computed by schedule / schedule_relative / schedule_absolute *)
Definition due_of (now : Z) (w : when) : Z :=
  match w with
  | Now => now                    (* schedule: schedule_absolute(self.now) *)
  | Rel d => now + Z.max 0 d      (* schedule_relative: now + max(DELTA_ZERO, d) *)
  | Abs t => t                    (* schedule_absolute: a past due time is accepted *)
  end.

Definition ids_of (l : list item) : list nat := map i_id l.

(* [finally]/[except] of Trampoline.run:  _idle = True; _queue.clear() *)
Definition exit_path (w : world) (k : key) (ready : list item) (th : nat) (exn : bool) : world :=
  let tr := tramps w k in
  let w1 := set_tramp w k (Tramp true [] MIN_COUNT false false (t_active tr)) in
  add_log (add_log w1 (EDrop k (ids_of ready ++ ids_of (t_queue tr)) exn)) (EIdle k th).

(* schedule / schedule_relative / schedule_absolute up to the call of Trampoline.run:
   the due time is computed from self.now, then ScheduledItem(...) is built (the count
   is assigned by enqueue) *)
Definition new_item (w : world) (wh : when) (l : Z) (b : list cmd) : item :=
  Item (due_of (clock w) wh) 0 (next_id w) l b.
Definition create_item (w : world) (th : nat) (s : sched) (wh : when) (l : Z) (b : list cmd) : world :=
  World (clock w) (tramps w) (cancelled w) (S (next_id w))
        (ECreate (tkey s th) (next_id w) th (due_of (clock w) wh) (clock w) :: log w).

Definition set_active (tr : tramp) (n : nat) : tramp :=
  Tramp (t_idle tr) (t_queue tr) (t_count tr) (t_waiting tr) (t_signal tr) n.

(* an exception [e] is propagating through the top frame *)
Definition step_exc (th : nat) (w : world) (e : Z) (f : frame) (rest : list frame) : world * thread :=
  match f with
  | FBody true cs =>            (* the harness catches it around every top-level call *)
      (add_log w (EExc th e), Thread (FBody true cs :: rest) None)
  | FBody false _ => (w, Thread rest (Some e))
  | FEnq _ _ => (w, Thread rest (Some e))
  | FInvoke k id l =>
      (add_log (set_tramp w k (set_active (tramps w k) (pred (t_active (tramps w k))))) (EEnd k id l true),
       Thread rest (Some e))
  | FInline l => (add_log w (EInlineEnd l true), Thread rest (Some e))
  | FRun k ready _ =>           (* run(): with self._lock: _idle = True; _queue.clear(); re-raise *)
      (exit_path w k ready th true, Thread rest (Some e))
  end.

(* command [cm] of a body; [here] = the stack once the command has been consumed,
   [d] = nesting depth of actions on this thread *)
Definition step_cmd (th : nat) (w : world) (cm : cmd) (here : list frame) (d : nat) : world * thread :=
  match cm with
  | CSched s wh l b =>
      (create_item w th s wh l b, Thread (FEnq (tkey s th) (new_item w wh l b) :: here) None)
  | CCancel r =>
      if (r <? next_id w)%nat
      then (World (clock w) (tramps w) (r :: cancelled w) (next_id w) (ECancel r :: log w), Thread here None)
      else (w, Thread here None)
  | CSleep dt => (set_clock w (clock w + Z.max 0 dt), Thread here None)
  | CRaise e => (w, Thread here (Some e))
  | CRequired s =>
      (* idle(): with self._lock: return self._idle *)
      (add_log w (ERequired (tkey s th) th (t_idle (tramps w (tkey s th)))), Thread here None)
  | CEnsure s l b =>
      (* if self.schedule_required(): return self.schedule(action)   [up to Trampoline.run]
         return action(self, None) *)
      if t_idle (tramps w (tkey s th))
      then (create_item w th s Now l b, Thread (FEnq (tkey s th) (new_item w Now l b) :: here) None)
      else (add_log w (EInline l th (clock w) d), Thread (FBody false b :: FInline l :: here) None)
  end.

(* run(): with self._lock: enqueue(item); if _idle: _idle = False  else: notify(); return *)
Definition step_enq (th : nat) (w : world) (k : key) (it : item) (rest : list frame) : world * thread :=
  let tr := tramps w k in
  let q' := insert (Item (i_due it) (t_count tr) (i_id it) (i_label it) (i_body it)) (t_queue tr) in
  if t_idle tr
  then (add_log (set_tramp w k (Tramp false q' (t_count tr + 1) (t_waiting tr) (t_signal tr) (t_active tr)))
                (EEnq k (i_id it) th true),
        Thread (FRun k [] P1 :: rest) None)
  else (add_log (set_tramp w k (Tramp (t_idle tr) q' (t_count tr + 1) (t_waiting tr)
                                      (t_waiting tr || t_signal tr) (t_active tr)))
                (EEnq k (i_id it) th false),
        Thread rest None).

(* the drain loop _run (and the normal exit of run) *)
Definition step_run (c : cfg) (th : nat) (w : world) (k : key) (ready : list item) (ph : phase)
                    (rest : list frame) (d : nat) : world * thread :=
  let tr := tramps w k in
  match ph with
  | P1 =>
      let (moved, q') := split_due (clock w) (t_queue tr) in
      let cnt' := match moved with
                  | [] => t_count tr
                  | _ => match q' with [] => MIN_COUNT | _ => t_count tr end   (* dequeue resets count *)
                  end in
      (set_tramp w k (Tramp (t_idle tr) q' cnt' (t_waiting tr) (t_signal tr) (t_active tr)),
       Thread (FRun k (ready ++ moved) P2 :: rest) None)
  | P2 =>
      match ready with
      | [] => (w, Thread (FRun k [] P3 :: rest) None)
      | x :: ready' =>
          (* item = ready.popleft(); if not item.is_cancelled(): item.invoke() *)
          if memb (i_id x) (cancelled w)
          then (add_log w (ESkip k (i_id x)), Thread (FRun k ready' P2 :: rest) None)
          else (add_log (set_tramp w k (set_active tr (S (t_active tr))))
                        (EStart k (i_id x) (i_label x) th (i_due x) (clock w) (t_active tr) d),
                Thread (FBody false (i_body x) :: FInvoke k (i_id x) (i_label x) :: FRun k ready' P2 :: rest) None)
      end
  | P3 =>
      match t_queue tr with
      | [] =>
          if exit_race c
          then (w, Thread (FRun k ready PFin :: rest) None)               (* break; lock released *)
          else (add_log (set_tramp w k (Tramp true [] (t_count tr) false false (t_active tr))) (EIdle k th),
                Thread rest None)                                         (* _idle = True; break; return *)
      | x :: _ =>
          (* seconds = (item.duetime - now).total_seconds(); if seconds > 0.0: wait(seconds) *)
          if clock w <? i_due x
          then (set_tramp w k (Tramp (t_idle tr) (t_queue tr) (t_count tr) true false (t_active tr)),
                Thread (FRun k ready (PWait (i_due x)) :: rest) None)
          else (w, Thread (FRun k ready P1 :: rest) None)
      end
  | PWait u =>
      (* wait returns: notified, or timed out (time has passed) *)
      let w1 := set_tramp w k (Tramp (t_idle tr) (t_queue tr) (t_count tr) false false (t_active tr)) in
      if t_signal tr
      then (w1, Thread (FRun k ready P1 :: rest) None)
      else (set_clock w1 (Z.max (clock w) u), Thread (FRun k ready P1 :: rest) None)
  | PFin => (exit_path w k ready th false, Thread rest None)
  end.

(* one micro-step of thread [th] *)
Definition mstep (c : cfg) (th : nat) (w : world) (t : thread) : option (world * thread) :=
  match stk t with
  | [] => None
  | f :: rest =>
      match exc t with
      | Some e => Some (step_exc th w e f rest)
      | None =>
          match f with
          | FBody top [] => Some (w, Thread rest None)
          | FBody top (cm :: cs) => Some (step_cmd th w cm (FBody top cs :: rest) (depth_of (stk t)))
          | FEnq k it => Some (step_enq th w k it rest)
          | FInvoke k id l =>       (* the action returned; item.disposable.disposable = ret *)
              Some (add_log (set_tramp w k (set_active (tramps w k) (pred (t_active (tramps w k)))))
                            (EEnd k id l false),
                    Thread rest None)
          | FInline l => Some (add_log w (EInlineEnd l false), Thread rest None)
          | FRun k ready ph => Some (step_run c th w k ready ph rest (depth_of (stk t)))
          end
      end
  end.

(* ------------------------------------------------------------------ *)
(* Schedules                                                            *)

Inductive sstep := Run (th : nat) | Tick (d : Z).

Definition config : Type := (world * list thread)%type.

Fixpoint set_nth {A} (n : nat) (x : A) (l : list A) : list A :=
  match l, n with
  | [], _ => []
  | _ :: t, O => x :: t
  | y :: t, S n' => y :: set_nth n' x t
  end.

Definition cstep (c : cfg) (cf : config) (s : sstep) : config :=
  let (w, ts) := cf in
  match s with
  | Tick d => (set_clock w (clock w + Z.max 0 d), ts)
  | Run th =>
      match nth_error ts th with
      | None => cf
      | Some t =>
          match mstep c th w t with
          | None => cf
          | Some (w', t') => (w', set_nth th t' ts)
          end
      end
  end.

Definition crun (c : cfg) (cf : config) (sch : list sstep) : config := fold_left (cstep c) sch cf.

(* every thread starts with its top-level history *)
Definition start_thread (h : list cmd) : thread := Thread [FBody true h] None.
Definition start_config (c0 : Z) (hs : list (list cmd)) : config := (init_world c0, map start_thread hs).

(* ------------------------------------------------------------------ *)
(* One thread run to completion                                         *)

Inductive outcome := Finished (w : world) | OutOfFuel (w : world).

Fixpoint run1 (c : cfg) (fuel : nat) (th : nat) (w : world) (t : thread) : outcome :=
  match mstep c th w t with
  | None => Finished w
  | Some (w', t') =>
      match fuel with
      | O => OutOfFuel w
      | S fuel' => run1 c fuel' th w' t'
      end
  end.

Definition world_of (o : outcome) : world := match o with Finished w | OutOfFuel w => w end.

(* fuel that suffices (a potential that every micro-step of a single thread decreases):
   16 per schedule call (build, enqueue, at most one wait cycle of the drain loop, dequeue,
   invoke, return, exit of the loop), 2 per raise (raise, catch), 1 otherwise *)
Fixpoint csize (cm : cmd) : nat :=
  match cm with
  | CSched _ _ _ b => 16 + list_sum (map csize b)
  | CEnsure _ _ b => 16 + list_sum (map csize b)
  | CRaise _ => 2
  | _ => 1
  end.
Definition bsize (b : list cmd) : nat := list_sum (map csize b).

Definition run_history (c : cfg) (c0 : Z) (h : list cmd) : outcome :=
  run1 c (2 + bsize h) 0 (init_world c0) (start_thread h).

(* ------------------------------------------------------------------ *)
(* Macro steps (K3): the controller of harness/k3.py gives the baton to a
   thread from one yield point to the next.  Yield points: before every
   acquisition of the trampoline lock, on return from Condition.wait, and
   before every command of a harness action. *)
Definition yields (t : thread) : bool :=
  match exc t, stk t with
  | _, [] => true
  | Some _, FRun _ _ _ :: _ => true
  | Some _, _ => false
  | None, FBody _ (_ :: _) :: _ => true
  | None, FBody _ [] :: _ => false
  | None, FEnq _ _ :: _ => true
  | None, FInvoke _ _ _ :: _ => false
  | None, FInline _ :: _ => false
  | None, FRun _ _ P2 :: _ => false
  | None, FRun _ _ _ :: _ => true
  end.

Fixpoint settle (c : cfg) (fuel : nat) (th : nat) (w : world) (t : thread) : world * thread :=
  if yields t then (w, t)
  else match fuel with
       | O => (w, t)
       | S fuel' => match mstep c th w t with
                    | None => (w, t)
                    | Some (w', t') => settle c fuel' th w' t'
                    end
       end.

Definition macro (c : cfg) (fuel : nat) (cf : config) (th : nat) : config :=
  let (w, ts) := cf in
  match nth_error ts th with
  | None => cf
  | Some t =>
      match mstep c th w t with
      | None => cf
      | Some (w', t') => let (w'', t'') := settle c fuel th w' t' in (w'', set_nth th t'' ts)
      end
  end.

Definition macro_run (c : cfg) (fuel : nat) (cf : config) (sch : list nat) : config :=
  fold_left (macro c fuel) sch cf.

(* ------------------------------------------------------------------ *)
(* Observable behaviour (what the harness sees on the implementation)   *)

Inductive oev :=
  | ORun (label : Z) (th : nat) (clk : Z) (depth_k depth : nat)
  | OEnd (label : Z)
  | OInline (label : Z) (th : nat) (clk : Z) (depth : nat)
  | ORequired (th : nat) (b : bool)
  | OExc (th : nat) (e : Z)
  | OFuel.

Fixpoint obs_of (l : list event) (acc : list oev) : list oev :=   (* l newest first; result oldest first *)
  match l with
  | [] => acc
  | e :: t =>
      obs_of t
        (match e with
         | EStart _ _ l th _ clk dk d => ORun l th clk dk d :: acc
         | EEnd _ _ l _ => OEnd l :: acc
         | EInline l th clk d => OInline l th clk d :: acc
         | EInlineEnd l _ => OEnd l :: acc
         | ERequired _ th b => ORequired th b :: acc
         | EExc th e => OExc th e :: acc
         | _ => acc
         end)
  end.

Definition observe (o : outcome) : list oev :=
  match o with
  | Finished w => obs_of (log w) []
  | OutOfFuel w => obs_of (log w) [OFuel]
  end.

Definition oev_eqb (a b : oev) : bool :=
  match a, b with
  | ORun l t k d e, ORun l' t' k' d' e' =>
      (l =? l') && Nat.eqb t t' && (k =? k') && Nat.eqb d d' && Nat.eqb e e'
  | OEnd l, OEnd l' => l =? l'
  | OInline l t k d, OInline l' t' k' d' => (l =? l') && Nat.eqb t t' && (k =? k') && Nat.eqb d d'
  | ORequired t b, ORequired t' b' => Nat.eqb t t' && Bool.eqb b b'
  | OExc t e, OExc t' e' => Nat.eqb t t' && (e =? e')
  | OFuel, OFuel => true
  | _, _ => false
  end.

(* final state seen from outside: clock, and per thread whether it finished *)
Definition all_done (ts : list thread) : bool :=
  forallb (fun t => match stk t with [] => true | _ => false end) ts.
