(* Facts about the loop of NewThreadScheduler.schedule_periodic
   (Core/NewThreadPeriodic.v), for ALL scripts (induction on the script). *)
From RxVerif Require Import Base.Prelude Core.NewThreadPeriodic.
Local Open Scope Z_scope.

(* ------------------------------------------------------------------------ *)
(* invocations: closed form                                                  *)
(* ------------------------------------------------------------------------ *)

(* clock at which the pending invocation starts if nothing stops the loop before *)
Definition start_of {T} (s : lstate T) : Z := l_clk s + Z.max 0 (l_tmo s).

Lemma invs_app {T} (a b : list (ev T)) : invs (a ++ b) = invs a ++ invs b.
Proof.
  induction a as [|e a IH]; [reflexivity|].
  destruct e; cbn; rewrite ?IH; reflexivity.
Qed.

Definition next_flag (it : iter) : bool :=
  i_win it || match i_in it with Some _ => true | None => false end.

Lemma step_invs {T} p (f : T -> T) (s : lstate T) it es r : step p f s it = (es, r) ->
  (r = Fin Stopped /\ invs es = []) \/
  (invs es = [(start_of s, l_st s)] /\
   (r = Fin Died \/
    r = Cont (LState (f (l_st s)) (p - dur_of it) (next_flag it) (start_of s + dur_of it)))).
Proof.
  unfold step, wait_part, start_of, next_flag.
  destruct s as [st tmo fl clk]; cbn [l_st l_tmo l_flag l_clk].
  destruct (0 <? tmo) eqn:Ht.
  - apply Z.ltb_lt in Ht. assert (E : Z.max 0 tmo = tmo) by lia. rewrite E.
    destruct fl.
    + cbn. destruct (i_pre it); intro H; inversion H; subst; left; split; reflexivity.
    + destruct (i_wait it) as [o|]; [destruct ((0 <=? o) && (o <? tmo))|].
      * cbn. destruct (i_pre it); intro H; inversion H; subst; left; split; reflexivity.
      * cbn. destruct (i_pre it); cbn.
        { intro H; inversion H; subst; left; split; reflexivity. }
        destruct (i_raise it), (i_win it), (i_in it); intro H; inversion H; subst; right;
          (split; [reflexivity | first [left; reflexivity | right; reflexivity]]).
      * cbn. destruct (i_pre it); cbn.
        { intro H; inversion H; subst; left; split; reflexivity. }
        destruct (i_raise it), (i_win it), (i_in it); intro H; inversion H; subst; right;
          (split; [reflexivity | first [left; reflexivity | right; reflexivity]]).
  - apply Z.ltb_ge in Ht. assert (E : Z.max 0 tmo = 0) by lia. rewrite E, Z.add_0_r.
    destruct fl; cbn.
    + destruct (i_pre it); intro H; inversion H; subst; left; split; reflexivity.
    + destruct (i_pre it); cbn.
      { intro H; inversion H; subst; left; split; reflexivity. }
      destruct (i_raise it), (i_win it), (i_in it); intro H; inversion H; subst; right;
        (split; [reflexivity | first [left; reflexivity | right; reflexivity]]).
Qed.

Lemma iter_shift {T} (f : T -> T) k x : Nat.iter k f (f x) = f (Nat.iter k f x).
Proof.
  induction k as [|k IH]; [reflexivity|].
  change (Nat.iter (S k) f (f x)) with (f (Nat.iter k f (f x))). rewrite IH. reflexivity.
Qed.

Lemma run_invs_nth {T} p (f : T -> T) : forall sc (s : lstate T) tr o,
  run p f s sc = (tr, o) -> forall k c x, nth_error (invs tr) k = Some (c, x) ->
  x = Nat.iter k f (l_st s) /\ c = start_of s + gaps p sc k /\ (k < length sc)%nat.
Proof.
  induction sc as [|it sc IH]; intros s tr o H k c x Hk.
  - cbn in H. inversion H; subst. destruct k; discriminate Hk.
  - cbn [run] in H. destruct (step p f s it) as [es r] eqn:Hs.
    pose proof (step_invs _ _ _ _ _ _ Hs) as [[Hr Hi] | [Hi Hr]].
    + subst r. inversion H; subst. rewrite Hi in Hk. destruct k; discriminate Hk.
    + destruct Hr as [Hr | Hr]; subst r.
      * inversion H; subst. rewrite Hi in Hk. destruct k as [|k].
        { cbn in Hk. inversion Hk; subst. cbn. repeat split; lia. }
        { destruct k; discriminate Hk. }
      * destruct (run p f _ sc) as [es' o'] eqn:Hr'. inversion H; subst.
        rewrite invs_app, Hi in Hk. destruct k as [|k].
        { cbn in Hk. inversion Hk; subst. cbn. repeat split; lia. }
        { cbn [app nth_error] in Hk.
          destruct (IH _ _ _ Hr' _ _ _ Hk) as (Hx & Hc & Hl).
          cbn [l_st] in Hx. unfold start_of in Hc. cbn [l_clk l_tmo] in Hc.
          split; [|split].
          - rewrite Hx. cbn [Nat.iter nat_rect]. apply iter_shift.
          - cbn [gaps]. unfold gap. unfold start_of. lia.
          - cbn [length]. lia. }
Qed.

Lemma periodic_invs {T} p (f : T -> T) st0 c0 d0 sc :
  invs (fst (periodic p f st0 c0 d0 sc)) = invs (fst (run p f (init p st0 c0 d0) sc)).
Proof.
  unfold periodic. destruct (run p f (init p st0 c0 d0) sc) as [es o]. cbn [fst].
  destruct d0; reflexivity.
Qed.

(* the k-th invocation (k = 0, 1, ...): state and start clock *)
Lemma periodic_kth {T} p (f : T -> T) st0 c0 d0 sc k c x :
  nth_error (invs (fst (periodic p f st0 c0 d0 sc))) k = Some (c, x) ->
  x = Nat.iter k f st0 /\ c = c0 + Z.max 0 p + gaps p sc k /\ (k < length sc)%nat.
Proof.
  rewrite periodic_invs. destruct (run p f (init p st0 c0 d0) sc) as [es o] eqn:Hr. cbn [fst].
  intro Hk. exact (run_invs_nth p f sc _ _ _ Hr k c x Hk).
Qed.

(* (a) state threading *)
Lemma periodic_threading {T} p (f : T -> T) st0 c0 d0 sc k c x c' x' :
  nth_error (invs (fst (periodic p f st0 c0 d0 sc))) k = Some (c, x) ->
  nth_error (invs (fst (periodic p f st0 c0 d0 sc))) (S k) = Some (c', x') ->
  x' = f x.
Proof.
  intros H1 H2. apply periodic_kth in H1. apply periodic_kth in H2.
  destruct H1 as (H1 & _), H2 as (H2 & _). subst. reflexivity.
Qed.

Lemma periodic_state_kth {T} p (f : T -> T) st0 c0 d0 sc k c x :
  nth_error (invs (fst (periodic p f st0 c0 d0 sc))) k = Some (c, x) -> x = Nat.iter k f st0.
Proof. intro H. apply periodic_kth in H. tauto. Qed.

(* (d) the first invocation *)
Lemma periodic_first {T} p (f : T -> T) st0 c0 d0 sc c x :
  nth_error (invs (fst (periodic p f st0 c0 d0 sc))) 0 = Some (c, x) ->
  c = c0 + Z.max 0 p /\ c0 + p <= c /\ x = st0.
Proof.
  intro H. apply periodic_kth in H. destruct H as (Hx & Hc & _). cbn in Hc, Hx.
  destruct sc; cbn in Hc; repeat split; try assumption; lia.
Qed.

Lemma gaps_succ p : forall sc k it, nth_error sc k = Some it -> gaps p sc (S k) = gaps p sc k + gap p it.
Proof.
  induction sc as [|a sc IH]; intros k it H.
  - destruct k; discriminate H.
  - destruct k as [|k].
    + cbn in H. inversion H; subst. cbn. destruct sc; cbn; lia.
    + cbn [nth_error] in H. specialize (IH _ _ H).
      change (gaps p (a :: sc) (S (S k))) with (gap p a + gaps p sc (S k)).
      change (gaps p (a :: sc) (S k)) with (gap p a + gaps p sc k). lia.
Qed.

(* (c) spacing of consecutive invocations *)
Lemma periodic_spacing {T} p (f : T -> T) st0 c0 d0 sc k c x c' x' :
  nth_error (invs (fst (periodic p f st0 c0 d0 sc))) k = Some (c, x) ->
  nth_error (invs (fst (periodic p f st0 c0 d0 sc))) (S k) = Some (c', x') ->
  exists it, nth_error sc k = Some it /\ c' = c + Z.max p (dur_of it) /\
             c + p <= c' /\ c + dur_of it <= c' /\ (dur_of it <= p -> c' = c + p).
Proof.
  intros H1 H2. apply periodic_kth in H1. apply periodic_kth in H2.
  destruct H1 as (_ & H1 & L1), H2 as (_ & H2 & _).
  destruct (nth_error sc k) as [it|] eqn:Hn.
  - exists it. rewrite (gaps_succ p sc k it Hn) in H2. unfold gap in H2.
    split; [reflexivity|]. repeat split; lia.
  - apply nth_error_None in Hn. lia.
Qed.

Lemma gaps_ontime p : forall sc k, (k <= length sc)%nat ->
  (forall j it, (j < k)%nat -> nth_error sc j = Some it -> dur_of it <= p) ->
  gaps p sc k = Z.of_nat k * p.
Proof.
  induction sc as [|a sc IH]; intros k Hk H.
  - cbn in Hk. assert (k = 0%nat) by lia. subst. reflexivity.
  - destruct k as [|k]; [reflexivity|].
    cbn [gaps]. rewrite IH.
    + unfold gap. assert (dur_of a <= p) by (apply (H 0%nat a); [lia | reflexivity]). lia.
    + cbn in Hk. lia.
    + intros j it Hj Hn. apply (H (S j) it); [lia | exact Hn].
Qed.

(* exact period when no earlier invocation overran *)
Lemma periodic_kth_ontime {T} p (f : T -> T) st0 c0 d0 sc k c x : 0 <= p ->
  nth_error (invs (fst (periodic p f st0 c0 d0 sc))) k = Some (c, x) ->
  (forall j it, (j < k)%nat -> nth_error sc j = Some it -> dur_of it <= p) ->
  c = c0 + (Z.of_nat k + 1) * p.
Proof.
  intros Hp H Hd. apply periodic_kth in H. destruct H as (_ & Hc & Hl).
  rewrite (gaps_ontime p sc k) in Hc by (try lia; exact Hd). lia.
Qed.

Lemma gaps_lower p : forall sc k, (k <= length sc)%nat -> Z.of_nat k * p <= gaps p sc k.
Proof.
  induction sc as [|a sc IH]; intros k Hk.
  - cbn in Hk. assert (k = 0%nat) by lia. subst. cbn. lia.
  - destruct k as [|k]; [cbn; lia|]. cbn [gaps]. cbn in Hk.
    specialize (IH k ltac:(lia)). unfold gap. lia.
Qed.

(* never early *)
Lemma periodic_kth_lower {T} p (f : T -> T) st0 c0 d0 sc k c x :
  nth_error (invs (fst (periodic p f st0 c0 d0 sc))) k = Some (c, x) ->
  c0 + (Z.of_nat k + 1) * p <= c.
Proof.
  intro H. apply periodic_kth in H. destruct H as (_ & Hc & Hl).
  pose proof (gaps_lower p sc k ltac:(lia)). lia.
Qed.

(* ------------------------------------------------------------------------ *)
(* safety: an automaton every trace of the loop is accepted by               *)
(* ------------------------------------------------------------------------ *)

(* PIdle: the loop is not between its test and the action;  PArmed c: disposed.is_set()
   returned False at clock c and the action has not been entered yet;  PDead: the thread ended *)
Inductive ph : Type := PIdle | PArmed (c : Z) | PDead.

(* (flag, phase) -> event -> next, None = not a behaviour of the loop *)
Definition delta {T} (st : bool * ph) (e : ev T) : option (bool * ph) :=
  let '(d, q) := st in
  match q with
  | PDead => None
  | _ =>
    match e with
    | EDisp c => match q with
                 | PArmed c0 => if c =? c0 then Some (true, q) else None
                 | _ => Some (true, q)
                 end
    | ETest c b => if Bool.eqb b d then Some (d, if b then PDead else PArmed c) else None
    | EInv c _ => match q with
                  | PArmed c0 => if c =? c0 then Some (d, PIdle) else None
                  | _ => None
                  end
    | ERaise _ => Some (d, PDead)
    | EWait _ _ => Some (d, PIdle)
    | EEnd _ => Some (d, PIdle)
    end
  end.

Fixpoint runA {T} (st : bool * ph) (l : list (ev T)) : option (bool * ph) :=
  match l with
  | [] => Some st
  | e :: t => match delta st e with Some st' => runA st' t | None => None end
  end.

Lemma runA_app {T} (a b : list (ev T)) : forall st,
  runA st (a ++ b) = match runA st a with Some st' => runA st' b | None => None end.
Proof.
  induction a as [|e a IH]; intro st; [reflexivity|].
  cbn [app runA]. destruct (delta st e); [apply IH | reflexivity].
Qed.

Lemma step_acc {T} p (f : T -> T) (s : lstate T) it es r : step p f s it = (es, r) ->
  match r with
  | Fin Stopped => runA (l_flag s, PIdle) es = Some (true, PDead)
  | Fin Died => exists b, runA (l_flag s, PIdle) es = Some (b, PDead)
  | Fin Running => False
  | Cont s' => runA (l_flag s, PIdle) es = Some (l_flag s', PIdle)
  end.
Proof.
  unfold step, wait_part.
  destruct s as [st tmo fl clk]; cbn [l_st l_tmo l_flag l_clk].
  destruct (0 <? tmo); [destruct fl; [|destruct (i_wait it) as [o|];
                                       [destruct ((0 <=? o) && (o <? tmo))|]] | destruct fl];
    cbn; destruct (i_pre it); cbn;
    try (intro H; inversion H; subst; cbn; rewrite ?Z.eqb_refl; reflexivity);
    destruct (i_raise it), (i_win it), (i_in it); intro H; inversion H; subst; cbn;
    rewrite ?Z.eqb_refl; cbn; rewrite ?Z.eqb_refl; first [reflexivity | eexists; reflexivity].
Qed.

Lemma run_acc {T} p (f : T -> T) : forall sc (s : lstate T) tr o,
  run p f s sc = (tr, o) -> exists st', runA (l_flag s, PIdle) tr = Some st'.
Proof.
  induction sc as [|it sc IH]; intros s tr o H.
  - cbn in H. inversion H; subst. eexists; reflexivity.
  - cbn [run] in H. destruct (step p f s it) as [es r] eqn:Hs.
    pose proof (step_acc _ _ _ _ _ _ Hs) as A. destruct r as [s'|[| |]].
    + destruct (run p f s' sc) as [es' o'] eqn:Hr. inversion H; subst.
      destruct (IH _ _ _ Hr) as [st' Hst]. exists st'. rewrite runA_app, A. exact Hst.
    + inversion H; subst. eexists; exact A.
    + inversion H; subst. destruct A as [b A]. eexists; exact A.
    + destruct A.
Qed.

Lemma periodic_acc {T} p (f : T -> T) st0 c0 d0 sc :
  exists st', runA (false, PIdle) (fst (periodic p f st0 c0 d0 sc)) = Some st'.
Proof.
  unfold periodic. destruct (run p f (init p st0 c0 d0) sc) as [es o] eqn:Hr. cbn [fst].
  destruct (run_acc _ _ _ _ _ _ Hr) as [st' H]. cbn [init l_flag] in H.
  exists st'. destruct d0; cbn; exact H.
Qed.

(* ---- consequences of acceptance (pure automaton lemmas) -------------------- *)

Lemma dead_nil {T} (l : list (ev T)) d st : runA (d, PDead) l = Some st -> l = [].
Proof. destruct l as [|e l]; [reflexivity|]. cbn. discriminate. Qed.

Lemma flag_mono {T} : forall (l : list (ev T)) q d' q', runA (true, q) l = Some (d', q') -> d' = true.
Proof.
  induction l as [|e l IH]; intros q d' q' H.
  - cbn in H. inversion H. reflexivity.
  - cbn [runA] in H. destruct (delta (true, q) e) as [[d1 q1]|] eqn:D; [|discriminate].
    assert (d1 = true).
    { unfold delta in D. destruct q; try discriminate; destruct e; cbn in D;
        repeat match type of D with context [if ?c then _ else _] => destruct c end;
        inversion D; reflexivity. }
    subst. eapply IH; exact H.
Qed.

(* the flag is set and the loop is not armed: no invocation can start any more *)
Lemma no_inv_idle {T} : forall (l : list (ev T)) q st, (forall c, q <> PArmed c) ->
  runA (true, q) l = Some st -> invs l = [].
Proof.
  induction l as [|e l IH]; intros q st Hq H; [reflexivity|].
  cbn [runA] in H. destruct (delta (true, q) e) as [[d1 q1]|] eqn:D; [|discriminate].
  unfold delta in D. destruct q as [|c0|]; [|exfalso; apply (Hq c0); reflexivity|discriminate].
  destruct e; cbn in D.
  - inversion D; subst. cbn. eapply IH; [|exact H]. intros c; discriminate.
  - destruct b; cbn in D; [|discriminate]. inversion D; subst.
    apply dead_nil in H. subst. reflexivity.
  - discriminate.
  - inversion D; subst. cbn. eapply IH; [|exact H]. intros c; discriminate.
  - inversion D; subst. apply dead_nil in H. subst. reflexivity.
  - inversion D; subst. cbn. eapply IH; [|exact H]. intros c; discriminate.
Qed.

(* the flag is set while the loop is armed at clock c: at most the armed invocation, at clock c *)
Lemma one_inv_armed {T} : forall (l : list (ev T)) c st,
  runA (true, PArmed c) l = Some st -> invs l = [] \/ exists x, invs l = [(c, x)].
Proof.
  induction l as [|e l IH]; intros c st H; [left; reflexivity|].
  cbn [runA] in H. destruct (delta (true, PArmed c) e) as [[d1 q1]|] eqn:D; [|discriminate].
  destruct e; cbn in D.
  - inversion D; subst. cbn. left. eapply no_inv_idle; [|exact H]. intros; discriminate.
  - destruct b; cbn in D; [|discriminate]. inversion D; subst.
    apply dead_nil in H. subst. left; reflexivity.
  - destruct (clk =? c) eqn:E; [|discriminate]. apply Z.eqb_eq in E. inversion D; subst.
    right. exists st0. cbn. f_equal. eapply no_inv_idle; [|exact H]. intros; discriminate.
  - inversion D; subst. cbn. left. eapply no_inv_idle; [|exact H]. intros; discriminate.
  - inversion D; subst. apply dead_nil in H. subst. left; reflexivity.
  - destruct (clk =? c) eqn:E; [|discriminate]. inversion D; subst. cbn. eapply IH; exact H.
Qed.

(* (b3) after a dispose() call at most one invocation starts, and only at the very clock
   instant of that call (the one that had already passed its test) *)
Lemma acc_after_dispose {T} (l1 l2 : list (ev T)) c st0 st :
  runA st0 (l1 ++ EDisp c :: l2) = Some st -> invs l2 = [] \/ exists x, invs l2 = [(c, x)].
Proof.
  rewrite runA_app. destruct (runA st0 l1) as [[d q]|]; [|discriminate].
  cbn [runA]. destruct (delta (d, q) (EDisp c)) as [[d1 q1]|] eqn:D; [|discriminate].
  intro H. unfold delta in D. destruct q as [|c1|]; cbn in D.
  - inversion D; subst. left. eapply no_inv_idle; [|exact H]. intros; discriminate.
  - destruct (c =? c1) eqn:E; [|discriminate]. apply Z.eqb_eq in E. inversion D; subst.
    eapply one_inv_armed; exact H.
  - discriminate.
Qed.

(* (b2) a test that follows a dispose() call reports True, and nothing follows it *)
Lemma acc_test_after_dispose {T} (l1 l2 l3 : list (ev T)) c c' b st0 st :
  runA st0 (l1 ++ EDisp c :: l2 ++ ETest c' b :: l3) = Some st -> b = true /\ l3 = [].
Proof.
  rewrite runA_app. destruct (runA st0 l1) as [[d q]|]; [|discriminate].
  cbn [runA]. destruct (delta (d, q) (EDisp c)) as [[d1 q1]|] eqn:D; [|discriminate].
  assert (d1 = true).
  { unfold delta in D. destruct q; cbn in D; try discriminate;
      repeat match type of D with context [if ?x then _ else _] => destruct x end;
      inversion D; reflexivity. }
  subst d1. rewrite runA_app. destruct (runA (true, q1) l2) as [[d2 q2]|] eqn:R2; [|discriminate].
  apply flag_mono in R2. subst d2. cbn [runA].
  destruct (delta (true, q2) (ETest c' b)) as [[d3 q3]|] eqn:D3; [|discriminate].
  intro H. unfold delta in D3. destruct q2; try discriminate; destruct b; cbn in D3; try discriminate;
    inversion D3; subst; apply dead_nil in H; split; [reflexivity | exact H | reflexivity | exact H].
Qed.

(* (b1) the loop tests the flag before EVERY invocation: an invocation at clock c is preceded
   by a test at clock c that reported False, with nothing but dispose() calls at c in between *)
Lemma armed_inv {T} : forall (l : list (ev T)) st0 d c,
  (forall c0, snd st0 <> PArmed c0) ->
  runA st0 l = Some (d, PArmed c) ->
  exists l0 w, l = l0 ++ ETest c false :: w /\ Forall (fun e => e = EDisp c) w.
Proof.
  intro l. induction l as [|e l IH] using rev_ind; intros st0 d c H0 H.
  - cbn in H. inversion H; subst. exfalso. apply (H0 c). reflexivity.
  - rewrite runA_app in H. destruct (runA st0 l) as [[d1 q1]|] eqn:R; [|discriminate].
    cbn [runA] in H. destruct (delta (d1, q1) e) as [st2|] eqn:D; [|discriminate].
    inversion H; subst st2. unfold delta in D.
    destruct q1 as [|c1|]; try discriminate; destruct e; cbn in D;
      repeat match type of D with context [if ?x then _ else _] => destruct x eqn:? end;
      try discriminate; inversion D; subst.
    + exists l, []. split; [reflexivity | constructor].
    + exists l, []. split; [reflexivity | constructor].
    + match goal with E : (_ =? _) = true |- _ => apply Z.eqb_eq in E; subst end.
      destruct (IH _ _ _ H0 R) as (l0 & w & E & F). subst l.
      exists l0, (w ++ [EDisp c]). split.
      * rewrite <- app_assoc. reflexivity.
      * apply Forall_app. split; [exact F | constructor; [reflexivity | constructor]].
Qed.

Lemma acc_tested_before_inv {T} (l1 l2 : list (ev T)) c x st :
  runA (false, PIdle) (l1 ++ EInv c x :: l2) = Some st ->
  exists l0 w, l1 = l0 ++ ETest c false :: w /\ Forall (fun e => e = EDisp c) w.
Proof.
  rewrite runA_app. destruct (runA (false, PIdle) l1) as [[d q]|] eqn:R; [|discriminate].
  cbn [runA]. destruct (delta (d, q) (EInv c x)) as [st2|] eqn:D; [|discriminate].
  intros _. unfold delta in D. destruct q as [|c1|]; try discriminate.
  destruct (c =? c1) eqn:E; [|discriminate]. apply Z.eqb_eq in E. subst c1.
  eapply armed_inv; [|exact R]. intros c0; cbn; discriminate.
Qed.

Definition is_test {T} (e : ev T) : bool := match e with ETest _ _ => true | _ => false end.

Lemma not_armed_without_test {T} : forall (l : list (ev T)) d q d' q',
  forallb (fun e => negb (is_test e)) l = true -> (forall c, q <> PArmed c) ->
  runA (d, q) l = Some (d', q') -> forall c, q' <> PArmed c.
Proof.
  induction l as [|e l IH]; intros d q d' q' Hn Hq H.
  - cbn in H. inversion H; subst. exact Hq.
  - cbn [forallb] in Hn. apply andb_true_iff in Hn. destruct Hn as [He Hn].
    cbn [runA] in H. destruct (delta (d, q) e) as [[d1 q1]|] eqn:D; [|discriminate].
    eapply IH; [exact Hn | | exact H].
    unfold delta in D. destruct q as [|c0|]; [|exfalso; apply (Hq c0); reflexivity|discriminate].
    destruct e; cbn in D, He; try discriminate; inversion D; subst; intros c; discriminate.
Qed.

(* (b4) dispose() during an invocation (or anywhere before the loop's next test): that invocation
   is the last one *)
Lemma acc_dispose_during_inv {T} (l1 l2 l3 : list (ev T)) c x c' st0 st :
  runA st0 (l1 ++ EInv c x :: l2 ++ EDisp c' :: l3) = Some st ->
  forallb (fun e => negb (is_test e)) l2 = true -> invs l3 = [].
Proof.
  rewrite runA_app. destruct (runA st0 l1) as [[d q]|]; [|discriminate].
  cbn [runA]. destruct (delta (d, q) (EInv c x)) as [[d1 q1]|] eqn:D; [|discriminate].
  assert (q1 = PIdle).
  { unfold delta in D. destruct q; try discriminate. cbn in D.
    destruct (c =? c0); [|discriminate]. inversion D; reflexivity. }
  subst q1. rewrite runA_app. destruct (runA (d1, PIdle) l2) as [[d2 q2]|] eqn:R2; [|discriminate].
  cbn [runA]. destruct (delta (d2, q2) (EDisp c')) as [[d3 q3]|] eqn:D3; [|discriminate].
  intros H Hn.
  assert (Hq : forall c2, q2 <> PArmed c2).
  { eapply (not_armed_without_test l2 d1 PIdle d2 q2 Hn); [intros c2 E; discriminate E | exact R2]. }
  unfold delta in D3. destruct q2 as [|c2|]; [|exfalso; apply (Hq c2); reflexivity|discriminate].
  cbn in D3. inversion D3; subst. eapply no_inv_idle; [|exact H]. intros; discriminate.
Qed.

(* a raising invocation is the last event: the thread is dead *)
Lemma acc_raise_last {T} (l1 l2 : list (ev T)) c st0 st :
  runA st0 (l1 ++ ERaise c :: l2) = Some st -> l2 = [].
Proof.
  rewrite runA_app. destruct (runA st0 l1) as [[d q]|]; [|discriminate].
  cbn [runA]. destruct (delta (d, q) (ERaise c)) as [[d1 q1]|] eqn:D; [|discriminate].
  intro H. unfold delta in D. destruct q; try discriminate; cbn in D; inversion D; subst;
    eapply dead_nil; exact H.
Qed.

(* ---- the same, stated on the loop --------------------------------------- *)

Lemma periodic_tested_before_every_invocation {T} p (f : T -> T) st0 c0 d0 sc l1 c x l2 :
  fst (periodic p f st0 c0 d0 sc) = l1 ++ EInv c x :: l2 ->
  exists l0 w, l1 = l0 ++ ETest c false :: w /\ Forall (fun e => e = EDisp c) w.
Proof.
  intro E. destruct (periodic_acc p f st0 c0 d0 sc) as [st A]. rewrite E in A.
  eapply acc_tested_before_inv; exact A.
Qed.

Lemma periodic_test_after_dispose {T} p (f : T -> T) st0 c0 d0 sc l1 c l2 c' b l3 :
  fst (periodic p f st0 c0 d0 sc) = l1 ++ EDisp c :: l2 ++ ETest c' b :: l3 ->
  b = true /\ l3 = [].
Proof.
  intro E. destruct (periodic_acc p f st0 c0 d0 sc) as [st A]. rewrite E in A.
  eapply acc_test_after_dispose; exact A.
Qed.

Lemma periodic_after_dispose {T} p (f : T -> T) st0 c0 d0 sc l1 c l2 :
  fst (periodic p f st0 c0 d0 sc) = l1 ++ EDisp c :: l2 ->
  invs l2 = [] \/ exists x, invs l2 = [(c, x)].
Proof.
  intro E. destruct (periodic_acc p f st0 c0 d0 sc) as [st A]. rewrite E in A.
  eapply acc_after_dispose; exact A.
Qed.

Lemma periodic_dispose_during_invocation {T} p (f : T -> T) st0 c0 d0 sc l1 c x l2 c' l3 :
  fst (periodic p f st0 c0 d0 sc) = l1 ++ EInv c x :: l2 ++ EDisp c' :: l3 ->
  forallb (fun e => negb (is_test e)) l2 = true -> invs l3 = [].
Proof.
  intros E Hn. destruct (periodic_acc p f st0 c0 d0 sc) as [st A]. rewrite E in A.
  eapply acc_dispose_during_inv; [exact A | exact Hn].
Qed.

Lemma periodic_raise_last {T} p (f : T -> T) st0 c0 d0 sc l1 c l2 :
  fst (periodic p f st0 c0 d0 sc) = l1 ++ ERaise c :: l2 -> l2 = [].
Proof.
  intro E. destruct (periodic_acc p f st0 c0 d0 sc) as [st A]. rewrite E in A.
  eapply acc_raise_last; exact A.
Qed.

(* dispose() before the thread runs: no invocation at all *)
Lemma periodic_disposed_before_start {T} p (f : T -> T) st0 c0 sc :
  invs (fst (periodic p f st0 c0 true sc)) = [].
Proof.
  destruct (periodic_acc p f st0 c0 true sc) as [st A].
  assert (E : exists l2, fst (periodic p f st0 c0 true sc) = [] ++ EDisp c0 :: l2).
  { unfold periodic. destruct (run p f (init p st0 c0 true) sc) as [es o]. exists es. reflexivity. }
  destruct E as [l2 E]. rewrite E in A |- *. cbn [app] in A. cbn [runA delta] in A.
  cbn [app invs]. eapply no_inv_idle; [|exact A]. intros; discriminate.
Qed.
