(* Facts about periodic scheduling on the virtual-time model. *)
From RxVerif Require Import Base.Prelude Core.VTime Core.VTimeFacts Core.Periodic.

Local Open Scope Z_scope.

(* ================================================================== *)
(* 1. In every history: no call after the subscription was disposed     *)

Definition Inv10 (s : st) : Prop :=
  (forall pid, In (EPDispose pid) (log s) ->
               exists pi, nth_error (pers s) pid = Some pi /\ p_disposed pi = true) /\
  no_tick_after_dispose (log s).

Lemma nth_error_set_nth_other {A} (x : A) : forall l n m, n <> m -> nth_error (set_nth n x l) m = nth_error l m.
Proof.
  induction l as [|y t IH]; intros [|n] [|m] H; simpl; auto; try congruence.
Qed.

Lemma inv10_prim s s' : Inv10 s -> prim s s' -> Inv10 s'.
Proof.
  intros [H1 H2] HP. inversion HP; subst; clear HP; try (split; assumption).
  - destruct (cancel_id_fields s r) as (A & B & C & D & E & F & G). unfold Inv10. rewrite F.
    unfold cancel_id. destruct (r <? next_id s)%nat; [|split; assumption]. simpl. split.
    + intros pid [X|Hin]; [discriminate | auto].
    + split; [exact I | assumption].
  - split; [|assumption]. simpl. intros pid Hin. destruct (H1 pid Hin) as (pi0 & N & D).
    exists pi0. split; [|assumption]. rewrite nth_error_app1; [assumption|].
    apply nth_error_Some. congruence.
  - split; [|assumption]. simpl. intros pid0 Hin. destruct (H1 pid0 Hin) as (pi0 & N & D).
    destruct (Nat.eq_dec pid pid0) as [->|Hne].
    + exists pi'. split; [eapply nth_error_set_nth; eassumption|].
      match goal with Himp : p_disposed pi = true -> _ |- _ => apply Himp end. congruence.
    + exists pi0. split; [|assumption]. rewrite nth_error_set_nth_other; assumption.
  - split; simpl.
    + intros pid [X|Hin]; [subst e; simpl in H; exact H | auto].
    + split; [|assumption]. destruct e; try exact I. simpl in H. destruct H as (_ & pi & N & D).
      intro Hin. destruct (H1 _ Hin) as (pi0 & N0 & D0). congruence.
  - split; simpl.
    + intros pid [X|Hin]; [discriminate | auto].
    + split; [exact I | assumption].
Qed.

(* a periodic action is never called after its subscription was disposed *)
Theorem no_tick_after_dispose_run c fuel c0 cs :
  no_tick_after_dispose (log (state_of (run c fuel (init c0) cs))).
Proof.
  assert (H : Inv10 (state_of (run c fuel (init c0) cs))).
  { apply (run_invariant Inv10 inv10_prim). split; simpl; [tauto | exact I]. }
  apply H.
Qed.

(* ================================================================== *)
(* 2. A raising action disposes the subscription                        *)

Lemma dispose_per_logs s pid pi :
  nth_error (pers s) pid = Some pi -> p_disposed pi = false -> In (EPDispose pid) (log (dispose_per s pid)).
Proof.
  intros Hn Hd. unfold dispose_per. rewrite Hn, Hd.
  unfold cancel_id. match goal with |- context [if ?b then _ else _] => destruct b end; simpl; auto.
Qed.

Theorem periodic_raise_disposes s pid st e s' :
  invoke s (PPer pid st) = BRaise e s' -> In (EPDispose pid) (log s').
Proof.
  simpl. destruct (nth_error (pers s) pid) as [pi|] eqn:Hn; [|discriminate].
  destruct (p_disposed pi) eqn:Hd; [discriminate|].
  destruct (plookup (p_fn pi) st) as [ns st'|ns|ns x|ns x v]; simpl; try discriminate.
  - intro E. inversion E; subst. eapply dispose_per_logs; [|exact Hd]. simpl.
    destruct (add_notes_pers ns (add_log s (ETick pid st (clock s)))) as [-> _]. exact Hn.
  - destruct v; simpl; [discriminate|]. intro E. inversion E; subst.
    eapply dispose_per_logs; [|exact Hd]. simpl.
    destruct (add_notes_pers ns (add_log s (ETick pid st (clock s)))) as [-> _]. exact Hn.
Qed.

(* ================================================================== *)
(* 3. Closed form of [solo_spec]                                        *)

Lemma pstate_shift f st st' ns : plookup f st = PNext ns st' ->
  forall k, pstate f st (S k) = pstate f st' k.
Proof.
  intro Ef. induction k as [|k IH].
  - simpl. rewrite Ef. reflexivity.
  - change (pstate f st (S (S k))) with
      (match pstate f st (S k) with
       | Some x => match plookup f x with PNext _ y => Some y | _ => None end
       | None => None end).
    rewrite IH. reflexivity.
Qed.

Lemma solo_spec_nth f p : forall n due st t k stk,
  nth_error (solo_spec f p n due st t) k = Some stk ->
  snd stk = due + Z.of_nat k * p /\ snd stk <= t /\ pstate f st k = Some (fst stk).
Proof.
  induction n as [|n IH]; intros due st t k stk; simpl; [destruct k; discriminate|].
  destruct (t <? due) eqn:Et; [destruct k; discriminate|]. apply Z.ltb_ge in Et.
  destruct k as [|k]; [simpl | cbn [nth_error]].
  - intro E. inversion E; subst. simpl. repeat split; lia.
  - destruct (plookup f st) as [ns st'|ns|ns e|ns e v] eqn:Ef; try (destruct k; discriminate).
    intro E. destruct (IH _ _ _ _ _ E) as (A & B & C). repeat split; try lia.
    rewrite (pstate_shift f st st' ns Ef). exact C.
Qed.

(* the list stops only because the next call would be after t, or the action did not return a state *)
Lemma solo_spec_complete f p : 0 < p -> forall n due st t,
  (Z.to_nat ((t - due) / p + 1) <= n)%nat ->
  let l := solo_spec f p n due st t in
  due + Z.of_nat (length l) * p > t \/
  (exists k x, length l = S k /\ pstate f st k = Some x /\ match plookup f x with PNext _ _ => False | _ => True end).
Proof.
  intro Hp. induction n as [|n IH]; intros due st t Hn; cbn [solo_spec].
  - left. cbn [length]. destruct (Z.lt_ge_cases t due) as [H|H]; [lia|]. exfalso.
    assert (0 <= (t - due) / p) by (apply Z.div_pos; lia). lia.
  - destruct (t <? due) eqn:Et; [left; cbn [length]; apply Z.ltb_lt in Et; lia|]. apply Z.ltb_ge in Et.
    destruct (plookup f st) as [ns st'|ns|ns e|ns e v] eqn:Ef;
      try (right; exists 0%nat, st; cbn [length pstate]; rewrite Ef; repeat split; auto; fail).
    assert (Hn' : (Z.to_nat ((t - (due + p)) / p + 1) <= n)%nat).
    { assert (E : (t - due) / p = (t - (due + p)) / p + 1).
      { replace (t - due) with ((t - (due + p)) + 1 * p) by lia. rewrite Z.div_add by lia. reflexivity. }
      rewrite E in Hn. remember ((t - (due + p)) / p) as q. lia. }
    destruct (IH (due + p) st' t Hn') as [A|(k & x & A & B & C)].
    + left. cbn [length]. rewrite Nat2Z.inj_succ. nia.
    + right. exists (S k), x. rewrite (pstate_shift f st st' ns Ef). cbn [length]. repeat split; auto.
Qed.

(* ================================================================== *)
(* 4. A periodic subscription alone under advance_to: the calls are exactly
      [solo_spec]                                                        *)

Definition solo (s : st) (pid : nat) (p : Z) (f : ptable) (st due : Z) : Prop :=
  exists it, queue s = [it] /\ i_pay it = PPer pid st /\ i_due it = due /\
    nth_error (pers s) pid = Some (PInfo p f false (i_id it)) /\
    enabled s = true /\ clock s <= due /\
    Forall (fun r => (r < next_id s)%nat) (cancelled s) /\ ~ In (i_id it) (cancelled s).

Lemma memb_notin n l : ~ In n l -> memb n l = false.
Proof.
  intro H. unfold memb. destruct (existsb (Nat.eqb n) l) eqn:E; [|reflexivity].
  apply existsb_exists in E. destruct E as (x & Hx & Ex). apply Nat.eqb_eq in Ex. subst. contradiction.
Qed.

Lemma ticks_add_notes pid ns : forall s, ticks_of pid (log (add_notes s ns)) = ticks_of pid (log s).
Proof. induction ns as [|n t IH]; intro s; simpl; [reflexivity|]. rewrite IH. reflexivity. Qed.

Lemma ticks_cancel_id pid s r : ticks_of pid (log (cancel_id s r)) = ticks_of pid (log s).
Proof. unfold cancel_id. destruct (r <? next_id s)%nat; reflexivity. Qed.

Lemma ticks_dispose_per pid s q : ticks_of pid (log (dispose_per s q)) = ticks_of pid (log s).
Proof.
  unfold dispose_per. destruct (nth_error (pers s) q) as [pi|]; [|reflexivity].
  destruct (p_disposed pi); [reflexivity|]. rewrite ticks_cancel_id. reflexivity.
Qed.

Lemma ticks_finish_adv pid s t : ticks_of pid (log (ostate (finish_adv s t))) = ticks_of pid (log s).
Proof. unfold finish_adv; simpl. destruct (clock s <? t); reflexivity. Qed.

(* what is left after the action disposed its own subscription: one cancelled item *)
Lemma residual_advance pid t : forall fuel s it,
  queue s = [it] -> enabled s = true -> In (i_id it) (cancelled s) ->
  ticks_of pid (log (ostate (advance_loop fuel s t))) = ticks_of pid (log s) /\
  (forall s', advance_loop fuel s t = OutOfFuel s' -> fuel = 0%nat) /\
  (forall e s', advance_loop fuel s t <> Raised e s').
Proof.
  intros fuel s it Hq He Hc.
  assert (Hm : memb (i_id it) (cancelled s) = true).
  { unfold memb. apply existsb_exists. exists (i_id it). split; [assumption | apply Nat.eqb_refl]. }
  destruct fuel as [|fuel]; simpl; rewrite He, Hq; simpl.
  - destruct (t <? i_due it).
    + rewrite ticks_finish_adv. repeat split; intros; discriminate.
    + simpl. repeat split; intros; try reflexivity; discriminate.
  - destruct (t <? i_due it).
    + rewrite ticks_finish_adv. repeat split; intros; discriminate.
    + unfold run_item. rewrite Hm. simpl.
      destruct fuel; simpl; rewrite He; simpl; rewrite ticks_finish_adv; simpl;
        repeat split; intros; discriminate.
Qed.

Lemma solo_advance f p pid t : 0 <= p -> forall fuel s st due,
  solo s pid p f st due ->
  let o := advance_loop fuel s t in
  ticks_of pid (log (ostate o)) = rev (solo_spec f p fuel due st t) ++ ticks_of pid (log s) /\
  (forall s', o = OutOfFuel s' -> length (solo_spec f p fuel due st t) = fuel).
Proof.
  intro Hp. induction fuel as [|fuel IH]; intros s st due (it & Hq & Hpay & Hdue & Hn & He & Hck & Hcan & Hnot).
  - simpl. rewrite He, Hq; simpl. rewrite Hdue. destruct (t <? due).
    + rewrite ticks_finish_adv. split; [reflexivity | intros; discriminate].
    + simpl. split; reflexivity.
  - cbn [advance_loop solo_spec]. rewrite He, Hq. cbn [negb]. rewrite Hdue.
    destruct (t <? due) eqn:Et.
    + rewrite ticks_finish_adv. split; [reflexivity | intros; discriminate].
    + assert (Enew : (if clock s <? due then due else clock s) = due).
      { destruct (clock s <? due) eqn:E; [reflexivity|]. apply Z.ltb_ge in E. lia. }
      rewrite Enew. unfold run_item. rewrite (memb_notin _ _ Hnot). cbn [negb]. rewrite Hpay.
      set (s1 := add_log (set_clock (dequeue s []) due) (mkpop s it due false true)).
      assert (Hn1 : nth_error (pers s1) pid = Some (PInfo p f false (i_id it))) by exact Hn.
      cbn [invoke]. rewrite Hn1. cbn [p_disposed p_fn p_period].
      assert (Hclk : clock s1 = due) by reflexivity.
      assert (Htk : forall ns, ticks_of pid (log (add_notes (add_log s1 (ETick pid st (clock s1))) ns))
                               = (st, due) :: ticks_of pid (log s)).
      { intro ns. rewrite ticks_add_notes. simpl. rewrite Nat.eqb_refl. reflexivity. }
      destruct (plookup f st) as [ns st'|ns|ns e|ns e v] eqn:Ef.
      * (* PNext: the subscription stays alone in the queue *)
        set (s2 := add_notes (add_log s1 (ETick pid st (clock s1))) ns).
        destruct (add_notes_fields ns (add_log s1 (ETick pid st (clock s1)))) as (F1 & F2 & F3 & F4 & F5).
        destruct (add_notes_pers ns (add_log s1 (ETick pid st (clock s1)))) as (F6 & _).
        set (s3 := set_pers s2 (set_nth pid (PInfo p f false (next_id s2)) (pers s2))).
        set (s4 := enqueue s3 (clock s3 + p) (PPer pid st')).
        assert (Hnid : next_id s2 = next_id s).
        { unfold s2. clear. generalize (add_log s1 (ETick pid st (clock s1))).
          induction ns as [|n tl IHn]; intro x; simpl; [|rewrite IHn]; reflexivity. }
        assert (Hcan2 : cancelled s2 = cancelled s).
        { unfold s2. clear. assert (G : forall x, cancelled (add_notes x ns) = cancelled x).
          { induction ns as [|n tl IHn]; intro x; simpl; [|rewrite IHn]; reflexivity. }
          rewrite G. reflexivity. }
        assert (Hsolo : solo s4 pid p f st' (due + p)).
        { exists (Item (clock s3 + p) (count s3) (next_id s3) (npops s3) (clock s3) (PPer pid st')).
          unfold s4, s3; simpl. fold s2. rewrite F2, F1, F3, Hnid, Hcan2. simpl. repeat split; auto; try lia.
          - rewrite F6. eapply nth_error_set_nth. simpl. exact Hn.
          - eapply Forall_impl; [|exact Hcan]. simpl. intros; lia.
          - intro Hin. rewrite Forall_forall in Hcan. apply Hcan in Hin. lia. }
        destruct (IH s4 st' (due + p) Hsolo) as [T O]. fold s2 s3 s4. split.
        -- rewrite T. cbn [rev]. rewrite <- app_assoc. f_equal. unfold s4, s3; simpl. fold s2.
           unfold s2. rewrite Htk. reflexivity.
        -- intros s' E. cbn [length]. f_equal. eapply O. exact E.
      * (* PNextDisposed: a cancelled item remains *)
        unfold resched_disposed.
        set (s2 := dispose_per (add_notes (add_log s1 (ETick pid st (clock s1))) ns) pid).
        set (s4 := cancel_id (enqueue s2 (clock s2 + p) (PPer pid 0)) (next_id s2)).
        assert (Hq4 : exists it', queue s4 = [it'] /\ enabled s4 = true /\ In (i_id it') (cancelled s4)).
        { destruct (dispose_per_fields (add_notes (add_log s1 (ETick pid st (clock s1))) ns) pid) as (D1 & D2 & D3 & D4 & D5).
          destruct (add_notes_fields ns (add_log s1 (ETick pid st (clock s1)))) as (F1 & F2 & F3 & F4 & F5).
          eexists. unfold s4, cancel_id. simpl. rewrite Nat.ltb_lt. 
          assert (X : (next_id s2 <? S (next_id s2))%nat = true) by (apply Nat.ltb_lt; lia). rewrite X. simpl.
          fold s2. unfold s2 at 2. rewrite D2, F2. simpl. unfold s2 at 3. rewrite D3, F3. simpl.
          repeat split; auto. }
        destruct Hq4 as (it' & Q1 & Q2 & Q3).
        destruct (residual_advance pid t fuel s4 it' Q1 Q2 Q3) as (R1 & R2 & R3).
        split.
        -- rewrite R1. unfold s4. rewrite ticks_cancel_id. simpl. unfold s2. rewrite ticks_dispose_per, Htk. reflexivity.
        -- intros s' E. apply R2 in E. subst fuel. reflexivity.
      * (* PRaise *)
        cbn [ostate]. split; [|intros; discriminate].
        rewrite ticks_dispose_per. simpl. rewrite Htk. reflexivity.
      * (* PHandled *)
        destruct v.
        -- unfold resched_disposed.
           set (s2 := dispose_per (add_log (add_log (add_notes (add_log s1 (ETick pid st (clock s1))) ns) (ERaise e)) (EHandler e)) pid).
           set (s4 := cancel_id (enqueue s2 (clock s2 + p) (PPer pid 0)) (next_id s2)).
           assert (Hq4 : exists it', queue s4 = [it'] /\ enabled s4 = true /\ In (i_id it') (cancelled s4)).
           { destruct (dispose_per_fields (add_log (add_log (add_notes (add_log s1 (ETick pid st (clock s1))) ns) (ERaise e)) (EHandler e)) pid) as (D1 & D2 & D3 & D4 & D5).
             destruct (add_notes_fields ns (add_log s1 (ETick pid st (clock s1)))) as (F1 & F2 & F3 & F4 & F5).
             eexists. unfold s4, cancel_id. simpl.
             assert (X : (next_id s2 <? S (next_id s2))%nat = true) by (apply Nat.ltb_lt; lia). rewrite X. simpl.
             fold s2. unfold s2 at 2. rewrite D2. simpl. rewrite F2. simpl. unfold s2 at 3. rewrite D3. simpl. rewrite F3. simpl.
             repeat split; auto. }
           destruct Hq4 as (it' & Q1 & Q2 & Q3).
           destruct (residual_advance pid t fuel s4 it' Q1 Q2 Q3) as (R1 & R2 & R3).
           split.
           ++ rewrite R1. unfold s4. rewrite ticks_cancel_id. simpl. unfold s2. rewrite ticks_dispose_per. simpl.
              rewrite Htk. reflexivity.
           ++ intros s' E. apply R2 in E. subst fuel. reflexivity.
        -- cbn [ostate]. split; [|intros; discriminate].
           rewrite ticks_dispose_per. simpl. rewrite Htk. reflexivity.
Qed.
