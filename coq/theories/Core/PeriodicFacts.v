(* Facts about periodic scheduling on the virtual-time model. *)
From RxVerif Require Import Base.Prelude Core.VTime Core.VTimeFacts Core.Periodic.

Local Open Scope Z_scope.

(* ================================================================== *)
(* 1. In every history: no call after the subscription was disposed     *)

Definition Inv10 (s : st) : Prop :=
  (forall pid, In (EPDispose pid) (log s) ->
               exists pi, nth_error (pers s) pid = Some pi /\ p_disposed pi = true) /\
  no_tick_after_dispose (log s).

Lemma nth_error_set_nth_other {A} (x : A) : forall l n m, n <> m -> nth_error (set_nth n x l) m = nth_error l m.
Proof.
  induction l as [|y t IH]; intros [|n] [|m] H; simpl; auto; try congruence.
Qed.

Lemma inv10_prim s s' : Inv10 s -> prim s s' -> Inv10 s'.
Proof.
  intros [H1 H2] HP. inversion HP; subst; clear HP; try (split; assumption).
  - destruct (cancel_id_fields s r) as (A & B & C & D & E & F & G). unfold Inv10. rewrite F.
    unfold cancel_id. destruct (r <? next_id s)%nat; [|split; assumption]. simpl. split.
    + intros pid [X|Hin]; [discriminate | auto].
    + split; [exact I | assumption].
  - split; [|assumption]. simpl. intros pid Hin. destruct (H1 pid Hin) as (pi0 & N & D).
    exists pi0. split; [|assumption]. rewrite nth_error_app1; [assumption|].
    apply nth_error_Some. congruence.
  - split; [|assumption]. simpl. intros pid0 Hin. destruct (H1 pid0 Hin) as (pi0 & N & D).
    destruct (Nat.eq_dec pid pid0) as [->|Hne].
    + exists pi'. split; [eapply nth_error_set_nth; eassumption|].
      match goal with Himp : p_disposed pi = true -> _ |- _ => apply Himp end. congruence.
    + exists pi0. split; [|assumption]. rewrite nth_error_set_nth_other; assumption.
  - split; simpl.
    + intros pid [X|Hin]; [subst e; simpl in H; exact H | auto].
    + split; [|assumption]. destruct e; try exact I. simpl in H. destruct H as (_ & pi & N & D).
      intro Hin. destruct (H1 _ Hin) as (pi0 & N0 & D0). congruence.
  - split; simpl.
    + intros pid [X|Hin]; [discriminate | auto].
    + split; [exact I | assumption].
Qed.

(* a periodic action is never called after its subscription was disposed *)
Theorem no_tick_after_dispose_run c fuel c0 cs :
  no_tick_after_dispose (log (state_of (run c fuel (init c0) cs))).
Proof.
  assert (H : Inv10 (state_of (run c fuel (init c0) cs))).
  { apply (run_invariant Inv10 inv10_prim). split; simpl; [tauto | exact I]. }
  apply H.
Qed.

(* ================================================================== *)
(* 2. A raising action disposes the subscription                        *)

Lemma dispose_per_logs s pid pi :
  nth_error (pers s) pid = Some pi -> p_disposed pi = false -> In (EPDispose pid) (log (dispose_per s pid)).
Proof.
  intros Hn Hd. unfold dispose_per. rewrite Hn, Hd.
  unfold cancel_id. match goal with |- context [if ?b then _ else _] => destruct b end; simpl; auto.
Qed.

Theorem periodic_raise_disposes s pid st e s' :
  invoke s (PPer pid st) = BRaise e s' -> In (EPDispose pid) (log s').
Proof.
  simpl. destruct (nth_error (pers s) pid) as [pi|] eqn:Hn; [|discriminate].
  destruct (p_disposed pi) eqn:Hd; [discriminate|].
  destruct (plookup (p_fn pi) st) as [ns sl st'|ns|ns x|ns x v]; simpl; try discriminate.
  - intro E. inversion E; subst. eapply dispose_per_logs; [|exact Hd]. simpl.
    destruct (add_notes_pers ns (add_log s (ETick pid st (clock s)))) as [-> _]. exact Hn.
  - destruct v; simpl; [discriminate|]. intro E. inversion E; subst.
    eapply dispose_per_logs; [|exact Hd]. simpl.
    destruct (add_notes_pers ns (add_log s (ETick pid st (clock s)))) as [-> _]. exact Hn.
Qed.

(* ================================================================== *)
(* 3. Closed form of [solo_spec]                                        *)

Lemma pstate_shift f st st' ns sl : plookup f st = PNext ns sl st' ->
  forall k, pstate f st (S k) = pstate f st' k.
Proof.
  intro Ef. induction k as [|k IH].
  - simpl. rewrite Ef. reflexivity.
  - change (pstate f st (S (S k))) with
      (match pstate f st (S k) with
       | Some x => match plookup f x with PNext _ _ y => Some y | _ => None end
       | None => None end).
    rewrite IH. reflexivity.
Qed.

Lemma pstate_stop f st : match plookup f st with PNext _ _ _ => False | _ => True end ->
  forall k, pstate f st (S k) = None.
Proof.
  intro H. induction k as [|k IH].
  - simpl. destruct (plookup f st); try reflexivity. destruct H.
  - change (pstate f st (S (S k))) with
      (match pstate f st (S k) with
       | Some x => match plookup f x with PNext _ _ y => Some y | _ => None end
       | None => None end).
    rewrite IH. reflexivity.
Qed.

(* the k-th call starts at max(clk, due) + tsum ... k, with the state returned by the
   previous call *)
Lemma solo_spec_nth f p : forall n clk due st t k stk,
  nth_error (solo_spec f p n clk due st t) k = Some stk ->
  snd stk = Z.max clk due + tsum f p st k /\ pstate f st k = Some (fst stk).
Proof.
  induction n as [|n IH]; intros clk due st t k stk; cbn [solo_spec]; [destruct k; discriminate|].
  destruct (t <? due) eqn:Et; [destruct k; discriminate|].
  destruct k as [|k]; cbn [nth_error].
  - intro E. inversion E; subst. cbn [snd fst tsum pstate]. split; [lia | reflexivity].
  - destruct (plookup f st) as [ns sl st'|ns|ns e|ns e v] eqn:Ef; try (destruct k; discriminate).
    intro E. destruct (IH _ _ _ _ _ _ E) as (A & C). split.
    + rewrite A. cbn [tsum]. unfold pelapsed. rewrite Ef. lia.
    + rewrite (pstate_shift f st st' ns sl Ef). exact C.
Qed.

Lemma ontime_shift f p st st' ns sl k : plookup f st = PNext ns sl st' ->
  ontime f p st (S k) -> ontime f p st' k.
Proof.
  intros Ef H j x Hj Hx. apply (H (S j) x); [lia|]. rewrite (pstate_shift f st st' ns sl Ef). exact Hx.
Qed.

(* elapsed-time compensation: as long as no earlier call takes longer than the
   period, the k-th call (if there is one) starts exactly k periods after the first *)
Lemma tsum_ontime f p : forall k st x, pstate f st k = Some x -> ontime f p st k ->
  tsum f p st k = Z.of_nat k * p.
Proof.
  induction k as [|k IH]; intros st x Hx H; [reflexivity|].
  cbn [tsum]. rewrite Nat2Z.inj_succ.
  assert (E : pelapsed f st <= p) by (apply (H 0%nat st); [lia | reflexivity]).
  destruct (plookup f st) as [ns sl st'|ns|ns e|ns e v] eqn:Ef;
    try (rewrite pstate_stop in Hx; [discriminate | rewrite Ef; exact I]).
  rewrite (pstate_shift f st st' ns sl Ef) in Hx.
  rewrite (IH st' x Hx (ontime_shift f p st st' ns sl k Ef H)). lia.
Qed.

(* in general each call pushes the next one by max(period, its own duration) *)
Lemma tsum_lower f p : 0 <= p -> forall k st x, pstate f st k = Some x -> Z.of_nat k * p <= tsum f p st k.
Proof.
  intro Hp. induction k as [|k IH]; intros st x Hx; [simpl; lia|].
  cbn [tsum]. rewrite Nat2Z.inj_succ.
  destruct (plookup f st) as [ns sl st'|ns|ns e|ns e v] eqn:Ef;
    try (rewrite pstate_stop in Hx; [discriminate | rewrite Ef; exact I]).
  rewrite (pstate_shift f st st' ns sl Ef) in Hx. specialize (IH st' x Hx). lia.
Qed.

(* due time of the call after m calls were made *)
Definition pdue (f : ptable) (p clk due st : Z) (m : nat) : Z :=
  match m with O => due | S j => Z.max clk due + tsum f p st j + p end.

(* the list stops only because the pending call is due after t, or the last call did not return a state *)
Lemma solo_spec_complete f p : 0 < p -> forall n clk due st t,
  (Z.to_nat ((t - due) / p + 1) <= n)%nat ->
  let l := solo_spec f p n clk due st t in
  pdue f p clk due st (length l) > t \/
  (exists k x, length l = S k /\ pstate f st k = Some x /\ match plookup f x with PNext _ _ _ => False | _ => True end).
Proof.
  intro Hp. induction n as [|n IH]; intros clk due st t Hn; cbn [solo_spec].
  - left. cbn [length pdue]. destruct (Z.lt_ge_cases t due) as [H|H]; [lia|]. exfalso.
    assert (0 <= (t - due) / p) by (apply Z.div_pos; lia). lia.
  - destruct (t <? due) eqn:Et; [left; cbn [length pdue]; apply Z.ltb_lt in Et; lia|]. apply Z.ltb_ge in Et.
    destruct (plookup f st) as [ns sl st'|ns|ns e|ns e v] eqn:Ef;
      try (right; exists 0%nat, st; cbn [length pstate]; rewrite Ef; repeat split; auto; fail).
    set (T := Z.max clk due).
    assert (Hn' : (Z.to_nat ((t - (T + p)) / p + 1) <= n)%nat).
    { assert (E : (t - due) / p = (t - (due + p)) / p + 1).
      { replace (t - due) with ((t - (due + p)) + 1 * p) by lia. rewrite Z.div_add by lia. reflexivity. }
      assert (L : (t - (T + p)) / p <= (t - (due + p)) / p) by (apply Z.div_le_mono; unfold T; lia).
      rewrite E in Hn. remember ((t - (due + p)) / p) as q. remember ((t - (T + p)) / p) as q'. lia. }
    destruct (IH (T + Z.of_N sl) (T + p) st' t Hn') as [A|(k & x & A & B & C)].
    + left. cbn [length]. remember (length (solo_spec f p n (T + Z.of_N sl) (T + p) st' t)) as m.
      destruct m as [|j]; cbn [pdue tsum] in *.
      * fold T. lia.
      * fold T. unfold pelapsed. rewrite Ef. lia.
    + right. exists (S k), x. rewrite (pstate_shift f st st' ns sl Ef). cbn [length]. repeat split; auto.
Qed.

Lemma solo_spec_length f p : 0 < p -> forall n clk due st t,
  (length (solo_spec f p n clk due st t) <= Z.to_nat ((t - due) / p + 1))%nat.
Proof.
  intro Hp. induction n as [|n IH]; intros clk due st t; cbn [solo_spec length]; [lia|].
  destruct (t <? due) eqn:Et; cbn [length]; [lia|]. apply Z.ltb_ge in Et.
  assert (E : (t - due) / p = (t - (due + p)) / p + 1).
  { replace (t - due) with ((t - (due + p)) + 1 * p) by lia. rewrite Z.div_add by lia. reflexivity. }
  assert (0 <= (t - due) / p) by (apply Z.div_pos; lia).
  destruct (plookup f st) as [ns sl st'|ns|ns e|ns e v]; cbn [length]; try lia.
  set (T := Z.max clk due).
  specialize (IH (T + Z.of_N sl) (T + p) st' t).
  assert (L : (t - (T + p)) / p <= (t - (due + p)) / p) by (apply Z.div_le_mono; unfold T; lia).
  rewrite E. remember ((t - (due + p)) / p) as q. remember ((t - (T + p)) / p) as q'. lia.
Qed.


(* ================================================================== *)
(* 4. A periodic subscription alone under advance_to: the calls are exactly
      [solo_spec]                                                        *)

Definition solo (s : st) (pid : nat) (p : Z) (f : ptable) (st due : Z) : Prop :=
  exists it, queue s = [it] /\ i_pay it = PPer pid st /\ i_due it = due /\
    nth_error (pers s) pid = Some (PInfo p f false (i_id it)) /\
    enabled s = true /\
    Forall (fun r => (r < next_id s)%nat) (cancelled s) /\ ~ In (i_id it) (cancelled s).

Lemma memb_notin n l : ~ In n l -> memb n l = false.
Proof.
  intro H. unfold memb. destruct (existsb (Nat.eqb n) l) eqn:E; [|reflexivity].
  apply existsb_exists in E. destruct E as (x & Hx & Ex). apply Nat.eqb_eq in Ex. subst. contradiction.
Qed.

Lemma ticks_add_notes pid ns : forall s, ticks_of pid (log (add_notes s ns)) = ticks_of pid (log s).
Proof. induction ns as [|n t IH]; intro s; simpl; [reflexivity|]. rewrite IH. reflexivity. Qed.

Lemma ticks_cancel_id pid s r : ticks_of pid (log (cancel_id s r)) = ticks_of pid (log s).
Proof. unfold cancel_id. destruct (r <? next_id s)%nat; reflexivity. Qed.

Lemma ticks_dispose_per pid s q : ticks_of pid (log (dispose_per s q)) = ticks_of pid (log s).
Proof.
  unfold dispose_per. destruct (nth_error (pers s) q) as [pi|]; [|reflexivity].
  destruct (p_disposed pi); [reflexivity|]. rewrite ticks_cancel_id. reflexivity.
Qed.

Lemma ticks_finish_adv pid s t : ticks_of pid (log (ostate (finish_adv s t))) = ticks_of pid (log s).
Proof. unfold finish_adv; simpl. destruct (clock s <? t); reflexivity. Qed.

(* what is left after the action disposed its own subscription: one cancelled item *)
Lemma residual_advance pid t : forall fuel s it,
  queue s = [it] -> enabled s = true -> In (i_id it) (cancelled s) ->
  ticks_of pid (log (ostate (advance_loop fuel s t))) = ticks_of pid (log s) /\
  (forall s', advance_loop fuel s t = OutOfFuel s' -> fuel = 0%nat) /\
  (forall e s', advance_loop fuel s t <> Raised e s').
Proof.
  intros fuel s it Hq He Hc.
  assert (Hm : memb (i_id it) (cancelled s) = true).
  { unfold memb. apply existsb_exists. exists (i_id it). split; [assumption | apply Nat.eqb_refl]. }
  assert (Hfin : forall x, ticks_of pid (log x) = ticks_of pid (log s) ->
            ticks_of pid (log (ostate (finish_adv x t))) = ticks_of pid (log s) /\
            (forall s', finish_adv x t = OutOfFuel s' -> fuel = 0%nat) /\
            (forall e s', finish_adv x t <> Raised e s')).
  { intros x Hx. rewrite ticks_finish_adv. repeat split; auto; unfold finish_adv; intros; discriminate. }
  destruct fuel as [|fuel]; cbn [advance_loop]; rewrite He, Hq; cbn [negb].
  - destruct (t <? i_due it); [apply Hfin; reflexivity|].
    cbn [ostate]. repeat split; intros; try reflexivity; discriminate.
  - destruct (t <? i_due it); [apply Hfin; reflexivity|].
    unfold run_item. rewrite Hm. cbn [negb].
    set (s1 := add_log _ _).
    assert (H1 : ticks_of pid (log s1) = ticks_of pid (log s)) by reflexivity.
    assert (Hq1 : queue s1 = []) by reflexivity.
    assert (He1 : enabled s1 = true) by exact He.
    destruct (Hfin s1 H1) as (A & B & C).
    destruct fuel; cbn [advance_loop]; rewrite He1, Hq1; cbn [negb]; repeat split; auto;
      unfold finish_adv; intros; discriminate.
Qed.

Lemma solo_advance f p pid t : 0 <= p -> forall fuel s st due,
  solo s pid p f st due ->
  let o := advance_loop fuel s t in
  ticks_of pid (log (ostate o)) = rev (solo_spec f p fuel (clock s) due st t) ++ ticks_of pid (log s) /\
  (forall s', o = OutOfFuel s' -> length (solo_spec f p fuel (clock s) due st t) = fuel).
Proof.
  intro Hp. induction fuel as [|fuel IH]; intros s st due (it & Hq & Hpay & Hdue & Hn & He & Hcan & Hnot).
  - simpl. rewrite He, Hq; simpl. rewrite Hdue. destruct (t <? due).
    + rewrite ticks_finish_adv. split; [reflexivity | intros; discriminate].
    + simpl. split; reflexivity.
  - cbn [advance_loop solo_spec]. rewrite He, Hq. cbn [negb]. rewrite Hdue.
    destruct (t <? due) eqn:Et.
    + rewrite ticks_finish_adv. split; [reflexivity | intros; discriminate].
    + set (T := Z.max (clock s) due).
      assert (Enew : (if clock s <? due then due else clock s) = T).
      { unfold T. destruct (clock s <? due) eqn:E; [apply Z.ltb_lt in E | apply Z.ltb_ge in E]; lia. }
      rewrite Enew. unfold run_item. rewrite (memb_notin _ _ Hnot). cbn [negb]. rewrite Hpay.
      set (s1 := add_log (set_clock (dequeue s []) T) (mkpop s it T false true)).
      assert (Hn1 : nth_error (pers s1) pid = Some (PInfo p f false (i_id it))) by exact Hn.
      cbn [invoke]. rewrite Hn1. cbn [p_disposed p_fn p_period].
      assert (Hclk : clock s1 = T) by reflexivity.
      assert (Htk : forall ns, ticks_of pid (log (add_notes (add_log s1 (ETick pid st (clock s1))) ns))
                               = (st, T) :: ticks_of pid (log s)).
      { intro ns. rewrite ticks_add_notes. simpl. rewrite Nat.eqb_refl. reflexivity. }
      destruct (plookup f st) as [ns sl st'|ns|ns e|ns e v] eqn:Ef.
      * (* PNext: the subscription stays alone in the queue *)
        set (s2 := add_notes (add_log s1 (ETick pid st (clock s1))) ns).
        destruct (add_notes_fields ns (add_log s1 (ETick pid st (clock s1)))) as (F1 & F2 & F3 & F4 & F5).
        destruct (add_notes_pers ns (add_log s1 (ETick pid st (clock s1)))) as (F6 & _).
        set (s2' := set_clock s2 (clock s2 + Z.of_N sl)).
        set (s3 := set_pers s2' (set_nth pid (PInfo p f false (next_id s2')) (pers s2'))).
        set (s4 := enqueue s3 (clock s3 + (p - (clock s2' - clock s1))) (PPer pid st')).
        assert (Hnid : next_id s2 = next_id s).
        { unfold s2. clear. assert (G : forall x, next_id (add_notes x ns) = next_id x).
          { induction ns as [|n tl IHn]; intro x; simpl; [|rewrite IHn]; reflexivity. }
          rewrite G. reflexivity. }
        assert (Hcan2 : cancelled s2 = cancelled s).
        { unfold s2. clear. assert (G : forall x, cancelled (add_notes x ns) = cancelled x).
          { induction ns as [|n tl IHn]; intro x; simpl; [|rewrite IHn]; reflexivity. }
          rewrite G. reflexivity. }
        fold s2 in F1, F2, F3, F6.
        assert (Q2 : queue s2 = []) by (rewrite F2; reflexivity).
        assert (C2 : clock s2 = T) by (rewrite F1; reflexivity).
        assert (E2 : enabled s2 = true) by (rewrite F3; exact He).
        assert (P2 : pers s2 = pers s) by (rewrite F6; reflexivity).
        assert (Hc4 : clock s4 = T + Z.of_N sl) by (unfold s4, s3, s2'; simpl; rewrite C2; reflexivity).
        assert (Hsolo : solo s4 pid p f st' (T + p)).
        { exists (Item (clock s3 + (p - (clock s2' - clock s1))) (count s3) (next_id s3) (npops s3) (clock s3) (PPer pid st')).
          unfold s4, s3, s2'; simpl. rewrite Q2, C2, E2, P2, Hnid, Hcan2. simpl. repeat split; auto; try lia.
          - eapply nth_error_set_nth. exact Hn.
          - eapply Forall_impl; [|exact Hcan]. simpl. intros; lia.
          - intro Hin. rewrite Forall_forall in Hcan. apply Hcan in Hin. lia. }
        destruct (IH s4 st' (T + p) Hsolo) as [T' O]. rewrite Hc4 in T', O. split.
        -- rewrite T'. cbn [rev]. rewrite <- app_assoc. f_equal. unfold s4, s3, s2'; simpl. fold s2.
           unfold s2. rewrite Htk. reflexivity.
        -- intros s' E. cbn [length]. f_equal. eapply O. exact E.
      * (* PNextDisposed: a cancelled item remains *)
        unfold resched_disposed.
        set (s2 := dispose_per (add_notes (add_log s1 (ETick pid st (clock s1))) ns) pid).
        set (s4 := cancel_id (enqueue s2 (clock s2 + p) (PPer pid 0)) (next_id s2)).
        assert (Hq4 : exists it', queue s4 = [it'] /\ enabled s4 = true /\ In (i_id it') (cancelled s4)).
        { destruct (dispose_per_fields (add_notes (add_log s1 (ETick pid st (clock s1))) ns) pid) as (D1 & D2 & D3 & D4 & D5).
          destruct (add_notes_fields ns (add_log s1 (ETick pid st (clock s1)))) as (F1 & F2 & F3 & F4 & F5).
          assert (QQ : queue s2 = []) by (unfold s2; rewrite D2, F2; reflexivity).
          assert (EE : enabled s2 = true) by (unfold s2; rewrite D3, F3; exact He).
          assert (X : (next_id s2 <? S (next_id s2))%nat = true) by (apply Nat.ltb_lt; lia).
          eexists. unfold s4, cancel_id. simpl. rewrite X. simpl. rewrite QQ, EE. simpl.
          repeat split; auto. }
        destruct Hq4 as (it' & Q1 & Q2 & Q3).
        destruct (residual_advance pid t fuel s4 it' Q1 Q2 Q3) as (R1 & R2 & R3).
        split.
        -- rewrite R1. unfold s4. rewrite ticks_cancel_id. simpl. unfold s2. rewrite ticks_dispose_per, Htk. reflexivity.
        -- intros s' E. apply R2 in E. subst fuel. reflexivity.
      * (* PRaise *)
        cbn [ostate]. split; [|intros; discriminate].
        rewrite ticks_dispose_per. simpl. rewrite Htk. reflexivity.
      * (* PHandled *)
        destruct v.
        -- unfold resched_disposed.
           set (s2 := dispose_per (add_log (add_log (add_notes (add_log s1 (ETick pid st (clock s1))) ns) (ERaise e)) (EHandler e)) pid).
           set (s4 := cancel_id (enqueue s2 (clock s2 + p) (PPer pid 0)) (next_id s2)).
           assert (Hq4 : exists it', queue s4 = [it'] /\ enabled s4 = true /\ In (i_id it') (cancelled s4)).
           { destruct (dispose_per_fields (add_log (add_log (add_notes (add_log s1 (ETick pid st (clock s1))) ns) (ERaise e)) (EHandler e)) pid) as (D1 & D2 & D3 & D4 & D5).
             destruct (add_notes_fields ns (add_log s1 (ETick pid st (clock s1)))) as (F1 & F2 & F3 & F4 & F5).
             assert (QQ : queue s2 = []) by (unfold s2; rewrite D2; cbn [queue add_log]; rewrite F2; reflexivity).
             assert (EE : enabled s2 = true) by (unfold s2; rewrite D3; cbn [enabled add_log]; rewrite F3; exact He).
             assert (X : (next_id s2 <? S (next_id s2))%nat = true) by (apply Nat.ltb_lt; lia).
             eexists. unfold s4, cancel_id. simpl. rewrite X. simpl. rewrite QQ, EE. simpl.
             repeat split; auto. }
           destruct Hq4 as (it' & Q1 & Q2 & Q3).
           destruct (residual_advance pid t fuel s4 it' Q1 Q2 Q3) as (R1 & R2 & R3).
           split.
           ++ rewrite R1. unfold s4. rewrite ticks_cancel_id. simpl. unfold s2. rewrite ticks_dispose_per. simpl.
              rewrite Htk. reflexivity.
           ++ intros s' E. apply R2 in E. subst fuel. reflexivity.
        -- cbn [ostate]. split; [|intros; discriminate].
           rewrite ticks_dispose_per. simpl. rewrite Htk. reflexivity.
Qed.

(* the history: schedule_periodic(p, f, st0) on a fresh scheduler at clock c0, then advance_to(t) *)
Definition solo_history (p : Z) (f : ptable) (st0 t : Z) : list tcmd :=
  [TDo (SPeriodic p f st0); TAdvTo t].

Theorem periodic_solo c fuel c0 p f st0 t : 0 <= p -> c0 < t ->
  let r := run c fuel (init c0) (solo_history p f st0 t) in
  rev (ticks_of 0 (log (state_of r))) = solo_spec f p fuel c0 (c0 + p) st0 t /\
  (match r with ROutOfFuel _ => length (solo_spec f p fuel c0 (c0 + p) st0 t) = fuel | RDeadlock _ => False | RDone _ => True end).
Proof.
  intros Hp Hlt. unfold solo_history. cbn [run step_t exec_cmd of_bres].
  set (s1 := add_log _ _).
  assert (Hc1 : clock s1 = c0) by reflexivity.
  unfold advance_to. rewrite Hc1.
  assert (E1 : t <? c0 = false) by (apply Z.ltb_ge; lia). assert (E2 : c0 =? t = false) by (apply Z.eqb_neq; lia).
  rewrite E1, E2. change (enabled s1) with false. cbn [orb].
  assert (Hsolo : solo (set_enabled s1 true) 0 p f st0 (c0 + p)).
  { eexists. unfold s1; simpl. repeat split; auto; try lia; try constructor. }
  destruct (solo_advance f p 0 t Hp fuel (set_enabled s1 true) st0 (c0 + p) Hsolo) as [T O].
  assert (T0 : ticks_of 0 (log (set_enabled s1 true)) = []) by reflexivity.
  rewrite T0, app_nil_r in T.
  destruct (advance_loop fuel (set_enabled s1 true) t) as [s'|e s'|s'|s'] eqn:Eo; cbn [run state_of]; simpl in T.
  - split; [|exact I]. simpl. rewrite T, rev_involutive. reflexivity.
  - split; [|exact I]. simpl. rewrite T, rev_involutive. reflexivity.
  - exfalso. clear - Eo. revert Eo. generalize (set_enabled s1 true). clear.
    induction fuel as [|fuel IH]; intros s; simpl.
    + destruct (negb (enabled s)); [unfold finish_adv; discriminate|].
      destruct (queue s); [unfold finish_adv; discriminate|]. destruct (t <? i_due i); [unfold finish_adv|]; discriminate.
    + destruct (negb (enabled s)); [unfold finish_adv; discriminate|].
      destruct (queue s); [unfold finish_adv; discriminate|]. destruct (t <? i_due i); [unfold finish_adv; discriminate|].
      destruct (run_item _ _ _ _ _); [apply IH | discriminate].
  - split; [rewrite T, rev_involutive; reflexivity | eapply O; reflexivity].
Qed.

(* with enough fuel (one unit per call that can be due by t) the run completes *)
Theorem periodic_solo_terminates c fuel c0 p f st0 t : 0 < p -> c0 < t ->
  (Z.to_nat ((t - c0) / p) < fuel)%nat ->
  exists s', run c fuel (init c0) (solo_history p f st0 t) = RDone s'.
Proof.
  intros Hp Hlt Hf. destruct (periodic_solo c fuel c0 p f st0 t) as [_ H]; [lia | assumption |].
  destruct (run c fuel (init c0) (solo_history p f st0 t)) as [s'|s'|s']; [eexists; reflexivity | destruct H|].
  exfalso. pose proof (solo_spec_length f p Hp fuel c0 (c0 + p) st0 t) as L. rewrite H in L.
  assert (E : (t - c0) / p = (t - (c0 + p)) / p + 1).
  { replace (t - c0) with ((t - (c0 + p)) + 1 * p) by lia. rewrite Z.div_add by lia. reflexivity. }
  rewrite E in Hf. lia.
Qed.

(* whenever a call does not return a next state (it raised, with or without a
   CatchScheduler handler, or disposed the subscription itself) the subscription
   is disposed during that call; by [no_tick_after_dispose_run] the action is
   never called again *)
Theorem periodic_stop_disposes s pid st pi :
  nth_error (pers s) pid = Some pi -> p_disposed pi = false ->
  match plookup (p_fn pi) st with PNext _ _ _ => False | _ => True end ->
  In (EPDispose pid) (log (bstate (invoke s (PPer pid st)))).
Proof.
  intros Hn Hd Hr. simpl. rewrite Hn, Hd.
  assert (Hn' : forall ns, nth_error (pers (add_notes (add_log s (ETick pid st (clock s))) ns)) pid = Some pi).
  { intro ns. destruct (add_notes_pers ns (add_log s (ETick pid st (clock s)))) as [-> _]. exact Hn. }
  assert (HC : forall x r, In (EPDispose pid) (log x) -> In (EPDispose pid) (log (cancel_id x r))).
  { intros x r H. unfold cancel_id. destruct (r <? next_id x)%nat; simpl; auto. }
  destruct (plookup (p_fn pi) st) as [ns sl st'|ns|ns e|ns e v]; simpl; [destruct Hr| | |].
  - apply HC. simpl. eapply dispose_per_logs; [apply Hn' | exact Hd].
  - eapply dispose_per_logs; [|exact Hd]. simpl. apply Hn'.
  - destruct v; simpl.
    + apply HC. simpl. eapply dispose_per_logs; [|exact Hd]. simpl. apply Hn'.
    + eapply dispose_per_logs; [|exact Hd]. simpl. apply Hn'.
Qed.

(* elapsed-time compensation, for ALL action tables (hence all sequences of call
   durations): if no earlier call took longer than the period, the k-th call of a
   subscription made at clock c0 starts exactly at c0 + (k+1)*p; in general it starts
   at c0 + p + sum over the earlier calls of max(p, duration), never earlier *)
Theorem solo_kth_general f p n c0 st0 t k stk : 0 <= p ->
  nth_error (solo_spec f p n c0 (c0 + p) st0 t) k = Some stk ->
  snd stk = c0 + p + tsum f p st0 k /\ c0 + (Z.of_nat k + 1) * p <= snd stk /\
  pstate f st0 k = Some (fst stk).
Proof.
  intros Hp H. destruct (solo_spec_nth f p n c0 (c0 + p) st0 t k stk H) as [A B].
  pose proof (tsum_lower f p Hp k st0 (fst stk) B). repeat split; auto; lia.
Qed.

Theorem solo_kth_ontime f p n c0 st0 t k stk : 0 <= p ->
  nth_error (solo_spec f p n c0 (c0 + p) st0 t) k = Some stk -> ontime f p st0 k ->
  snd stk = c0 + (Z.of_nat k + 1) * p.
Proof.
  intros Hp H Ho. destruct (solo_spec_nth f p n c0 (c0 + p) st0 t k stk H) as [A B].
  rewrite A, (tsum_ontime f p k st0 (fst stk) B Ho). lia.
Qed.
