(* NewThreadScheduler.schedule_periodic: the dedicated thread's loop.

   reactivex/scheduler/newthreadscheduler.py, schedule_periodic:

       seconds = self.to_seconds(period)
       timeout = seconds
       disposed = threading.Event()

       def run():
           nonlocal state, timeout
           while True:
               if timeout > 0.0:
                   disposed.wait(timeout)
               if disposed.is_set():
                   return
               time = self.now
               state = action(state)
               timeout = seconds - (self.now - time).total_seconds()

       thread = self.thread_factory(run); thread.start()
       return Disposable(lambda: disposed.set())

   Time is an integer number of microseconds.  The loop's state is
   (user state, next timeout, disposed flag, clock).  The ENVIRONMENT of the loop
   is a script with one record per loop iteration: how long the invocation takes,
   whether it raises, and where dispose() of the returned disposable is called --
   while the loop sits in disposed.wait (at an offset into the wait), after the
   wait and before the loop tests the flag, after the test and before the action
   is entered (the dispatch window of a dispose() from another thread), and during
   the invocation (from inside the action or from another thread).  The clock
   moves only inside disposed.wait (to the instant of the dispose() that wakes it,
   else by exactly the timeout) and inside the action (by the invocation's
   duration): thread-scheduling delays and the wake-up latency of Event.wait are
   NOT modelled (zero latency).  No proofs here. *)
From RxVerif Require Import Base.Prelude.

(* what the environment does during one iteration of the loop *)
Record iter : Type := Iter {
  i_wait  : option Z;  (* dispose() from another thread o microseconds after the loop entered
                          disposed.wait(timeout); acts iff the loop waits, the flag is not yet
                          set and 0 <= o < timeout *)
  i_pre   : bool;      (* dispose() after the wait (expired, woken or skipped), before disposed.is_set() *)
  i_win   : bool;      (* dispose() after disposed.is_set() returned False, before action(state) is entered *)
  i_dur   : Z;         (* clock time the invocation takes (negative = 0) *)
  i_in    : option Z;  (* dispose() o microseconds into the invocation, o clipped to [0, duration]
                          (from inside the action or from another thread: both just set the flag) *)
  i_raise : bool       (* the invocation raises instead of returning *)
}.

(* an iteration in which nobody disposes and the invocation returns after [dur] *)
Definition quiet (dur : Z) : iter := Iter None false false dur None false.

(* observable events, oldest first *)
Inductive ev (S : Type) : Type :=
| EWait (clk tmo : Z)          (* disposed.wait(tmo) entered at clock clk *)
| ETest (clk : Z) (b : bool)   (* disposed.is_set() returned b *)
| EInv (clk : Z) (st : S)      (* action(st) entered *)
| EEnd (clk : Z)               (* action returned *)
| ERaise (clk : Z)             (* action raised: the exception leaves run(), the thread dies *)
| EDisp (clk : Z).             (* dispose() of the returned disposable called *)
Arguments EWait {S} _ _.
Arguments ETest {S} _ _.
Arguments EInv {S} _ _.
Arguments EEnd {S} _.
Arguments ERaise {S} _.
Arguments EDisp {S} _.

(* how the thread ended: run() returned | an exception left run() | the script ran out *)
Inductive outcome : Type := Stopped | Died | Running.

Record lstate (S : Type) : Type := LState { l_st : S; l_tmo : Z; l_flag : bool; l_clk : Z }.
Arguments LState {S} _ _ _ _.
Arguments l_st {S} _.
Arguments l_tmo {S} _.
Arguments l_flag {S} _.
Arguments l_clk {S} _.

Inductive sres (S : Type) : Type := Cont (s : lstate S) | Fin (o : outcome).
Arguments Cont {S} _.
Arguments Fin {S} _.

(*  if timeout > 0.0: disposed.wait(timeout)
    -> (events, flag afterwards, clock afterwards).  Event.wait returns at once when the flag is set *)
Definition wait_part {S} (s : lstate S) (it : iter) : list (ev S) * bool * Z :=
  if 0 <? l_tmo s then
    if l_flag s then ([EWait (l_clk s) (l_tmo s)], true, l_clk s)
    else match i_wait it with
         | Some o => if (0 <=? o) && (o <? l_tmo s)
                     then ([EWait (l_clk s) (l_tmo s); EDisp (l_clk s + o)], true, l_clk s + o)
                     else ([EWait (l_clk s) (l_tmo s)], false, l_clk s + l_tmo s)
         | None => ([EWait (l_clk s) (l_tmo s)], false, l_clk s + l_tmo s)
         end
  else ([], l_flag s, l_clk s).

Definition dur_of (it : iter) : Z := Z.max 0 (i_dur it).
Definition in_off (it : iter) (o : Z) : Z := Z.min (Z.max 0 o) (dur_of it).

(* one iteration of `while True:` *)
Definition step {S} (p : Z) (f : S -> S) (s : lstate S) (it : iter) : list (ev S) * sres S :=
  let '(w, fl1, c1) := wait_part s it in
  let e_pre := if i_pre it then [EDisp c1] else [] in
  if fl1 || i_pre it then                       (* if disposed.is_set(): return *)
    (w ++ e_pre ++ [ETest c1 true], Fin Stopped)
  else
    let e_win := if i_win it then [EDisp c1] else [] in
    let d := dur_of it in
    let e_in := match i_in it with Some o => [EDisp (c1 + in_off it o)] | None => [] end in
    let fl3 := i_win it || (match i_in it with Some _ => true | None => false end) in
    (* time = self.now (= c1); state = action(state) *)
    let pre := w ++ e_pre ++ [ETest c1 false] ++ e_win ++ [EInv c1 (l_st s)] ++ e_in in
    if i_raise it then (pre ++ [ERaise (c1 + d)], Fin Died)
    else
      (* timeout = seconds - (self.now - time).total_seconds() *)
      (pre ++ [EEnd (c1 + d)], Cont (LState (f (l_st s)) (p - d) fl3 (c1 + d))).

Fixpoint run {S} (p : Z) (f : S -> S) (s : lstate S) (sc : list iter) : list (ev S) * outcome :=
  match sc with
  | [] => ([], Running)
  | it :: sc' =>
      match step p f s it with
      | (es, Fin o) => (es, o)
      | (es, Cont s') => let '(es', o) := run p f s' sc' in (es ++ es', o)
      end
  end.

(* schedule_periodic(p, f, st0) called at clock c0; [d0]: dispose() is called after
   schedule_periodic returned and before the new thread executes its first instruction *)
Definition init {S} (p : Z) (st0 : S) (c0 : Z) (d0 : bool) : lstate S := LState st0 p d0 c0.

Definition periodic {S} (p : Z) (f : S -> S) (st0 : S) (c0 : Z) (d0 : bool) (sc : list iter)
  : list (ev S) * outcome :=
  let '(es, o) := run p f (init p st0 c0 d0) sc in
  ((if d0 then [EDisp c0] else []) ++ es, o).

(* the log of invocations: (clock at start, state passed in) *)
Fixpoint invs {S} (l : list (ev S)) : list (Z * S) :=
  match l with
  | [] => []
  | EInv c st :: t => (c, st) :: invs t
  | _ :: t => invs t
  end.

(* time from the start of an invocation to the start of the next one *)
Definition gap (p : Z) (it : iter) : Z := Z.max p (dur_of it).

(* sum of the gaps of the first k iterations *)
Fixpoint gaps (p : Z) (sc : list iter) (k : nat) : Z :=
  match k, sc with
  | S k', it :: sc' => gap p it + gaps p sc' k'
  | _, _ => 0
  end.

(* ---- decidable equality of traces, for the correspondence ----------------- *)
Definition ev_eqb (a b : ev Z) : bool :=
  match a, b with
  | EWait c t, EWait c' t' => (c =? c') && (t =? t')
  | ETest c x, ETest c' x' => (c =? c') && Bool.eqb x x'
  | EInv c s, EInv c' s' => (c =? c') && (s =? s')
  | EEnd c, EEnd c' => c =? c'
  | ERaise c, ERaise c' => c =? c'
  | EDisp c, EDisp c' => c =? c'
  | _, _ => false
  end.

Definition outcome_eqb (a b : outcome) : bool :=
  match a, b with
  | Stopped, Stopped | Died, Died | Running, Running => true
  | _, _ => false
  end.

Definition result_eqb (a b : list (ev Z) * outcome) : bool :=
  list_eqb ev_eqb (fst a) (fst b) && outcome_eqb (snd a) (snd b).

(* finite action tables: state -> next state, with a default *)
Fixpoint tlookup (t : list (Z * Z)) (dflt : Z) (x : Z) : Z :=
  match t with
  | [] => dflt
  | (k, v) :: t' => if x =? k then v else tlookup t' dflt x
  end.
