(* Facts about the interleaving models of Core/DispConc.v.  Every theorem
   quantifies over ALL schedules (lists of thread ids), all per-thread programs
   and any number of threads; proofs are inductive invariants of [tstep]. *)
From RxVerif Require Import Base.Prelude Core.Disposables Core.DisposablesFacts Core.DispConc.
Local Open Scope Z_scope.

(* ---- sums over the thread list ------------------------------------------ *)
Definition zsum {A} (f : A -> Z) (l : list A) : Z := fold_right (fun x a => f x + a) 0 l.

Lemma zsum_cons : forall A (f : A -> Z) x l, zsum f (x :: l) = f x + zsum f l.
Proof. reflexivity. Qed.

Lemma zsum_set_nth : forall A (f : A -> Z) l k x old,
  nth_error l k = Some old -> zsum f (set_nth k x l) + f old = zsum f l + f x.
Proof.
  induction l as [|y t IH]; intros k x old H.
  - destruct k; discriminate H.
  - destruct k as [|k']; cbn [nth_error] in H; cbn [set_nth]; rewrite !zsum_cons.
    + injection H as ->. lia.
    + specialize (IH k' x old H). lia.
Qed.

Lemma zsum_nonneg : forall A (f : A -> Z) l, (forall x, 0 <= f x) -> 0 <= zsum f l.
Proof. intros A f l H. induction l as [|y t IH]; [cbn; lia|]. rewrite zsum_cons. specialize (H y). lia. Qed.

Lemma zsum_ge_elem : forall A (f : A -> Z) l k x,
  (forall y, 0 <= f y) -> nth_error l k = Some x -> f x <= zsum f l.
Proof.
  induction l as [|y t IH]; intros k x Hf H; [destruct k; discriminate H|].
  rewrite zsum_cons. destruct k as [|k']; cbn [nth_error] in H.
  - injection H as ->. pose proof (zsum_nonneg A f t Hf). lia.
  - specialize (IH k' x Hf H). specialize (Hf y). lia.
Qed.

Lemma zsum_zero : forall A (f : A -> Z) l, (forall x, In x l -> f x = 0) -> zsum f l = 0.
Proof.
  intros A f l H. induction l as [|y t IH]; [reflexivity|]. rewrite zsum_cons, IH, (H y); [lia|left; reflexivity|].
  intros x Hx. apply H. right. exact Hx.
Qed.

Lemma zsum_map : forall A B (g : A -> B) (f : B -> Z) l, zsum f (map g l) = zsum (fun x => f (g x)) l.
Proof. intros. induction l as [|y t IH]; [reflexivity|]. cbn [map]. rewrite !zsum_cons, IH. reflexivity. Qed.

Lemma plain_app : forall a b, plain (a ++ b) = plain a ++ plain b.
Proof. intros. unfold plain. apply map_app. Qed.
Lemma plain_tag : forall tid out, plain (map (pair tid) out) = out.
Proof. intros. unfold plain. rewrite map_map. cbn. apply map_id. Qed.

Lemma In_set_nth : forall A (l : list A) k x y, In y (set_nth k x l) -> y = x \/ In y l.
Proof.
  induction l as [|z t IH]; intros k x y H; [destruct k; destruct H|].
  destruct k as [|k']; cbn [set_nth] in H; destruct H as [H|H].
  - left. symmetry. exact H.
  - right. right. exact H.
  - right. left. exact H.
  - destruct (IH k' x y H) as [E|E]; [left; exact E|right; right; exact E].
Qed.

(* ======================================================================= *)
Section ConcFacts.
Context {Sh L O : Type}.
Variable start : O -> L.
Variable act : Sh -> L -> Sh * option L * list obs.
Notation thread := (@thread L O).
Notation config := (@config Sh L O).
Notation tstep := (@tstep Sh L O start act).
Notation crun := (@crun Sh L O start act).

Lemma crun_nil : forall c : config, crun c [] = c.
Proof. reflexivity. Qed.
Lemma crun_cons : forall (c : config) t s, crun c (t :: s) = crun (tstep c t) s.
Proof. reflexivity. Qed.
Lemma crun_app : forall a b (c : config), crun c (a ++ b) = crun (crun c a) b.
Proof. intros. unfold DispConc.crun. apply fold_left_app. Qed.

(* what one scheduled step is *)
Lemma tstep_cases : forall (c : config) tid,
  tstep c tid = c \/
  exists t l todo hist s' l' out,
    nth_error (c_ths c) tid = Some t /\ next_frame start t = Some (l, todo, hist) /\
    act (c_sh c) l = (s', l', out) /\
    tstep c tid = Config s' (set_nth tid (Thread l' todo hist) (c_ths c)) (c_log c ++ map (pair tid) out).
Proof.
  intros c tid. unfold DispConc.tstep.
  destruct (nth_error (c_ths c) tid) as [t|] eqn:N; [|left; reflexivity].
  destruct (next_frame start t) as [[[l todo] hist]|] eqn:F; [|left; reflexivity].
  destruct (act (c_sh c) l) as [[s' l'] out] eqn:A. right.
  exists t, l, todo, hist, s', l', out. repeat split; try assumption; reflexivity.
Qed.

(* inductive invariants *)
Lemma crun_invariant : forall (P : config -> Prop),
  (forall c tid, P c -> P (tstep c tid)) -> forall sched c, P c -> P (crun c sched).
Proof.
  intros P Hs. induction sched as [|t s IH]; intros c H; [exact H|].
  rewrite crun_cons. apply IH, Hs, H.
Qed.

(* an invariant of the shared state alone *)
Lemma shared_invariant : forall (P : Sh -> Prop),
  (forall s l, P s -> P (fst (fst (act s l)))) ->
  forall sched (c : config), P (c_sh c) -> P (c_sh (crun c sched)).
Proof.
  intros P Hs. apply (crun_invariant (fun c => P (c_sh c))). intros c tid H.
  destruct (tstep_cases c tid) as [E|[t [l [todo [hist [s' [l' [out [_ [_ [A E]]]]]]]]]]]; rewrite E; [exact H|].
  cbn [c_sh]. specialize (Hs (c_sh c) l H). rewrite A in Hs. exact Hs.
Qed.

(* the log only grows *)
Lemma log_grows : forall sched (c : config), exists more, c_log (crun c sched) = c_log c ++ more.
Proof.
  induction sched as [|t s IH]; intros c; [exists []; rewrite app_nil_r; reflexivity|].
  rewrite crun_cons. destruct (IH (tstep c t)) as [m Hm]. rewrite Hm.
  destruct (tstep_cases c t) as [E|[t0 [l [todo [hist [s' [l' [out [_ [_ [_ E]]]]]]]]]]]; rewrite E.
  - exists m. reflexivity.
  - cbn [c_log]. exists (map (pair t) out ++ m). rewrite app_assoc. reflexivity.
Qed.

(* ---- conservation of a measure ------------------------------------------ *)
Section Measure.
Variable acc : list obs -> Z.          (* what a piece of log accounts for *)
Hypothesis acc_app : forall a b, acc (a ++ b) = acc a + acc b.
Variable held : Sh -> Z.               (* what the shared state holds *)
Variable pl : L -> Z.                  (* what a call in progress still holds / owes *)
Variable adds : O -> Z.                (* what a call not yet started will hand over *)
Hypothesis start_ok : forall o, pl (start o) = adds o.

Definition opl (l : option L) : Z := match l with Some x => pl x | None => 0 end.
Definition tmeasure (t : thread) : Z := opl (t_cur t) + zsum adds (t_todo t).
Definition measure (c : config) : Z := acc (plain (c_log c)) + held (c_sh c) + zsum tmeasure (c_ths c).

Lemma next_frame_measure : forall t l todo hist,
  next_frame start t = Some (l, todo, hist) -> tmeasure t = pl l + zsum adds todo.
Proof.
  intros t l todo hist F. unfold next_frame in F. unfold tmeasure.
  destruct (t_cur t) as [l0|].
  - injection F as -> -> _. reflexivity.
  - destruct (t_todo t) as [|o r]; [discriminate F|]. injection F as <- <- _.
    cbn [opl]. rewrite zsum_cons, start_ok. lia.
Qed.

(* the local balance of the action actually taken is all that is needed *)
Lemma measure_tstep_local : forall (c : config) tid,
  (forall t l todo hist s' l' out,
     nth_error (c_ths c) tid = Some t -> next_frame start t = Some (l, todo, hist) ->
     act (c_sh c) l = (s', l', out) ->
     acc out + held s' + opl l' = held (c_sh c) + pl l) ->
  measure (tstep c tid) = measure c.
Proof.
  intros c tid Hloc.
  destruct (tstep_cases c tid) as [E|[t [l [todo [hist [s' [l' [out [N [F [A E]]]]]]]]]]]; rewrite E; [reflexivity|].
  specialize (Hloc t l todo hist s' l' out N F A). unfold measure. cbn [c_sh c_ths c_log].
  rewrite plain_app, plain_tag, acc_app.
  pose proof (zsum_set_nth _ tmeasure (c_ths c) tid (Thread l' todo hist) t N) as Z1.
  rewrite (next_frame_measure t l todo hist F) in Z1. unfold tmeasure at 3 in Z1. cbn [t_cur t_todo] in Z1. lia.
Qed.

Hypothesis act_ok : forall s l,
  acc (snd (act s l)) + held (fst (fst (act s l))) + opl (snd (fst (act s l))) = held s + pl l.

Lemma measure_tstep : forall (c : config) tid, measure (tstep c tid) = measure c.
Proof.
  intros c tid. apply measure_tstep_local. intros t l todo hist s' l' out _ _ A.
  pose proof (act_ok (c_sh c) l) as H. rewrite A in H. exact H.
Qed.

Lemma measure_crun : forall sched (c : config), measure (crun c sched) = measure c.
Proof.
  induction sched as [|t s IH]; intros c; [reflexivity|]. rewrite crun_cons, IH. apply measure_tstep.
Qed.

Hypothesis acc_nil : acc [] = 0.

Lemma measure_init : forall s progs,
  measure (cinit s progs) = held s + zsum (zsum adds) progs.
Proof.
  intros s progs. unfold measure, cinit. cbn [c_sh c_ths c_log plain map]. rewrite acc_nil, zsum_map.
  unfold tmeasure. cbn [t_cur t_todo opl]. f_equal.
Qed.

Lemma quiescent_tmeasure : forall (c : config), quiescent c = true -> zsum tmeasure (c_ths c) = 0.
Proof.
  intros c Q. unfold quiescent in Q. rewrite forallb_forall in Q. apply zsum_zero. intros t Ht.
  specialize (Q t Ht). unfold finished in Q. unfold tmeasure.
  destruct (t_cur t); [discriminate Q|]. destruct (t_todo t); [reflexivity|discriminate Q].
Qed.

(* CONSERVATION for every schedule: accounted + held + in flight = initially held + handed over *)
Theorem conservation : forall s progs sched,
  let c := crun (cinit s progs) sched in
  acc (plain (c_log c)) + held (c_sh c) + zsum tmeasure (c_ths c) = held s + zsum (zsum adds) progs.
Proof. intros s progs sched c. unfold c. fold (measure (crun (cinit s progs) sched)). rewrite measure_crun. apply measure_init. Qed.

Theorem conservation_quiescent : forall s progs sched,
  let c := crun (cinit s progs) sched in
  quiescent c = true ->
  acc (plain (c_log c)) + held (c_sh c) = held s + zsum (zsum adds) progs.
Proof.
  intros s progs sched c Q. subst c. pose proof (conservation s progs sched) as H. cbv zeta in H.
  rewrite (quiescent_tmeasure _ Q) in H. lia.
Qed.
End Measure.
End ConcFacts.

(* ======================================================================= *)
(* shared helpers for the instances                                         *)
Definition zdisp (i : item) (l : list obs) : Z := Z.of_nat (disposes i l).
Definition is_rej (i : item) (o : obs) : bool := match o with ORej j => Nat.eqb i j | _ => false end.
Definition rejs (i : item) (l : list obs) : nat := length (filter (is_rej i) l).
Definition zcnt (i : item) (l : list item) : Z := Z.of_nat (cnt i l).

Lemma zdisp_app : forall i a b, zdisp i (a ++ b) = zdisp i a + zdisp i b.
Proof. intros. unfold zdisp. rewrite disposes_app. lia. Qed.
Lemma rejs_app : forall i a b, rejs i (a ++ b) = (rejs i a + rejs i b)%nat.
Proof. intros. unfold rejs. rewrite filter_app, app_length. reflexivity. Qed.
Lemma zdisp_cons : forall i o l, zdisp i (o :: l) = (if is_disp i o then 1 else 0) + zdisp i l.
Proof. intros. unfold zdisp. rewrite disposes_cons. destruct (is_disp i o); lia. Qed.
Lemma zdisp_nil : forall i, zdisp i [] = 0.
Proof. reflexivity. Qed.
Lemma zcnt_cons : forall i x t, zcnt i (x :: t) = (if Nat.eqb i x then 1 else 0) + zcnt i t.
Proof. intros. unfold zcnt. rewrite cnt_cons. destruct (Nat.eqb i x); lia. Qed.
Lemma zcnt_nil : forall i, zcnt i [] = 0.
Proof. reflexivity. Qed.
Lemma zcnt_app : forall i a b, zcnt i (a ++ b) = zcnt i a + zcnt i b.
Proof. intros. unfold zcnt. rewrite cnt_app. lia. Qed.
Lemma zcnt_nonneg : forall i l, 0 <= zcnt i l.
Proof. intros. unfold zcnt. lia. Qed.

(* the balance of [calls]: what it emits now plus what it leaves pending *)
Lemma calls_balance : forall L (mk : list item -> list obs -> L) (pl : L -> Z) (acc : list obs -> Z) i l ret,
  (forall l ret, pl (mk l ret) = zcnt i l + acc ret) -> acc [] = 0 ->
  acc (snd (calls mk l ret)) + opl pl (fst (calls mk l ret)) = zcnt i l + acc ret.
Proof.
  intros L mk pl acc i l ret Hpl Hnil. unfold calls. destruct l as [|x r]; cbn [fst snd opl].
  - rewrite zcnt_nil. lia.
  - rewrite Hpl, Hnil. lia.
Qed.

Lemma calls_balance0 : forall L (mk : list item -> list obs -> L) (pl : L -> Z) (acc : list obs -> Z) i l,
  (forall l, pl (mk l []) = zcnt i l) -> acc [] = 0 ->
  acc (snd (calls mk l [])) + opl pl (fst (calls mk l [])) = zcnt i l.
Proof.
  intros L mk pl acc i l Hpl Hnil. unfold calls. destruct l as [|x r]; cbn [fst snd opl].
  - rewrite zcnt_nil. lia.
  - rewrite Hpl, Hnil. lia.
Qed.

(* ======================================================================= *)
(* CompositeDisposable, every interleaving                                   *)
Section CompositeConc.
Variable i : item.
Definition cc_pl (l : clocal) : Z :=
  match l with
  | CL_read _ => 0
  | CL_lock o => Z.of_nat (c_adds i o)
  | CL_calls l ret => zcnt i l + zdisp i ret
  | CL_query _ => 0
  end.
Definition cc_adds (o : cop) : Z := Z.of_nat (c_adds i o).
Definition cc_held (s : cstate) : Z := zcnt i (c_items s).

Lemma cc_start_ok : forall o, cc_pl (cc_start o) = cc_adds o.
Proof. intros o. destruct o; reflexivity. Qed.

Lemma cc_calls_balance : forall l ret,
  zdisp i (snd (calls CL_calls l ret)) + opl cc_pl (fst (calls CL_calls l ret)) = zcnt i l + zdisp i ret.
Proof. intros. apply calls_balance; [intros; reflexivity|reflexivity]. Qed.

Lemma zcnt_remove_first_same : forall l, mem i l = true -> zcnt i (remove_first i l) + 1 = zcnt i l.
Proof. intros l M. unfold zcnt. pose proof (cnt_remove_first_same i l M). lia. Qed.
Lemma zcnt_remove_first_other : forall j l, i <> j -> zcnt i (remove_first j l) = zcnt i l.
Proof. intros j l H. unfold zcnt. rewrite (cnt_remove_first_other i j l H). reflexivity. Qed.

Lemma cc_act_ok : forall s l,
  zdisp i (snd (cc_act s l)) + cc_held (fst (fst (cc_act s l))) + opl cc_pl (snd (fst (cc_act s l)))
  = cc_held s + cc_pl l.
Proof.
  intros s l. unfold cc_held. destruct l as [o|o|l ret|o].
  - (* unlocked read *)
    destruct o as [j|j| | |j| | |]; cbn [cc_act cc_pl];
      try destruct (c_disposed s); cbn [fst snd opl cc_pl c_adds];
      rewrite ?zdisp_cons, ?zdisp_nil; cbn [is_disp]; lia.
  - (* locked block *)
    destruct o as [j|j| | |j| | |]; cbn [cc_act cc_pl c_adds].
    + destruct (c_disposed s); cbn [fst snd opl cc_pl c_items].
      * rewrite zdisp_nil, zcnt_cons, zcnt_nil. destruct (Nat.eqb i j); lia.
      * rewrite zdisp_nil, zcnt_app, zcnt_cons, zcnt_nil. destruct (Nat.eqb i j); lia.
    + destruct (mem j (c_items s)) eqn:M; cbn [fst snd opl cc_pl c_items].
      * rewrite !zdisp_nil, zcnt_cons, zcnt_nil, zdisp_cons, zdisp_nil. cbn [is_disp].
        destruct (Nat.eqb i j) eqn:E.
        -- apply Nat.eqb_eq in E. subst j. pose proof (zcnt_remove_first_same _ M). lia.
        -- apply Nat.eqb_neq in E. rewrite (zcnt_remove_first_other j _ E). lia.
      * rewrite zdisp_cons, zdisp_nil. cbn [is_disp]. lia.
    + pose proof (cc_calls_balance (c_items s) []) as B.
      destruct (calls CL_calls (c_items s) []) as [l' out]. cbn [fst snd c_items] in *.
      rewrite zcnt_nil, zdisp_nil in *. lia.
    + pose proof (cc_calls_balance (c_items s) []) as B.
      destruct (calls CL_calls (c_items s) []) as [l' out]. cbn [fst snd c_items] in *.
      rewrite zcnt_nil, zdisp_nil in *. lia.
    + cbn [fst snd opl]. rewrite zdisp_nil. lia.
    + cbn [fst snd opl]. rewrite zdisp_nil. lia.
    + cbn [fst snd opl]. rewrite zdisp_nil. lia.
    + cbn [fst snd opl]. rewrite zdisp_nil. lia.
  - (* calls *)
    destruct l as [|x r]; cbn [cc_act cc_pl].
    + cbn [fst snd opl]. rewrite zcnt_nil. lia.
    + pose proof (cc_calls_balance r ret) as B.
      destruct (calls CL_calls r ret) as [l' out]. cbn [fst snd] in *.
      rewrite zdisp_cons, zcnt_cons. cbn [is_disp]. destruct (Nat.eqb i x); lia.
  - (* queries *)
    cbn [cc_act fst snd opl cc_pl].
    destruct o; cbn [c_step snd]; rewrite ?zdisp_cons, ?zdisp_nil; cbn [is_disp]; lia.
Qed.
End CompositeConc.

Lemma tmeasure_nonneg : forall L O (pl : L -> Z) (adds : O -> Z) (t : @thread L O),
  (forall l, 0 <= pl l) -> (forall o, 0 <= adds o) -> 0 <= tmeasure pl adds t.
Proof.
  intros L O pl adds t Hp Ha. unfold tmeasure. pose proof (zsum_nonneg _ adds (t_todo t) Ha).
  destruct (t_cur t) as [l|]; cbn [opl]; [specialize (Hp l)|]; lia.
Qed.

Definition cc_run (l0 : list item) (progs : list (list cop)) (sched : list nat) :=
  crun cc_start cc_act (cinit (c_init l0) progs) sched.
(* occurrences of item i that calls in progress or not yet started still hold / will hand over *)
Definition cc_in_flight (i : item) (c : @config cstate clocal cop) : Z := zsum (tmeasure (cc_pl i) (cc_adds i)) (c_ths c).
Definition cc_total (i : item) (l0 : list item) (progs : list (list cop)) : Z :=
  zcnt i l0 + zsum (zsum (cc_adds i)) progs.

Lemma cc_pl_nonneg : forall i l, 0 <= cc_pl i l.
Proof. intros i l. destruct l; cbn [cc_pl]; unfold zcnt, zdisp; lia. Qed.
Lemma cc_in_flight_nonneg : forall i c, 0 <= cc_in_flight i c.
Proof.
  intros. unfold cc_in_flight. apply zsum_nonneg. intros t. apply tmeasure_nonneg.
  - apply cc_pl_nonneg.
  - intros o. unfold cc_adds. lia.
Qed.

(* CONSERVATION under every schedule, at every moment: dispose() calls received + occurrences held by
   the container + occurrences in flight = occurrences ever handed over *)
Theorem composite_conc_conservation : forall l0 progs sched i,
  let c := cc_run l0 progs sched in
  zdisp i (plain (c_log c)) + zcnt i (c_items (c_sh c)) + cc_in_flight i c = cc_total i l0 progs.
Proof.
  intros l0 progs sched i.
  exact (conservation cc_start cc_act (zdisp i) (zdisp_app i) (cc_held i) (cc_pl i) (cc_adds i)
           (cc_start_ok i) (cc_act_ok i) (zdisp_nil i) (c_init l0) progs sched).
Qed.

Lemma cc_act_c_ok : forall s l, c_ok s -> c_ok (fst (fst (cc_act s l))).
Proof.
  unfold c_ok. intros [its d] l H. cbn [c_items c_disposed] in *. destruct l as [o|o|l ret|o].
  - destruct o; cbn [cc_act c_disposed]; try destruct d; cbn [fst c_items c_disposed]; exact H.
  - destruct o as [j|j| | |j| | |]; cbn [cc_act c_items c_disposed]; try exact H.
    + destruct d; cbn [fst c_items c_disposed]; [exact H|discriminate].
    + destruct (mem j its) eqn:M; cbn [fst c_items c_disposed]; [|exact H].
      intros D. rewrite (H D) in M. discriminate M.
    + destruct (calls CL_calls its []). cbn [fst c_items]. reflexivity.
    + destruct (calls CL_calls its []). cbn [fst c_items]. reflexivity.
  - destruct l as [|x r]; cbn [cc_act]; [exact H|]. destruct (calls CL_calls r ret). exact H.
  - exact H.
Qed.

Lemma cc_run_c_ok : forall l0 progs sched, c_ok (c_sh (cc_run l0 progs sched)).
Proof.
  intros. unfold cc_run. apply (shared_invariant cc_start cc_act c_ok cc_act_c_ok). apply c_init_ok.
Qed.

(* never more dispose() calls than occurrences handed over; none while the only occurrence is held *)
Theorem composite_conc_not_while_held : forall l0 progs sched i,
  let c := cc_run l0 progs sched in
  zdisp i (plain (c_log c)) <= cc_total i l0 progs /\
  (cc_total i l0 progs = 1 -> mem i (c_items (c_sh c)) = true -> zdisp i (plain (c_log c)) = 0).
Proof.
  intros l0 progs sched i c. pose proof (composite_conc_conservation l0 progs sched i) as H. cbv zeta in H. fold c in H.
  pose proof (cc_in_flight_nonneg i c). pose proof (zcnt_nonneg i (c_items (c_sh c))). split; [lia|].
  intros T M. apply cnt_mem in M. unfold zcnt in *. unfold zdisp in *. lia.
Qed.

(* when all calls have returned: exactly once per occurrence no longer held; everything if disposed *)
Theorem composite_conc_quiescent : forall l0 progs sched i,
  let c := cc_run l0 progs sched in
  quiescent c = true ->
  zdisp i (plain (c_log c)) + zcnt i (c_items (c_sh c)) = cc_total i l0 progs /\
  (c_disposed (c_sh c) = true -> zdisp i (plain (c_log c)) = cc_total i l0 progs).
Proof.
  intros l0 progs sched i c Q.
  pose proof (conservation_quiescent cc_start cc_act (zdisp i) (zdisp_app i) (cc_held i) (cc_pl i) (cc_adds i)
           (cc_start_ok i) (cc_act_ok i) (zdisp_nil i) (c_init l0) progs sched Q) as H.
  fold (cc_run l0 progs sched) in H. fold c in H. unfold cc_held in H. cbn [c_init c_items] in H.
  split; [exact H|]. intros D. pose proof (cc_run_c_ok l0 progs sched D) as E. fold c in E. rewrite E in H.
  rewrite zcnt_nil in H. unfold cc_total. lia.
Qed.

(* an item added to a disposed container is disposed by the adding call itself *)
Lemma composite_conc_add_after_dispose : forall s j,
  c_disposed s = true ->
  cc_act s (cc_start (CAdd j)) = (s, Some (CL_calls [j] []), []) /\
  cc_act s (CL_calls [j] []) = (s, None, [ODisp j]).
Proof. intros s j D. cbn [cc_start cc_act]. rewrite D. split; reflexivity. Qed.

(* ======================================================================= *)
(* one-slot containers, every interleaving                                   *)
Section SlotConc.
Variable i : item.
Definition sc_acc (l : list obs) : Z := zdisp i l + Z.of_nat (rejs i l).
Definition sc_pl (l : slocal) : Z :=
  match l with
  | SL_lock o => Z.of_nat (s_sets i o)
  | SL_calls l ret => zcnt i l + sc_acc ret
  | SL_query _ => 0
  end.
Definition sc_adds (o : sop) : Z := Z.of_nat (s_sets i o).
Definition sc_held (x : xstate) : Z := Z.of_nat (ocnt i (s_cur (x_s x))) + zcnt i (x_dropped x).

Lemma sc_acc_app : forall a b, sc_acc (a ++ b) = sc_acc a + sc_acc b.
Proof. intros. unfold sc_acc. rewrite zdisp_app, rejs_app. lia. Qed.
Lemma sc_acc_nil : sc_acc [] = 0.
Proof. reflexivity. Qed.
Lemma sc_acc_cons : forall o l,
  sc_acc (o :: l) = (if is_disp i o then 1 else 0) + (if is_rej i o then 1 else 0) + sc_acc l.
Proof.
  intros. unfold sc_acc. rewrite zdisp_cons. unfold rejs. cbn [filter]. destruct (is_rej i o); cbn [length]; lia.
Qed.

Lemma sc_start_ok : forall o, sc_pl (sc_start o) = sc_adds o.
Proof. intros o. destruct o; reflexivity. Qed.

Lemma sc_calls_balance : forall l ret,
  sc_acc (snd (calls SL_calls l ret)) + opl sc_pl (fst (calls SL_calls l ret)) = zcnt i l + sc_acc ret.
Proof. intros. apply calls_balance; [intros; reflexivity|reflexivity]. Qed.

Lemma zcnt_opt_list : forall o, zcnt i (opt_list o) = Z.of_nat (ocnt i o).
Proof. intros [j|]; [|reflexivity]. cbn [opt_list ocnt]. rewrite zcnt_cons, zcnt_nil. destruct (Nat.eqb i j); lia. Qed.

Lemma sc_act_ok : forall k x l,
  sc_acc (snd (sc_act k x l)) + sc_held (fst (fst (sc_act k x l))) + opl sc_pl (snd (fst (sc_act k x l)))
  = sc_held x + sc_pl l.
Proof.
  intros k [s dr] l. unfold sc_held. destruct l as [o|l ret|o].
  - destruct o as [j| | |]; cbn [sc_act sc_pl s_sets x_s x_dropped].
    + (* set *)
      destruct k.
      * destruct (s_disposed s).
        -- pose proof (sc_calls_balance [j] []) as B. destruct (calls SL_calls [j] []) as [l' out].
           cbn [fst snd x_s x_dropped] in *. rewrite zcnt_cons, zcnt_nil, sc_acc_nil in B.
           destruct (Nat.eqb i j); lia.
        -- pose proof (sc_calls_balance (opt_list (s_cur s)) []) as B.
           destruct (calls SL_calls (opt_list (s_cur s)) []) as [l' out].
           cbn [fst snd x_s x_dropped s_cur ocnt] in *. rewrite zcnt_opt_list, sc_acc_nil in B.
           destruct (Nat.eqb i j); lia.
      * destruct (s_disposed s).
        -- pose proof (sc_calls_balance [j] []) as B. destruct (calls SL_calls [j] []) as [l' out].
           cbn [fst snd x_s x_dropped] in *. rewrite zcnt_cons, zcnt_nil, sc_acc_nil in B.
           destruct (Nat.eqb i j); lia.
        -- cbn [fst snd opl x_s x_dropped s_cur ocnt]. rewrite zcnt_app, zcnt_opt_list, sc_acc_nil.
           destruct (Nat.eqb i j); lia.
      * destruct (s_cur s) as [c|] eqn:C.
        -- cbn [fst snd opl x_s x_dropped]. rewrite C, sc_acc_cons, sc_acc_nil. cbn [is_disp is_rej].
           destruct (Nat.eqb i j); lia.
        -- destruct (s_disposed s).
           ++ pose proof (sc_calls_balance [j] []) as B. destruct (calls SL_calls [j] []) as [l' out].
              cbn [fst snd x_s x_dropped] in *. rewrite C. rewrite zcnt_cons, zcnt_nil, sc_acc_nil in B.
              cbn [ocnt]. destruct (Nat.eqb i j); lia.
           ++ cbn [fst snd opl x_s x_dropped s_cur ocnt]. rewrite sc_acc_nil. destruct (Nat.eqb i j); lia.
    + (* dispose *)
      destruct (s_disposed s).
      * cbn [fst snd opl x_s x_dropped]. rewrite sc_acc_nil. lia.
      * pose proof (sc_calls_balance (opt_list (s_cur s)) []) as B.
        destruct (calls SL_calls (opt_list (s_cur s)) []) as [l' out].
        cbn [fst snd x_s x_dropped s_cur ocnt] in *. rewrite zcnt_opt_list, sc_acc_nil in B. lia.
    + cbn [fst snd opl x_s x_dropped]. rewrite sc_acc_nil. lia.
    + cbn [fst snd opl x_s x_dropped]. rewrite sc_acc_nil. lia.
  - destruct l as [|y r]; cbn [sc_act sc_pl].
    + cbn [fst snd opl x_s x_dropped]. rewrite zcnt_nil. lia.
    + pose proof (sc_calls_balance r ret) as B. destruct (calls SL_calls r ret) as [l' out].
      cbn [fst snd x_s x_dropped] in *. rewrite sc_acc_cons, zcnt_cons. cbn [is_disp is_rej].
      destruct (Nat.eqb i y); lia.
  - cbn [sc_act fst snd opl sc_pl x_s x_dropped].
    destruct o; cbn [slot_query snd]; rewrite sc_acc_cons, sc_acc_nil; cbn [is_disp is_rej]; lia.
Qed.
End SlotConc.

Definition sc_run (k : slot_kind) (progs : list (list sop)) (sched : list nat) :=
  crun sc_start (sc_act k) (cinit x_init progs) sched.
Definition sc_in_flight (i : item) (c : @config xstate slocal sop) : Z := zsum (tmeasure (sc_pl i) (sc_adds i)) (c_ths c).
Definition sc_total (i : item) (progs : list (list sop)) : Z := zsum (zsum (sc_adds i)) progs.

Lemma sc_pl_nonneg : forall i l, 0 <= sc_pl i l.
Proof. intros i l. destruct l; cbn [sc_pl]; unfold sc_acc, zcnt, zdisp; lia. Qed.
Lemma sc_in_flight_nonneg : forall i c, 0 <= sc_in_flight i c.
Proof.
  intros. unfold sc_in_flight. apply zsum_nonneg. intros t. apply tmeasure_nonneg.
  - apply sc_pl_nonneg.
  - intros o. unfold sc_adds. lia.
Qed.

(* CONSERVATION (Serial, MultipleAssignment, SingleAssignment), every schedule, every moment:
   dispose() calls + rejected assignments + current + let go by replacement (Multiple only) + in flight
   = assignments made *)
Theorem slot_conc_conservation : forall k progs sched i,
  let c := sc_run k progs sched in
  zdisp i (plain (c_log c)) + Z.of_nat (rejs i (plain (c_log c)))
  + Z.of_nat (ocnt i (s_cur (x_s (c_sh c)))) + zcnt i (x_dropped (c_sh c)) + sc_in_flight i c
  = sc_total i progs.
Proof.
  intros k progs sched i.
  pose proof (conservation sc_start (sc_act k) (sc_acc i) (sc_acc_app i) (sc_held i) (sc_pl i) (sc_adds i)
           (sc_start_ok i) (sc_act_ok i k) (sc_acc_nil i) x_init progs sched) as H.
  cbv zeta in *. unfold sc_acc, sc_held in H. cbn [x_init x_s x_dropped s_init s_cur ocnt] in H.
  rewrite zcnt_nil in H. unfold sc_run, sc_in_flight, sc_total. lia.
Qed.

(* only a MultipleAssignmentDisposable lets go of an item without disposing it; nobody but a
   SingleAssignmentDisposable rejects *)
Definition x_ok (k : slot_kind) (x : xstate) : Prop :=
  (s_disposed (x_s x) = true -> s_cur (x_s x) = None) /\
  (k <> KMultiple -> x_dropped x = []).

Lemma sc_act_x_ok : forall k x l, x_ok k x -> x_ok k (fst (fst (sc_act k x l))).
Proof.
  intros k [[cur d] dr] l [H1 H2]. unfold x_ok in *. cbn [x_s x_dropped s_cur s_disposed] in *.
  destruct l as [o|l ret|o].
  - destruct o as [j| | |]; cbn [sc_act x_s x_dropped s_cur s_disposed].
    + destruct k.
      * destruct d.
        -- destruct (calls SL_calls [j] []). cbn [fst x_s x_dropped s_cur s_disposed]. split; assumption.
        -- destruct (calls SL_calls (opt_list cur) []). cbn [fst x_s x_dropped s_cur s_disposed].
           split; [discriminate|exact H2].
      * destruct d.
        -- destruct (calls SL_calls [j] []). cbn [fst x_s x_dropped s_cur s_disposed]. split; assumption.
        -- cbn [fst x_s x_dropped s_cur s_disposed]. split; [discriminate|]. intros X. contradiction X. reflexivity.
      * destruct cur as [c0|]; [cbn [fst x_s x_dropped s_cur s_disposed]; split; assumption|].
        destruct d.
        -- destruct (calls SL_calls [j] []). cbn [fst x_s x_dropped s_cur s_disposed]. split; assumption.
        -- cbn [fst x_s x_dropped s_cur s_disposed]. split; [discriminate|exact H2].
    + destruct d; [cbn [fst x_s x_dropped s_cur s_disposed]; split; assumption|].
      destruct (calls SL_calls (opt_list cur) []). cbn [fst x_s x_dropped s_cur s_disposed].
      split; [reflexivity|exact H2].
    + cbn [fst x_s x_dropped s_cur s_disposed]. split; assumption.
    + cbn [fst x_s x_dropped s_cur s_disposed]. split; assumption.
  - destruct l as [|y r]; cbn [sc_act]; [cbn [fst x_s x_dropped s_cur s_disposed]; split; assumption|].
    destruct (calls SL_calls r ret). cbn [fst x_s x_dropped s_cur s_disposed]. split; assumption.
  - cbn [sc_act fst x_s x_dropped s_cur s_disposed]. split; assumption.
Qed.

Lemma sc_run_x_ok : forall k progs sched, x_ok k (c_sh (sc_run k progs sched)).
Proof.
  intros. unfold sc_run. apply (shared_invariant sc_start (sc_act k) (x_ok k) (sc_act_x_ok k)).
  split; [discriminate|reflexivity].
Qed.

(* Serial / SingleAssignment: every assignment is, at every moment, exactly one of: rejected, current,
   in flight, or disposed exactly once; in particular never disposed while it is the current one *)
Theorem slot_conc_exact : forall k progs sched i,
  k <> KMultiple ->
  let c := sc_run k progs sched in
  zdisp i (plain (c_log c)) + Z.of_nat (rejs i (plain (c_log c)))
  + Z.of_nat (ocnt i (s_cur (x_s (c_sh c)))) + sc_in_flight i c = sc_total i progs /\
  (sc_total i progs = 1 -> s_cur (x_s (c_sh c)) = Some i -> zdisp i (plain (c_log c)) = 0) /\
  (quiescent c = true -> s_disposed (x_s (c_sh c)) = true ->
   zdisp i (plain (c_log c)) + Z.of_nat (rejs i (plain (c_log c))) = sc_total i progs).
Proof.
  intros k progs sched i K c. pose proof (slot_conc_conservation k progs sched i) as H. cbv zeta in H. fold c in H.
  destruct (sc_run_x_ok k progs sched) as [O1 O2]. fold c in O1, O2. rewrite (O2 K), zcnt_nil in H.
  pose proof (sc_in_flight_nonneg i c) as NF. split; [lia|]. split.
  - intros T C. rewrite C in H. cbn [ocnt] in H. rewrite Nat.eqb_refl in H. unfold zdisp in *. lia.
  - intros Q D. rewrite (O1 D) in H. cbn [ocnt] in H.
    assert (sc_in_flight i c = 0) as F0.
    { unfold sc_in_flight. apply (quiescent_tmeasure (sc_pl i) (sc_adds i) c Q). }
    lia.
Qed.

(* a SingleAssignmentDisposable rejects an assignment exactly when something is assigned at the moment
   its locked block runs; the decision and the raise are inside the lock *)
Lemma single_conc_rejects : forall x j,
  sc_act KSingle x (sc_start (SSet j)) =
  match s_cur (x_s x) with
  | Some _ => (x, None, [ORej j])
  | None => if s_disposed (x_s x)
            then (x, Some (SL_calls [j] []), [])
            else (XState (SState (Some j) (s_disposed (x_s x))) (x_dropped x), None, [])
  end.
Proof. intros x j. cbn [sc_start sc_act]. destruct (s_cur (x_s x)); [reflexivity|]. destruct (s_disposed (x_s x)); reflexivity. Qed.

(* Multiple / Single: nothing is disposed and nothing is about to be while the container is live *)
Definition no_calls (t : @thread slocal sop) : Prop := forall l ret, t_cur t <> Some (SL_calls l ret).
Definition sc_live_silent (c : @config xstate slocal sop) : Prop :=
  s_disposed (x_s (c_sh c)) = false ->
  (forall t, In t (c_ths c) -> no_calls t) /\ (forall j, disposes j (plain (c_log c)) = 0%nat).

Lemma sc_live_silent_step : forall k c tid,
  k <> KSerial -> sc_live_silent c -> sc_live_silent (tstep sc_start (sc_act k) c tid).
Proof.
  intros k c tid K H.
  destruct (tstep_cases sc_start (sc_act k) c tid) as [E|[t [l [todo [hist [s' [l' [out [N [F [A E]]]]]]]]]]];
    rewrite E; [exact H|].
  unfold sc_live_silent in *. cbn [c_sh c_ths c_log]. intros D'.
  assert (In t (c_ths c)) as Ht by (eapply nth_error_In; exact N).
  (* the container was live before this action too *)
  assert (s_disposed (x_s (c_sh c)) = false /\ (forall l0 ret0, l' <> Some (SL_calls l0 ret0)) /\
          (forall j, disposes j out = 0%nat)) as [D [NL NO]].
  { destruct (c_sh c) as [s dr] eqn:SH. cbn [x_s] in *.
    destruct l as [o|l0 ret0|o].
    - destruct o as [j| | |]; cbn [sc_act x_s x_dropped] in A.
      + destruct k; [contradiction K; reflexivity| |].
        * destruct (s_disposed s) eqn:D0.
          -- cbn [calls] in A. injection A as <- <- <-. cbn [x_s] in D'. congruence.
          -- injection A as <- <- <-. split; [reflexivity|]. split; [discriminate|reflexivity].
        * destruct (s_cur s) eqn:C.
          -- injection A as <- <- <-. cbn [x_s] in D'. split; [exact D'|]. split; [discriminate|reflexivity].
          -- destruct (s_disposed s) eqn:D0.
             ++ cbn [calls] in A. injection A as <- <- <-. cbn [x_s] in D'. congruence.
             ++ injection A as <- <- <-. split; [reflexivity|]. split; [discriminate|reflexivity].
      + destruct (s_disposed s) eqn:D0.
        * injection A as <- <- <-. cbn [x_s] in D'. congruence.
        * destruct (calls SL_calls (opt_list (s_cur s)) []) as [l1 o1]. injection A as <- <- <-.
          cbn [x_s s_disposed] in D'. discriminate D'.
      + injection A as <- <- <-. cbn [x_s] in D'. split; [exact D'|]. split; [discriminate|reflexivity].
      + injection A as <- <- <-. cbn [x_s] in D'. split; [exact D'|]. split; [discriminate|reflexivity].
    - (* a thread about to call dispose(): impossible while live *)
      assert (s_disposed s = false) as D.
      { destruct l0 as [|y r]; cbn [sc_act] in A.
        - injection A as <- <- <-. exact D'.
        - destruct (calls SL_calls r ret0). injection A as <- <- <-. exact D'. }
      exfalso. destruct (H D) as [H1 _]. specialize (H1 t Ht).
      unfold next_frame in F. destruct (t_cur t) as [lc|] eqn:TC.
      + injection F as -> _ _. exact (H1 l0 ret0 TC).
      + destruct (t_todo t) as [|o r]; [discriminate F|]. injection F as F _ _. destruct o; discriminate F.
    - cbn [sc_act] in A. injection A as <- <- <-. cbn [x_s] in D'. split; [exact D'|]. split; [discriminate|].
      intros j. destruct o; reflexivity. }
  destruct (H D) as [H1 H2]. split.
  - intros t' Ht'. destruct (In_set_nth _ _ _ _ _ Ht') as [->|X]; [|apply H1, X].
    intros l0 ret0. cbn [t_cur]. apply NL.
  - intros j. rewrite plain_app, plain_tag, disposes_app, H2, NO. reflexivity.
Qed.

Theorem slot_conc_live_silent : forall k progs sched,
  k <> KSerial -> sc_live_silent (sc_run k progs sched).
Proof.
  intros k progs sched K. unfold sc_run.
  apply (crun_invariant sc_start (sc_act k) sc_live_silent (fun c tid => sc_live_silent_step k c tid K)).
  intros _. split.
  - intros t Ht l ret. unfold cinit in Ht. cbn [c_ths] in Ht. apply in_map_iff in Ht.
    destruct Ht as [p [<- _]]. discriminate.
  - intros j. reflexivity.
Qed.

(* ---- small facts about frames --------------------------------------------- *)
Lemma next_frame_cur : forall L O (start : O -> L) (t : @thread L O) l todo hist l0,
  next_frame start t = Some (l, todo, hist) -> t_cur t = Some l0 -> l0 = l /\ hist = t_hist t.
Proof.
  intros L O start t l todo hist l0 F C. unfold next_frame in F. rewrite C in F. injection F as -> _ <-. auto.
Qed.

Lemma next_frame_cur_todo : forall L O (start : O -> L) (t : @thread L O) l todo hist l0,
  next_frame start t = Some (l, todo, hist) -> t_cur t = Some l0 -> todo = t_todo t.
Proof.
  intros L O start t l todo hist l0 F C. unfold next_frame in F. rewrite C in F. injection F as _ <- _. reflexivity.
Qed.

Lemma next_frame_fresh : forall L O (start : O -> L) (t : @thread L O) l todo hist,
  next_frame start t = Some (l, todo, hist) -> t_cur t = None ->
  exists o, t_todo t = o :: todo /\ l = start o /\ hist = o :: t_hist t.
Proof.
  intros L O start t l todo hist F C. unfold next_frame in F. rewrite C in F.
  destruct (t_todo t) as [|o r]; [discriminate F|]. injection F as <- <- <-. exists o. auto.
Qed.

Lemma nth_error_set_nth_cases : forall A (l : list A) k j x y,
  nth_error (set_nth j x l) k = Some y ->
  (k = j /\ y = x) \/ (k <> j /\ nth_error l k = Some y).
Proof.
  intros A l k j x y H. destruct (Nat.eq_dec k j) as [->|N].
  - left. split; [reflexivity|].
    assert (j < length l)%nat as Lj.
    { assert (nth_error (set_nth j x l) j <> None) as X by congruence.
      apply nth_error_Some in X. rewrite set_nth_length in X. exact X. }
    rewrite nth_set_nth_eq in H by exact Lj. congruence.
  - right. split; [exact N|]. rewrite nth_set_nth_neq in H by exact N. exact H.
Qed.

(* ======================================================================= *)
(* Disposable / BooleanDisposable, every interleaving                        *)
Definition dd_run (progs : list (list dop)) (sched : list nat) := crun dd_start dd_act (cinit d_init progs) sched.
Definition bd_run (progs : list (list dop)) (sched : list nat) := crun bd_start bd_act (cinit d_init progs) sched.

Definition dd_acc (l : list obs) : Z := Z.of_nat (runs l).
Definition dd_held (s : dstate) : Z := if s then 0 else 1.
Definition dd_pl (l : dlocal) : Z := match l with DL_action => 1 | _ => 0 end.
Definition dd_adds (o : dop) : Z := 0.
Definition dd_in_flight (c : @config dstate dlocal dop) : Z := zsum (tmeasure dd_pl dd_adds) (c_ths c).

Lemma dd_acc_app : forall a b, dd_acc (a ++ b) = dd_acc a + dd_acc b.
Proof. intros. unfold dd_acc. rewrite runs_app. lia. Qed.
Lemma dd_act_ok : forall s l,
  dd_acc (snd (dd_act s l)) + dd_held (fst (fst (dd_act s l))) + opl dd_pl (snd (fst (dd_act s l))) = dd_held s + dd_pl l.
Proof. intros s l. destruct l, s; reflexivity. Qed.

Lemma dd_in_flight_nonneg : forall c, 0 <= dd_in_flight c.
Proof.
  intros. unfold dd_in_flight. apply zsum_nonneg. intros t. apply tmeasure_nonneg.
  - intros l. destruct l; cbn; lia.
  - intros o. unfold dd_adds. lia.
Qed.

(* the action is invoked at most once under every interleaving of any number of threads and calls:
   (#invocations) + (1 if not yet disposed) + (#threads between the test-and-set and the call) = 1 *)
Theorem disposable_conc_once : forall progs sched,
  let c := dd_run progs sched in
  Z.of_nat (runs (plain (c_log c))) + dd_held (c_sh c) + dd_in_flight c = 1 /\
  (runs (plain (c_log c)) <= 1)%nat /\
  (quiescent c = true -> runs (plain (c_log c)) = if c_sh c then 1%nat else 0%nat).
Proof.
  intros progs sched c.
  pose proof (conservation dd_start dd_act dd_acc dd_acc_app dd_held dd_pl dd_adds (fun o => ltac:(destruct o; reflexivity))
                dd_act_ok eq_refl d_init progs sched) as H. cbv zeta in H. fold (dd_run progs sched) in H. fold c in H.
  assert (zsum (zsum dd_adds) progs = 0) as Z0.
  { apply zsum_zero. intros p _. apply zsum_zero. reflexivity. }
  rewrite Z0 in H. cbn [d_init dd_held] in H. unfold dd_acc in H. fold (dd_in_flight c) in H.
  pose proof (dd_in_flight_nonneg c) as NF.
  assert (0 <= dd_held (c_sh c)) as NH by (unfold dd_held; destruct (c_sh c); lia).
  split; [lia|]. split; [lia|]. intros Q.
  assert (dd_in_flight c = 0) as F0 by (apply (quiescent_tmeasure dd_pl dd_adds c Q)).
  unfold dd_held in *. destruct (c_sh c); lia.
Qed.

Section Reports.
Context {L : Type}.
Variable start : dop -> L.
Variable act : dstate -> L -> dstate * option L * list obs.
Hypothesis no_reset : forall s l, fst (fst (act s l)) = false -> s = false.
Hypothesis first_sets : forall s, fst (fst (act s (start DDispose))) = true.

Definition rep_inv (c : @config dstate L dop) : Prop :=
  c_sh c = false -> forall k t, nth_error (c_ths c) k = Some t -> ~ In DDispose (t_hist t).

Lemma rep_inv_step : forall c tid, rep_inv c -> rep_inv (tstep start act c tid).
Proof.
  intros c tid H.
  destruct (tstep_cases start act c tid) as [E|[t [l [todo [hist [s' [l' [out [N [F [A E]]]]]]]]]]]; rewrite E; [exact H|].
  unfold rep_inv in *. cbn [c_sh c_ths]. intros S' k t' N'.
  assert (c_sh c = false) as S0. { apply (no_reset (c_sh c) l). rewrite A. exact S'. }
  destruct (nth_error_set_nth_cases _ _ _ _ _ _ N') as [[-> ->]|[_ N2]]; [|apply (H S0 k t' N2)].
  cbn [t_hist]. destruct (t_cur t) as [l0|] eqn:C.
  - destruct (next_frame_cur _ _ _ _ _ _ _ _ F C) as [_ ->]. apply (H S0 tid t N).
  - destruct (next_frame_fresh _ _ _ _ _ _ _ F C) as [o [_ [-> ->]]]. intros [X|X].
    + subst o. pose proof (first_sets (c_sh c)) as FS. rewrite A in FS. cbn [fst] in FS. congruence.
    + apply (H S0 tid t N X).
Qed.

(* once ANY thread has executed the first action of a dispose() call -- a fortiori once any dispose()
   returned -- is_disposed is True, and it stays True *)
Theorem reports_disposed : forall progs sched k t,
  let c := crun start act (cinit d_init progs) sched in
  nth_error (c_ths c) k = Some t -> In DDispose (t_hist t) -> c_sh c = true.
Proof.
  intros progs sched k t c N I.
  assert (rep_inv c) as R.
  { unfold c. apply (crun_invariant start act rep_inv rep_inv_step). intros _ k0 t0 N0.
    unfold cinit in N0. cbn [c_ths] in N0. apply nth_error_In in N0. apply in_map_iff in N0.
    destruct N0 as [p [<- _]]. cbn [t_hist]. intros []. }
  destruct (c_sh c) eqn:S; [reflexivity|]. exfalso. exact (R S k t N I).
Qed.
End Reports.

Theorem disposable_conc_reports : forall progs sched k t,
  let c := dd_run progs sched in
  nth_error (c_ths c) k = Some t -> In DDispose (t_hist t) -> c_sh c = true.
Proof.
  intros progs sched k t. apply (reports_disposed dd_start dd_act).
  - intros s l. destruct l, s; cbn; congruence.
  - intros s. destruct s; reflexivity.
Qed.

Theorem boolean_conc_reports : forall progs sched k t,
  let c := bd_run progs sched in
  nth_error (c_ths c) k = Some t -> In DDispose (t_hist t) -> c_sh c = true.
Proof.
  intros progs sched k t. apply (reports_disposed bd_start bd_act).
  - intros s l. destruct l, s; cbn; congruence.
  - intros s. reflexivity.
Qed.

(* BooleanDisposable only flips its flag: it never invokes or disposes anything *)
Definition quiet (o : obs) : bool := match o with OBool _ => true | _ => false end.
Theorem boolean_conc_flag_only : forall progs sched,
  forallb quiet (plain (c_log (bd_run progs sched))) = true.
Proof.
  intros progs sched. unfold bd_run.
  apply (crun_invariant bd_start bd_act (fun c => forallb quiet (plain (c_log c)) = true)); [|reflexivity].
  intros c tid H.
  destruct (tstep_cases bd_start bd_act c tid) as [E|[t [l [todo [hist [s' [l' [out [N [F [A E]]]]]]]]]]]; rewrite E; [exact H|].
  cbn [c_log]. rewrite plain_app, plain_tag, forallb_app, H. destruct l; cbn in A; injection A as _ _ <-; reflexivity.
Qed.

(* ======================================================================= *)
(* ScheduledDisposable, every interleaving of dispose() calls and scheduler workers *)
Definition hc_run (w : item) (progs : list (list schop)) (sched : list nat) :=
  crun hc_start hc_act (cinit (sch_init w) progs) sched.

Section SchedConc.
Variable i : item.
Definition hc_pl (l : schlocal) : Z := match l with HL_calls l => zcnt i l | _ => 0 end.
Definition hc_adds (o : schop) : Z := 0.
Definition hc_held (s : schstate) : Z := Z.of_nat (ocnt i (s_cur (sch_inner s))).

Lemma hc_calls_balance : forall l,
  zdisp i (snd (calls hl_calls l [])) + opl hc_pl (fst (calls hl_calls l [])) = zcnt i l.
Proof. intros. apply calls_balance0; [intros; reflexivity|reflexivity]. Qed.

Lemma hc_act_ok : forall s l,
  zdisp i (snd (hc_act s l)) + hc_held (fst (fst (hc_act s l))) + opl hc_pl (snd (fst (hc_act s l)))
  = hc_held s + hc_pl l.
Proof.
  intros [inner q] l. unfold hc_held. destruct l as [| | |l|]; cbn [hc_act hc_pl sch_inner sch_queue].
  - cbn [fst snd opl sch_inner]. rewrite zdisp_cons, zdisp_nil. cbn [is_disp]. lia.
  - destruct q; cbn [fst snd opl sch_inner]; rewrite ?zdisp_cons, ?zdisp_nil; cbn [is_disp hc_pl]; lia.
  - destruct (s_disposed inner).
    + cbn [fst snd opl sch_inner]. rewrite zdisp_nil. lia.
    + pose proof (hc_calls_balance (opt_list (s_cur inner))) as B.
      destruct (calls hl_calls (opt_list (s_cur inner)) []) as [l' out].
      cbn [fst snd sch_inner s_cur ocnt] in *. rewrite zcnt_opt_list in B. lia.
  - destruct l as [|y r].
    + cbn [fst snd opl sch_inner]. rewrite zcnt_nil, zdisp_nil. lia.
    + pose proof (hc_calls_balance r) as B. destruct (calls hl_calls r []) as [l' out].
      cbn [fst snd sch_inner] in *. rewrite zdisp_cons, zcnt_cons. cbn [is_disp]. destruct (Nat.eqb i y); lia.
  - cbn [fst snd opl sch_inner]. rewrite zdisp_cons, zdisp_nil. cbn [is_disp]. lia.
Qed.
End SchedConc.

Definition hc_in_flight (i : item) (c : @config schstate schlocal schop) : Z :=
  zsum (tmeasure (hc_pl i) hc_adds) (c_ths c).
Lemma hc_in_flight_nonneg : forall i c, 0 <= hc_in_flight i c.
Proof.
  intros. unfold hc_in_flight. apply zsum_nonneg. intros t. apply tmeasure_nonneg.
  - intros l. destruct l; cbn [hc_pl]; unfold zcnt; lia.
  - intros o. unfold hc_adds. lia.
Qed.

Theorem scheduled_conc_conservation : forall w progs sched i,
  let c := hc_run w progs sched in
  zdisp i (plain (c_log c)) + Z.of_nat (ocnt i (s_cur (sch_inner (c_sh c)))) + hc_in_flight i c
  = (if Nat.eqb i w then 1 else 0).
Proof.
  intros w progs sched i.
  pose proof (conservation hc_start hc_act (zdisp i) (zdisp_app i) (hc_held i) (hc_pl i) hc_adds
                (fun o => ltac:(destruct o; reflexivity)) (hc_act_ok i) (zdisp_nil i) (sch_init w) progs sched) as H.
  cbv zeta in *. assert (zsum (zsum hc_adds) progs = 0) as Z0.
  { apply zsum_zero. intros p _. apply zsum_zero. reflexivity. }
  rewrite Z0 in H. unfold hc_held in H. unfold hc_run, hc_in_flight.
  replace (Z.of_nat (ocnt i (s_cur (sch_inner (sch_init w))))) with (if Nat.eqb i w then 1 else 0) in H
    by (cbn; destruct (Nat.eqb i w); reflexivity).
  lia.
Qed.

(* the inner slot: it holds the wrapped item until the first queued action disposes it *)
Definition sch_ok (w : item) (s : schstate) : Prop :=
  (s_disposed (sch_inner s) = true -> s_cur (sch_inner s) = None) /\
  (s_disposed (sch_inner s) = false -> s_cur (sch_inner s) = Some w).

Lemma hc_act_sch_ok : forall w s l, sch_ok w s -> sch_ok w (fst (fst (hc_act s l))).
Proof.
  intros w [[cur d] q] l [H1 H2]. unfold sch_ok in *. cbn [sch_inner s_cur s_disposed] in *.
  destruct l as [| | |l|]; cbn [hc_act sch_inner sch_queue s_cur s_disposed].
  - cbn [fst sch_inner s_cur s_disposed]. split; assumption.
  - destruct q; cbn [fst sch_inner s_cur s_disposed]; split; assumption.
  - destruct d; [cbn [fst sch_inner s_cur s_disposed]; split; assumption|].
    destruct (calls hl_calls (opt_list cur) []). cbn [fst sch_inner s_cur s_disposed]. split; [reflexivity|discriminate].
  - destruct l as [|y r]; [cbn [fst sch_inner s_cur s_disposed]; split; assumption|].
    destruct (calls hl_calls r []). cbn [fst sch_inner s_cur s_disposed]. split; assumption.
  - cbn [fst sch_inner s_cur s_disposed]. split; assumption.
Qed.

Lemma hc_run_sch_ok : forall w progs sched, sch_ok w (c_sh (hc_run w progs sched)).
Proof.
  intros. unfold hc_run. apply (shared_invariant hc_start hc_act (sch_ok w) (hc_act_sch_ok w)).
  split; [discriminate|reflexivity].
Qed.

(* relation between "the scheduler invoked a queued action" (ORun) and the inner slot being disposed *)
Definition hc_inv (c : @config schstate schlocal schop) : Prop :=
  (forall k t, nth_error (c_ths c) k = Some t -> t_cur t = Some HL_lock -> (1 <= runs (plain (c_log c)))%nat) /\
  ((1 <= runs (plain (c_log c)))%nat ->
   s_disposed (sch_inner (c_sh c)) = true \/
   exists k t, nth_error (c_ths c) k = Some t /\ t_cur t = Some HL_lock) /\
  (s_disposed (sch_inner (c_sh c)) = true -> (1 <= runs (plain (c_log c)))%nat).

Lemma hc_start_not_lock : forall o, hc_start o <> HL_lock.
Proof. intros o. destruct o; discriminate. Qed.

Lemma calls_hl_not_lock : forall l, fst (calls hl_calls l []) <> Some HL_lock.
Proof. intros l. destruct l; cbn; discriminate. Qed.
Lemma calls_hl_no_runs : forall l, runs (snd (calls hl_calls l [])) = 0%nat.
Proof. intros l. destruct l; reflexivity. Qed.

(* an action that is neither the pop nor the locked block: flag and run count unchanged, and the
   acting thread does not end up at the locked block *)
Lemma hc_inv_step_plain : forall c tid t l todo hist s' l' out,
  hc_inv c -> nth_error (c_ths c) tid = Some t -> next_frame hc_start t = Some (l, todo, hist) ->
  l <> HL_lock -> s_disposed (sch_inner s') = s_disposed (sch_inner (c_sh c)) ->
  l' <> Some HL_lock -> runs out = 0%nat ->
  hc_inv (Config s' (set_nth tid (Thread l' todo hist) (c_ths c)) (c_log c ++ map (pair tid) out)).
Proof.
  intros c tid t l todo hist s' l' out [I1 [I2 I3]] N F NL SD NL' R0.
  unfold hc_inv. cbn [c_sh c_ths c_log]. rewrite plain_app, plain_tag, runs_app, R0, Nat.add_0_r, SD.
  split; [|split].
  - intros k t' N' C'. destruct (nth_error_set_nth_cases _ _ _ _ _ _ N') as [[-> ->]|[_ N2]].
    + cbn [t_cur] in C'. contradiction.
    + apply (I1 k t' N2 C').
  - intros R. destruct (I2 R) as [D|[k [t0 [N0 C0]]]]; [left; exact D|right].
    destruct (Nat.eq_dec k tid) as [->|NE].
    + rewrite N in N0. injection N0 as <-. destruct (next_frame_cur _ _ _ _ _ _ _ _ F C0) as [X _]. congruence.
    + exists k, t0. split; [rewrite nth_set_nth_neq by exact NE; exact N0|exact C0].
  - exact I3.
Qed.

Lemma hc_inv_step : forall c tid, hc_inv c -> hc_inv (tstep hc_start hc_act c tid).
Proof.
  intros c tid I.
  destruct (tstep_cases hc_start hc_act c tid) as [E|[t [l [todo [hist [s' [l' [out [N [F [A E]]]]]]]]]]]; rewrite E;
    [exact I|].
  assert (tid < length (c_ths c))%nat as Ltid by (apply nth_error_Some; congruence).
  destruct l as [| | |l0|].
  - (* schedule *)
    cbn [hc_act] in A. injection A as <- <- <-.
    apply (hc_inv_step_plain c tid t HL_sched todo hist); auto; discriminate.
  - (* pop *)
    cbn [hc_act] in A. destruct (sch_queue (c_sh c)) as [|q'].
    + injection A as <- <- <-. apply (hc_inv_step_plain c tid t HL_pop todo hist); auto; discriminate.
    + injection A as <- <- <-. destruct I as [I1 [I2 I3]].
      unfold hc_inv. cbn [c_sh c_ths c_log sch_inner]. rewrite plain_app, plain_tag, runs_app.
      change (runs [ORun]) with 1%nat. split; [|split].
      * intros _ _ _ _. lia.
      * intros _. right. exists tid, (Thread (Some HL_lock) todo hist).
        split; [apply nth_set_nth_eq, Ltid|reflexivity].
      * intros _. lia.
  - (* the locked block of inner.dispose() *)
    destruct I as [I1 [I2 I3]].
    assert (1 <= runs (plain (c_log c)))%nat as AtLock.
    { destruct (t_cur t) as [l0|] eqn:C.
      - destruct (next_frame_cur _ _ _ _ _ _ _ _ F C) as [-> _]. apply (I1 tid t N C).
      - destruct (next_frame_fresh _ _ _ _ _ _ _ F C) as [o [_ [X _]]]. symmetry in X.
        exfalso. exact (hc_start_not_lock o X). }
    cbn [hc_act] in A. destruct (s_disposed (sch_inner (c_sh c))) eqn:D.
    + injection A as <- <- <-. unfold hc_inv. cbn [c_sh c_ths c_log]. rewrite plain_app, plain_tag, runs_app.
      change (runs []) with 0%nat. rewrite Nat.add_0_r. split; [|split].
      * intros _ _ _ _. exact AtLock.
      * intros _. left. exact D.
      * intros _. exact AtLock.
    + destruct (calls hl_calls (opt_list (s_cur (sch_inner (c_sh c)))) []) as [l1 o1] eqn:CL. injection A as <- <- <-.
      unfold hc_inv. cbn [c_sh c_ths c_log sch_inner s_disposed]. rewrite plain_app, plain_tag, runs_app.
      split; [|split].
      * intros _ _ _ _. lia.
      * intros _. left. reflexivity.
      * intros _. lia.
  - (* a dispose() call on the wrapped item *)
    cbn [hc_act] in A. destruct l0 as [|y r].
    + injection A as <- <- <-. apply (hc_inv_step_plain c tid t (HL_calls []) todo hist); auto; discriminate.
    + pose proof (calls_hl_not_lock r) as X1. pose proof (calls_hl_no_runs r) as X2.
      destruct (calls hl_calls r []) as [l1 o1]. cbn [fst snd] in X1, X2. injection A as <- <- <-.
      apply (hc_inv_step_plain c tid t (HL_calls (y :: r)) todo hist); auto; try discriminate;
        try (unfold runs in *; cbn [filter is_run]; exact X2).
  - cbn [hc_act] in A. injection A as <- <- <-.
    apply (hc_inv_step_plain c tid t HL_query todo hist); auto; discriminate.
Qed.

Lemma hc_run_inv : forall w progs sched, hc_inv (hc_run w progs sched).
Proof.
  intros. unfold hc_run. apply (crun_invariant hc_start hc_act hc_inv hc_inv_step).
  unfold hc_inv, cinit. cbn [c_sh c_ths c_log plain map runs filter length sch_init]. split; [|split].
  - intros k t N C. apply nth_error_In in N. apply in_map_iff in N. destruct N as [p [<- _]]. discriminate C.
  - intros X. lia.
  - cbn. discriminate.
Qed.

(* EXACTLY ONCE, ON THE SCHEDULER: under every interleaving the wrapped item receives at most one
   dispose() and nothing else is disposed; once all calls returned it received exactly one iff the
   scheduler invoked at least one of the queued actions *)
Theorem scheduled_conc_once : forall w progs sched,
  let c := hc_run w progs sched in
  zdisp w (plain (c_log c)) <= 1 /\
  (forall j, j <> w -> zdisp j (plain (c_log c)) = 0) /\
  (quiescent c = true ->
   zdisp w (plain (c_log c)) = (if (1 <=? runs (plain (c_log c)))%nat then 1 else 0) /\
   s_disposed (sch_inner (c_sh c)) = (1 <=? runs (plain (c_log c)))%nat).
Proof.
  intros w progs sched c.
  pose proof (scheduled_conc_conservation w progs sched w) as Hw. cbv zeta in Hw. fold c in Hw.
  rewrite Nat.eqb_refl in Hw. pose proof (hc_in_flight_nonneg w c) as NF.
  split; [unfold zdisp in *; lia|]. split.
  - intros j Hj. pose proof (scheduled_conc_conservation w progs sched j) as Hjc. cbv zeta in Hjc. fold c in Hjc.
    destruct (Nat.eqb j w) eqn:E; [apply Nat.eqb_eq in E; contradiction|].
    pose proof (hc_in_flight_nonneg j c). unfold zdisp in *. lia.
  - intros Q. destruct (hc_run_inv w progs sched) as [_ [I2 I3]]. fold c in I2, I3.
    destruct (hc_run_sch_ok w progs sched) as [O1 O2]. fold c in O1, O2.
    assert (hc_in_flight w c = 0) as F0 by (apply (quiescent_tmeasure (hc_pl w) hc_adds c Q)).
    destruct (s_disposed (sch_inner (c_sh c))) eqn:D.
    + specialize (I3 eq_refl). assert ((1 <=? runs (plain (c_log c)))%nat = true) as R by (apply Nat.leb_le; exact I3).
      rewrite R. rewrite (O1 eq_refl) in Hw. cbn [ocnt] in Hw. split; [lia|reflexivity].
    + assert ((1 <=? runs (plain (c_log c)))%nat = false) as R.
      { apply Nat.leb_gt. destruct (le_lt_dec 1 (runs (plain (c_log c)))) as [LE|LT]; [|exact LT]. exfalso.
        destruct (I2 LE) as [X|[k [t [Nk Ck]]]]; [discriminate X|].
        unfold quiescent in Q. rewrite forallb_forall in Q. specialize (Q t (nth_error_In _ _ Nk)).
        unfold finished in Q. rewrite Ck in Q. discriminate Q. }
      rewrite R. rewrite (O2 eq_refl) in Hw. cbn [ocnt] in Hw. rewrite Nat.eqb_refl in Hw. split; [lia|reflexivity].
Qed.

(* ======================================================================= *)
(* RefCountDisposable, every interleaving                                    *)
Definition rc_run (progs : list (list rop)) (sched : list nat) := crun rc_start rc_act (cinit r_init progs) sched.

Definition b2z (b : bool) : Z := if b then 1 else 0.
Definition zero_acc (l : list obs) : Z := 0.
Definition radds (o : rop) : Z := 0.
(* tokens: a thread between taking an inner handle's parent and the decrement holds one unit of count *)
Definition tok_pl (l : rlocal) : Z := match l with RL_relread | RL_rellock => 1 | _ => 0 end.
Definition tok_held (s : rstate) : Z := Z.of_nat (live (r_deps s)) - r_count s.
(* the underlying item: a thread that set is_disposed owes exactly one dispose() *)
Definition und_pl (l : rlocal) : Z := match l with RL_callu => 1 | _ => 0 end.
Definition und_held (s : rstate) : Z := - b2z (r_disposed s).
Definition und_acc (l : list obs) : Z := zdisp underlying l.

Definition rc_tokens (c : @config rstate rlocal rop) : Z := zsum (tmeasure tok_pl radds) (c_ths c).
Definition rc_owed (c : @config rstate rlocal rop) : Z := zsum (tmeasure und_pl radds) (c_ths c).

Definition rc_inv (c : @config rstate rlocal rop) : Prop :=
  r_count (c_sh c) = Z.of_nat (live (r_deps (c_sh c))) + rc_tokens c /\
  und_acc (plain (c_log c)) + rc_owed c = b2z (r_disposed (c_sh c)) /\
  r_disposed (c_sh c) = (r_primary (c_sh c) && (r_count (c_sh c) =? 0))%bool.

Lemma radds_zsum : forall l, zsum radds l = 0.
Proof. intros. apply zsum_zero. reflexivity. Qed.
Lemma tok_nonneg : forall t, 0 <= tmeasure tok_pl radds t.
Proof. intros. apply tmeasure_nonneg; [intros l; destruct l; cbn; lia|intros; unfold radds; lia]. Qed.
Lemma und_nonneg : forall t, 0 <= tmeasure und_pl radds t.
Proof. intros. apply tmeasure_nonneg; [intros l; destruct l; cbn; lia|intros; unfold radds; lia]. Qed.
Lemma rc_tokens_nonneg : forall c, 0 <= rc_tokens c.
Proof. intros. apply zsum_nonneg, tok_nonneg. Qed.
Lemma rc_owed_nonneg : forall c, 0 <= rc_owed c.
Proof. intros. apply zsum_nonneg, und_nonneg. Qed.

Lemma rc_start_tok : forall o, tok_pl (rc_start o) = radds o.
Proof. intros o. destruct o; reflexivity. Qed.
Lemma rc_start_und : forall o, und_pl (rc_start o) = radds o.
Proof. intros o. destruct o; reflexivity. Qed.

(* a thread that holds a token: the count is positive and the object cannot be released yet *)
Lemma rc_token_pos : forall c tid t l todo hist,
  rc_inv c -> nth_error (c_ths c) tid = Some t -> next_frame rc_start t = Some (l, todo, hist) ->
  tok_pl l = 1 -> 1 <= r_count (c_sh c) /\ r_disposed (c_sh c) = false.
Proof.
  intros c tid t l todo hist [I1 [_ I3]] N F T.
  pose proof (zsum_ge_elem _ (tmeasure tok_pl radds) (c_ths c) tid t tok_nonneg N) as G.
  rewrite (next_frame_measure rc_start tok_pl radds rc_start_tok t l todo hist F), radds_zsum, T in G.
  fold (rc_tokens c) in G. assert (1 <= r_count (c_sh c)) as P by lia. split; [exact P|].
  rewrite I3. destruct (r_count (c_sh c) =? 0) eqn:E; [apply Z.eqb_eq in E; lia|]. apply andb_false_r.
Qed.

Lemma live_snoc : forall l d, live (l ++ [d]) = (live l + (if is_live d then 1 else 0))%nat.
Proof. intros. rewrite live_app, live_cons, live_nil. unfold b2n. destruct (is_live d); lia. Qed.

Lemma rc_inv_step : forall c tid, rc_inv c -> rc_inv (tstep rc_start rc_act c tid).
Proof.
  intros c tid I.
  destruct (tstep_cases rc_start rc_act c tid) as [E|[t [l [todo [hist [s' [l' [out [N [F [A E]]]]]]]]]]]; [rewrite E; exact I|].
  pose proof I as [I1 [I2 I3]].
  (* the balances of this action, from which the two sums follow *)
  assert (tok_held s' + opl tok_pl l' = tok_held (c_sh c) + tok_pl l /\
          und_acc out + und_held s' + opl und_pl l' = und_held (c_sh c) + und_pl l /\
          r_disposed s' = (r_primary s' && (r_count s' =? 0))%bool) as [B1 [B2 B3]].
  { assert (0 <= r_count (c_sh c)) as CN by (pose proof (rc_tokens_nonneg c); lia).
    unfold tok_held, und_held, und_acc. destruct (c_sh c) as [cn p d deps] eqn:SH.
    cbn [r_count r_primary r_disposed r_deps] in *.
    destruct l; cbn [rc_act r_step r_count r_primary r_disposed r_deps] in A.
    - (* the disposable property *)
      destruct d; cbn [fst] in A; injection A as <- <- <-; cbn [r_count r_primary r_disposed r_deps opl tok_pl und_pl];
        rewrite live_snoc, zdisp_nil; cbn [is_live b2z]; (split; [lia|split; [lia|]]).
      + exact I3.
      + destruct (cn + 1 =? 0) eqn:E1; [apply Z.eqb_eq in E1; lia|]. rewrite andb_false_r. reflexivity.
    - (* an inner handle's own locked block *)
      destruct (nth_error deps k) as [[[|]|b]|] eqn:NK; injection A as <- <- <-;
        cbn [r_count r_primary r_disposed r_deps opl tok_pl und_pl]; rewrite zdisp_nil.
      + pose proof (live_set_nth deps k _ (DInner false) NK) as LS. cbn [is_live b2n] in LS.
        split; [lia|split; [lia|exact I3]].
      + split; [lia|split; [lia|exact I3]].
      + pose proof (live_set_nth deps k _ (DInert true) NK) as LS. cbn [is_live b2n] in LS.
        split; [lia|split; [lia|exact I3]].
      + split; [lia|split; [lia|exact I3]].
    - (* release(): unlocked is_disposed pre-check; a token holder never sees it set *)
      destruct (rc_token_pos c tid t RL_relread todo hist I N F eq_refl) as [_ D]. rewrite SH in D. cbn in D. rewrite D in *.
      injection A as <- <- <-. cbn [r_count r_primary r_disposed r_deps opl tok_pl und_pl]. rewrite zdisp_nil.
      split; [lia|split; [lia|exact I3]].
    - (* release(): the decrement *)
      destruct (rc_token_pos c tid t RL_rellock todo hist I N F eq_refl) as [P D]. rewrite SH in P, D. cbn in P, D. rewrite D in *.
      destruct ((cn - 1 =? 0) && p)%bool eqn:Z0; injection A as <- <- <-;
        cbn [r_count r_primary r_disposed r_deps opl tok_pl und_pl b2z]; rewrite zdisp_nil.
      + apply andb_true_iff in Z0. destruct Z0 as [Z1 ->]. rewrite Z1. split; [lia|split; [lia|reflexivity]].
      + split; [lia|split; [lia|]]. rewrite andb_comm in Z0. symmetry. exact Z0.
    - (* dispose(): unlocked pre-check *)
      destruct d; injection A as <- <- <-; cbn [r_count r_primary r_disposed r_deps opl tok_pl und_pl]; rewrite zdisp_nil;
        (split; [lia|split; [lia|exact I3]]).
    - (* dispose(): locked block *)
      destruct p.
      + injection A as <- <- <-. cbn [r_count r_primary r_disposed r_deps opl tok_pl und_pl]. rewrite zdisp_nil.
        split; [lia|split; [lia|exact I3]].
      + cbn [andb] in I3. subst d. destruct (cn =? 0) eqn:Z0; injection A as <- <- <-;
          cbn [r_count r_primary r_disposed r_deps opl tok_pl und_pl b2z]; rewrite zdisp_nil.
        * rewrite Z0. split; [lia|split; [lia|reflexivity]].
        * rewrite Z0. split; [lia|split; [lia|reflexivity]].
    - (* the call on the underlying item *)
      injection A as <- <- <-. cbn [r_count r_primary r_disposed r_deps opl tok_pl und_pl].
      rewrite zdisp_cons, zdisp_nil. cbn [is_disp underlying Nat.eqb]. split; [lia|split; [lia|exact I3]].
    - injection A as <- <- <-. cbn [r_count r_primary r_disposed r_deps opl tok_pl und_pl].
      rewrite zdisp_cons, zdisp_nil. cbn [is_disp]. split; [lia|split; [lia|exact I3]]. }
  rewrite E. unfold rc_inv, rc_tokens, rc_owed. cbn [c_sh c_ths c_log].
  pose proof (zsum_set_nth _ (tmeasure tok_pl radds) (c_ths c) tid (Thread l' todo hist) t N) as Z1.
  pose proof (zsum_set_nth _ (tmeasure und_pl radds) (c_ths c) tid (Thread l' todo hist) t N) as Z2.
  rewrite (next_frame_measure rc_start tok_pl radds rc_start_tok t l todo hist F) in Z1.
  rewrite (next_frame_measure rc_start und_pl radds rc_start_und t l todo hist F) in Z2.
  change (tmeasure tok_pl radds (Thread l' todo hist)) with (opl tok_pl l' + zsum radds todo) in Z1.
  change (tmeasure und_pl radds (Thread l' todo hist)) with (opl und_pl l' + zsum radds todo) in Z2.
  unfold rc_tokens, rc_owed in I1, I2. unfold tok_held, und_held, und_acc in *.
  rewrite plain_app, plain_tag, zdisp_app. split; [lia|split; [lia|exact B3]].
Qed.

Theorem rc_run_inv : forall progs sched, rc_inv (rc_run progs sched).
Proof.
  intros. unfold rc_run. apply (crun_invariant rc_start rc_act rc_inv rc_inv_step).
  unfold rc_inv, rc_tokens, rc_owed, cinit. cbn [c_sh c_ths c_log r_init r_count r_primary r_disposed r_deps plain map].
  rewrite !zsum_map. unfold tmeasure. cbn [t_cur t_todo opl].
  assert (forall progs : list (list rop), zsum (fun x => 0 + zsum radds x) progs = 0) as Z0.
  { intros ps. apply zsum_zero. intros p _. rewrite radds_zsum. reflexivity. }
  rewrite !Z0. repeat split.
Qed.

(* C27 under every interleaving, at every moment:
   - the underlying item receives at most one dispose();
   - if it received one, dispose() was executed on the primary (is_primary_disposed), the count is zero:
     no handed-out dependent is still undisposed and no dependent's dispose() is still in progress
     between taking the handle and the decrement -- each handle contributes at most one decrement
     however many threads dispose it, because its parent link is taken under its own lock;
   - when all calls have returned, it received exactly one iff the primary was disposed and every
     handed-out dependent was disposed. *)
Theorem refcount_conc : forall progs sched,
  let c := rc_run progs sched in
  und_acc (plain (c_log c)) <= 1 /\
  (1 <= und_acc (plain (c_log c)) ->
   r_primary (c_sh c) = true /\ live (r_deps (c_sh c)) = 0%nat /\ rc_tokens c = 0) /\
  (quiescent c = true ->
   und_acc (plain (c_log c)) = b2z (r_primary (c_sh c) && (live (r_deps (c_sh c)) =? 0)%nat)).
Proof.
  intros progs sched c. destruct (rc_run_inv progs sched) as [I1 [I2 I3]]. fold c in I1, I2, I3.
  pose proof (rc_tokens_nonneg c) as TN. pose proof (rc_owed_nonneg c) as ON.
  split; [unfold b2z in I2; destruct (r_disposed (c_sh c)); lia|]. split.
  - intros U. assert (r_disposed (c_sh c) = true) as D by (unfold b2z in I2; destruct (r_disposed (c_sh c)); [reflexivity|lia]).
    rewrite D in I3. symmetry in I3. apply andb_true_iff in I3. destruct I3 as [P Z0]. apply Z.eqb_eq in Z0.
    split; [exact P|]. split; lia.
  - intros Q. assert (rc_tokens c = 0) as T0 by (apply (quiescent_tmeasure tok_pl radds c Q)).
    assert (rc_owed c = 0) as O0 by (apply (quiescent_tmeasure und_pl radds c Q)).
    rewrite O0, Z.add_0_r in I2. rewrite I2, I3. f_equal. f_equal.
    destruct (live (r_deps (c_sh c)) =? 0)%nat eqn:L.
    + apply Nat.eqb_eq in L. apply Z.eqb_eq. lia.
    + apply Nat.eqb_neq in L. apply Z.eqb_neq. lia.
Qed.

(* the primary flag is only ever set by a dispose() call: if no program contains one it stays unset,
   and so the underlying item is never disposed *)
Definition rc_nodisp (c : @config rstate rlocal rop) : Prop :=
  r_primary (c_sh c) = false /\
  forall k t, nth_error (c_ths c) k = Some t ->
    ~ In RDispose (t_todo t) /\ t_cur t <> Some RL_read /\ t_cur t <> Some RL_lock.

Lemma rc_nodisp_step : forall c tid, rc_nodisp c -> rc_nodisp (tstep rc_start rc_act c tid).
Proof.
  intros c tid [P H].
  destruct (tstep_cases rc_start rc_act c tid) as [E|[t [l [todo [hist [s' [l' [out [N [F [A E]]]]]]]]]]]; rewrite E;
    [split; assumption|].
  destruct (H tid t N) as [T1 [T2 T3]].
  assert (l <> RL_read /\ l <> RL_lock /\ ~ In RDispose todo) as [L1 [L2 L3]].
  { destruct (t_cur t) as [l0|] eqn:C.
    - rewrite (next_frame_cur_todo _ _ _ _ _ _ _ _ F C).
      destruct (next_frame_cur _ _ _ _ _ _ _ _ F C) as [<- _]. repeat split; congruence.
    - destruct (next_frame_fresh _ _ _ _ _ _ _ F C) as [o [TD [-> _]]]. rewrite TD in T1.
      assert (o <> RDispose) as NO by (intros ->; apply T1; left; reflexivity).
      repeat split; try (destruct o; cbn; congruence). intros X. apply T1. right. exact X. }
  assert (r_primary s' = false /\ l' <> Some RL_read /\ l' <> Some RL_lock) as [P' [N1 N2]].
  { destruct (c_sh c) as [cn p d deps]. cbn [r_primary] in P. subst p.
    destruct l; cbn [rc_act r_step r_count r_primary r_disposed r_deps] in A; try congruence.
    - destruct d; cbn [fst] in A; injection A as <- <- <-; repeat split; discriminate.
    - destruct (nth_error deps k) as [[[|]|b]|]; injection A as <- <- <-; repeat split; discriminate.
    - destruct d; injection A as <- <- <-; repeat split; discriminate.
    - rewrite andb_false_r in A. injection A as <- <- <-. repeat split; discriminate.
    - injection A as <- <- <-. repeat split; discriminate.
    - injection A as <- <- <-. repeat split; discriminate. }
  split; [exact P'|]. cbn [c_ths]. intros k t' N'.
  destruct (nth_error_set_nth_cases _ _ _ _ _ _ N') as [[-> ->]|[_ N2']]; [|apply (H k t' N2')].
  cbn [t_todo t_cur]. repeat split; assumption.
Qed.

Theorem refcount_conc_needs_primary : forall progs sched,
  (forall p, In p progs -> ~ In RDispose p) ->
  und_acc (plain (c_log (rc_run progs sched))) = 0.
Proof.
  intros progs sched NP.
  assert (rc_nodisp (rc_run progs sched)) as [P _].
  { unfold rc_run. apply (crun_invariant rc_start rc_act rc_nodisp rc_nodisp_step). split; [reflexivity|].
    intros k t N. unfold cinit in N. cbn [c_ths] in N. apply nth_error_In in N. apply in_map_iff in N.
    destruct N as [p [<- Hp]]. cbn [t_todo t_cur]. repeat split; [apply NP, Hp|discriminate|discriminate]. }
  destruct (refcount_conc progs sched) as [U1 [U2 _]].
  destruct (Z_lt_le_dec (und_acc (plain (c_log (rc_run progs sched)))) 1) as [LT|GE].
  - unfold und_acc, zdisp in *. lia.
  - destruct (U2 GE) as [X _]. congruence.
Qed.

(* ======================================================================= *)
(* REFUTATIONS of the property for SingleAssignmentDisposable AS IT WAS before
   proposed_fixes/C26-singleassignment-locked-decision.diff (models [sad0_step],
   [s0_act]); every witness was reproduced on the old source file (the two
   interleavings under the K3 controller with exactly these schedules).
   Item 0 stands for a falsy disposable (an empty CompositeDisposable: __len__ == 0). *)
Definition truthy_ex (i : item) : bool := negb (Nat.eqb i 0).

(* dispose(); then assign a falsy disposable: it is never disposed *)
Lemma sad0_falsy_value_refuted :
  log (sad0_step truthy_ex) s_init [SDispose; SSet 0%nat] = [].
Proof. vm_compute. reflexivity. Qed.

(* assign a falsy disposable, assign again: accepted (no exception), the first one is dropped undisposed *)
Lemma sad0_falsy_current_refuted :
  outs (sad0_step truthy_ex) s_init [SSet 0%nat; SSet 1%nat; SGet] = [[]; []; [OItem (Some 1%nat)]].
Proof. vm_compute. reflexivity. Qed.

Definition s0_run (progs : list (list sop)) (sched : list nat) :=
  crun s0_start (s0_act (fun _ => true)) (cinit s_init progs) sched.

(* T0 assigns item 1 (reads current, runs its locked block), T1 disposes completely, T0 re-reads
   is_disposed outside the lock: item 1 receives TWO dispose() calls *)
Lemma sad0_double_dispose_race_refuted :
  c_log (s0_run [[SSet 1%nat]; [SDispose]] [0; 0; 1; 1; 0; 0]%nat) = [(1%nat, ODisp 1%nat); (0%nat, ODisp 1%nat)].
Proof. vm_compute. reflexivity. Qed.

(* two threads both pass the unlocked `if self.current`: the second assignment is not rejected and
   silently replaces the first, which is never disposed *)
Lemma sad0_double_assign_race_refuted :
  let c := s0_run [[SSet 1%nat]; [SSet 2%nat]] [0; 1; 0; 1; 0; 1]%nat in
  c_log c = [] /\ s_cur (c_sh c) = Some 2%nat /\ quiescent c = true.
Proof. vm_compute. repeat split. Qed.

(* the same histories / schedules on the model of the CURRENT code *)
Lemma sad_falsy_value_fixed : log sad_step s_init [SDispose; SSet 0%nat] = [ODisp 0%nat].
Proof. vm_compute. reflexivity. Qed.
Lemma sad_falsy_current_fixed :
  outs sad_step s_init [SSet 0%nat; SSet 1%nat; SGet] = [[]; [ORaise]; [OItem (Some 0%nat)]].
Proof. vm_compute. reflexivity. Qed.
