(* Bit-level identity of binary64 values (PrimFloat), used by correspondences that
   compare with float.hex() of the implementation.  Definitions only; evaluating
   them (vm_compute) uses the kernel's primitive floats, no axiom. *)
From Coq Require Import ZArith Bool.
From Coq Require Import PrimFloat FloatOps SpecFloat.

Definition float_same (a b : float) : bool :=
  match Prim2SF a, Prim2SF b with
  | S754_zero s, S754_zero s' => Bool.eqb s s'
  | S754_infinity s, S754_infinity s' => Bool.eqb s s'
  | S754_nan, S754_nan => true
  | S754_finite s m e, S754_finite s' m' e' => Bool.eqb s s' && Pos.eqb m m' && Z.eqb e e'
  | _, _ => false
  end.
