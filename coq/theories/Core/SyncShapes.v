(* Per-shape facts about Core/SyncSources.v: bounded work for the pipeline shapes of C14 over
   from_iterable / range / generate / repeat with the default scheduler, starvation (refuted
   shapes), and the schedulers that run the action inside schedule().  Used by Props/C14.v. *)
From RxVerif Require Import Base.Prelude Core.SyncSources Core.SyncSourcesFacts.

(* one dispatch of the trampoline, computed *)
Ltac one_step :=
  match goal with
  | |- context [run _ _ _ _ ?f _] =>
      destruct f as [|f]; [exfalso; cbn in *; lia|]; erewrite run_step by (cbn; reflexivity);
      unfold set_net, set_q, pulled; cbn
  end.

(* dispatch until the action of the never-ending source is at the head (from_iterable) /
   alone in the queue (range, generate) *)
Ltac warm_iter :=
  repeat (lazymatch goal with
          | |- context [St _ _ _ _ _ _ (TIter 0 :: _) _ _ _] => fail
          | _ => one_step
          end).
Ltac warm_step :=
  repeat (lazymatch goal with
          | |- context [St _ _ _ _ _ _ [TStep 0] _ _ _] => fail
          | _ => one_step
          end).

Ltac start := unfold run_default, init; cbn.

Ltac loop_iter N C P kk :=
  eapply (iter_loop _ N C P) with (k := kk);
  [ | try exact I; try reflexivity | reflexivity | try apply take_stops | cbn in *; lia ].
Ltac loop_step N C P kk :=
  eapply (step_loop _ N C P) with (k := kk);
  [ | try exact I; try reflexivity | reflexivity | try apply take_stops | cbn in *; lia ].

Section Shapes.
Variable gen : nat -> Z.

(* ---- linear pipelines (also share()): any consumer ---- *)
Theorem lin_iter : forall C k fuel, stops_at C gen (c_init C) 0 k -> (k + 1 <= fuel)%nat ->
  exists out, run_default gen KIter n_lin C fuel = Returned k out true.
Proof.
  intros C k fuel H Hf. start.
  eapply (iter_loop gen n_lin C (fun _ => True)) with (k := k); auto.
  - intros ns _ v. exists ns, []. cbn. destruct ns. auto.
  - cbn. lia.
Qed.

Theorem lin_step : forall C k fuel, stops_at C gen (c_init C) 0 k -> (k + 1 <= fuel)%nat ->
  exists out, run_default gen KStep n_lin C fuel = Returned k out true.
Proof.
  intros C k fuel H Hf. start.
  eapply (step_loop gen n_lin C (fun _ => True)) with (k := k); auto.
  intros ns _ v. exists ns, []. cbn. destruct ns. auto.
Qed.

(* ---- merge ---- *)
Lemma merge_emits : forall order ns, True -> forall v, exists ns' ps,
  n_on (n_merge order) ns 0 (Next v) = (ns', unsubs ps ++ [NEmit v]) /\ ~ In 0%nat ps /\ True.
Proof. intros order ns _ v. exists ns, []. cbn. auto. Qed.

Theorem merge_sn_iter : forall n fuel, (n + 6 <= fuel)%nat ->
  exists out, run_default gen KIter (n_merge [0; 1]) (c_take (S n)) fuel = Returned (S n) out true.
Proof. intros n fuel Hf. start. warm_iter. loop_iter (n_merge [0; 1]) (c_take (S n)) (fun _ : mst => True) (S n). apply merge_emits. Qed.

Theorem merge_ns_iter : forall n fuel, (n + 6 <= fuel)%nat ->
  exists out, run_default gen KIter (n_merge [1; 0]) (c_take (S n)) fuel = Returned (S n) out true.
Proof. intros n fuel Hf. start. warm_iter. loop_iter (n_merge [1; 0]) (c_take (S n)) (fun _ : mst => True) (S n). apply merge_emits. Qed.

Theorem merge_sn_step : forall n fuel, (n + 6 <= fuel)%nat ->
  exists out, run_default gen KStep (n_merge [0; 1]) (c_take (S n)) fuel = Returned (S n) out true.
Proof. intros n fuel Hf. start. warm_step. loop_step (n_merge [0; 1]) (c_take (S n)) (fun _ : mst => True) (S n). apply merge_emits. Qed.

Theorem merge_ns_step : forall n fuel, (n + 6 <= fuel)%nat ->
  exists out, run_default gen KStep (n_merge [1; 0]) (c_take (S n)) fuel = Returned (S n) out true.
Proof. intros n fuel Hf. start. warm_step. loop_step (n_merge [1; 0]) (c_take (S n)) (fun _ : mst => True) (S n). apply merge_emits. Qed.

(* ---- of(1).flat_map(source), of(1).switch_map(source) ---- *)
Lemma flat_outer_emits : forall ns, True -> forall v, exists ns' ps,
  n_on n_flat_outer ns 0 (Next v) = (ns', unsubs ps ++ [NEmit v]) /\ ~ In 0%nat ps /\ True.
Proof. intros ns _ v. exists ns, []. cbn. auto. Qed.

Theorem flat_outer_iter : forall n fuel, (n + 6 <= fuel)%nat ->
  exists out, run_default gen KIter n_flat_outer (c_take (S n)) fuel = Returned (S n) out true.
Proof. intros n fuel Hf. start. warm_iter. loop_iter n_flat_outer (c_take (S n)) (fun _ : mst => True) (S n). apply flat_outer_emits. Qed.

Theorem flat_outer_step : forall n fuel, (n + 6 <= fuel)%nat ->
  exists out, run_default gen KStep n_flat_outer (c_take (S n)) fuel = Returned (S n) out true.
Proof. intros n fuel Hf. start. warm_step. loop_step n_flat_outer (c_take (S n)) (fun _ : mst => True) (S n). apply flat_outer_emits. Qed.

Lemma switch_outer_emits : forall ns, w_latest ns = 1%nat -> forall v, exists ns' ps,
  n_on n_switch_outer ns 0 (Next v) = (ns', unsubs ps ++ [NEmit v]) /\ ~ In 0%nat ps /\ w_latest ns' = 1%nat.
Proof. intros ns H v. exists ns, []. cbn. rewrite H. cbn. auto. Qed.

Theorem switch_outer_iter : forall n fuel, (n + 6 <= fuel)%nat ->
  exists out, run_default gen KIter n_switch_outer (c_take (S n)) fuel = Returned (S n) out true.
Proof.
  intros n fuel Hf. start. warm_iter.
  loop_iter n_switch_outer (c_take (S n)) (fun ns : sst => w_latest ns = 1%nat) (S n). apply switch_outer_emits.
Qed.

Theorem switch_outer_step : forall n fuel, (n + 6 <= fuel)%nat ->
  exists out, run_default gen KStep n_switch_outer (c_take (S n)) fuel = Returned (S n) out true.
Proof.
  intros n fuel Hf. start. warm_step.
  loop_step n_switch_outer (c_take (S n)) (fun ns : sst => w_latest ns = 1%nat) (S n). apply switch_outer_emits.
Qed.

(* ---- concat ---- *)
Lemma concat_emits : forall b ns, True -> forall v, exists ns' ps,
  n_on (n_concat b) ns 0 (Next v) = (ns', unsubs ps ++ [NEmit v]) /\ ~ In 0%nat ps /\ True.
Proof. intros b ns _ v. exists ns, []. cbn. auto. Qed.

Theorem concat_after_iter : forall n fuel, (n + 6 <= fuel)%nat ->
  exists out, run_default gen KIter (n_concat false) (c_take (S n)) fuel = Returned (S n) out true.
Proof. intros n fuel Hf. start. warm_iter. loop_iter (n_concat false) (c_take (S n)) (fun _ : nat => True) (S n). apply concat_emits. Qed.

Theorem concat_after_step : forall n fuel, (n + 6 <= fuel)%nat ->
  exists out, run_default gen KStep (n_concat false) (c_take (S n)) fuel = Returned (S n) out true.
Proof. intros n fuel Hf. start. warm_step. loop_step (n_concat false) (c_take (S n)) (fun _ : nat => True) (S n). apply concat_emits. Qed.

(* concat(of(1,2), source).take(n+3): two elements come from of(1,2), n+1 are pulled *)
Theorem concat_before_iter : forall n fuel, (n + 10 <= fuel)%nat ->
  exists out, run_default gen KIter (n_concat true) (c_take (S (S (S n)))) fuel = Returned (S n) out true.
Proof. intros n fuel Hf. start. warm_iter. loop_iter (n_concat true) (c_take (S (S (S n)))) (fun _ : nat => True) (S n). apply concat_emits. Qed.

Theorem concat_before_step : forall n fuel, (n + 10 <= fuel)%nat ->
  exists out, run_default gen KStep (n_concat true) (c_take (S (S (S n)))) fuel = Returned (S n) out true.
Proof. intros n fuel Hf. start. warm_step. loop_step (n_concat true) (c_take (S (S (S n)))) (fun _ : nat => True) (S n). apply concat_emits. Qed.

(* ---- amb ---- *)
Lemma amb_emits : forall b ns, True -> forall v, exists ns' ps,
  n_on (n_amb b) ns 0 (Next v) = (ns', unsubs ps ++ [NEmit v]) /\ ~ In 0%nat ps /\ True.
Proof.
  intros b ns _ v. exists true, (if ns then [] else [1%nat; 2%nat]). cbn. destruct ns; cbn; repeat split; auto.
  intros [H|[H|[]]]; discriminate.
Qed.

Theorem amb_sn_iter : forall n fuel, (n + 6 <= fuel)%nat ->
  exists out, run_default gen KIter (n_amb true) (c_take (S n)) fuel = Returned (S n) out true.
Proof. intros n fuel Hf. start. warm_iter. loop_iter (n_amb true) (c_take (S n)) (fun _ : bool => True) (S n). apply amb_emits. Qed.
Theorem amb_ns_iter : forall n fuel, (n + 6 <= fuel)%nat ->
  exists out, run_default gen KIter (n_amb false) (c_take (S n)) fuel = Returned (S n) out true.
Proof. intros n fuel Hf. start. warm_iter. loop_iter (n_amb false) (c_take (S n)) (fun _ : bool => True) (S n). apply amb_emits. Qed.
Theorem amb_sn_step : forall n fuel, (n + 6 <= fuel)%nat ->
  exists out, run_default gen KStep (n_amb true) (c_take (S n)) fuel = Returned (S n) out true.
Proof. intros n fuel Hf. start. warm_step. loop_step (n_amb true) (c_take (S n)) (fun _ : bool => True) (S n). apply amb_emits. Qed.
Theorem amb_ns_step : forall n fuel, (n + 6 <= fuel)%nat ->
  exists out, run_default gen KStep (n_amb false) (c_take (S n)) fuel = Returned (S n) out true.
Proof. intros n fuel Hf. start. warm_step. loop_step (n_amb false) (c_take (S n)) (fun _ : bool => True) (S n). apply amb_emits. Qed.

(* ---- source.with_latest_from(of(9)) ---- *)
Lemma wlf_emits : forall ns, ns = true -> forall v, exists ns' ps,
  n_on (n_wlf true) ns 0 (Next v) = (ns', unsubs ps ++ [NEmit v]) /\ ~ In 0%nat ps /\ ns' = true.
Proof. intros ns -> v. exists true, []. cbn. auto. Qed.

Theorem wlf_main_iter : forall n fuel, (n + 6 <= fuel)%nat ->
  exists out, run_default gen KIter (n_wlf true) (c_take (S n)) fuel = Returned (S n) out true.
Proof. intros n fuel Hf. start. warm_iter. loop_iter (n_wlf true) (c_take (S n)) (fun ns : bool => ns = true) (S n). apply wlf_emits. Qed.
Theorem wlf_main_step : forall n fuel, (n + 6 <= fuel)%nat ->
  exists out, run_default gen KStep (n_wlf true) (c_take (S n)) fuel = Returned (S n) out true.
Proof. intros n fuel Hf. start. warm_step. loop_step (n_wlf true) (c_take (S n)) (fun ns : bool => ns = true) (S n). apply wlf_emits. Qed.

(* ---- combine_latest(of(9), source) ---- *)
Lemma combine_emits : forall b ns, k_has1 ns = true -> forall v, exists ns' ps,
  n_on (n_combine b) ns 0 (Next v) = (ns', unsubs ps ++ [NEmit v]) /\ ~ In 0%nat ps /\ k_has1 ns' = true.
Proof. intros b ns H v. eexists _, []. cbn. rewrite H. cbn. auto. Qed.

Theorem combine_of_s_iter : forall n fuel, (n + 6 <= fuel)%nat ->
  exists out, run_default gen KIter (n_combine false) (c_take (S n)) fuel = Returned (S n) out true.
Proof. intros n fuel Hf. start. warm_iter. loop_iter (n_combine false) (c_take (S n)) (fun ns : cst => k_has1 ns = true) (S n). apply combine_emits. Qed.
Theorem combine_of_s_step : forall n fuel, (n + 6 <= fuel)%nat ->
  exists out, run_default gen KStep (n_combine false) (c_take (S n)) fuel = Returned (S n) out true.
Proof. intros n fuel Hf. start. warm_step. loop_step (n_combine false) (c_take (S n)) (fun ns : cst => k_has1 ns = true) (S n). apply combine_emits. Qed.

(* ---- range/generate against shapes whose completion needs a second action: they yield ---- *)
Ltac finish_done :=
  match goal with
  | |- exists out, run _ _ _ _ _ _ = _ => eexists; rewrite run_done by (cbn in *; lia); reflexivity
  end.

(* combine_latest(source, of(9)).take(n+1): the first element is pulled before of(9) runs *)
Theorem combine_s_of_step : forall n fuel, (n + 8 <= fuel)%nat ->
  exists out, run_default gen KStep (n_combine true) (c_take (S n)) fuel = Returned (S n) out true.
Proof.
  intros n fuel Hf. start. destruct n as [|n].
  - do 2 one_step. finish_done.
  - warm_step. loop_step (n_combine true) (c_take (S (S n))) (fun ns : cst => k_has1 ns = true) (S n).
    apply combine_emits.
Qed.

(* source.take_until(of(1)): one element, then of(1)'s action completes the pipeline *)
Theorem take_until_step : forall fuel, (6 <= fuel)%nat ->
  exists out, run_default gen KStep n_take_until c_all fuel = Returned 1 out true.
Proof. intros fuel Hf. start. do 2 one_step. finish_done. Qed.

(* of(1).with_latest_from(source).take(n+1): one element is pulled, of(1) emits once and completes *)
Theorem wlf_other_step : forall n fuel, (8 <= fuel)%nat ->
  exists out, run_default gen KStep (n_wlf false) (c_take (S n)) fuel = Returned 1 out true.
Proof.
  intros n fuel Hf. start. destruct n as [|n].
  - do 2 one_step. finish_done.
  - do 3 one_step. finish_done.
Qed.

(* a dispatch whose computation needs a rewrite (symbolic port numbers / live ports) *)
Ltac sym_step tac :=
  match goal with
  | |- context [run _ _ _ _ ?f _] =>
      destruct f as [|f]; [exfalso; cbn in *; lia|];
      erewrite run_step by (cbn -[Nat.eqb]; tac; cbn -[Nat.eqb]; tac; cbn; reflexivity);
      repeat progress (try unfold set_net; try unfold set_q; try unfold pulled; try unfold deliver;
                       cbn -[Nat.eqb]; tac); cbn
  end.

(* source.flat_map(lambda x: of(x)).take(n+1) over range/generate: every element costs three
   dispatches (the source's action, the inner of(x) action: element, completion) *)
Lemma flat_map_of_step_loop : forall r a m live i p o fuel,
  existsb (Nat.eqb 0) live = true -> (3 * S r + 2 <= fuel)%nat ->
  exists out, run gen KStep n_flat_map_of (c_take (S r)) fuel
                  (St n_flat_map_of (c_take (S r)) (FSt false a (S m)) (S r) false live [TStep 0] i p o)
              = Returned (p + S r)%nat out true.
Proof.
  intros r. assert (G : forall n0 r a m live i p o fuel,
    existsb (Nat.eqb 0) live = true -> (3 * S r + 2 <= fuel)%nat ->
    exists out, run gen KStep n_flat_map_of (c_take n0) fuel
                    (St n_flat_map_of (c_take n0) (FSt false a (S m)) (S r) false live [TStep 0] i p o)
                = Returned (p + S r)%nat out true).
  { clear r. intros n0. induction r as [|r IH]; intros a m live i p o fuel HL Hf.
    - sym_step ltac:(rewrite ?HL, ?Nat.eqb_refl). sym_step ltac:(rewrite ?HL, ?Nat.eqb_refl).
      eexists. rewrite run_done by (cbn in *; lia). f_equal. lia.
    - sym_step ltac:(rewrite ?HL, ?Nat.eqb_refl). sym_step ltac:(rewrite ?HL, ?Nat.eqb_refl).
      sym_step ltac:(rewrite ?HL, ?Nat.eqb_refl).
      destruct (IH a (S m) (S m :: live) (S i) (S p) (o + 1)%nat fuel) as (out & R).
      + cbn. exact HL.
      + lia.
      + exists out. rewrite R. f_equal. lia. }
  intros. apply G; auto.
Qed.

Theorem flat_map_of_step : forall n fuel, (3 * S n + 2 <= fuel)%nat ->
  exists out, run_default gen KStep n_flat_map_of (c_take (S n)) fuel = Returned (S n) out true.
Proof. intros n fuel Hf. start. apply (flat_map_of_step_loop n 0 0 [0%nat] 0 0 0 fuel); auto. Qed.

Lemma live0_removen : forall x live, existsb (Nat.eqb 0) live = true ->
  existsb (Nat.eqb 0) (removen (S x) live) = true.
Proof. intros x live H. change (memn 0 (removen (S x) live) = true). rewrite memn_removen; auto. Qed.

(* source.switch_map(lambda x: of(x)).take(n+1) over range/generate *)
Lemma switch_map_of_step_loop : forall n0 r h lt m live i p o fuel,
  existsb (Nat.eqb 0) live = true -> (3 * S r + 2 <= fuel)%nat ->
  exists out, run gen KStep n_switch_map_of (c_take n0) fuel
                  (St n_switch_map_of (c_take n0) (SSt false h lt (S m)) (S r) false live [TStep 0] i p o)
              = Returned (p + S r)%nat out true.
Proof.
  intros n0. induction r as [|r IH]; intros h lt m live i p o fuel HL Hf.
  - destruct lt as [|x].
    + sym_step ltac:(rewrite ?HL, ?Nat.eqb_refl). sym_step ltac:(rewrite ?HL, ?Nat.eqb_refl).
      eexists. rewrite run_done by (cbn in *; lia). f_equal. lia.
    + pose proof (live0_removen x live HL) as HL'.
      sym_step ltac:(rewrite ?HL, ?HL', ?Nat.eqb_refl). sym_step ltac:(rewrite ?HL, ?HL', ?Nat.eqb_refl).
      eexists. rewrite run_done by (cbn in *; lia). f_equal. lia.
  - destruct lt as [|x].
    + do 3 sym_step ltac:(rewrite ?HL, ?Nat.eqb_refl).
      destruct (IH false (S m) (S m) (S m :: live) (S i) (S p) (o + 1)%nat fuel) as (out & R).
      * cbn. exact HL.
      * lia.
      * exists out. rewrite R. f_equal. lia.
    + pose proof (live0_removen x live HL) as HL'.
      do 3 sym_step ltac:(rewrite ?HL, ?HL', ?Nat.eqb_refl).
      destruct (IH false (S m) (S m) (S m :: removen (S x) live) (S i) (S p) (o + 1)%nat fuel) as (out & R).
      * cbn. exact HL'.
      * lia.
      * exists out. rewrite R. f_equal. lia.
Qed.

Theorem switch_map_of_step : forall n fuel, (3 * S n + 2 <= fuel)%nat ->
  exists out, run_default gen KStep n_switch_map_of (c_take (S n)) fuel = Returned (S n) out true.
Proof. intros n fuel Hf. start. apply (switch_map_of_step_loop (S n) n false 0 0 [0%nat] 0 0 0 fuel); auto. Qed.

(* ---- refuted for from_iterable: its loop is one action and never yields the trampoline ---- *)
Ltac starve N C ae0 Qinv :=
  start;
  eapply (iter_starves _ N C ae0) with (Q := Qinv);
  [ | | try reflexivity; try (cbn; auto; fail) | reflexivity ].

Theorem flat_map_of_iter_refuted : forall n fuel,
  run_default gen KIter n_flat_map_of (c_take n) fuel = OutOfFuel.
Proof.
  intros n fuel. starve n_flat_map_of (c_take n) false (fun ns : fst_ => f_next ns <> 0%nat).
  - discriminate.
  - intros ns H v. eexists _, _. cbn. split; [reflexivity|]. split; [|cbn; auto]. repeat constructor. cbn. exact H.
Qed.

Theorem switch_map_of_iter_refuted : forall n fuel,
  run_default gen KIter n_switch_map_of (c_take n) fuel = OutOfFuel.
Proof.
  intros n fuel. starve n_switch_map_of (c_take n) false (fun ns : sst => w_next ns <> 0%nat).
  - discriminate.
  - intros ns H v. eexists _, _. cbn. split; [reflexivity|]. split; [|cbn; auto].
    destruct (Nat.eqb (w_latest ns) 0) eqn:E; cbn.
    + repeat constructor. exact H.
    + apply Nat.eqb_neq in E. repeat constructor; cbn; auto.
Qed.

Theorem wlf_other_iter_refuted : forall n fuel,
  run_default gen KIter (n_wlf false) (c_take n) fuel = OutOfFuel.
Proof.
  intros n fuel. starve (n_wlf false) (c_take n) false (fun _ : bool => True).
  - discriminate.
  - intros ns _ v. eexists _, _. cbn. split; [reflexivity|]. split; auto.
Qed.

Theorem combine_s_of_iter_refuted : forall n fuel,
  run_default gen KIter (n_combine true) (c_take n) fuel = OutOfFuel.
Proof.
  intros n fuel. starve (n_combine true) (c_take n) false (fun ns : cst => k_has1 ns = false /\ k_done1 ns = false).
  - discriminate.
  - intros ns [H1 H2] v. eexists _, _. cbn. rewrite H1, H2. split; [reflexivity|]. split; [constructor|].
    cbn. auto.
Qed.

Theorem take_until_iter_refuted : forall fuel,
  run_default gen KIter n_take_until c_all fuel = OutOfFuel.
Proof.
  intros fuel. starve n_take_until c_all true (fun _ : unit => True).
  - intros _ s v. reflexivity.
  - intros ns _ v. eexists _, _. cbn. split; [reflexivity|]. split; auto. repeat constructor.
Qed.

(* ---- a scheduler that runs the action inside schedule(): the producer never returns ---- *)
Lemma inl_inf_S : forall K N C f p s,
  inl_inf gen K N C (S f) p s =
  let s1 := pulled N C s in
  let '(n', cs) := n_on N (s_net N C s1) p (Next (elem gen K (s_idx N C s))) in
  match inl gen K N C f cs (set_net N C s1 n') with
  | None => None
  | Some s' => inl_inf gen K N C f p s'
  end.
Proof. reflexivity. Qed.

Lemma inl_inf_none : forall K N C fuel p s, inl_inf gen K N C fuel p s = None.
Proof.
  intros K N C. induction fuel as [|f IH]; intros p s; [reflexivity|].
  rewrite inl_inf_S. cbv zeta.
  destruct (n_on N (s_net N C (pulled N C s)) p (Next (elem gen K (s_idx N C s)))) as [n' cs].
  destruct (inl gen K N C f cs (set_net N C (pulled N C s) n')); auto.
Qed.

Lemma inl_sub_inf : forall K N C f p t s,
  inl gen K N C (S f) (NSub p SInf :: t) s =
  match inl_inf gen K N C f p (St N C (s_net N C s) (s_cons N C s) (s_done N C s) (p :: s_live N C s)
                                  (s_q N C s) (s_idx N C s) (s_pulls N C s) (s_out N C s)) with
  | None => None
  | Some s' => inl gen K N C f t s'
  end.
Proof. reflexivity. Qed.

Lemma inl_sub_inf_none : forall K N C fuel p t s, inl gen K N C fuel (NSub p SInf :: t) s = None.
Proof. intros. destruct fuel; [reflexivity|]. rewrite inl_sub_inf, inl_inf_none. reflexivity. Qed.

Lemma inl_sub_of : forall K N C f p l t s,
  inl gen K N C (S f) (NSub p (SOf l) :: t) s =
  match inl_list gen K N C f p l (St N C (s_net N C s) (s_cons N C s) (s_done N C s) (p :: s_live N C s)
                                     (s_q N C s) (s_idx N C s) (s_pulls N C s) (s_out N C s)) with
  | None => None
  | Some s' => inl gen K N C f t s'
  end.
Proof. reflexivity. Qed.

Lemma inl_sub_never : forall K N C f p t s,
  inl gen K N C (S f) (NSub p SNever :: t) s = inl gen K N C f t s.
Proof. reflexivity. Qed.

Lemma inl_sched : forall K N C f tag t s,
  inl gen K N C (S f) (NSched tag :: t) s =
  let '(n', cs') := n_task N (s_net N C s) tag in
  match inl gen K N C f cs' (set_net N C s n') with
  | None => None
  | Some s' => inl gen K N C f t s'
  end.
Proof. reflexivity. Qed.

Lemma inl_list_cons : forall K N C f p v l s,
  inl_list gen K N C (S f) p (v :: l) s =
  let '(n', cs) := n_on N (s_net N C s) p (Next v) in
  match inl gen K N C f cs (set_net N C s n') with
  | None => None
  | Some s' => inl_list gen K N C f p l s'
  end.
Proof. reflexivity. Qed.

Lemma inl_list_nil : forall K N C f p s,
  inl_list gen K N C (S f) p [] s =
  let '(n', cs) := n_on N (s_net N C s) p Done in inl gen K N C f cs (set_net N C s n').
Proof. reflexivity. Qed.

Lemma inl_nil : forall K N C f s, inl gen K N C (S f) [] s = Some s.
Proof. reflexivity. Qed.

Ltac inline_refuted :=
  intros; unfold run_inline; cbn [n_start n_merge n_lin n_flat_map_of n_switch_map_of n_flat_outer
                                  n_switch_outer n_amb n_wlf n_combine n_take_until n_concat];
  repeat (first
    [ progress (rewrite ?inl_sub_inf_none, ?inl_nil, ?inl_sub_of, ?inl_sub_never, ?inl_sched, ?inl_list_cons, ?inl_list_nil;
                cbn -[inl inl_inf inl_list])
    | match goal with
      | |- context [inl _ _ _ _ ?f _ _] => is_var f; destruct f as [|f]; [reflexivity|]
      | |- context [inl_list _ _ _ _ ?f _ _ _] => is_var f; destruct f as [|f]; [reflexivity|]
      end ]);
  try reflexivity.

Theorem lin_inline_refuted : forall K C fuel, run_inline gen K n_lin C fuel = OutOfFuel.
Proof. inline_refuted. Qed.
Theorem merge_inline_refuted : forall K C fuel b,
  run_inline gen K (n_merge (if b : bool then [0; 1] else [1; 0])) C fuel = OutOfFuel.
Proof. intros K C fuel [|]; inline_refuted. Qed.
Theorem flat_map_of_inline_refuted : forall K C fuel, run_inline gen K n_flat_map_of C fuel = OutOfFuel.
Proof. inline_refuted. Qed.
Theorem switch_map_of_inline_refuted : forall K C fuel, run_inline gen K n_switch_map_of C fuel = OutOfFuel.
Proof. inline_refuted. Qed.
Theorem flat_outer_inline_refuted : forall K C fuel, run_inline gen K n_flat_outer C fuel = OutOfFuel.
Proof. inline_refuted. Qed.
Theorem switch_outer_inline_refuted : forall K C fuel, run_inline gen K n_switch_outer C fuel = OutOfFuel.
Proof. inline_refuted. Qed.
Theorem amb_inline_refuted : forall K C fuel b, run_inline gen K (n_amb b) C fuel = OutOfFuel.
Proof. intros K C fuel [|]; inline_refuted. Qed.
Theorem wlf_inline_refuted : forall K C fuel b, run_inline gen K (n_wlf b) C fuel = OutOfFuel.
Proof. intros K C fuel [|]; inline_refuted. Qed.
Theorem combine_inline_refuted : forall K C fuel b, run_inline gen K (n_combine b) C fuel = OutOfFuel.
Proof. intros K C fuel [|]; inline_refuted. Qed.
Theorem take_until_inline_refuted : forall K C fuel, run_inline gen K n_take_until C fuel = OutOfFuel.
Proof. inline_refuted. Qed.
Theorem concat_after_inline_refuted : forall K C fuel, run_inline gen K (n_concat false) C fuel = OutOfFuel.
Proof. inline_refuted. Qed.
(* ---- repeat of a non-empty list source (repeat_value v = the list [v]) ---- *)
Section Rep.
Variable N : net.
Variable C : cons.
Variable P : n_st N -> Prop.
Hypothesis emits : forall ns, P ns -> forall v, exists ns' ps,
  n_on N ns 0 (Next v) = (ns', unsubs ps ++ [NEmit v]) /\ ~ In 0%nat ps /\ P ns'.
(* the consumer does not look at the elements (take, first, element_at) *)
Hypothesis blind : forall s v w, c_step C s v = c_step C s w.
Variable v0 : Z.
Variable l0 : list Z.

Lemma stops_blind : forall k s i j, stops_at C gen s i k -> stops_at C gen s j k.
Proof.
  induction k as [|k IH]; intros s i j H; [exact H|]. cbn [stops_at] in *.
  rewrite (blind s (gen j) (gen i)). destruct (c_step C s (gen i)) as [[s' n] stop].
  destruct stop; auto. eapply IH; eauto.
Qed.

Lemma rep_loop : forall k r0 s ns live i p o f,
  P ns -> existsb (Nat.eqb 0) live = true -> stops_at C gen s i k -> (3 * k + 3 <= f)%nat ->
  exists o', run gen (KRep (v0 :: l0)) N C f (St N C ns s false live [TList 0 r0 true] i p o)
             = Returned (p + k)%nat o' true.
Proof.
  induction k as [|k IH]; intros r0 s ns live i p o f HP HL H Hf; [destruct H|].
  assert (CONS : forall v r1 f1, (3 * k + 4 <= f1)%nat ->
            exists o', run gen (KRep (v0 :: l0)) N C f1 (St N C ns s false live [TList 0 (v :: r1) true] i p o)
                       = Returned (p + S k)%nat o' true).
  { intros v r1 f1 Hf1. cbn [stops_at] in H. rewrite (blind s (gen i) v) in H.
    destruct (c_step C s v) as [[s' n] stop] eqn:E.
    destruct (emits ns HP v) as (ns' & ps & En & Hps & HP').
    destruct (apply_unsubs N C (KRep (v0 :: l0)) ps [NEmit v] ns' s live [TList 0 r1 true] (S i) (S p) o Hps)
      as (live' & M & EA).
    destruct f1 as [|f1]; [lia|].
    assert (ST : step gen (KRep (v0 :: l0)) N C (St N C ns s false live [TList 0 (v :: r1) true] i p o) =
                 Some (apply (KRep (v0 :: l0)) N C [NEmit v] (St N C ns' s false live' [TList 0 r1 true] (S i) (S p) o))).
    { cbn [step s_q s_done s_live]. unfold memn. rewrite HL. unfold deliver, pulled, set_net, set_q.
      cbn [s_net s_cons s_done s_live s_q s_idx s_pulls s_out]. rewrite En. rewrite <- EA. reflexivity. }
    rewrite (run_step _ _ _ _ _ _ _ ST). clear ST EA.
    cbn [apply s_done apply1 s_net s_cons s_live s_q s_idx s_pulls s_out]. rewrite E.
    destruct stop.
    - subst k. eexists. cbn [apply]. rewrite run_done by (cbn; lia). f_equal. lia.
    - cbn [apply s_done].
      destruct (IH r1 s' ns' live' (S i) (S p) (o + n)%nat f1 HP') as (o' & R); auto.
      + unfold memn in M. congruence.
      + lia.
      + exists o'. rewrite R. f_equal. lia. }
  destruct r0 as [|v r1].
  - (* the inner list is exhausted: schedule the concat action, which subscribes the list again *)
    destruct f as [|f]; [lia|]. erewrite run_step by (cbn -[Nat.eqb]; rewrite HL; reflexivity).
    destruct f as [|f]; [lia|]. erewrite run_step by (unfold set_q; cbn -[Nat.eqb]; rewrite HL; reflexivity).
    unfold set_q. cbn [s_net s_cons s_done s_live s_q s_idx s_pulls s_out app rep_list].
    apply CONS. lia.
  - apply CONS. lia.
Qed.
End Rep.

(* repeat(...).take / first / element_at: linear pipelines over a repeated list *)
Theorem lin_rep : forall C v l k fuel,
  (forall s a b, c_step C s a = c_step C s b) ->
  stops_at C gen (c_init C) 0 k -> (3 * k + 5 <= fuel)%nat ->
  exists out, run_default gen (KRep (v :: l)) n_lin C fuel = Returned k out true.
Proof.
  intros C v l k fuel B H Hf. start.
  destruct fuel as [|fuel]; [lia|]. erewrite run_step by (cbn; reflexivity).
  unfold set_q. cbn [s_net s_cons s_done s_live s_q s_idx s_pulls s_out app rep_list].
  eapply (rep_loop n_lin C (fun _ => True)) with (k := k); auto.
  - intros ns _ w. exists ns, []. cbn. destruct ns. auto.
  - lia.
Qed.

(* ---- the listed consumers over linear pipelines ---- *)
Theorem take_iter : forall n fuel, (n + 2 <= fuel)%nat ->
  exists out, run_default gen KIter n_lin (c_take (S n)) fuel = Returned (S n) out true.
Proof. intros. apply lin_iter; [apply take_stops|lia]. Qed.
Theorem take_step : forall n fuel, (n + 2 <= fuel)%nat ->
  exists out, run_default gen KStep n_lin (c_take (S n)) fuel = Returned (S n) out true.
Proof. intros. apply lin_step; [apply take_stops|lia]. Qed.
Theorem take_rep : forall v l n fuel, (3 * n + 8 <= fuel)%nat ->
  exists out, run_default gen (KRep (v :: l)) n_lin (c_take (S n)) fuel = Returned (S n) out true.
Proof. intros. apply lin_rep; [reflexivity|apply take_stops|lia]. Qed.

Theorem first_iter : forall fuel, (2 <= fuel)%nat ->
  exists out, run_default gen KIter n_lin c_first fuel = Returned 1 out true.
Proof. intros. apply lin_iter; [apply first_stops|lia]. Qed.
Theorem first_step : forall fuel, (2 <= fuel)%nat ->
  exists out, run_default gen KStep n_lin c_first fuel = Returned 1 out true.
Proof. intros. apply lin_step; [apply first_stops|lia]. Qed.
Theorem first_rep : forall v l fuel, (8 <= fuel)%nat ->
  exists out, run_default gen (KRep (v :: l)) n_lin c_first fuel = Returned 1 out true.
Proof. intros. apply lin_rep; [reflexivity|apply first_stops|lia]. Qed.

Theorem element_at_iter : forall n fuel, (n + 2 <= fuel)%nat ->
  exists out, run_default gen KIter n_lin (c_element_at n) fuel = Returned (S n) out true.
Proof. intros. apply lin_iter; [apply element_at_stops|lia]. Qed.
Theorem element_at_step : forall n fuel, (n + 2 <= fuel)%nat ->
  exists out, run_default gen KStep n_lin (c_element_at n) fuel = Returned (S n) out true.
Proof. intros. apply lin_step; [apply element_at_stops|lia]. Qed.
Theorem element_at_rep : forall v l n fuel, (3 * n + 8 <= fuel)%nat ->
  exists out, run_default gen (KRep (v :: l)) n_lin (c_element_at n) fuel = Returned (S n) out true.
Proof. intros. apply lin_rep; [reflexivity|apply element_at_stops|lia]. Qed.

(* take_while: the work is the position of the first element that fails the predicate *)
Theorem take_while_iter : forall pr incl k fuel,
  (forall j, (j < k)%nat -> pr (gen j) = true) -> pr (gen k) = false -> (k + 2 <= fuel)%nat ->
  exists out, run_default gen KIter n_lin (c_take_while pr incl) fuel = Returned (S k) out true.
Proof. intros. apply lin_iter; [apply take_while_stops; auto|lia]. Qed.
Theorem take_while_step : forall pr incl k fuel,
  (forall j, (j < k)%nat -> pr (gen j) = true) -> pr (gen k) = false -> (k + 2 <= fuel)%nat ->
  exists out, run_default gen KStep n_lin (c_take_while pr incl) fuel = Returned (S k) out true.
Proof. intros. apply lin_step; [apply take_while_stops; auto|lia]. Qed.
End Shapes.

(* element-wise stages: map moves into the element stream *)
Lemma stops_map : forall gen f C s i k,
  stops_at (c_map f C) gen s i k <-> stops_at C (fun j => f (gen j)) s i k.
Proof.
  intros gen f C. intros s i k. revert s i. induction k as [|k IH]; intros s i; cbn [stops_at]; [tauto|].
  cbn [c_map c_step]. destruct (c_step C s (f (gen i))) as [[s' n] stop]. destruct stop; [tauto|]. apply IH.
Qed.

(* map(f) ... take(n+1) *)
Theorem map_take_iter : forall gen f n fuel, (n + 2 <= fuel)%nat ->
  exists out, run_default gen KIter n_lin (c_map f (c_take (S n))) fuel = Returned (S n) out true.
Proof. intros. apply lin_iter; [apply stops_map; apply take_stops|lia]. Qed.
Theorem map_take_step : forall gen f n fuel, (n + 2 <= fuel)%nat ->
  exists out, run_default gen KStep n_lin (c_map f (c_take (S n))) fuel = Returned (S n) out true.
Proof. intros. apply lin_step; [apply stops_map; apply take_stops|lia]. Qed.

(* filter(p) ... consumer: elements that fail p are pulled and dropped; if the consumer completes at
   the k-th element of the stream, so does the filtered pipeline *)
Lemma stops_filter_all : forall gen pr C s i k,
  (forall j, pr (gen j) = true) -> stops_at C gen s i k -> stops_at (c_filter pr C) gen s i k.
Proof.
  intros gen pr C s i k Hp. revert s i. induction k as [|k IH]; intros s i H; [exact H|].
  cbn [stops_at] in *. cbn [c_filter c_step]. rewrite Hp.
  destruct (c_step C s (gen i)) as [[s' n] stop]. destruct stop; auto.
Qed.
