(* Model of reactivex/scheduler/catchscheduler.py (CatchScheduler) over the
   virtual-time model Core/VTime.v, written from the code as it is.

   CatchScheduler.schedule / schedule_relative / schedule_absolute call the
   wrapped (inner) scheduler with [self._wrap(action)]:

       def wrapped_action(self, state):
           try:
               return action(parent._get_recursive_wrapper(self), state)
           except Exception as ex:
               if not parent._handler(ex): raise
               return Disposable()

   An action body is a straight-line list of commands, so the point at which it
   raises is its first raising command ([raises]); [cwrap_body] is the body of
   [wrapped_action]:
     - the commands before that point are executed as they are, except that the
       scheduler handed to the action is the recursive wrapper (a CatchScheduler
       with the same handler around the inner scheduler), so every action they
       schedule is wrapped in turn (the recursive call on SSched/SPeriodic);
     - at the raising command the [except] clause runs: [SHandled e (h e)] records
       that the action raised e, that the handler was called with e, and either
       returns normally (verdict True; the rest of the body is never executed) or
       re-raises e (verdict False).
   _get_recursive_wrapper caches one clone per inner scheduler; all clones have the
   same handler and wrap the same inner scheduler here, so the cache has no
   observable effect and is not modelled.

   CatchScheduler.schedule_periodic wraps the periodic action:

       def periodic(state):
           if failed: return None
           try: return action(state)
           except Exception as ex:
               failed = True
               if not self._handler(ex): raise
               disp.dispose(); return None

   = [cwrap_pres]: a raising call becomes [PHandled ns e (h e)] (VTime.invoke). *)
From RxVerif Require Import Base.Prelude Core.VTime.

(* the exception a command raises when it is executed, if any *)
Definition raises (c : scmd) : option Z :=
  match c with
  | SRaise e => Some e
  | SSleep d => if d <? 0 then Some AOOR else None
  | SHandled e false => Some e
  | _ => None
  end.

Definition cwrap_pres (h : Z -> bool) (r : pres) : pres :=
  match r with
  | PRaise ns e => PHandled ns e (h e)
  | r => r
  end.

Definition cwrap_tab (h : Z -> bool) (f : ptable) : ptable :=
  (map (fun kv => (fst kv, cwrap_pres h (snd kv))) (fst f), cwrap_pres h (snd f)).

Fixpoint cwrap_cmd (h : Z -> bool) (c : scmd) : scmd :=
  match c with
  | SSched w l b =>
      SSched w l
        ((fix wb (b : list scmd) : list scmd :=
            match b with
            | [] => []
            | x :: t => match raises x with
                        | Some e => [SHandled e (h e)]
                        | None => cwrap_cmd h x :: wb t
                        end
            end) b)
  | SPeriodic p f st0 => SPeriodic p (cwrap_tab h f) st0
  | c => c
  end.

Fixpoint cwrap_body (h : Z -> bool) (b : list scmd) : list scmd :=
  match b with
  | [] => []
  | x :: t => match raises x with
              | Some e => [SHandled e (h e)]
              | None => cwrap_cmd h x :: cwrap_body h t
              end
  end.

(* a top-level call made on the CatchScheduler (schedule*/schedule_periodic) or,
   for everything else (start, advance_to, sleep, stop, cancel a disposable), on
   the inner scheduler *)
Definition cwrap_t (h : Z -> bool) (c : tcmd) : tcmd :=
  match c with
  | TDo k => TDo (cwrap_cmd h k)
  | c => c
  end.

Definition catch_history (h : Z -> bool) (hs : list tcmd) : list tcmd := map (cwrap_t h) hs.

Definition run_catch (c : cfg) (fuel : nat) (h : Z -> bool) (s : st) (hs : list tcmd) : result :=
  run c fuel s (catch_history h hs).

(* handler given as a finite table code -> verdict, default False (escalate) *)
Fixpoint verdict (l : list (Z * bool)) (e : Z) : bool :=
  match l with [] => false | (k, v) :: t => if k =? e then v else verdict t e end.
