(* More facts about Core/EventLoop.v (C31):
   - the ghost due time of an accepted item is tied to the call that made it ([ECall]);
   - with exit_if_empty the loop thread HAS exited in every quiescent state whose due times are past;
   - after scheduler.dispose() returned every new schedule call raises. *)
From RxVerif Require Import Base.Prelude Core.EventLoop Core.EventLoopFacts.
From Coq Require Import Permutation Sorted.
Local Open Scope Z_scope.

(* the call in progress / the calls still to make of a thread *)
Definition tcur (st : tstate) : option opst :=
  match st with TSched cur _ => cur | TLoop (LBody _ cur _ _) => cur | _ => None end.
Definition ttodo (st : tstate) : list op :=
  match st with TSched _ todo => todo | TLoop (LBody _ _ todo _) => todo | _ => [] end.
Definition cur_is (cur : option opst) (u a : nat) (due : Z) : Prop :=
  cur = Some (PS1 u a due) \/ cur = Some (PS2 u a due).

(* ---- the due time of a call (step lemma, any state) -------------------------------------------- *)
(* schedule(a) / schedule_relative(d, a): the first step allocates the uid, logs ECall and fixes
   due = clock + max(0, d) (d = 0 for schedule) *)
Lemma el_due_recorded : forall ntid s o r a d,
  (o = SchedNow a /\ d = 0) \/ o = SchedRel d a ->
  op_step ntid s None (o :: r) =
    Some (bump s, Some (PS1 (nuid s) a (clock s + Z.max 0 d)), r, [ECall (nuid s) a], false).
Proof.
  intros ntid s o r a d [[-> ->]| ->]; cbn [op_step].
  - replace (clock s + Z.max 0 0) with (clock s) by lia. reflexivity.
  - reflexivity.
Qed.

(* schedule_absolute(t, a): due = t, whatever the clock; the call goes straight to the unlocked test *)
Lemma el_due_recorded_abs : forall ntid s t a r,
  op_step ntid s None (SchedAbs t a :: r) =
    Some (bump s, (if disposed s then None else Some (PS2 (nuid s) a t)), r,
          ECall (nuid s) a :: (if disposed s then [ERaise a] else [EPass (nuid s)]), false).
Proof. intros. cbn [op_step]. unfold s1. cbn [disposed bump]. destruct (disposed s); reflexivity. Qed.

(* what a call step does to the call in progress *)
Lemma opstep_due : forall ntid s cur todo s' cur' todo' out sp,
  opstep ntid s cur todo s' cur' todo' out sp ->
  (forall o, In o todo' -> In o todo) /\
  (forall u a due, cur_is cur' u a due ->
     cur_is cur u a due \/ (In (ECall u a) out /\ (clock s <= due \/ In (SchedAbs due a) todo))) /\
  (forall i, In (EAcc i) out -> cur = Some (PS2 (it_uid i) (it_lbl i) (it_due i))).
Proof.
  intros ntid s cur todo s' cur' todo' out sp O. unfold cur_is.
  inv O; (split; [intros o I; try (right; exact I); exact I|]); split.
  all: try (intros u0 a0 due0 [X|X]; discriminate X).
  all: try (intros i [X|[X|[X|[]]]]; try discriminate X; inv X; reflexivity).
  all: try (intros i [X|[X|[]]]; try discriminate X; inv X; reflexivity).
  all: try (intros i [X|[]]; discriminate X).
  - intros u0 a0 due0 [X|X]; inv X. right. split; [left; reflexivity|left; lia].
  - intros u0 a0 due0 [X|X]; inv X. right. split; [left; reflexivity|left; lia].
  - intros u0 a0 due0 [X|X]; inv X. right. split; [left; reflexivity|right; left; reflexivity].
  - intros u0 a0 due0 [X|X]; inv X. left. left. reflexivity.
Qed.

Section Due.
Variable eie : bool.
Variable body : nat -> list op.
Variable progs : list (list op).
Notation cstep := (cstep eie body).
Notation run := (run eie body).

(* the call occurs in the program of a scheduling thread or in the body of an action *)
Definition src (o : op) : Prop := (exists p, In p progs /\ In o p) \/ exists a, In o (body a).

Definition linked (c : config) (u a : nat) (due : Z) : Prop :=
  exists tid tc, In (tid, tc, ECall u a) (c_log c) /\ (tc <= due \/ src (SchedAbs due a)).

Definition invK (c : config) : Prop :=
  (forall t st o, nth_error (c_ths c) t = Some st -> In o (ttodo st) -> src o) /\
  (forall t st u a due, nth_error (c_ths c) t = Some st -> cur_is (tcur st) u a due -> linked c u a due) /\
  (forall i, In (EAcc i) (L c) -> linked c (it_uid i) (it_lbl i) (it_due i)).

Lemma invK_init : forall t0, invK (init t0 progs).
Proof.
  intros t0. unfold invK, init, L. cbn [c_ths c_log evs map]. repeat split.
  - intros t st o N I. apply nth_error_In, in_map_iff in N. destruct N as [p [<- Hp]]. left. exists p. auto.
  - intros t st u a due N C. apply nth_error_In, in_map_iff in N. destruct N as [p [<- Hp]].
    destruct C as [C|C]; discriminate C.
  - intros i [].
Qed.

Lemma linked_mono : forall c s' ths' tid out u a due,
  linked c u a due -> linked (Config s' ths' (c_log c ++ stamp tid (clock (c_sh c)) out)) u a due.
Proof.
  intros c s' ths' tid out u a due (t1 & tc & I & H). exists t1, tc. split; [|exact H].
  cbn [c_log]. apply in_or_app. left. exact I.
Qed.

(* the part common to a scheduling thread and a loop thread inside an action *)
Lemma invK_opstep : forall c tid st st' cur todo s' cur' todo' out sp,
  invK c -> nth_error (c_ths c) tid = Some st -> tcur st = cur -> ttodo st = todo ->
  tcur st' = cur' -> ttodo st' = todo' ->
  opstep (length (c_ths c)) (c_sh c) cur todo s' cur' todo' out sp ->
  invK (Config s' (upd tid st' (c_ths c) ++ (if sp then [TLoop LNew] else []))
               (c_log c ++ stamp tid (clock (c_sh c)) out)).
Proof.
  intros c tid st st' cur todo s' cur' todo' out sp (K1 & K2 & K3) N EC ET EC' ET' O.
  destruct (opstep_due _ _ _ _ _ _ _ _ _ O) as (D1 & D2 & D3).
  assert (NEW : forall u a due, cur_is cur' u a due ->
            linked (Config s' (upd tid st' (c_ths c) ++ (if sp then [TLoop LNew] else []))
                           (c_log c ++ stamp tid (clock (c_sh c)) out)) u a due).
  { intros u a due C. destruct (D2 u a due C) as [C0|[I H]].
    - apply linked_mono. eapply K2; [exact N|]. rewrite EC. exact C0.
    - exists tid, (clock (c_sh c)). split.
      + cbn [c_log]. apply in_or_app. right. apply in_stamp. auto.
      + destruct H as [H|H]; [left; exact H|right]. eapply K1; [exact N|]. rewrite ET. exact H. }
  unfold invK. rewrite L_step. cbn [c_ths]. repeat split.
  - intros t x o E I. destruct (nth_after _ _ _ _ _ _ _ N E) as [[-> ->]|[[NE E']| ->]].
    + rewrite ET' in I. eapply K1; [exact N|]. rewrite ET. apply D1, I.
    + eapply K1; eassumption.
    + destruct I.
  - intros t x u a due E C. destruct (nth_after _ _ _ _ _ _ _ N E) as [[-> ->]|[[NE E']| ->]].
    + rewrite EC' in C. apply NEW, C.
    + apply linked_mono. eapply K2; eassumption.
    + destruct C as [C|C]; discriminate C.
  - intros i I. apply in_app_or in I. destruct I as [I|I]; [apply linked_mono, K3, I|].
    apply linked_mono. eapply K2; [exact N|]. rewrite EC. right. apply D3, I.
Qed.

Lemma invK_step : forall c tid c', invK c -> cstep c tid c' -> invK c'.
Proof.
  intros c tid c' K S. inv S.
  - eapply (invK_opstep c tid (TSched cur todo) (TSched cur' todo')); try reflexivity; eassumption.
  - assert (CASES : (exists i cur todo r cur' todo', ph = LBody i cur todo r /\ ph' = LBody i cur' todo' r /\
                        opstep (length (c_ths c)) (c_sh c) cur todo s' cur' todo' out sp) \/
                    (sp = false /\ (forall e, In e out -> callish e = false) /\ tcur (TLoop ph') = None /\
                     (ttodo (TLoop ph') = [] \/ exists a, ttodo (TLoop ph') = body a))).
    { inv H0; try (right; repeat split; cbn;
                   try (intros e [X|[]]; subst; reflexivity); try (intros e []);
                   try (left; destruct r; reflexivity); try (left; destruct ready; reflexivity);
                   try (left; reflexivity); try (destruct r; reflexivity); try (destruct ready; reflexivity); fail).
      - right. repeat split; cbn; try (intros e [X|[]]; subst; reflexivity). right. eauto.
      - left. repeat eexists. eassumption. }
    destruct CASES as [(i & cur & todo & r & cur' & todo' & -> & -> & O)|(-> & CE & TC & TT)].
    + eapply (invK_opstep c tid (TLoop (LBody i cur todo r)) (TLoop (LBody i cur' todo' r))); try reflexivity; eassumption.
    + destruct K as (K1 & K2 & K3). unfold invK. rewrite L_step. cbn [c_ths app]. rewrite app_nil_r. repeat split.
      * intros t x o E I. destruct (Nat.eq_dec t tid) as [->|NE].
        -- erewrite nth_upd_same in E by exact H. inv E. destruct TT as [TT|[a TT]]; rewrite TT in I; [destruct I|].
           right. eauto.
        -- rewrite nth_upd_other in E by exact NE. eapply K1; eassumption.
      * intros t x u a due E C. destruct (Nat.eq_dec t tid) as [->|NE].
        -- erewrite nth_upd_same in E by exact H. inv E. rewrite TC in C. destruct C as [C|C]; discriminate C.
        -- rewrite nth_upd_other in E by exact NE. apply linked_mono. eapply K2; eassumption.
      * intros i I. apply in_app_or in I. destruct I as [I|I]; [apply linked_mono, K3, I|].
        specialize (CE _ I). discriminate CE.
Qed.

Lemma invK_run : forall sched c, invK c -> invK (run c sched).
Proof.
  apply (run_invariant eie body invK).
  - intros; eapply invK_step; eassumption.
  - intros c d H. exact H.
Qed.

(* an accepted item was made by a call that is in the log (same uid, same action) and whose first step
   -- the one that read the clock -- happened at or before the item's due time, unless the due time is
   the argument of a schedule_absolute call for that action in some program or action body *)
Theorem el_accepted_due_linked : forall t0 sched i,
  let c := run (init t0 progs) sched in
  In (EAcc i) (L c) ->
  exists tid tc, In (tid, tc, ECall (it_uid i) (it_lbl i)) (c_log c) /\
                 (tc <= it_due i \/ src (SchedAbs (it_due i) (it_lbl i))).
Proof. intros t0 sched i c I. exact (proj2 (proj2 (invK_run sched _ (invK_init t0))) i I). Qed.

(* in particular, without schedule_absolute: the call happened at or before the due time *)
Corollary el_accepted_call_before_due : forall t0 sched i,
  (forall p t a, In p progs -> ~ In (SchedAbs t a) p) -> (forall b t a, ~ In (SchedAbs t a) (body b)) ->
  let c := run (init t0 progs) sched in
  In (EAcc i) (L c) ->
  exists tid tc, In (tid, tc, ECall (it_uid i) (it_lbl i)) (c_log c) /\ tc <= it_due i.
Proof.
  intros t0 sched i NP NB c I. destruct (el_accepted_due_linked t0 sched i I) as (tid & tc & I' & [H|H]).
  - exists tid, tc. auto.
  - exfalso. destruct H as [(p & Hp & Ho)|(b & Ho)]; [eapply NP; eassumption|eapply NB; eassumption].
Qed.
End Due.

(* the proviso is needed: schedule_absolute with a time in the past is accepted with due = t although the
   call was made later (the item is immediately due: it runs at once, late, never early) *)
Definition abs_past_witness : config :=
  run false nobody (init 100 [[SchedAbs 50 7%nat]]) (steps [0; 0]%nat).
Lemma el_call_before_due_refuted :
  L abs_past_witness = [ECall 0 7; EPass 0; EAcc (Item 0 7 50 true); ESpawn 1; ERet 7]%nat /\
  forall tid tc, In (tid, tc, ECall 0%nat 7%nat) (c_log abs_past_witness) -> ~ tc <= 50.
Proof.
  vm_compute. split; [reflexivity|]. intros tid tc [H|[H|[H|[H|[H|[]]]]]]; inv H. intros X. apply X. reflexivity.
Qed.

(* ---- exit_if_empty: the thread exits when idle ----------------------------------------------------- *)
Section Exit.
Variable eie : bool.
Variable body : nat -> list op.
Notation cstep := (cstep eie body).
Notation run := (run eie body).

(* a waiter with a timeout that has not been notified waits for a queued item;
   with exit_if_empty every waiter has a timeout *)
Definition invX (c : config) : Prop :=
  (forall w d, wt (c_sh c) = Some w -> w_notified w = false -> w_deadline w = Some d -> q (c_sh c) <> []) /\
  (eie = true -> forall w, wt (c_sh c) = Some w -> w_deadline w <> None).

Lemma invX_init : forall t0 progs, invX (init t0 progs).
Proof. intros. unfold invX, init. cbn. split; intros; discriminate. Qed.

Lemma notify_deadline : forall w0 w, notify w0 = Some w -> exists w1, w0 = Some w1 /\ w_deadline w = w_deadline w1.
Proof. intros [[t d n]|] w H; inv H. eexists. split; reflexivity. Qed.

Lemma invX_opstep : forall ntid s cur todo s' cur' todo' out sp,
  opstep ntid s cur todo s' cur' todo' out sp ->
  ((forall w d, wt s = Some w -> w_notified w = false -> w_deadline w = Some d -> q s <> []) /\
   (eie = true -> forall w, wt s = Some w -> w_deadline w <> None)) ->
  ((forall w d, wt s' = Some w -> w_notified w = false -> w_deadline w = Some d -> q s' <> []) /\
   (eie = true -> forall w, wt s' = Some w -> w_deadline w <> None)).
Proof.
  intros ntid s cur todo s' cur' todo' out sp O [X1 X2].
  assert (N1 : forall w, notify (wt s) = Some w -> w_notified w = false -> False).
  { intros w E F. rewrite (notify_notified _ _ E) in F. discriminate F. }
  assert (N2 : eie = true -> forall w, notify (wt s) = Some w -> w_deadline w <> None).
  { intros E w Hn. destruct (notify_deadline _ _ Hn) as (w1 & W1 & ->). apply (X2 E w1 W1). }
  inv O; unfold set_q; cbn [wt q]; split; auto; try (intros w d E F _; exfalso; exact (N1 w E F)).
Qed.

Lemma invX_step : forall c tid c', invA c -> invX c -> cstep c tid c' -> invX c'.
Proof.
  intros c tid c' A X S. inv S.
  - unfold invX. cbn [c_sh]. eapply invX_opstep; eassumption.
  - destruct X as [X1 X2]. unfold invX. cbn [c_sh].
    inv H0; unfold set_q; cbn [wt q]; try (split; assumption).
    + (* collect: the collecting thread is the live thread, so nobody is waiting *)
      destruct A as (_ & A2 & A3 & _). split; [|exact X2]. intros w0 d0 W _ _. exfalso.
      pose proof (A3 w0 W) as NW.
      assert (T1 : thr (c_sh c) = Some (w_tid w0)) by (eapply A2; [exact NW|discriminate]).
      assert (T2 : thr (c_sh c) = Some tid) by (eapply A2; [exact H|discriminate]).
      rewrite T1 in T2. inv T2. rewrite H in NW. discriminate NW.
    + (* inside an action *)
      eapply invX_opstep; [eassumption|split; assumption].
    + (* wait with a timeout: the head of the queue *)
      split.
      * intros w0 d0 _ _ _. rewrite H2. discriminate.
      * intros _ w0 W. inv W. discriminate.
    + (* wait for ever: only without exit_if_empty *)
      split.
      * intros w0 d0 W _ D. inv W. discriminate D.
      * intros E. discriminate E.
    + (* woken up *)
      split; [intros w0 d0 W; discriminate W|intros _ w0 W; discriminate W].
Qed.

Lemma invX_run : forall sched c, invAll eie c -> invX c -> invX (run c sched).
Proof.
  intros sched c A X. apply (run_invariant2 eie body invX (invAll eie)); auto.
  - intros. apply invAll_run. assumption.
  - intros c0 tid c' (A0 & _) X0 S. eapply invX_step; eassumption.
Qed.
End Exit.

(* with exit_if_empty: in every quiescent state of a scheduler that is not disposed, with the clock past
   every accepted due time, the scheduler has NO thread and every loop thread that was ever started has
   exited *)
Theorem el_exits_when_idle : forall body t0 progs sched,
  let c := run true body (init t0 progs) sched in
  quiescent c = true -> disposed (c_sh c) = false ->
  (forall i, In (EAcc i) (L c) -> it_due i <= clock (c_sh c)) ->
  thr (c_sh c) = None /\
  forall t ph, nth_error (c_ths c) t = Some (TLoop ph) -> ph = LExited.
Proof.
  intros body t0 progs sched c Q D DUE.
  pose proof (reach true body t0 progs sched) as R. fold c in R.
  pose proof (invX_run true body sched _ (invAll_init true t0 progs) (invX_init true t0 progs)) as [X1 X2]. fold c in X1, X2.
  destruct R as ((_ & _ & _ & A4) & (_ & _ & _ & D4 & _) & _ & _ & _ & _ & (H1 & _ & H3)).
  assert (EX : forall t ph, nth_error (c_ths c) t = Some (TLoop ph) -> ph = LExited).
  { intros t ph P.
    assert (I : idle (c_sh c) (TLoop ph) = true).
    { unfold quiescent in Q. rewrite forallb_forall in Q. apply Q. eapply nth_error_In, P. }
    destruct ph; try discriminate I; [exfalso|reflexivity].
    destruct (A4 t P) as [w [W WT]]. cbn in I. rewrite W in I.
    apply negb_true_iff, orb_false_iff in I. destruct I as [NN TO].
    destruct (w_deadline w) as [d|] eqn:DL; [|exact (X2 eq_refl w W DL)].
    pose proof (X1 w d W NN DL) as QN. destruct (H1 w W NN) as [RL HQ].
    destruct (q (c_sh c)) as [|i qq] eqn:QQ; [apply QN; reflexivity|].
    destruct (HQ i (or_introl eq_refl)) as [d' [DL' LE]]. rewrite DL in DL'. inv DL'.
    unfold timed_out in TO. rewrite DL in TO. apply Z.leb_gt in TO.
    assert (In (EAcc i) (L c)).
    { apply accs_in. eapply Permutation_in; [symmetry; exact D4|]. apply in_or_app. right.
      apply in_or_app. right. apply in_or_app. right. left. reflexivity. }
    specialize (DUE i H). lia. }
  split; [|exact EX].
  destruct (thr (c_sh c)) as [t|] eqn:T; [exfalso|reflexivity].
  destruct (H3 t eq_refl D) as [ph [P LV]]. apply LV. eapply EX, P.
Qed.

(* ---- after scheduler.dispose(): every new schedule call raises ------------------------------------ *)
Lemma opstep_raise : forall ntid s cur todo s' cur' todo' out sp,
  opstep ntid s cur todo s' cur' todo' out sp -> disposed s = true ->
  disposed s' = true /\
  (forall u a due, cur = Some (PS1 u a due) -> In (ERaise a) out) /\
  (forall u a, In (ECall u a) out -> In (ERaise a) out \/ exists due, cur' = Some (PS1 u a due)).
Proof.
  intros ntid s cur todo s' cur' todo' out sp O D.
  inv O; cbn [disposed bump set_q]; try congruence; (split; [try reflexivity; assumption|]); split.
  all: try (intros u0 a0 due0 X; discriminate X).
  all: try (intros u0 a0 [X|[X|[X|[]]]]; discriminate X).
  all: try (intros u0 a0 [X|[X|[]]]; discriminate X).
  all: try (intros u0 a0 [X|[]]; discriminate X).
  - intros u0 a0 [X|[]]. inv X. right. eauto.
  - intros u0 a0 [X|[]]. inv X. right. eauto.
  - intros u0 a0 [X|[X|[]]]; [|discriminate X]. inv X. left. right. left. reflexivity.
  - intros u0 a0 due0 X. inv X. left. reflexivity.
Qed.

Section Raise.
Variable eie : bool.
Variable body : nat -> list op.
Notation cstep := (cstep eie body).
Notation run := (run eie body).

(* relative to the log [B] of the moment the flag was found set *)
Definition invG (B : list (nat * Z * ev)) (c : config) : Prop :=
  disposed (c_sh c) = true /\
  exists more, c_log c = B ++ more /\
    forall tid t u a, In (tid, t, ECall u a) more ->
      (exists t', In (tid, t', ERaise a) more) \/
      (exists st due, nth_error (c_ths c) tid = Some st /\ tcur st = Some (PS1 u a due)).

Lemma invG_opstep : forall B c tid st st' cur todo s' cur' todo' out sp,
  invG B c -> nth_error (c_ths c) tid = Some st -> tcur st = cur -> tcur st' = cur' ->
  opstep (length (c_ths c)) (c_sh c) cur todo s' cur' todo' out sp ->
  invG B (Config s' (upd tid st' (c_ths c) ++ (if sp then [TLoop LNew] else []))
                 (c_log c ++ stamp tid (clock (c_sh c)) out)).
Proof.
  intros B c tid st st' cur todo s' cur' todo' out sp (G1 & more & G2 & G3) N EC EC' O.
  destruct (opstep_raise _ _ _ _ _ _ _ _ _ O G1) as (R1 & R2 & R3).
  split; [exact R1|]. exists (more ++ stamp tid (clock (c_sh c)) out). cbn [c_log c_ths].
  split; [rewrite G2, app_assoc; reflexivity|].
  intros j t u a I. apply in_app_or in I. destruct I as [I|I].
  - destruct (G3 j t u a I) as [(t' & X)|(x & due & Nx & Cx)].
    + left. exists t'. apply in_or_app. left. exact X.
    + destruct (Nat.eq_dec j tid) as [->|NE].
      * rewrite N in Nx. inv Nx. left. exists (clock (c_sh c)). apply in_or_app. right.
        apply in_stamp. repeat split. eapply R2. exact Cx.
      * right. exists x, due. split; [|exact Cx]. erewrite nth_step_old; [reflexivity|exact NE|exact Nx].
  - apply in_stamp in I. destruct I as (-> & -> & I). destruct (R3 u a I) as [X|(due & X)].
    + left. exists (clock (c_sh c)). apply in_or_app. right. apply in_stamp. auto.
    + right. exists st', due. split; [erewrite nth_step_same by exact N; reflexivity|]. rewrite EC'. exact X.
Qed.

Lemma invG_step : forall B c tid c', invG B c -> cstep c tid c' -> invG B c'.
Proof.
  intros B c tid c' G S. inv S.
  - eapply (invG_opstep B c tid (TSched cur todo) (TSched cur' todo')); try reflexivity; eassumption.
  - assert (CASES : (exists i cur todo r cur' todo', ph = LBody i cur todo r /\ ph' = LBody i cur' todo' r /\
                        opstep (length (c_ths c)) (c_sh c) cur todo s' cur' todo' out sp) \/
                    (sp = false /\ (forall e, In e out -> callish e = false) /\ tcur (TLoop ph) = None /\
                     disposed s' = disposed (c_sh c))).
    { inv H0; try (right; repeat split; cbn;
                   try (intros e [X|[]]; subst; reflexivity); try (intros e []); fail).
      left. repeat eexists. eassumption. }
    destruct CASES as [(i & cur & todo & r & cur' & todo' & -> & -> & O)|(-> & CE & TC & DI)].
    + eapply (invG_opstep B c tid (TLoop (LBody i cur todo r)) (TLoop (LBody i cur' todo' r))); try reflexivity; eassumption.
    + destruct G as (G1 & more & G2 & G3). split; [cbn [c_sh]; congruence|].
      exists (more ++ stamp tid (clock (c_sh c)) out). cbn [c_log c_ths app]. rewrite app_nil_r.
      split; [rewrite G2, app_assoc; reflexivity|].
      intros j t u a I. apply in_app_or in I. destruct I as [I|I].
      * destruct (G3 j t u a I) as [(t' & X)|(x & due & Nx & Cx)].
        -- left. exists t'. apply in_or_app. left. exact X.
        -- right. exists x, due. split; [|exact Cx]. destruct (Nat.eq_dec j tid) as [->|NE].
           ++ rewrite H in Nx. inv Nx. rewrite TC in Cx. discriminate Cx.
           ++ rewrite nth_upd_other by exact NE. exact Nx.
      * apply in_stamp in I. destruct I as (_ & _ & I). specialize (CE _ I). discriminate CE.
Qed.

Lemma invG_run : forall B sched c, invG B c -> invG B (run c sched).
Proof.
  intros B. apply (run_invariant eie body (invG B)).
  - intros; eapply invG_step; eassumption.
  - intros c d H. exact H.
Qed.

(* once the scheduler is disposed, every schedule call that BEGINS afterwards raises DisposedException on
   the calling thread, or that thread still stands at the unlocked `if self._is_disposed` test of that
   call (it will raise at its next step: [opstep_raise]) *)
Theorem el_dispose_raises : forall t0 progs sched1 sched2 tid t u a,
  let c1 := run (init t0 progs) sched1 in
  let c2 := run c1 sched2 in
  disposed (c_sh c1) = true ->
  In (tid, t, ECall u a) (skipn (length (c_log c1)) (c_log c2)) ->
  (exists t', In (tid, t', ERaise a) (skipn (length (c_log c1)) (c_log c2))) \/
  (exists st due, nth_error (c_ths c2) tid = Some st /\ tcur st = Some (PS1 u a due)).
Proof.
  intros t0 progs sched1 sched2 tid t u a c1 c2 D I.
  assert (G0 : invG (c_log c1) c1).
  { split; [exact D|]. exists []. split; [rewrite app_nil_r; reflexivity|]. intros ? ? ? ? []. }
  destruct (invG_run (c_log c1) sched2 c1 G0) as (_ & more & E & G). fold c2 in E, G.
  rewrite E, skipn_app, skipn_all, Nat.sub_diag in I |- *. cbn [skipn app] in I |- *. exact (G tid t u a I).
Qed.

(* ... and the step that follows: a thread standing at the test of a disposed scheduler raises *)
Theorem el_dispose_raises_next : forall ntid s u a due todo s' cur' todo' out sp,
  opstep ntid s (Some (PS1 u a due)) todo s' cur' todo' out sp -> disposed s = true ->
  out = [ERaise a] /\ cur' = None.
Proof. intros. inv H; [auto|congruence]. Qed.
End Raise.
