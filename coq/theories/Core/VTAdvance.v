(* C28/C29: advance_to and start without the calm hypothesis; the enabled flag between
   top-level calls (audit thm-C28-C30). *)
From RxVerif Require Import Base.Prelude Core.VTime Core.VTimeFacts.
From Coq Require Import Sorting.Sorted Sorting.Permutation.

Local Open Scope Z_scope.

(* ---- invoke never dequeues ------------------------------------------------ *)

Lemma resched_disposed_pops s pid p :
  pops (log (bstate (resched_disposed s pid p))) = pops (log s) /\
  npops (bstate (resched_disposed s pid p)) = npops s.
Proof.
  unfold resched_disposed. cbn [bstate].
  destruct (dispose_per_fields s pid) as (A & B & C & D & E).
  match goal with |- context [cancel_id ?s0 ?r] =>
    destruct (cancel_id_fields s0 r) as (_ & _ & _ & _ & _ & _ & G); rewrite cancel_id_pops, G end.
  cbn [enqueue log npops]. rewrite D, E. split; reflexivity.
Qed.

Lemma invoke_pops s p :
  pops (log (bstate (invoke s p))) = pops (log s) /\ npops (bstate (invoke s p)) = npops s.
Proof.
  destruct p as [l b|pid stt]; cbn [invoke]; [apply exec_body_pops|].
  destruct (nth_error (pers s) pid) as [pi|]; [|split; reflexivity].
  destruct (p_disposed pi); [split; reflexivity|].
  set (s1 := add_log s (ETick pid stt (clock s))).
  assert (H1 : pops (log s1) = pops (log s) /\ npops s1 = npops s) by (split; reflexivity).
  destruct (plookup (p_fn pi) stt) as [ns sl st'|ns|ns e|ns e v].
  - cbn [bstate enqueue log npops set_pers set_clock].
    destruct (add_notes_fields ns s1) as (_ & _ & _ & D & E). rewrite D, E. exact H1.
  - destruct (resched_disposed_pops (add_notes s1 ns) pid (p_period pi)) as [A B].
    destruct (add_notes_fields ns s1) as (_ & _ & _ & D & E). rewrite A, B, D, E. exact H1.
  - cbn [bstate].
    match goal with |- context [dispose_per ?s0 pid] =>
      destruct (dispose_per_fields s0 pid) as (_ & _ & _ & D' & E'); rewrite D', E' end.
    cbn [add_log log npops pops].
    destruct (add_notes_fields ns s1) as (_ & _ & _ & D & E). rewrite D, E. exact H1.
  - destruct (add_notes_fields ns s1) as (_ & _ & _ & D & E).
    destruct v.
    + match goal with |- context [resched_disposed ?s0 pid ?p] =>
        destruct (resched_disposed_pops s0 pid p) as [A B]; rewrite A, B end.
      cbn [add_log log npops pops]. rewrite D, E. exact H1.
    + cbn [bstate].
      match goal with |- context [dispose_per ?s0 pid] =>
        destruct (dispose_per_fields s0 pid) as (_ & _ & _ & D' & E'); rewrite D', E' end.
      cbn [add_log log npops pops]. rewrite D, E. exact H1.
Qed.

Lemma run_item_pops s it q' newclk bumped :
  pops (log (bstate (run_item s it q' newclk bumped)))
  = PopRec (i_id it) (label_of (i_pay it)) (i_due it) (i_sclk it) (clock s) newclk
           (i_born it) (npops s) bumped (negb (memb (i_id it) (cancelled s))) :: pops (log s) /\
  npops (bstate (run_item s it q' newclk bumped)) = S (npops s).
Proof.
  unfold run_item. destruct (negb (memb (i_id it) (cancelled s))) eqn:Er.
  - match goal with |- context [invoke ?s0 ?p] => destruct (invoke_pops s0 p) as [A B]; rewrite A, B end.
    cbn. split; reflexivity.
  - cbn. split; reflexivity.
Qed.

(* ---- advance_to dequeues only what is due, never bumps: NO hypothesis -------- *)

Lemma new_pops_ok_refl s t : new_pops_ok s s t.
Proof. intros r Hr. left. exact Hr. Qed.

Lemma finish_adv_pops s t : pops (log (ostate (finish_adv s t))) = pops (log s).
Proof. unfold finish_adv. cbn [ostate]. destruct (clock s <? t); reflexivity. Qed.

Lemma advance_loop_only_due t : forall fuel s, new_pops_ok s (ostate (advance_loop fuel s t)) t.
Proof.
  assert (Hfin : forall s, new_pops_ok s (ostate (finish_adv s t)) t).
  { intros s r Hr. rewrite finish_adv_pops in Hr. left. exact Hr. }
  induction fuel as [|fuel IH]; intro s; cbn [advance_loop].
  - destruct (negb (enabled s)); [apply Hfin|].
    destruct (queue s) as [|it q']; [apply Hfin|].
    destruct (t <? i_due it); [apply Hfin | apply new_pops_ok_refl].
  - destruct (negb (enabled s)); [apply Hfin|].
    destruct (queue s) as [|it q']; [apply Hfin|].
    destruct (t <? i_due it) eqn:Et; [apply Hfin|]. apply Z.ltb_ge in Et.
    set (newclk := if clock s <? i_due it then i_due it else clock s).
    destruct (run_item_pops s it q' newclk false) as [P N].
    destruct (run_item s it q' newclk false) as [s1|e s1]; cbn [bstate] in P, N.
    + intros r Hr. destruct (IH s1 r Hr) as [Hold|(X & Y & Z)].
      * rewrite P in Hold. destruct Hold as [<-|Hold]; [|left; exact Hold].
        right. cbn. repeat split; auto; lia.
      * right. repeat split; auto; lia.
    + cbn [ostate]. intros r Hr. rewrite P in Hr. destruct Hr as [<-|Hold]; [|left; exact Hold].
      right. cbn. repeat split; auto; lia.
Qed.

(* In ANY state (reachable or not, any queue content: stopping, raising, periodic
   items), any target and fuel, whatever the outcome (Finished, Raised, OutOfFuel):
   every record advance_to adds to the log is of an item due at or before the target,
   and is never a spin bump. *)
Theorem advance_to_only_due fuel s t : new_pops_ok s (ostate (advance_to fuel s t)) t.
Proof.
  unfold advance_to. destruct (t <? clock s); [apply new_pops_ok_refl|].
  destruct ((clock s =? t) || enabled s); [apply new_pops_ok_refl|].
  intros r Hr. apply (advance_loop_only_due t fuel (set_enabled s true)). exact Hr.
Qed.

(* ---- the log only grows ----------------------------------------------------- *)

Lemma prim_log_ext s s' : prim s s' -> exists l, log s' = l ++ log s.
Proof.
  intro H. destruct H; try (exists []; reflexivity).
  - unfold cancel_id. destruct (r <? next_id s)%nat; [exists [ECancel r] | exists []]; reflexivity.
  - exists [e]; reflexivity.
  - eexists [_]; reflexivity.
Qed.

Lemma steps_log_ext s s' : steps s s' -> exists l, log s' = l ++ log s.
Proof.
  induction 1 as [|s' s'' _ [l1 E1] HP]; [exists []; reflexivity|].
  destruct (prim_log_ext s' s'' HP) as [l2 E2]. exists (l2 ++ l1). rewrite E2, E1, app_assoc. reflexivity.
Qed.

(* ---- _is_enabled between top-level calls -------------------------------------- *)

Lemma exec_cmd_enabled s c : enabled s = false -> enabled (bstate (exec_cmd s c)) = false.
Proof.
  intro He. destruct c; cbn [exec_cmd bstate]; try exact He; try reflexivity.
  - destruct (cancel_id_fields s r) as (_ & _ & _ & D & _). rewrite D. exact He.
  - destruct (d <? 0); exact He.
  - destruct v; exact He.
  - destruct (dispose_per_fields s pid) as (_ & _ & C & _). rewrite C. exact He.
Qed.

Lemma start_loop_finished c : forall fuel s sp s',
  start_loop c fuel s sp = Finished s' -> enabled s' = false.
Proof.
  induction fuel as [|fuel IH]; intros s sp s'; cbn [start_loop].
  - destruct (negb (enabled s)); [intro E; inversion E; reflexivity|].
    destruct (queue s); [intro E; inversion E; reflexivity | discriminate].
  - destruct (negb (enabled s)); [intro E; inversion E; reflexivity|].
    destruct (queue s) as [|it q']; [intro E; inversion E; reflexivity|].
    assert (Hstep : forall newclk bumped sp',
      match run_item s it q' newclk bumped with
      | BOk s1 => start_loop c fuel s1 sp' | BRaise e s1 => Raised e s1 end = Finished s' ->
      enabled s' = false).
    { intros newclk bumped sp'. destruct (run_item s it q' newclk bumped); [apply IH | discriminate]. }
    destruct (clock s <? i_due it); [apply Hstep|].
    destruct (MAX_SPINNING <? sp)%nat; [|apply Hstep].
    destruct (c_kind c); [apply Hstep|].
    destruct (c_prop_bump c); [cbn [clock_property]; discriminate | apply Hstep].
Qed.

Lemma advance_loop_finished t : forall fuel s s',
  advance_loop fuel s t = Finished s' -> enabled s' = false.
Proof.
  assert (Hfin : forall s s', finish_adv s t = Finished s' -> enabled s' = false).
  { intros s s' E. unfold finish_adv in E. inversion E. reflexivity. }
  induction fuel as [|fuel IH]; intros s s'; cbn [advance_loop].
  - destruct (negb (enabled s)); [apply Hfin|]. destruct (queue s) as [|it q']; [apply Hfin|].
    destruct (t <? i_due it); [apply Hfin | discriminate].
  - destruct (negb (enabled s)); [apply Hfin|]. destruct (queue s) as [|it q']; [apply Hfin|].
    destruct (t <? i_due it); [apply Hfin|].
    destruct (run_item s it q' _ false); [apply IH | discriminate].
Qed.

(* A top-level call made on a stopped scheduler that returns normally leaves it
   stopped (start and advance_to reset _is_enabled on their normal exits only). *)
Theorem step_t_stays_stopped c fuel s cmd s' :
  enabled s = false -> step_t c fuel s cmd = Finished s' -> enabled s' = false.
Proof.
  intros He. destruct cmd as [k| | |t|d]; cbn [step_t].
  - pose proof (exec_cmd_enabled s k He) as H. destruct (exec_cmd s k); cbn [of_bres bstate] in *;
      [intro E; inversion E; subst; exact H | discriminate].
  - unfold start. rewrite He. apply start_loop_finished.
  - unfold start. cbn [silent enqueue enabled]. rewrite He. apply start_loop_finished.
  - unfold advance_to. destruct (t <? clock s); [discriminate|].
    destruct ((clock s =? t) || enabled s); [intro E; inversion E; subst; exact He|].
    apply advance_loop_finished.
  - unfold advance_to. destruct (clock s + d <? clock s); [discriminate|].
    destruct ((clock s =? clock s + d) || enabled s); [intro E; inversion E; subst; exact He|].
    apply advance_loop_finished.
Qed.

Definition no_exc (l : list event) : Prop := forall e, ~ In (EExc e) l.

Lemma run_stopped_gen c fuel : forall h s s', enabled s = false -> run c fuel s h = RDone s' ->
  exists l, log s' = l ++ log s /\ (no_exc l -> enabled s' = false).
Proof.
  induction h as [|cmd h IH]; intros s s' He; cbn [run].
  - intro E. inversion E; subst. exists []. split; [reflexivity | intros _; exact He].
  - pose proof (step_t_steps c fuel s cmd) as Hst. apply steps_log_ext in Hst. destruct Hst as [l1 E1].
    destruct (step_t c fuel s cmd) as [s1|e s1|s1|s1] eqn:Es; cbn [ostate] in E1; try discriminate.
    + intro R. pose proof (step_t_stays_stopped c fuel s cmd s1 He Es) as He1.
      destruct (IH (add_log s1 (EClock (clock s1))) s' He1 R) as (l & E & K).
      exists (l ++ EClock (clock s1) :: l1). split.
      * rewrite E. cbn [add_log log]. rewrite E1, <- app_assoc. reflexivity.
      * intro N. apply K. intros x Hx. apply (N x). apply in_or_app. left. exact Hx.
    + intro R.
      assert (R' : exists l, log s' = l ++ EClock (clock s1) :: EExc e :: log s1).
      { pose proof (run_steps c fuel h (add_log (add_log s1 (EExc e)) (EClock (clock s1)))) as Hs.
        rewrite R in Hs. cbn [state_of] in Hs. apply steps_log_ext in Hs. exact Hs. }
      destruct R' as [l E]. exists (l ++ EClock (clock s1) :: EExc e :: l1). split.
      * rewrite E, E1, <- app_assoc. reflexivity.
      * intro N. exfalso. apply (N e). apply in_or_app. right. right. left. reflexivity.
Qed.

(* Between top-level calls the scheduler is stopped, unless a call raised: if a history
   ran to its end and logged no escaping exception, _is_enabled is False. *)
Theorem hist_stopped c fuel c0 h s' : run c fuel (init c0) h = RDone s' ->
  (forall e, ~ In (EExc e) (log s')) -> enabled s' = false.
Proof.
  intros R N. destruct (run_stopped_gen c fuel h (init c0) s' eq_refl R) as (l & E & K).
  apply K. intros e He. apply (N e). rewrite E. apply in_or_app. left. exact He.
Qed.

(* ---- calm histories: a drained scheduler can be started again --------------------- *)

(* top-level calls of a calm history: schedule / cancel / sleep forward / note with calm
   bodies, and any start, TestScheduler.start, advance_to, advance_by *)
Definition calm_top (sl : bool) (c : tcmd) : Prop :=
  match c with TDo k => calm_cmd sl k = true | _ => True end.

Lemma run_app c fuel : forall a b s,
  run c fuel s (a ++ b) = match run c fuel s a with RDone s' => run c fuel s' b | r => r end.
Proof.
  induction a as [|cmd a IH]; intros b s; cbn [app run]; [reflexivity|].
  destruct (step_t c fuel s cmd); try reflexivity; apply IH.
Qed.

Lemma calm_q_silent sl s t : calm_q sl (queue s) -> calm_q sl (queue (silent s t)).
Proof. intro H. unfold silent. cbn [enqueue queue]. apply Forall_insert; [reflexivity | exact H]. Qed.

Lemma qsize_silent s t : qsize (queue (silent s t)) = S (qsize (queue s)).
Proof. unfold silent. cbn [enqueue queue]. rewrite qsize_insert. reflexivity. Qed.

Lemma step_t_calm sl c fuel s cmd : c_prop_bump c = false ->
  Inv1 s -> enabled s = false -> calm_q sl (queue s) -> calm_top sl cmd ->
  (qsize (queue s) + tsize cmd <= fuel)%nat ->
  exists s', (step_t c fuel s cmd = Finished s' \/ exists e, step_t c fuel s cmd = Raised e s') /\
             enabled s' = false /\ calm_q sl (queue s') /\
             (qsize (queue s') <= qsize (queue s) + tsize cmd)%nat.
Proof.
  intros Hc HI He Hq Ht Hf.
  assert (Hadv : forall t, exists s', (advance_to fuel s t = Finished s' \/ exists e, advance_to fuel s t = Raised e s') /\
             enabled s' = false /\ calm_q sl (queue s') /\ (qsize (queue s') <= qsize (queue s) + 0)%nat).
  { intro t. destruct (advance_to_returns fuel s t (calm_q_noper _ _ Hq)) as (s1 & R & _ & L); [lia|].
    destruct (Z_lt_le_dec t (clock s)) as [Hlt|Hge].
    - rewrite (advance_to_past_raises fuel s t Hlt). exists s. split; [right; eexists; reflexivity|].
      repeat split; auto; lia.
    - destruct (Z.eq_dec (clock s) t) as [<-|Hne].
      + rewrite advance_to_now_noop. exists s. split; [left; reflexivity|]. repeat split; auto; lia.
      + destruct (advance_to_calm sl fuel s t HI He) as (s' & E & A & _ & _ & _ & Cq & _); [lia | exact Hq | lia|].
        exists s'. split; [left; exact E|]. repeat split; auto.
        destruct R as [R|[e R]]; rewrite R in E; inversion E; subst; lia. }
  destruct cmd as [k| | |t|d]; cbn [step_t tsize calm_top] in *.
  - destruct (exec_cmd_calm sl s k Ht Hq) as (s' & E & A & _ & _ & Cq).
    destruct (exec_cmd_noper s k (calm_noper _ _ Ht) (calm_q_noper _ _ Hq)) as [_ G].
    rewrite E in *. cbn [of_bres bstate] in *. exists s'. split; [left; reflexivity|].
    repeat split; auto; congruence.
  - destruct (start_calm sl c fuel s Hc He Hq) as (s' & E & A & B); [lia|].
    exists s'. split; [left; exact E|]. rewrite B. repeat split; auto. constructor. cbn. lia.
  - set (s3 := silent (silent (silent s 100000000) 200000000) 1000000000).
    assert (E3 : enabled s3 = false) by exact He.
    assert (C3 : calm_q sl (queue s3)) by (unfold s3; repeat apply calm_q_silent; exact Hq).
    assert (Q3 : qsize (queue s3) = (3 + qsize (queue s))%nat) by (unfold s3; rewrite !qsize_silent; lia).
    destruct (start_calm sl c fuel s3 Hc E3 C3) as (s' & E & A & B); [lia|].
    exists s'. split; [left; exact E|]. rewrite B. repeat split; auto. constructor. cbn. lia.
  - apply Hadv.
  - apply Hadv.
Qed.

Lemma run_calm sl c fuel : c_prop_bump c = false -> forall h s,
  Inv s -> enabled s = false -> calm_q sl (queue s) -> Forall (calm_top sl) h ->
  (qsize (queue s) + hsize h <= fuel)%nat ->
  exists s', run c fuel s h = RDone s' /\ Inv s' /\ enabled s' = false /\ calm_q sl (queue s') /\
             (qsize (queue s') <= qsize (queue s) + hsize h)%nat.
Proof.
  intro Hc. induction h as [|cmd h IH]; intros s HI He Hq Hh Hf.
  - exists s. split; [reflexivity|]. split; [exact HI|]. split; [exact He|]. split; [exact Hq|]. lia.
  - inversion Hh as [|? ? Hcmd Hh']; subst.
    change (hsize (cmd :: h)) with (tsize cmd + hsize h)%nat in *.
    destruct (step_t_calm sl c fuel s cmd Hc (proj1 HI) He Hq Hcmd) as (s1 & R & A & Cq & L); [lia|].
    pose proof (step_t_steps c fuel s cmd) as Hst.
    assert (HI1 : Inv s1).
    { destruct R as [R|[e R]]; rewrite R in Hst; cbn [ostate] in Hst; exact (inv_steps _ _ Hst HI). }
    cbn [run].
    destruct R as [R|[e R]]; rewrite R.
    + destruct (IH (add_log s1 (EClock (clock s1)))) as (s' & R' & I' & A' & C' & L'); auto.
      * eapply inv_steps; [|exact HI1]. apply add_log_steps. reflexivity.
      * cbn [add_log queue]. lia.
      * exists s'. split; [exact R'|]. split; [exact I'|]. split; [exact A'|]. split; [exact C'|]. cbn [add_log queue] in L'. lia.
    + destruct (IH (add_log (add_log s1 (EExc e)) (EClock (clock s1)))) as (s' & R' & I' & A' & C' & L'); auto.
      * eapply inv_steps; [|exact HI1]. eapply steps_trans; apply add_log_steps; [exact I | reflexivity].
      * cbn [add_log queue]. lia.
      * exists s'. split; [exact R'|]. split; [exact I'|]. split; [exact A'|]. split; [exact C'|]. cbn [add_log queue] in L'. lia.
Qed.

(* Any calm history -- any number of earlier start()/advance_to() calls that drained the
   queue included -- followed by start(): the run completes, the queue is empty, the
   scheduler is stopped, and EVERY action ever scheduled has been dequeued. *)
Theorem calm_history_start_drains k fuel c0 h sl :
  Forall (calm_top sl) h -> (hsize h <= fuel)%nat ->
  exists s', run (Cfg k false) fuel (init c0) (h ++ [TStart]) = RDone s' /\
             queue s' = [] /\ enabled s' = false /\
             forall id, (id < next_id s')%nat -> In id (map r_id (pops (log s'))).
Proof.
  intros Hh Hf.
  destruct (run_calm sl (Cfg k false) fuel eq_refl h (init c0) (inv_init c0) eq_refl) as (s1 & R & I1 & A & Cq & L);
    [constructor | exact Hh | cbn; lia|].
  rewrite run_app, R. cbn [run step_t].
  destruct (start_calm sl (Cfg k false) fuel s1 eq_refl A Cq) as (s2 & E & A2 & B2); [cbn in L; lia|].
  rewrite E. eexists. split; [reflexivity|]. cbn [add_log queue enabled next_id log pops].
  repeat split; auto.
  assert (HI : Inv s2).
  { pose proof (start_steps (Cfg k false) fuel s1) as H. rewrite E in H. exact (inv_steps _ _ H I1). }
  destruct HI as (_ & _ & _ & _ & _ & _ & [_ H2]).
  intros id Hid. apply H2 in Hid. unfold ids in Hid. rewrite B2 in Hid. exact Hid.
Qed.

(* the audit's form: drain, schedule more, start again *)
Corollary restart_runs_everything k fuel c0 h1 h2 sl :
  Forall (calm_top sl) (h1 ++ h2) -> (hsize (h1 ++ h2) <= fuel)%nat ->
  exists s', run (Cfg k false) fuel (init c0) (h1 ++ [TStart] ++ h2 ++ [TStart]) = RDone s' /\
             queue s' = [] /\ enabled s' = false /\
             forall id, (id < next_id s')%nat -> In id (map r_id (pops (log s'))).
Proof.
  intros Hh Hf.
  replace (h1 ++ [TStart] ++ h2 ++ [TStart]) with ((h1 ++ [TStart] ++ h2) ++ [TStart])
    by (rewrite <- !app_assoc; reflexivity).
  apply calm_history_start_drains with (sl := sl).
  - apply Forall_app in Hh. destruct Hh as [H1 H2]. apply Forall_app. split; [exact H1|].
    apply Forall_app. split; [repeat constructor | exact H2].
  - unfold hsize in *. rewrite !map_app, !list_sum_app in *. cbn. lia.
Qed.

(* ---- completeness of advance_to ----------------------------------------------- *)

(* along any sequence of primitive steps from s0, an item of the queue is an item of
   s0's queue or was created afterwards *)
Definition from_q (s0 s : st) : Prop :=
  (next_id s0 <= next_id s)%nat /\
  forall x, In x (queue s) -> In x (queue s0) \/ (next_id s0 <= i_id x)%nat.

Lemma from_q_prim s0 s s' : from_q s0 s -> prim s s' -> from_q s0 s'.
Proof.
  intros [Hn Hq] HP. destruct HP; try (split; [exact Hn | exact Hq]).
  - split; [cbn; lia|]. cbn [enqueue queue]. intros x Hx. apply In_insert in Hx.
    destruct Hx as [->|Hx]; [right; cbn; exact Hn | apply Hq; exact Hx].
  - destruct (cancel_id_fields s r) as (_ & B & _ & _ & E & _). split; [rewrite E; exact Hn|].
    rewrite B. exact Hq.
  - split; [exact Hn|]. cbn. intros x Hx. apply Hq. rewrite H. right. exact Hx.
Qed.

Lemma from_q_steps s0 s : steps s0 s -> from_q s0 s.
Proof.
  intro H. apply (steps_inv (from_q s0) (from_q_prim s0) s0 s H).
  split; [lia | intros x Hx; left; exact Hx].
Qed.

Lemma NoDup_map_inj {A B} (f : A -> B) : forall l x y,
  NoDup (map f l) -> In x l -> In y l -> f x = f y -> x = y.
Proof.
  induction l as [|a l IH]; intros x y Hnd Hx Hy E; [destruct Hx|].
  cbn in Hnd. inversion Hnd as [|? ? Hna Hnd']; subst.
  destruct Hx as [->|Hx], Hy as [->|Hy]; auto.
  - exfalso. apply Hna. rewrite E. apply in_map. exact Hy.
  - exfalso. apply Hna. rewrite <- E. apply in_map. exact Hx.
Qed.

Lemma NoDup_app_l {A} : forall (l l' : list A), NoDup (l ++ l') -> NoDup l.
Proof.
  induction l as [|a l IH]; intros l' H; [constructor|].
  cbn in H. inversion H as [|? ? Hna Hnd]; subst. constructor; [|eapply IH; exact Hnd].
  intro Hin. apply Hna. apply in_or_app. left. exact Hin.
Qed.

(* advance_to(t) from a state with invariant Inv (every reachable state), stopped, clock
   before t, calm pending work: it returns normally and EVERY pending item due at or
   before t has been dequeued (together with advance_to_only_due: exactly those, plus
   what they scheduled themselves for <= t) *)
Theorem advance_to_complete sl fuel s t :
  Inv s -> enabled s = false -> clock s < t -> calm_q sl (queue s) -> (qsize (queue s) <= fuel)%nat ->
  exists s', advance_to fuel s t = Finished s' /\
             forall it, In it (queue s) -> i_due it <= t -> In (i_id it) (map r_id (pops (log s'))).
Proof.
  intros HI He Hlt Hq Hf.
  destruct (advance_to_calm sl fuel s t (proj1 HI) He Hlt Hq Hf) as (s' & E & _ & Hall & _).
  exists s'. split; [exact E|]. intros it Hin Hdue.
  pose proof (advance_to_steps fuel s t) as Hst. rewrite E in Hst. cbn [ostate] in Hst.
  pose proof (inv_steps _ _ Hst HI) as HI'.
  destruct (from_q_steps _ _ Hst) as [Hn Hfq].
  destruct HI as (_ & _ & _ & _ & _ & _ & [ND Hids]).
  destruct HI' as (_ & _ & _ & _ & _ & _ & [_ Hids']).
  assert (Hid : (i_id it < next_id s)%nat).
  { apply Hids. unfold ids. apply in_or_app. left. apply in_map. exact Hin. }
  assert (Hid' : In (i_id it) (ids s')) by (apply Hids'; lia).
  unfold ids in Hid'. apply in_app_or in Hid'. destruct Hid' as [Hq'|Hp]; [exfalso | exact Hp].
  apply in_map_iff in Hq'. destruct Hq' as (it' & Eid & Hin').
  rewrite Forall_forall in Hall. pose proof (Hall it' Hin') as Hlate.
  destruct (Hfq it' Hin') as [Hold|Hnew]; [|lia].
  unfold ids in ND. apply NoDup_app_l in ND.
  assert (it' = it) by (eapply NoDup_map_inj; eauto). subst it'. lia.
Qed.

Corollary hist_advance_to_complete c fuel c0 h sl fuel' t :
  let s := state_of (run c fuel (init c0) h) in
  enabled s = false -> clock s < t -> calm_q sl (queue s) -> (qsize (queue s) <= fuel')%nat ->
  exists s', advance_to fuel' s t = Finished s' /\
             forall it, In it (queue s) -> i_due it <= t -> In (i_id it) (map r_id (pops (log s'))).
Proof. intro s. apply advance_to_complete. apply inv_run. Qed.
