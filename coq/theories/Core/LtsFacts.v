(* Generic facts about the interleaving semantics of Core/Lts.v. *)
From RxVerif Require Import Base.Prelude Core.Lts.
Local Open Scope nat_scope.

(* ---- upd_nth ------------------------------------------------------------- *)
Lemma nth_upd_same : forall A (l : list A) k x old,
  nth_error l k = Some old -> nth_error (upd_nth k x l) k = Some x.
Proof.
  induction l as [|y t IH]; intros k x old H; [destruct k; discriminate H|].
  destruct k as [|k']; cbn [upd_nth nth_error] in *; [reflexivity|]. eapply IH, H.
Qed.

Lemma nth_upd_other : forall A (l : list A) k j x,
  j <> k -> nth_error (upd_nth k x l) j = nth_error l j.
Proof.
  induction l as [|y t IH]; intros k j x H; [destruct k; reflexivity|].
  destruct k as [|k'], j as [|j']; cbn [upd_nth nth_error]; try reflexivity; [congruence|].
  apply IH. congruence.
Qed.

Lemma upd_nth_length : forall A (l : list A) k x, length (upd_nth k x l) = length l.
Proof.
  induction l as [|y t IH]; intros k x; [destruct k; reflexivity|].
  destruct k; cbn [upd_nth length]; [reflexivity|]. rewrite IH. reflexivity.
Qed.

(* sums over the thread list *)

Lemma nsum_cons : forall A (f : A -> nat) x l, nsum f (x :: l) = f x + nsum f l.
Proof. reflexivity. Qed.

Lemma nsum_upd : forall A (f : A -> nat) l k x old,
  nth_error l k = Some old -> nsum f (upd_nth k x l) + f old = nsum f l + f x.
Proof.
  induction l as [|y t IH]; intros k x old H; [destruct k; discriminate H|].
  destruct k as [|k']; cbn [nth_error] in H; cbn [upd_nth]; rewrite !nsum_cons.
  - injection H as ->. lia.
  - specialize (IH k' x old H). lia.
Qed.

Lemma nsum_ge : forall A (f : A -> nat) l k x, nth_error l k = Some x -> f x <= nsum f l.
Proof.
  induction l as [|y t IH]; intros k x H; [destruct k; discriminate H|].
  rewrite nsum_cons. destruct k as [|k']; cbn [nth_error] in H.
  - injection H as ->. lia.
  - specialize (IH k' x H). lia.
Qed.

Lemma nsum_zero : forall A (f : A -> nat) l, (forall x, In x l -> f x = 0) -> nsum f l = 0.
Proof.
  intros A f l H. induction l as [|y t IH]; [reflexivity|]. rewrite nsum_cons, IH, (H y); [reflexivity|left; reflexivity|].
  intros x Hx. apply H. right. exact Hx.
Qed.

Lemma nsum_zero_inv : forall A (f : A -> nat) l x, nsum f l = 0 -> In x l -> f x = 0.
Proof.
  intros A f l x H I. induction l as [|y t IH]; [destruct I|]. rewrite nsum_cons in H.
  destruct I as [->|I]; [lia|]. apply IH; [lia|exact I].
Qed.

(* two different threads both counted => the sum is at least 2 *)
Lemma nsum_two : forall A (f : A -> nat) l i j x y,
  i <> j -> nth_error l i = Some x -> nth_error l j = Some y -> f x + f y <= nsum f l.
Proof.
  induction l as [|z t IH]; intros i j x y N Hi Hj; [destruct i; discriminate Hi|].
  rewrite nsum_cons. destruct i as [|i'], j as [|j']; cbn [nth_error] in Hi, Hj.
  - congruence.
  - injection Hi as ->. pose proof (nsum_ge A f t j' y Hj). lia.
  - injection Hj as ->. pose proof (nsum_ge A f t i' x Hi). lia.
  - assert (i' <> j') by congruence. specialize (IH i' j' x y H Hi Hj). lia.
Qed.

(* ---- flat_map over the thread list --------------------------------------- *)
Lemma fm_nil : forall A B (g : A -> list B) l, (forall y, In y l -> g y = []) -> flat_map g l = [].
Proof.
  intros A B g l H. induction l as [|y t IH]; [reflexivity|]. cbn [flat_map].
  rewrite (H y), IH; [reflexivity| |left; reflexivity]. intros z Hz. apply H. right. exact Hz.
Qed.

Lemma fm_upd_same : forall A B (g : A -> list B) l k x old,
  nth_error l k = Some old -> g x = g old -> flat_map g (upd_nth k x l) = flat_map g l.
Proof.
  induction l as [|y t IH]; intros k x old H E; [destruct k; discriminate H|].
  destruct k as [|k']; cbn [nth_error] in H; cbn [upd_nth flat_map].
  - injection H as ->. rewrite E. reflexivity.
  - rewrite (IH k' x old H E). reflexivity.
Qed.

Lemma fm_single : forall A B (g : A -> list B) l k old,
  nth_error l k = Some old ->
  (forall j y, j <> k -> nth_error l j = Some y -> g y = []) -> flat_map g l = g old.
Proof.
  induction l as [|z t IH]; intros k old H Ho; [destruct k; discriminate H|].
  destruct k as [|k']; cbn [nth_error] in H; cbn [flat_map].
  - injection H as ->. rewrite fm_nil; [apply app_nil_r|]. intros y Hy.
    apply In_nth_error in Hy. destruct Hy as [n Hn]. apply (Ho (S n) y); [discriminate|exact Hn].
  - rewrite (Ho 0 z); [|discriminate|reflexivity]. cbn [app]. apply (IH k' old H).
    intros j y Hj Hy. apply (Ho (S j) y); [congruence|exact Hy].
Qed.

Lemma untag_app : forall Ob (a b : list (nat * Ob)), untag (a ++ b) = untag a ++ untag b.
Proof. intros. unfold untag. apply map_app. Qed.
Lemma untag_tag : forall Ob tid (out : list Ob), untag (map (pair tid) out) = out.
Proof. intros. unfold untag. rewrite map_map. cbn. apply map_id. Qed.

(* ======================================================================= *)
Section Facts.
Context {Sh L O Ob : Type}.
Variable start : O -> L.
Variable act : nat -> Sh -> L -> option (Sh * option L * list Ob).
Notation thread := (@thread L O).
Notation config := (@config Sh L O Ob).
Notation tstep := (@tstep Sh L O Ob start act).
Notation run := (@run Sh L O Ob start act).

Lemma run_nil : forall c : config, run c [] = c.
Proof. reflexivity. Qed.
Lemma run_cons : forall (c : config) t s, run c (t :: s) = run (tstep c t) s.
Proof. reflexivity. Qed.
Lemma run_app : forall a b (c : config), run c (a ++ b) = run (run c a) b.
Proof. intros. unfold Lts.run. apply fold_left_app. Qed.

(* what one scheduled step is *)
Lemma tstep_cases : forall (c : config) tid,
  tstep c tid = c \/
  exists t l todo s' l' out,
    nth_error (c_ths c) tid = Some t /\ next_frame start t = Some (l, todo) /\
    act tid (c_sh c) l = Some (s', l', out) /\
    tstep c tid = Config s' (upd_nth tid (Thread l' todo) (c_ths c)) (c_log c ++ map (pair tid) out).
Proof.
  intros c tid. unfold Lts.tstep.
  destruct (nth_error (c_ths c) tid) as [t|] eqn:N; [|left; reflexivity].
  destruct (next_frame start t) as [[l todo]|] eqn:F; [|left; reflexivity].
  destruct (act tid (c_sh c) l) as [[[s' l'] out]|] eqn:A; [|left; reflexivity]. right.
  exists t, l, todo, s', l', out. repeat split; try assumption; reflexivity.
Qed.

Lemma run_invariant : forall (P : config -> Prop),
  (forall c tid, P c -> P (tstep c tid)) -> forall sched c, P c -> P (run c sched).
Proof.
  intros P Hs. induction sched as [|t s IH]; intros c H; [exact H|].
  rewrite run_cons. apply IH, Hs, H.
Qed.

Lemma log_grows : forall sched (c : config), exists more, c_log (run c sched) = c_log c ++ more.
Proof.
  induction sched as [|t s IH]; intros c; [exists []; rewrite app_nil_r; reflexivity|].
  rewrite run_cons. destruct (IH (tstep c t)) as [m Hm]. rewrite Hm.
  destruct (tstep_cases c t) as [E|[t0 [l [todo [s' [l' [out [_ [_ [_ E]]]]]]]]]]; rewrite E.
  - exists m. reflexivity.
  - cbn [c_log]. exists (map (pair t) out ++ m). rewrite app_assoc. reflexivity.
Qed.

(* the position a started frame is at: either the call in progress or the first
   yield point of the next call *)
Lemma next_frame_cur : forall (t : thread) l todo,
  next_frame start t = Some (l, todo) ->
  (t_cur t = Some l /\ todo = t_todo t) \/ (t_cur t = None /\ exists o, t_todo t = o :: todo /\ l = start o).
Proof.
  intros t l todo F. unfold next_frame in F. destruct (t_cur t) as [l0|].
  - injection F as -> ->. left. split; reflexivity.
  - destruct (t_todo t) as [|o r]; [discriminate F|]. injection F as <- <-. right. split; [reflexivity|].
    exists o. split; reflexivity.
Qed.

Lemma init_threads : forall (s : Sh) progs tid (t : thread),
  nth_error (c_ths (init (Ob:=Ob) s progs)) tid = Some t -> t_cur t = None.
Proof.
  intros s progs tid t H. cbn [init c_ths] in H. apply nth_error_In in H. apply in_map_iff in H.
  destruct H as [p [<- _]]. reflexivity.
Qed.
End Facts.
