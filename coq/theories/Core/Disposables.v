(* Sequential (one thread, non re-entrant) executable models of
   reactivex/disposable/*.py.

   Every class is a state machine  step : state -> op -> state * list obs .
   [obs] are the OBSERVABLE effects of one call: which held item received a
   dispose() call, that the action ran, an exception, a returned value.  Items
   are identified by natural numbers (harness: spy objects logging dispose()).
   The models follow the code of the CURRENT /repo working tree line by line;
   the model of SingleAssignmentDisposable as it was before
   proposed_fixes/C26-singleassignment-locked-decision.diff is kept at the end
   ([sad0_step]) only to state the refutation lemmas about the old code.

   No proofs here (DisposablesFacts.v). *)
From RxVerif Require Import Base.Prelude.

Definition item := nat.

Inductive obs :=
| ODisp (i : item)            (* item i received a dispose() call *)
| ORun                        (* Disposable: the action was invoked *)
| ORaise                      (* Exception("Disposable has already been assigned") escaped *)
| ORej (i : item)             (* the same exception, naming the item whose assignment was rejected
                                 (used by the concurrent models, whose log is not grouped per call) *)
| OSched                      (* ScheduledDisposable: scheduler.schedule(action) was called *)
| OBool (b : bool)            (* returned bool (remove, contains, is_disposed) *)
| OItem (o : option item)     (* returned item (get_disposable) *)
| OItems (l : list item)      (* returned list (to_list) *)
| ONat (n : nat).             (* returned length *)

Definition item_opt_eqb := option_eqb Nat.eqb.

Definition obs_eqb (a b : obs) : bool :=
  match a, b with
  | ODisp i, ODisp j => Nat.eqb i j
  | ORun, ORun => true
  | ORaise, ORaise => true
  | ORej i, ORej j => Nat.eqb i j
  | OSched, OSched => true
  | OBool x, OBool y => Bool.eqb x y
  | OItem x, OItem y => item_opt_eqb x y
  | OItems x, OItems y => list_eqb Nat.eqb x y
  | ONat x, ONat y => Nat.eqb x y
  | _, _ => false
  end.

(* number of dispose() calls item [i] received in a log *)
Definition is_disp (i : item) (o : obs) : bool :=
  match o with ODisp j => Nat.eqb i j | _ => false end.
Definition disposes (i : item) (l : list obs) : nat := length (filter (is_disp i) l).
Definition is_raise (o : obs) : bool := match o with ORaise => true | _ => false end.
Definition raises (l : list obs) : nat := length (filter is_raise l).
Definition is_run (o : obs) : bool := match o with ORun => true | _ => false end.
Definition runs (l : list obs) : nat := length (filter is_run l).

(* occurrences of [i] in a list of items *)
Definition cnt (i : item) (l : list item) : nat := length (filter (Nat.eqb i) l).
Definition ocnt (i : item) (o : option item) : nat :=
  match o with Some j => if Nat.eqb i j then 1%nat else 0%nat | None => 0%nat end.

(* ---- running a history ------------------------------------------------- *)
Section Run.
Context {S O : Type} (step : S -> O -> S * list obs).

(* one output list per call, so that "which call raised" is expressible *)
Fixpoint run (s : S) (h : list O) : S * list (list obs) :=
  match h with
  | [] => (s, [])
  | o :: t => let '(s1, out) := step s o in
              let '(s2, outs) := run s1 t in (s2, out :: outs)
  end.
Definition final (s : S) (h : list O) : S := fst (run s h).
Definition outs (s : S) (h : list O) : list (list obs) := snd (run s h).
Definition log (s : S) (h : list O) : list obs := concat (outs s h).
End Run.

(* ======================================================================= *)
(* disposable.py : Disposable                                              *)
(*   dispose: with lock: if not is_disposed: dispose = True; is_disposed = True
              if dispose: self.action()                                     *)
Inductive dop := DDispose | DIsDisposed.
Definition dstate := bool.                       (* is_disposed *)
Definition d_init : dstate := false.
Definition d_step (s : dstate) (o : dop) : dstate * list obs :=
  match o with
  | DDispose => if negb s then (true, [ORun]) else (s, [])
  | DIsDisposed => (s, [OBool s])
  end.

(* booleandisposable.py : BooleanDisposable.   dispose: self.is_disposed = True *)
Definition b_step (s : dstate) (o : dop) : dstate * list obs :=
  match o with
  | DDispose => (true, [])
  | DIsDisposed => (s, [OBool s])
  end.

(* ======================================================================= *)
(* compositedisposable.py                                                   *)
Record cstate := CState { c_items : list item; c_disposed : bool }.
Inductive cop :=
| CAdd (i : item) | CRemove (i : item) | CDispose | CClear
| CContains (i : item) | CLen | CToList | CIsDisposed.

(* list.remove: first occurrence *)
Fixpoint remove_first (i : item) (l : list item) : list item :=
  match l with
  | [] => []
  | x :: t => if Nat.eqb i x then t else x :: remove_first i t
  end.
Definition mem (i : item) (l : list item) : bool := existsb (Nat.eqb i) l.

Definition c_init (l : list item) : cstate := CState l false.

Definition c_step (s : cstate) (o : cop) : cstate * list obs :=
  match o with
  | CAdd i =>
      (* with lock: if is_disposed: should_dispose = True else: append.  if should_dispose: item.dispose() *)
      if c_disposed s then (s, [ODisp i])
      else (CState (c_items s ++ [i]) false, [])
  | CRemove i =>
      (* if is_disposed: return False;  with lock: if item in list: remove; should_dispose = True
         if should_dispose: item.dispose();  return should_dispose *)
      if c_disposed s then (s, [OBool false])
      else if mem i (c_items s)
           then (CState (remove_first i (c_items s)) false, [ODisp i; OBool true])
           else (s, [OBool false])
  | CDispose =>
      (* if is_disposed: return;  with lock: is_disposed = True; cur = list; list = []
         for d in cur: d.dispose() *)
      if c_disposed s then (s, [])
      else (CState [] true, map ODisp (c_items s))
  | CClear =>
      (* with lock: cur = list; list = [];  for d in cur: d.dispose() *)
      (CState [] (c_disposed s), map ODisp (c_items s))
  | CContains i => (s, [OBool (mem i (c_items s))])
  | CLen => (s, [ONat (length (c_items s))])
  | CToList => (s, [OItems (c_items s)])
  | CIsDisposed => (s, [OBool (c_disposed s)])
  end.

Definition c_adds (i : item) (o : cop) : nat :=
  match o with CAdd j => if Nat.eqb i j then 1%nat else 0%nat | _ => 0%nat end.

(* ======================================================================= *)
(* serialdisposable.py, multipleassignmentdisposable.py,                    *)
(* singleassignmentdisposable.py : one slot                                 *)
Record sstate := SState { s_cur : option item; s_disposed : bool }.
Inductive sop := SSet (i : item) | SDispose | SGet | SIsDisposed.
Definition s_init : sstate := SState None false.

Definition opt_disp (o : option item) : list obs :=
  match o with Some i => [ODisp i] | None => [] end.

(* dispose() is the same text in the three classes:
   with lock: if not is_disposed: is_disposed = True; old = current; current = None
   if old is not None: old.dispose() *)
Definition slot_dispose (s : sstate) : sstate * list obs :=
  if s_disposed s then (s, []) else (SState None true, opt_disp (s_cur s)).

Definition slot_query (s : sstate) (o : sop) : sstate * list obs :=
  match o with
  | SGet => (s, [OItem (s_cur s)])
  | _ => (s, [OBool (s_disposed s)])
  end.

(* SerialDisposable.set_disposable:
   with lock: should_dispose = is_disposed; if not should_dispose: old = current; current = value
   if old is not None: old.dispose();  if should_dispose: value.dispose() *)
Definition ser_step (s : sstate) (o : sop) : sstate * list obs :=
  match o with
  | SSet i => if s_disposed s then (s, [ODisp i])
              else (SState (Some i) false, opt_disp (s_cur s))
  | SDispose => slot_dispose s
  | _ => slot_query s o
  end.

(* MultipleAssignmentDisposable.set_disposable:
   with lock: should_dispose = is_disposed; if not should_dispose: current = value
   if should_dispose: value.dispose() *)
Definition mad_step (s : sstate) (o : sop) : sstate * list obs :=
  match o with
  | SSet i => if s_disposed s then (s, [ODisp i])
              else (SState (Some i) false, [])
  | SDispose => slot_dispose s
  | _ => slot_query s o
  end.

(* SingleAssignmentDisposable.set_disposable (current tree, after the fix):
   with lock:
       if current is not None: raise Exception("Disposable has already been assigned")
       should_dispose = is_disposed
       if not should_dispose: current = value
   if should_dispose and value is not None: value.dispose()
   (items are never None) *)
Definition sad_step (s : sstate) (o : sop) : sstate * list obs :=
  match o with
  | SSet i => match s_cur s with
              | Some _ => (s, [ORaise])
              | None => if s_disposed s then (s, [ODisp i])
                        else (SState (Some i) false, [])
              end
  | SDispose => slot_dispose s
  | _ => slot_query s o
  end.

Definition s_sets (i : item) (o : sop) : nat :=
  match o with SSet j => if Nat.eqb i j then 1%nat else 0%nat | _ => 0%nat end.
Definition is_sdispose (o : sop) : bool := match o with SDispose => true | _ => false end.

(* ======================================================================= *)
(* scheduleddisposable.py : the wrapped item sits in an inner
   SingleAssignmentDisposable; dispose() only calls scheduler.schedule(action);
   the scheduler later runs the queued actions, each calls inner.dispose().    *)
Record schstate := SchState { sch_inner : sstate; sch_queue : nat }.
Inductive schop := SchDispose | SchRunOne | SchIsDisposed.

(* __init__: self.disposable = SingleAssignmentDisposable(); self.disposable.disposable = disposable *)
Definition sch_init (i : item) : schstate := SchState (fst (sad_step s_init (SSet i))) 0.

Definition sch_step (s : schstate) (o : schop) : schstate * list obs :=
  match o with
  | SchDispose => (SchState (sch_inner s) (S (sch_queue s)), [OSched])
  | SchRunOne =>
      match sch_queue s with
      | O => (s, [])                                   (* nothing queued: the scheduler has nothing to run *)
      | S q => let '(inner, out) := sad_step (sch_inner s) SDispose in (SchState inner q, ORun :: out)
                                                       (* the scheduler invokes the queued action *)
      end
  | SchIsDisposed => (s, [OBool (s_disposed (sch_inner s))])
  end.

(* ======================================================================= *)
(* refcountdisposable.py                                                    *)
(* a handle returned by the [disposable] property *)
Inductive dep :=
| DInner (has_parent : bool)     (* InnerDisposable; parent not yet cleared *)
| DInert (disposed : bool).      (* a fresh Disposable() *)

Record rstate := RState {
  r_count : Z; r_primary : bool; r_disposed : bool; r_deps : list dep }.
Inductive rop := RGet | RDispDep (k : nat) | RDispose | RIsDisposed.
Definition r_init : rstate := RState 0 false false [].
Definition underlying : item := 0%nat.

(* release():
   if is_disposed: return
   with lock: count -= 1; if not count and is_primary_disposed: is_disposed = True; should_dispose = True
   if should_dispose: underlying.dispose() *)
Definition r_release (s : rstate) : rstate * list obs :=
  if r_disposed s then (s, [])
  else let c := r_count s - 1 in
       if (c =? 0) && r_primary s
       then (RState c (r_primary s) true (r_deps s), [ODisp underlying])
       else (RState c (r_primary s) (r_disposed s) (r_deps s), []).

Fixpoint set_nth {A} (k : nat) (x : A) (l : list A) : list A :=
  match l, k with
  | [], _ => []
  | _ :: t, O => x :: t
  | y :: t, S k' => y :: set_nth k' x t
  end.

Definition r_step (s : rstate) (o : rop) : rstate * list obs :=
  match o with
  | RGet =>
      (* with lock: if is_disposed: return Disposable();  count += 1; return InnerDisposable(self) *)
      if r_disposed s
      then (RState (r_count s) (r_primary s) (r_disposed s) (r_deps s ++ [DInert false]), [])
      else (RState (r_count s + 1) (r_primary s) (r_disposed s) (r_deps s ++ [DInner true]), [])
  | RDispDep k =>
      match nth_error (r_deps s) k with
      | Some (DInner true) =>
          (* with inner.lock: parent = self.parent; self.parent = None.  if parent is not None: parent.release() *)
          r_release (RState (r_count s) (r_primary s) (r_disposed s) (set_nth k (DInner false) (r_deps s)))
      | Some (DInner false) => (s, [])
      | Some (DInert _) =>     (* Disposable().dispose(): action is noop *)
          (RState (r_count s) (r_primary s) (r_disposed s) (set_nth k (DInert true) (r_deps s)), [])
      | None => (s, [])        (* no such handle (never generated by the harness) *)
      end
  | RDispose =>
      (* if is_disposed: return
         with lock: if not is_primary_disposed: is_primary_disposed = True;
                        if not count: is_disposed = True; underlying = self.underlying_disposable
         if underlying is not None: underlying.dispose() *)
      if r_disposed s then (s, [])
      else if r_primary s then (s, [])
      else if r_count s =? 0
           then (RState (r_count s) true true (r_deps s), [ODisp underlying])
           else (RState (r_count s) true (r_disposed s) (r_deps s), [])
  | RIsDisposed => (s, [OBool (r_disposed s)])
  end.

(* ======================================================================= *)
(* SingleAssignmentDisposable as it was BEFORE the fix (recorded, not tied to
   the current tree):
     if self.current: raise ...
     with lock: should_dispose = is_disposed; if not should_dispose: current = value
     if self.is_disposed and value: value.dispose()
   [truthy i] is bool(item i): a CompositeDisposable defines __len__, so an
   empty one is falsy. *)
Definition sad0_step (truthy : item -> bool) (s : sstate) (o : sop) : sstate * list obs :=
  match o with
  | SSet i =>
      match s_cur s with
      | Some c => if truthy c then (s, [ORaise])
                  else if s_disposed s then (s, if truthy i then [ODisp i] else [])
                       else (SState (Some i) false, [])
      | None => if s_disposed s then (s, if truthy i then [ODisp i] else [])
                else (SState (Some i) false, [])
      end
  | SDispose => slot_dispose s
  | _ => slot_query s o
  end.

(* ---- equality of per-call outputs (correspondence) ---------------------- *)
Definition outs_eqb (a b : list (list obs)) : bool := list_eqb (list_eqb obs_eqb) a b.
