(* Transition system for C33: AsyncIOScheduler / AsyncIOThreadSafeScheduler
   (reactivex/scheduler/eventloop/asyncioscheduler.py, asynciothreadsafescheduler.py) on a model of
   the asyncio event loop (CPython Lib/asyncio/base_events.py, events.py).

   The loop is modelled, not verified: a FIFO `_ready` of handles, a timer heap `_scheduled`
   (sorted by `when`), `Handle.cancel()` sets the handle's flag (and clears its callback),
   `_run_once` = [select] ; move the due timers to `_ready` ; for the ntodo handles that are ready:
   pop, skip if cancelled, otherwise `handle._run()`, which runs the callback unless the handle was
   cancelled in the meantime (the cleared callback makes `_run` fail and log instead).  One step each:
     - select returning + moving timers + the first popleft
     - the test `if handle._cancelled` (+ popleft of the next one when it is skipped)
     - `handle._run()` up to the first yield point of the callback
   call_soon / call_soon_threadsafe / call_later executed by another thread are one step
   (deque.append / heappush are atomic under the GIL).

   The schedulers, as the code is:
     schedule            one step: call_soon[_threadsafe](interval)
     schedule_absolute   `self.schedule_relative(duetime - self.now, ...)`: the clock is read and the relative
                         schedule made in the same step ([AAbs t] = [ARel (t - clock)])
     schedule_relative   thread-safe: one step: call_soon_threadsafe(stage2), handle list = [h1];
                         stage2 on the loop: call_later(...) (up to `return timer`)  |  handle.append(...)
                         plain: one step: call_later(seconds, interval)
     dispose             Disposable.dispose is idempotent (first caller wins).  Then
                         `_on_self_loop_or_not_running()` decides:
                           direct      -- handle.cancel() / pop+cancel, pop+cancel (IndexError swallowed)
                           marshalled  -- call_soon_threadsafe(cancel_handle); future.result()
                         [fixed] = false is the code before proposed_fixes/C33-*.diff: a foreign thread
                         (get_running_loop() raises RuntimeError) takes the direct path although the
                         loop is running.
   The loop may be STOPPED and run again: loop.stop() ([AStop], by an action, by the loop thread between two
   runs, or -- the same store -- by any thread) sets `_stopping`; run_forever() tests it after every iteration
   of _run_once (and _run_once uses a zero select timeout while it is set), so the loop stops BETWEEN two
   iterations, with whatever was appended to _ready / _scheduled meanwhile still queued (in particular a
   marshalled cancel_handle and the callback it is meant to cancel).  is_running() is then False: a dispose
   that finds it so takes the direct path, one that found it True keeps waiting in future.result() until the
   loop is run again and its cancel_handle has run ON the loop.  After run_forever() returned the loop thread
   makes the calls of its next segment ([asegs]) and calls run_forever() again, or ends ([LDone]).
   Calls are identified by the order in which they are made (uid); a dispose names the uid.
   Assumption of the property built into the system: the loop does not start while a dispose that
   found it not running is in progress on another thread ([quiet] in [loop_step]). *)
From RxVerif Require Import Base.Prelude.
Local Open Scope Z_scope.

Inductive aop :=
| ANow                      (* scheduler.schedule(action) *)
| ARel (d : Z)              (* scheduler.schedule_relative(d us, action) *)
| ADispose (u : nat)        (* dispose() of the disposable returned by call u *)
| AStop                     (* loop.stop(): `self._stopping = True` (also what run_until_complete's done-callback does) *)
| ASleep (t : Z)            (* the calling thread waits until the clock shows t (a busy callback / "run again later") *)
| AAbs (t : Z).             (* scheduler.schedule_absolute(t us, action): both classes compute `duetime - self.now`
                               (now = loop.time()) and call schedule_relative with the difference *)

Inductive cb :=
| CbAction (u : nat)                (* interval: invokes the action of call u *)
| CbStage2 (u : nat) (d : Z)        (* stage2 of schedule_relative *)
| CbCancel (u : nat) (f : nat).     (* cancel_handle of dispose: cancels, then future f .set_result *)

Inductive aev :=
| ARet (u : nat)            (* the schedule call returned *)
| ADispRet (u : nat)        (* dispose() returned (the call that won the test-and-set of Disposable) *)
| ADispNoop (u : nat)       (* dispose() returned at once: already disposed / nothing to dispose *)
| AStart (u : nat)
| AEnd (u : nat)
| ACbErr                    (* Handle._run of a handle cancelled after the test: logged, nothing runs *)
| AStopEv                   (* loop.stop() returned *)
| ASlept.                   (* the sleep is over *)

Record ash := ASh {
  aclock : Z;
  arunning : bool;                 (* loop.is_running() *)
  awoken : bool;                   (* the self-pipe was written to *)
  ahs : list cb;                   (* all handles ever created; handle id = index *)
  aready : list nat;               (* _ready *)
  atimers : list (Z * nat);        (* _scheduled, sorted by when (stable) *)
  acanc : list nat;                (* cancelled handles *)
  ahl : list (bool * list nat);    (* per call: (two-stage?, the closure's handle list) *)
  adue : list Z;                   (* ghost: per call, its due time *)
  adisp : list nat;                (* calls whose Disposable has been disposed (test-and-set done) *)
  afut : list nat;                 (* futures with a result *)
  anfut : nat;
  aran : list nat;                 (* ghost: two-stage calls whose stage2 has been entered *)
  aeff : list nat;                 (* ghost: calls whose cancellation is complete *)
  astopping : bool;                (* loop._stopping *)
  asegs : list (list aop) }.       (* what the loop thread does after each return of run_forever(): the calls of
                                      the next segment, then run_forever() again; [] = the thread ends *)

(* a dispose in progress *)
Inductive dst :=
| FPop2 (u : nat)                      (* direct, two-stage: before the second `handle.pop().cancel()` *)
| FWait (u : nat) (f : nat).           (* marshalled: in future.result() *)

Inductive aphase :=
| LPre (cur : option dst) (todo : list aop)    (* before run_forever(): calls made by the thread that will run the loop *)
| LIdle (dl : option Z)                        (* in select(timeout); dl = when the timeout expires *)
| LCheck (h : nat) (k : nat)                   (* h popped, at `if handle._cancelled`; k more this iteration *)
| LRun (h : nat) (k : nat)                     (* at `handle._run()` *)
| LAct (u : nat) (cur : option dst) (todo : list aop) (k : nat)    (* inside the action of call u *)
| LStage2b (u : nat) (h : nat) (k : nat)       (* stage2: call_later returned h, before handle.append *)
| LDone.                                       (* run_forever() returned for the last time: the thread has ended *)

Inductive athread :=
| AF (cur : option dst) (todo : list aop)      (* a foreign thread *)
| AL (ph : aphase).                            (* the loop thread *)

Record aconfig := AConfig { a_sh : ash; a_ths : list athread; a_log : list (nat * Z * aev) }.

Inductive amove := AMStep (tid : nat) | AMTick (d : nat).

Fixpoint amem (a : nat) (l : list nat) : bool :=
  match l with [] => false | b :: t => Nat.eqb a b || amem a t end.

Fixpoint aupd {A} (k : nat) (x : A) (l : list A) : list A :=
  match l, k with
  | [], _ => []
  | _ :: t, O => x :: t
  | y :: t, S k' => y :: aupd k' x t
  end.

(* heappush on (when, insertion order) *)
Fixpoint tinsert (w : Z) (h : nat) (l : list (Z * nat)) : list (Z * nat) :=
  match l with
  | [] => [(w, h)]
  | (w', h') :: t => if w <? w' then (w, h) :: l else (w', h') :: tinsert w h t
  end.

(* `while self._scheduled and self._scheduled[0]._cancelled: heappop` *)
Fixpoint drop_cancelled (canc : list nat) (l : list (Z * nat)) : list (Z * nat) :=
  match l with
  | (w, h) :: t => if amem h canc then drop_cancelled canc t else l
  | [] => []
  end.

(* the timers that are due, in heap order, and the rest *)
Fixpoint split_due (now : Z) (l : list (Z * nat)) : list nat * list (Z * nat) :=
  match l with
  | (w, h) :: t => if w <=? now then let '(d, r) := split_due now t in (h :: d, r) else ([], l)
  | [] => ([], [])
  end.

Definition removelast2 (l : list nat) : list nat := removelast (removelast l).
Definition last2 (l : list nat) : list nat := skipn (length l - 2) l.

Section System.
Variable ts : bool.                   (* AsyncIOThreadSafeScheduler (true) or AsyncIOScheduler *)
Variable fixed : bool.                (* _on_self_loop_or_not_running as repaired *)
Variable abody : nat -> list aop.     (* what the action of call u does, on the loop thread *)

Definition set_core (s : ash) (woken : bool) (hs : list cb) (ready : list nat) (timers : list (Z * nat))
  (hl : list (bool * list nat)) (due : list Z) : ash :=
  ASh (aclock s) (arunning s) woken hs ready timers (acanc s) hl due (adisp s) (afut s) (anfut s) (aran s) (aeff s) (astopping s) (asegs s).

(* schedule / schedule_relative *)
Definition do_sched (s : ash) (d : Z) : ash * list aev :=
  let u := length (ahl s) in
  let h := length (ahs s) in
  if d <=? 0 then
    (set_core s (awoken s || ts) (ahs s ++ [CbAction u]) (aready s ++ [h]) (atimers s)
              (ahl s ++ [(false, [h])]) (adue s ++ [aclock s]), [ARet u])
  else if ts then
    (set_core s true (ahs s ++ [CbStage2 u d]) (aready s ++ [h]) (atimers s)
              (ahl s ++ [(true, [h])]) (adue s ++ [aclock s + d]), [ARet u])
  else
    (set_core s (awoken s) (ahs s ++ [CbAction u]) (aready s) (tinsert (aclock s + d) h (atimers s))
              (ahl s ++ [(false, [h])]) (adue s ++ [aclock s + d]), [ARet u]).

Definition set_canc (s : ash) (canc : list nat) (hl : list (bool * list nat)) (fut : list nat)
  (eff : list nat) : ash :=
  ASh (aclock s) (arunning s) (awoken s) (ahs s) (aready s) (atimers s) canc hl (adue s) (adisp s) fut
      (anfut s) (aran s) eff (astopping s) (asegs s).

(* cancel everything the closure of call u refers to, in one go (cancel_handle on the loop, or the
   single-handle closures) *)
Definition cancel_all (s : ash) (u : nat) : list nat * list (bool * list nat) :=
  match nth_error (ahl s) u with
  | Some (false, l) => (l ++ acanc s, ahl s)                              (* handle.cancel() *)
  | Some (true, l) => (last2 l ++ acanc s, aupd u (true, removelast2 l) (ahl s))   (* two pops *)
  | None => (acanc s, ahl s)
  end.

(* dispose() called by a thread; on_loop: the caller is the loop thread *)
Definition do_dispose (on_loop : bool) (s : ash) (u : nat) : ash * option dst * list aev :=
  match nth_error (ahl s) u with
  | None => (s, None, [ADispNoop u])
  | Some (two, l) =>
      if amem u (adisp s) then (s, None, [ADispNoop u])
      else
        let s1 := ASh (aclock s) (arunning s) (awoken s) (ahs s) (aready s) (atimers s) (acanc s) (ahl s) (adue s)
                      (u :: adisp s) (afut s) (anfut s) (aran s) (aeff s) (astopping s) (asegs s) in
        let direct := on_loop || negb (arunning s) || negb (ts && fixed) in
        if direct then
          if two then
            match l with
            | [] => (set_canc s1 (acanc s) (ahl s) (afut s) (u :: aeff s), None, [ADispRet u])
            | _ =>
                (set_canc s1 (last l 0%nat :: acanc s) (aupd u (true, removelast l) (ahl s)) (afut s) (aeff s),
                 Some (FPop2 u), [])
            end
          else
            (set_canc s1 (l ++ acanc s) (ahl s) (afut s) (u :: aeff s), None, [ADispRet u])
        else
          let f := anfut s in
          let h := length (ahs s) in
          (ASh (aclock s) (arunning s) true (ahs s ++ [CbCancel u f]) (aready s ++ [h]) (atimers s) (acanc s)
               (ahl s) (adue s) (u :: adisp s) (afut s) (S f) (aran s) (aeff s) (astopping s) (asegs s),
           Some (FWait u f), [])
  end.

(* BaseEventLoop.stop(): `self._stopping = True`, whoever calls it; the loop looks at the flag when it
   computes the select timeout and after each iteration of _run_once *)
Definition set_stop (s : ash) (b : bool) (sg : list (list aop)) : ash :=
  ASh (aclock s) (arunning s) (awoken s) (ahs s) (aready s) (atimers s) (acanc s) (ahl s) (adue s) (adisp s) (afut s)
      (anfut s) (aran s) (aeff s) b sg.

(* continuing a dispose in progress; None = blocked *)
Definition do_cont (s : ash) (c : dst) : option (ash * list aev) :=
  match c with
  | FPop2 u =>
      match nth_error (ahl s) u with
      | Some (_, x :: l) =>
          Some (set_canc s (last (x :: l) 0%nat :: acanc s) (aupd u (true, removelast (x :: l)) (ahl s)) (afut s)
                         (u :: aeff s), [ADispRet u])
      | _ => Some (set_canc s (acanc s) (ahl s) (afut s) (u :: aeff s), [ADispRet u])   (* IndexError, swallowed *)
      end
  | FWait u f => if amem f (afut s) then Some (s, [ADispRet u]) else None
  end.

(* one step of the calls a thread makes *)
Definition call_step (on_loop : bool) (s : ash) (cur : option dst) (todo : list aop)
  : option (ash * option dst * list aop * list aev) :=
  match cur with
  | Some c => match do_cont s c with Some (s', out) => Some (s', None, todo, out) | None => None end
  | None =>
      match todo with
      | [] => None
      | ANow :: r => let '(s', out) := do_sched s 0 in Some (s', None, r, out)
      | ARel d :: r => let '(s', out) := do_sched s d in Some (s', None, r, out)
      | ADispose u :: r => let '(s', c, out) := do_dispose on_loop s u in Some (s', c, r, out)
      | AStop :: r => Some (set_stop s true (asegs s), None, r, [AStopEv])
      | ASleep t :: r => if t <=? aclock s then Some (s, None, r, [ASlept]) else None
      | AAbs t :: r => let '(s', out) := do_sched s (t - aclock s) in Some (s', None, r, out)
      end
  end.

(* head of _run_once: drop cancelled timers at the head, compute the select timeout
   (`if self._ready or self._stopping: timeout = 0`) *)
Definition begin_iter (s : ash) : ash * aphase :=
  let tm := drop_cancelled (acanc s) (atimers s) in
  let s' := set_core s (awoken s) (ahs s) (aready s) tm (ahl s) (adue s) in
  let dl := match aready s with
            | _ :: _ => Some (aclock s)
            | [] => if astopping s then Some (aclock s)
                    else match tm with (w, _) :: _ => Some w | [] => None end
            end in
  (s', LIdle dl).

(* run_forever() returns (`if self._stopping: break`, then _run_forever_cleanup: _stopping = False,
   is_running() becomes False); whatever is in _ready / _scheduled stays there.  The thread goes on
   with its next segment (calls, then run_forever() again) or ends. *)
Definition stop_loop (s : ash) : ash * aphase :=
  let s0 := ASh (aclock s) false (awoken s) (ahs s) (aready s) (atimers s) (acanc s) (ahl s) (adue s) (adisp s)
                (afut s) (anfut s) (aran s) (aeff s) false (tl (asegs s)) in
  match asegs s with
  | seg :: _ => (s0, LPre None seg)
  | [] => (s0, LDone)
  end.

(* end of an iteration of _run_once: back in run_forever's `while True`, which tests _stopping *)
Definition end_iter (s : ash) : ash * aphase :=
  if astopping s then stop_loop s else begin_iter s.

(* go on with the k handles left in this iteration *)
Definition next_handle (s : ash) (k : nat) : ash * aphase :=
  match k, aready s with
  | S k', h :: r => (set_core s (awoken s) (ahs s) r (atimers s) (ahl s) (adue s), LCheck h k')
  | _, _ => end_iter s
  end.

(* [quiet]: no foreign thread is in the middle of a direct dispose (the loop may start) *)
Definition loop_step (quiet : bool) (s : ash) (ph : aphase) : option (ash * aphase * list aev) :=
  match ph with
  | LPre cur todo =>
      match cur, todo with
      | None, [] =>
          if quiet                                            (* run_forever() *)
          then let s1 := ASh (aclock s) true (awoken s) (ahs s) (aready s) (atimers s) (acanc s) (ahl s)
                             (adue s) (adisp s) (afut s) (anfut s) (aran s) (aeff s) (astopping s) (asegs s) in
               let '(s', ph') := begin_iter s1 in Some (s', ph', [])
          else None
      | _, _ =>
          match call_step true s cur todo with
          | Some (s', cur', todo', out) => Some (s', LPre cur' todo', out)
          | None => None                                      (* asleep *)
          end
      end
  | LIdle dl =>
      if awoken s || match dl with Some t => t <=? aclock s | None => false end
      then let '(due, rest) := split_due (aclock s) (atimers s) in
           let s1 := set_core s false (ahs s) (aready s ++ due) rest (ahl s) (adue s) in
           let '(s', ph') := next_handle s1 (length (aready s1)) in Some (s', ph', [])
      else None
  | LCheck h k =>
      if amem h (acanc s) then let '(s', ph') := next_handle s k in Some (s', ph', [])
      else Some (s, LRun h k, [])
  | LRun h k =>
      if amem h (acanc s) then let '(s', ph') := next_handle s k in Some (s', ph', [ACbErr])
      else
        match nth_error (ahs s) h with
        | Some (CbAction u) => Some (s, LAct u None (abody u) k, [AStart u])
        | Some (CbStage2 u d) =>
            let ht := length (ahs s) in
            let s1 := set_core s (awoken s) (ahs s ++ [CbAction u]) (aready s) (tinsert (aclock s + d) ht (atimers s))
                               (ahl s) (adue s) in
            Some (ASh (aclock s1) (arunning s1) (awoken s1) (ahs s1) (aready s1) (atimers s1) (acanc s1) (ahl s1)
                      (adue s1) (adisp s1) (afut s1) (anfut s1) (u :: aran s1) (aeff s1) (astopping s1) (asegs s1), LStage2b u ht k, [])
        | Some (CbCancel u f) =>
            let '(canc, hl) := cancel_all s u in
            let s1 := set_canc s canc hl (f :: afut s) (u :: aeff s) in
            let '(s', ph') := next_handle s1 k in Some (s', ph', [])
        | None => let '(s', ph') := next_handle s k in Some (s', ph', [])     (* not reachable *)
        end
  | LAct u cur todo k =>
      match cur, todo with
      | None, [] => let '(s', ph') := next_handle s k in Some (s', ph', [AEnd u])
      | _, _ =>
          match call_step true s cur todo with
          | Some (s', cur', todo', out) => Some (s', LAct u cur' todo' k, out)
          | None => None                                      (* asleep *)
          end
      end
  | LStage2b u h k =>
      let hl := match nth_error (ahl s) u with
                | Some (two, l) => aupd u (two, l ++ [h]) (ahl s)
                | None => ahl s
                end in
      let '(s', ph') := next_handle (set_core s (awoken s) (ahs s) (aready s) (atimers s) hl (adue s)) k in
      Some (s', ph', [])
  | LDone => None
  end.

Definition astamp (tid : nat) (t : Z) (out : list aev) : list (nat * Z * aev) :=
  map (fun e => (tid, t, e)) out.

Definition in_pop2 (t : athread) : bool :=
  match t with AF (Some (FPop2 _)) _ => true | _ => false end.

Definition atstep (c : aconfig) (tid : nat) : aconfig :=
  let s := a_sh c in
  match nth_error (a_ths c) tid with
  | None => c
  | Some (AF cur todo) =>
      match call_step false s cur todo with
      | None => c
      | Some (s', cur', todo', out) =>
          AConfig s' (aupd tid (AF cur' todo') (a_ths c)) (a_log c ++ astamp tid (aclock s) out)
      end
  | Some (AL ph) =>
      match loop_step (negb (existsb in_pop2 (a_ths c))) s ph with
      | None => c
      | Some (s', ph', out) => AConfig s' (aupd tid (AL ph') (a_ths c)) (a_log c ++ astamp tid (aclock s) out)
      end
  end.

Definition atick (c : aconfig) (d : nat) : aconfig :=
  let s := a_sh c in
  AConfig (ASh (aclock s + Z.of_nat d) (arunning s) (awoken s) (ahs s) (aready s) (atimers s) (acanc s) (ahl s)
               (adue s) (adisp s) (afut s) (anfut s) (aran s) (aeff s) (astopping s) (asegs s)) (a_ths c) (a_log c).

Definition amstep (c : aconfig) (m : amove) : aconfig :=
  match m with AMStep tid => atstep c tid | AMTick d => atick c d end.

Definition arun (c : aconfig) (sched : list amove) : aconfig := fold_left amstep sched c.

(* thread 0 is the loop thread (its calls before the first run_forever(): [pre]; after the k-th return of
   run_forever(): the calls of the k-th element of [segs], then run_forever() again); the others are foreign *)
Definition ainit (t0 : Z) (pre : list aop) (segs : list (list aop)) (progs : list (list aop)) : aconfig :=
  AConfig (ASh t0 false false [] [] [] [] [] [] [] [] 0 [] [] false segs)
          (AL (LPre None pre) :: map (fun p => AF None p) progs) [].
End System.

(* ---- what the harness compares -------------------------------------------------------- *)
(* 0 ret, 3 dispose returned, 4 dispose no-op, 6 start, 7 end, 5 callback error, 8 loop.stop() returned, 9 sleep over *)
Definition aobs_of (e : aev) : nat * nat :=
  match e with
  | ARet u => (0, u) | ADispRet u => (3, u) | ADispNoop u => (4, u) | AStart u => (6, u) | AEnd u => (7, u)
  | ACbErr => (5, 0)
  | AStopEv => (8, 0)
  | ASlept => (9, 0)
  end%nat.
Definition aobservable (l : list (nat * Z * aev)) : list (nat * Z * (nat * nat)) :=
  map (fun x => (fst (fst x), snd (fst x), aobs_of (snd x))) l.

Definition astatus (t : athread) : nat :=
  match t with
  | AF None [] => 1
  | AF (Some (FWait _ _)) _ => 2
  | AF _ _ => 0
  | AL (LIdle _) => 2
  | AL (LPre (Some (FWait _ _)) _) => 2
  | AL LDone => 1
  | AL _ => 0
  end%nat.

Definition aoutcome (c : aconfig) : list (nat * Z * (nat * nat)) * list nat :=
  (aobservable (a_log c), map astatus (a_ths c)).
Definition aobs_eqb (x y : nat * Z * (nat * nat)) : bool :=
  let '(a, t, (k, l)) := x in let '(b, t', (k', l')) := y in
  Nat.eqb a b && Z.eqb t t' && Nat.eqb k k' && Nat.eqb l l'.
Definition aoutcome_eqb (x y : list (nat * Z * (nat * nat)) * list nat) : bool :=
  list_eqb aobs_eqb (fst x) (fst y) && list_eqb Nat.eqb (snd x) (snd y).

Fixpoint abody_of (tbl : list (nat * list aop)) (u : nat) : list aop :=
  match tbl with
  | [] => []
  | (b, l) :: t => if Nat.eqb u b then l else abody_of t u
  end.
