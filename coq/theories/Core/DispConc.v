(* Concurrent (interleaving) models of reactivex/disposable/*.py as labelled
   transition systems.

   A method call is cut into ACTIONS:
     - the whole body of one `with self.lock:` block  (atomic: every conflicting
       access is under the same lock or is itself a separate action),
     - one unlocked read or write of a shared mutable attribute
       (the lock-free pre-checks `if self.is_disposed: return`),
     - one call made outside the lock (item.dispose(), the action, scheduler.schedule).
   Thread-local computation between two actions is not observable by other
   threads and belongs to the following action.  A thread is a list of calls; a
   scheduled step of thread t performs exactly one action of t.  [crun] runs a
   configuration under an arbitrary schedule (list of thread ids); all theorems
   (DispConcFacts.v) quantify over all schedules, all programs and any number of
   threads.  The harness (k3.py, coarse mode) runs the real classes under the same
   schedules with yield points at exactly these actions and compares the logs.

   Models follow the CURRENT /repo working tree.  The pre-fix
   SingleAssignmentDisposable is kept ([s0_act]) for the recorded race witnesses. *)
From RxVerif Require Import Base.Prelude Core.Disposables.
Local Open Scope nat_scope.

(* ---- generic scheduler ---------------------------------------------------- *)
Section Conc.
Context {Sh L O : Type}.
Variable start : O -> L.                                   (* local state at the first action of a call *)
Variable act : Sh -> L -> Sh * option L * list obs.        (* one action; None = the call returned *)

Record thread := Thread {
  t_cur : option L;        (* call in progress, positioned at its next action *)
  t_todo : list O;         (* calls not yet started *)
  t_hist : list O }.       (* calls started so far, most recent first (ghost, for statements only) *)

Record config := Config { c_sh : Sh; c_ths : list thread; c_log : list (nat * obs) }.

Definition next_frame (t : thread) : option (L * list O * list O) :=
  match t_cur t with
  | Some l => Some (l, t_todo t, t_hist t)
  | None => match t_todo t with
            | o :: r => Some (start o, r, o :: t_hist t)
            | [] => None
            end
  end.

Definition tstep (c : config) (tid : nat) : config :=
  match nth_error (c_ths c) tid with
  | None => c
  | Some t =>
      match next_frame t with
      | None => c                                           (* finished thread: no-op *)
      | Some (l, todo, hist) =>
          let '(s', l', out) := act (c_sh c) l in
          Config s' (set_nth tid (Thread l' todo hist) (c_ths c))
                 (c_log c ++ map (pair tid) out)
      end
  end.

Definition crun (c : config) (sched : list nat) : config := fold_left tstep sched c.

Definition cinit (s : Sh) (progs : list (list O)) : config :=
  Config s (map (fun p => Thread None p []) progs) [].

Definition finished (t : thread) : bool :=
  match t_cur t, t_todo t with None, [] => true | _, _ => false end.
Definition quiescent (c : config) : bool := forallb finished (c_ths c).

(* thread t has returned from at least one call *)
Definition returned_one (t : thread) : bool :=
  match t_cur t, t_hist t with
  | None, _ :: _ => true
  | Some _, _ :: _ :: _ => true
  | _, _ => false
  end.
End Conc.

Arguments Thread {L O}. Arguments Config {Sh L O}.
Arguments t_cur {L O}. Arguments t_todo {L O}. Arguments t_hist {L O}.
Arguments c_sh {Sh L O}. Arguments c_ths {Sh L O}. Arguments c_log {Sh L O}.

Definition plain (l : list (nat * obs)) : list obs := map snd l.

(* what the calls of one action list are: dispose the items one by one, the
   last one also delivers the call's return value *)
Definition calls {L} (mk : list item -> list obs -> L) (l : list item) (ret : list obs)
  : option L * list obs :=
  match l with [] => (None, ret) | _ => (Some (mk l ret), []) end.

(* ======================================================================= *)
(* Disposable, BooleanDisposable                                            *)
Inductive dlocal := DL_lock | DL_action | DL_query.

(* Disposable.dispose:  [LOCK; CALL self.action] *)
Definition dd_start (o : dop) : dlocal := match o with DDispose => DL_lock | DIsDisposed => DL_query end.
Definition dd_act (s : dstate) (l : dlocal) : dstate * option dlocal * list obs :=
  match l with
  | DL_lock => if negb s then (true, Some DL_action, []) else (s, None, [])
  | DL_action => (s, None, [ORun])
  | DL_query => (s, None, [OBool s])
  end.

(* BooleanDisposable.dispose:  [W:is_disposed] *)
Inductive blocal := BL_store | BL_query.
Definition bd_start (o : dop) : blocal := match o with DDispose => BL_store | DIsDisposed => BL_query end.
Definition bd_act (s : dstate) (l : blocal) : dstate * option blocal * list obs :=
  match l with
  | BL_store => (true, None, [])
  | BL_query => (s, None, [OBool s])
  end.

(* ======================================================================= *)
(* CompositeDisposable                                                      *)
Inductive clocal :=
| CL_read (o : cop)                           (* at the unlocked `if self.is_disposed` of remove / dispose *)
| CL_lock (o : cop)                           (* at the `with self.lock:` block of o *)
| CL_calls (l : list item) (ret : list obs)   (* about to call (hd l).dispose() *)
| CL_query (o : cop).                         (* unlocked read of contains / len / to_list / is_disposed *)

(* add: [LOCK; CALL]  remove: [R:is_disposed; LOCK; CALL]  dispose: [R:is_disposed; LOCK; CALL*]
   clear: [LOCK; CALL*] *)
Definition cc_start (o : cop) : clocal :=
  match o with
  | CAdd _ | CClear => CL_lock o
  | CRemove _ | CDispose => CL_read o
  | _ => CL_query o
  end.

Definition cc_act (s : cstate) (l : clocal) : cstate * option clocal * list obs :=
  match l with
  | CL_read (CRemove i) =>
      if c_disposed s then (s, None, [OBool false]) else (s, Some (CL_lock (CRemove i)), [])
  | CL_read CDispose =>
      if c_disposed s then (s, None, []) else (s, Some (CL_lock CDispose), [])
  | CL_read _ => (s, None, [])                                 (* not reachable *)
  | CL_lock (CAdd i) =>
      if c_disposed s then (s, Some (CL_calls [i] []), [])
      else (CState (c_items s ++ [i]) (c_disposed s), None, [])
  | CL_lock (CRemove i) =>
      if mem i (c_items s)
      then (CState (remove_first i (c_items s)) (c_disposed s), Some (CL_calls [i] [OBool true]), [])
      else (s, None, [OBool false])
  | CL_lock CDispose =>
      let '(l', out) := calls CL_calls (c_items s) [] in (CState [] true, l', out)
  | CL_lock CClear =>
      let '(l', out) := calls CL_calls (c_items s) [] in (CState [] (c_disposed s), l', out)
  | CL_lock _ => (s, None, [])                                 (* not reachable *)
  | CL_calls [] ret => (s, None, ret)                          (* not reachable *)
  | CL_calls (i :: r) ret =>
      let '(l', out) := calls CL_calls r ret in (s, l', ODisp i :: out)
  | CL_query o =>
      (s, None, match o with
                | CContains _ | CLen | CToList | CIsDisposed => snd (c_step s o)
                | _ => []                                      (* not reachable *)
                end)
  end.

(* ======================================================================= *)
(* one-slot containers.  [dropped] is GHOST state: the items a
   MultipleAssignmentDisposable let go of by replacement (which it does not
   promise to dispose); it is never read by the model and never observed. *)
Record xstate := XState { x_s : sstate; x_dropped : list item }.
Definition x_init : xstate := XState s_init [].
Inductive slot_kind := KSerial | KMultiple | KSingle.

Inductive slocal :=
| SL_lock (o : sop)
| SL_calls (l : list item) (ret : list obs)
| SL_query (o : sop).

(* set_disposable: [LOCK; CALL*]   dispose: [LOCK; CALL]   (all three classes, current tree) *)
Definition sc_start (o : sop) : slocal :=
  match o with SSet _ | SDispose => SL_lock o | _ => SL_query o end.

Definition opt_list (o : option item) : list item := match o with Some i => [i] | None => [] end.

Definition sc_act (k : slot_kind) (x : xstate) (l : slocal) : xstate * option slocal * list obs :=
  let s := x_s x in
  match l with
  | SL_lock (SSet i) =>
      match k with
      | KSerial =>
          if s_disposed s
          then let '(l', out) := calls SL_calls [i] [] in (x, l', out)
          else let '(l', out) := calls SL_calls (opt_list (s_cur s)) [] in
               (XState (SState (Some i) (s_disposed s)) (x_dropped x), l', out)
      | KMultiple =>
          if s_disposed s
          then let '(l', out) := calls SL_calls [i] [] in (x, l', out)
          else (XState (SState (Some i) (s_disposed s)) (opt_list (s_cur s) ++ x_dropped x), None, [])
      | KSingle =>
          match s_cur s with
          | Some _ => (x, None, [ORej i])           (* raise inside the locked block *)
          | None =>
              if s_disposed s
              then let '(l', out) := calls SL_calls [i] [] in (x, l', out)
              else (XState (SState (Some i) (s_disposed s)) (x_dropped x), None, [])
          end
      end
  | SL_lock SDispose =>
      if s_disposed s then (x, None, [])
      else let '(l', out) := calls SL_calls (opt_list (s_cur s)) [] in
           (XState (SState None true) (x_dropped x), l', out)
  | SL_lock _ => (x, None, [])                                 (* not reachable *)
  | SL_calls [] ret => (x, None, ret)
  | SL_calls (i :: r) ret =>
      let '(l', out) := calls SL_calls r ret in (x, l', ODisp i :: out)
  | SL_query o => (x, None, snd (slot_query s o))
  end.

(* ---- SingleAssignmentDisposable BEFORE the fix (recorded) ------------------
   set_disposable: [R:current; LOCK; R:is_disposed; CALL value.dispose] *)
Inductive s0local :=
| S0_readcur (i : item) | S0_lock (o : sop) | S0_readdisp (i : item)
| S0_calls (l : list item) (ret : list obs) | S0_query (o : sop).
Definition s0_start (o : sop) : s0local :=
  match o with SSet i => S0_readcur i | SDispose => S0_lock o | _ => S0_query o end.
Definition s0_act (truthy : item -> bool) (s : sstate) (l : s0local) : sstate * option s0local * list obs :=
  match l with
  | S0_readcur i =>
      match s_cur s with
      | Some c => if truthy c then (s, None, [ORej i]) else (s, Some (S0_lock (SSet i)), [])
      | None => (s, Some (S0_lock (SSet i)), [])
      end
  | S0_lock (SSet i) =>
      if s_disposed s then (s, Some (S0_readdisp i), [])
      else (SState (Some i) (s_disposed s), Some (S0_readdisp i), [])
  | S0_readdisp i =>
      if s_disposed s && truthy i
      then let '(l', out) := calls S0_calls [i] [] in (s, l', out)
      else (s, None, [])
  | S0_lock SDispose =>
      if s_disposed s then (s, None, [])
      else let '(l', out) := calls S0_calls (opt_list (s_cur s)) [] in (SState None true, l', out)
  | S0_lock _ => (s, None, [])
  | S0_calls [] ret => (s, None, ret)
  | S0_calls (i :: r) ret => let '(l', out) := calls S0_calls r ret in (s, l', ODisp i :: out)
  | S0_query o => (s, None, snd (slot_query s o))
  end.

(* ======================================================================= *)
(* ScheduledDisposable with a scheduler whose queued actions are run by
   (any number of) worker threads.
   dispose: [CALL scheduler.schedule]        run one queued action: [pop; LOCK (inner.dispose); CALL] *)
Inductive schlocal := HL_sched | HL_pop | HL_lock | HL_calls (l : list item) | HL_query.
Definition hc_start (o : schop) : schlocal :=
  match o with SchDispose => HL_sched | SchRunOne => HL_pop | SchIsDisposed => HL_query end.
Definition hl_calls (l : list item) (_ : list obs) : schlocal := HL_calls l.
Definition hc_act (s : schstate) (l : schlocal) : schstate * option schlocal * list obs :=
  match l with
  | HL_sched => (SchState (sch_inner s) (S (sch_queue s)), None, [OSched])
  | HL_pop => match sch_queue s with
              | O => (s, None, [])
              | S q => (SchState (sch_inner s) q, Some HL_lock, [ORun])   (* the scheduler invokes the action *)
              end
  | HL_lock =>
      let i := sch_inner s in
      if s_disposed i then (s, None, [])
      else let '(l', out) := calls hl_calls (opt_list (s_cur i)) [] in
           (SchState (SState None true) (sch_queue s), l', out)
  | HL_calls [] => (s, None, [])
  | HL_calls (i :: r) => let '(l', out) := calls hl_calls r [] in (s, l', ODisp i :: out)
  | HL_query => (s, None, [OBool (s_disposed (sch_inner s))])
  end.

(* ======================================================================= *)
(* RefCountDisposable.  Handles are global (index into r_deps, in creation order).
   property disposable: [LOCK]
   InnerDisposable.dispose: [LOCK(inner); release: R:is_disposed; LOCK; CALL underlying.dispose]
   inert Disposable().dispose: [LOCK]  (its action is noop)
   dispose: [R:is_disposed; LOCK; CALL underlying.dispose] *)
Inductive rlocal :=
| RL_get
| RL_inner (k : nat)        (* at the inner handle's own locked block *)
| RL_relread                (* release(): at the unlocked `if self.is_disposed` *)
| RL_rellock                (* release(): at the locked block *)
| RL_read                   (* dispose(): at the unlocked `if self.is_disposed` *)
| RL_lock                   (* dispose(): at the locked block *)
| RL_callu                  (* about to call underlying.dispose() *)
| RL_query.
Definition rc_start (o : rop) : rlocal :=
  match o with RGet => RL_get | RDispDep k => RL_inner k | RDispose => RL_read | RIsDisposed => RL_query end.

Definition rc_act (s : rstate) (l : rlocal) : rstate * option rlocal * list obs :=
  match l with
  | RL_get => (fst (r_step s RGet), None, [])
  | RL_inner k =>
      match nth_error (r_deps s) k with
      | Some (DInner true) =>
          (RState (r_count s) (r_primary s) (r_disposed s) (set_nth k (DInner false) (r_deps s)),
           Some RL_relread, [])
      | Some (DInner false) => (s, None, [])
      | Some (DInert _) =>
          (RState (r_count s) (r_primary s) (r_disposed s) (set_nth k (DInert true) (r_deps s)), None, [])
      | None => (s, None, [])
      end
  | RL_relread => if r_disposed s then (s, None, []) else (s, Some RL_rellock, [])
  | RL_rellock =>
      let c := (r_count s - 1)%Z in
      if ((c =? 0)%Z && r_primary s)%bool
      then (RState c (r_primary s) true (r_deps s), Some RL_callu, [])
      else (RState c (r_primary s) (r_disposed s) (r_deps s), None, [])
  | RL_read => if r_disposed s then (s, None, []) else (s, Some RL_lock, [])
  | RL_lock =>
      if r_primary s then (s, None, [])
      else if (r_count s =? 0)%Z
           then (RState (r_count s) true true (r_deps s), Some RL_callu, [])
           else (RState (r_count s) true (r_disposed s) (r_deps s), None, [])
  | RL_callu => (s, None, [ODisp underlying])
  | RL_query => (s, None, [OBool (r_disposed s)])
  end.

(* ---- equality of logs (correspondence) ---------------------------------- *)
Definition clog_eqb (a b : list (nat * obs)) : bool := list_eqb (pair_eqb Nat.eqb obs_eqb) a b.
