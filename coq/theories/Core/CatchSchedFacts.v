(* Facts about Core/CatchSched.v (CatchScheduler over the virtual-time model). *)
From RxVerif Require Import Base.Prelude Core.VTime Core.VTimeFacts Core.Periodic Core.PeriodicFacts Core.CatchSched.

Local Open Scope Z_scope.

(* induction over command trees *)
Lemma scmd_ind' (P : scmd -> Prop) :
  (forall w l b, Forall P b -> P (SSched w l b)) ->
  (forall r, P (SCancel r)) -> P SStop -> (forall d, P (SSleep d)) -> (forall e, P (SRaise e)) ->
  (forall e v, P (SHandled e v)) -> (forall n, P (SNote n)) -> (forall p f s0, P (SPeriodic p f s0)) ->
  (forall pid, P (SPCancel pid)) -> forall c, P c.
Proof.
  intros H1 H2 H3 H4 H5 H6 H7 H8 H9. fix IH 1.
  intros [w l b|r| |d|e|e v|n|p f s0|pid];
    [|apply H2|apply H3|apply H4|apply H5|apply H6|apply H7|apply H8|apply H9].
  apply H1. induction b as [|x t IHb]; constructor; [apply IH | exact IHb].
Qed.

Lemma cwrap_cmd_sched h w l b : cwrap_cmd h (SSched w l b) = SSched w l (cwrap_body h b).
Proof.
  simpl. f_equal. induction b as [|x t IH]; simpl; [reflexivity|].
  destruct (raises x); [reflexivity|]. f_equal. exact IH.
Qed.

(* ------------------------------------------------------------------ *)
(* programs without nested catch wrappers (what a user writes) *)
Definition raw_pres (r : pres) : bool := match r with PHandled _ _ _ => false | _ => true end.
Definition raw_tab (f : ptable) : bool := forallb (fun kv => raw_pres (snd kv)) (fst f) && raw_pres (snd f).
Fixpoint raw_cmd (c : scmd) : bool :=
  match c with
  | SSched _ _ b => forallb raw_cmd b
  | SHandled _ _ => false
  | SPeriodic _ f _ => raw_tab f
  | _ => true
  end.
Definition raw_t (c : tcmd) : bool := match c with TDo k => raw_cmd k | _ => true end.

(* a top-level call that raises by itself (sleep(-1), an explicit raise) is not an
   action of the scheduler; such calls are excluded from the routing statement *)
Definition top_quiet (c : tcmd) : bool :=
  match c with TDo k => match raises k with None => true | Some _ => false end | _ => true end.

(* "wrapped by handler h": no unguarded raising command, hereditarily; every
   except-clause that re-raises does so because h rejected the exception *)
Definition wr_pres (h : Z -> bool) (r : pres) : bool :=
  match r with PRaise _ _ => false | PHandled _ e v => v || negb (h e) | _ => true end.
Definition wr_tab (h : Z -> bool) (f : ptable) : bool :=
  forallb (fun kv => wr_pres h (snd kv)) (fst f) && wr_pres h (snd f).
Fixpoint wr_cmd (h : Z -> bool) (c : scmd) : bool :=
  match c with
  | SSched _ _ b => forallb (wr_cmd h) b
  | SRaise _ => false
  | SSleep d => 0 <=? d
  | SHandled e v => v || negb (h e)
  | SPeriodic _ f _ => wr_tab h f
  | _ => true
  end.
Definition wr_pay (h : Z -> bool) (p : payload) : bool :=
  match p with PAct _ b => forallb (wr_cmd h) b | PPer _ _ => true end.
Definition wr_t (h : Z -> bool) (c : tcmd) : bool := match c with TDo k => wr_cmd h k | _ => true end.

Lemma cwrap_pres_wr h r : raw_pres r = true -> wr_pres h (cwrap_pres h r) = true.
Proof. destruct r; simpl; try reflexivity; [|discriminate]. intros _. destruct (h e); reflexivity. Qed.

Lemma cwrap_tab_wr h f : raw_tab f = true -> wr_tab h (cwrap_tab h f) = true.
Proof.
  destruct f as [l d]. unfold raw_tab, wr_tab, cwrap_tab; simpl. intro H.
  apply andb_true_iff in H. destruct H as [Hl Hd]. rewrite (cwrap_pres_wr h d Hd), andb_true_r.
  induction l as [|[k v] t IH]; simpl in *; [reflexivity|].
  apply andb_true_iff in Hl. destruct Hl as [Hv Ht]. rewrite (cwrap_pres_wr h v Hv). simpl. auto.
Qed.

Lemma cwrap_wr h : forall c, raw_cmd c = true -> raises c = None -> wr_cmd h (cwrap_cmd h c) = true.
Proof.
  induction c as [w l b IHb|r| |d|e|e v|n|p f s0|pid] using scmd_ind'; intros Hraw Hr;
    [rewrite cwrap_cmd_sched|..]; simpl in *; try reflexivity; try discriminate.
  - induction b as [|x t IHt]; simpl; [reflexivity|].
    inversion IHb as [|? ? Hx Ht]; subst. simpl in Hraw. apply andb_true_iff in Hraw. destruct Hraw as [Rx Rt].
    destruct (raises x) as [e|] eqn:Er; simpl.
    + destruct (h e); reflexivity.
    + rewrite (Hx Rx eq_refl). simpl. apply IHt; assumption.
  - destruct (d <? 0) eqn:E; [discriminate|]. apply Z.leb_le. apply Z.ltb_ge in E. lia.
  - apply cwrap_tab_wr. assumption.
Qed.

Lemma cwrap_body_wr h : forall b, forallb raw_cmd b = true -> forallb (wr_cmd h) (cwrap_body h b) = true.
Proof.
  induction b as [|x t IH]; simpl; [reflexivity|]. intro H. apply andb_true_iff in H. destruct H as [Rx Rt].
  destruct (raises x) as [e|] eqn:Er; simpl.
  - destruct (h e); reflexivity.
  - rewrite (cwrap_wr h x Rx Er). simpl. auto.
Qed.

Lemma cwrap_t_wr h c : raw_t c = true -> top_quiet c = true -> wr_t h (cwrap_t h c) = true.
Proof.
  destruct c as [k| | |t|d]; simpl; try reflexivity. intros Hr Hq.
  destruct (raises k) eqn:E; [discriminate|]. apply cwrap_wr; assumption.
Qed.

(* ------------------------------------------------------------------ *)
(* TRANSPARENCY: a program that cannot raise is left unchanged by the wrapper *)
Definition noraise_pres (r : pres) : bool :=
  match r with PRaise _ _ => false | _ => true end.
Definition noraise_tab (f : ptable) : bool :=
  forallb (fun kv => noraise_pres (snd kv)) (fst f) && noraise_pres (snd f).
Fixpoint noraise_cmd (c : scmd) : bool :=
  match c with
  | SSched _ _ b => forallb noraise_cmd b
  | SRaise _ => false
  | SSleep d => 0 <=? d
  | SHandled _ v => v
  | SPeriodic _ f _ => noraise_tab f
  | _ => true
  end.
Definition noraise_t (c : tcmd) : bool := match c with TDo k => noraise_cmd k | _ => true end.

Lemma noraise_raises c : noraise_cmd c = true -> raises c = None.
Proof.
  destruct c; simpl; try reflexivity; try discriminate.
  - intro H. apply Z.leb_le in H. assert (E : d <? 0 = false) by (apply Z.ltb_ge; lia). rewrite E. reflexivity.
  - intros ->. reflexivity.
Qed.

Lemma cwrap_pres_id h r : noraise_pres r = true -> cwrap_pres h r = r.
Proof. destruct r; simpl; try reflexivity. discriminate. Qed.

Lemma cwrap_tab_id h f : noraise_tab f = true -> cwrap_tab h f = f.
Proof.
  destruct f as [l d]. unfold noraise_tab, cwrap_tab; simpl. intro H.
  apply andb_true_iff in H. destruct H as [Hl Hd]. rewrite (cwrap_pres_id h d Hd). f_equal.
  induction l as [|[k v] t IH]; simpl in *; [reflexivity|].
  apply andb_true_iff in Hl. destruct Hl as [Hv Ht]. rewrite (cwrap_pres_id h v Hv), (IH Ht). reflexivity.
Qed.

Lemma cwrap_id h : forall c, noraise_cmd c = true -> cwrap_cmd h c = c.
Proof.
  induction c as [w l b IHb|r| |d|e|e v|n|p f s0|pid] using scmd_ind'; intros Hn;
    [rewrite cwrap_cmd_sched|..]; simpl in *; try reflexivity.
  - f_equal. induction b as [|x t IHt]; simpl; [reflexivity|].
    inversion IHb as [|? ? Hx Ht]; subst. simpl in Hn. apply andb_true_iff in Hn. destruct Hn as [Nx Nt].
    rewrite (noraise_raises x Nx), (Hx Nx), (IHt Ht Nt). reflexivity.
  - rewrite (cwrap_tab_id h f Hn). reflexivity.
Qed.

Theorem catch_transparent h hs : forallb noraise_t hs = true -> catch_history h hs = hs.
Proof.
  induction hs as [|c t IH]; simpl; [reflexivity|]. intro H. apply andb_true_iff in H. destruct H as [Hc Ht].
  rewrite (IH Ht). f_equal. destruct c; simpl in *; try reflexivity. rewrite (cwrap_id h c Hc). reflexivity.
Qed.

(* Actions that do not raise behave exactly as on the wrapped scheduler *)
Theorem catch_transparent_run c fuel h s hs :
  forallb noraise_t hs = true -> run_catch c fuel h s hs = run c fuel s hs.
Proof. intro H. unfold run_catch. rewrite (catch_transparent h hs H). reflexivity. Qed.

(* ------------------------------------------------------------------ *)
(* ROUTING: every exception raised by an action reaches the handler *)

(* log (newest first): every ERaise e is immediately followed in time by
   EHandler e, and the handler is called only then: raises and handler calls are
   in one-to-one, adjacent correspondence *)
Fixpoint routed (l : list event) : Prop :=
  match l with
  | [] => True
  | EHandler e :: rest =>
      match rest with ERaise e' :: older => e = e' /\ routed older | _ => False end
  | ERaise _ :: _ => False
  | _ :: older => routed older
  end.

Definition plain (e : event) : Prop :=
  match e with ERaise _ | EHandler _ => False | _ => True end.

Lemma routed_plain ev l : plain ev -> routed l -> routed (ev :: l).
Proof. destruct ev; simpl; tauto. Qed.

Lemma routed_pair e l : routed l -> routed (EHandler e :: ERaise e :: l).
Proof. simpl. auto. Qed.

(* exceptions that left a top-level call were rejected by the handler (or are the
   argument check of advance_to/sleep itself) *)
Definition excs_ok (h : Z -> bool) (l : list event) : Prop :=
  forall e, In (EExc e) l -> h e = false \/ e = AOOR.

Definition good (h : Z -> bool) (s : st) : Prop :=
  Forall (fun it => wr_pay h (i_pay it) = true) (queue s) /\
  Forall (fun pi => wr_tab h (p_fn pi) = true) (pers s) /\
  routed (log s) /\ excs_ok h (log s).

Lemma good_init h c0 : good h (init c0).
Proof. unfold good, excs_ok; simpl. repeat split; try constructor; intros; tauto. Qed.

Lemma good_log h s e : plain e -> (forall x, e <> EExc x) -> good h s -> good h (add_log s e).
Proof.
  intros Hp Hx (A & B & C & D). repeat split; simpl; auto.
  - apply routed_plain; assumption.
  - intros x [E|Hin]; [exfalso; eapply Hx; eassumption | auto].
Qed.

Lemma good_enq h s due p : wr_pay h p = true -> good h s -> good h (enqueue s due p).
Proof. intros Hp (A & B & C & D). repeat split; simpl; auto. apply Forall_insert; assumption. Qed.

Lemma good_cancel h s r : good h s -> good h (cancel_id s r).
Proof.
  intros (A & B & C & D). unfold cancel_id. destruct (r <? next_id s)%nat; [|repeat split; assumption].
  repeat split; simpl; auto. intros x [E|Hin]; [discriminate | auto].
Qed.

Lemma good_enabled h s b : good h s -> good h (set_enabled s b).
Proof. intros (A & B & C & D). repeat split; assumption. Qed.

Lemma good_clock h s c : good h s -> good h (set_clock s c).
Proof. intros (A & B & C & D). repeat split; assumption. Qed.

Lemma good_pers h s ps : Forall (fun pi => wr_tab h (p_fn pi) = true) ps -> good h s -> good h (set_pers s ps).
Proof. intros Hp (A & B & C & D). repeat split; assumption. Qed.

Lemma Forall_set_nth {A} (P : A -> Prop) x : forall l n, P x -> Forall P l -> Forall P (set_nth n x l).
Proof.
  induction l as [|y t IH]; intros [|n] Hx Hl; simpl; auto; inversion Hl; subst; constructor; auto.
Qed.

Lemma good_notes h ns : forall s, good h s -> good h (add_notes s ns).
Proof.
  induction ns as [|n t IH]; intros s G; simpl; [assumption|].
  apply IH. apply good_log; try exact I; try discriminate; try assumption.
Qed.

Lemma good_dispose_per h s pid : good h s -> good h (dispose_per s pid).
Proof.
  intro G. unfold dispose_per. destruct (nth_error (pers s) pid) as [pi|] eqn:Hn; [|assumption].
  destruct (p_disposed pi); [assumption|].
  apply good_cancel. apply good_log; try exact I; try discriminate.
  apply good_pers; [|assumption]. destruct G as (_ & B & _). apply Forall_set_nth; [|assumption].
  simpl. rewrite Forall_forall in B. apply B. eapply nth_error_In; eassumption.
Qed.

Lemma In_log_dispose_per s pid e : In e (log s) -> In e (log (dispose_per s pid)).
Proof.
  intro H. unfold dispose_per. destruct (nth_error (pers s) pid) as [pi|]; [|assumption].
  destruct (p_disposed pi); [assumption|].
  unfold cancel_id. match goal with |- context [if ?b then _ else _] => destruct b end; simpl; auto.
Qed.

Definition bgood (h : Z -> bool) (r : bres) : Prop :=
  match r with
  | BOk s' => good h s'
  | BRaise e s' => good h s' /\ h e = false /\ In (EHandler e) (log s')
  end.

Lemma exec_cmd_good h s c : good h s -> wr_cmd h c = true -> bgood h (exec_cmd s c).
Proof.
  intros G Hc. destruct c; simpl in *; try discriminate.
  - apply good_enq; assumption.
  - apply good_cancel; assumption.
  - apply good_enabled; assumption.
  - apply Z.leb_le in Hc. assert (E : d <? 0 = false) by (apply Z.ltb_ge; lia). rewrite E. simpl.
    apply good_clock; assumption.
  - assert (G' : good h (add_log (add_log s (ERaise e)) (EHandler e))).
    { destruct G as (A & B & C & D). repeat split; simpl; auto.
      intros x [E|[E|Hin]]; try discriminate. auto. }
    destruct v; simpl; [assumption|]. simpl in Hc. apply Bool.negb_true_iff in Hc.
    split; [exact G' | split; [assumption | simpl; auto]].
  - apply good_log; try exact I; try discriminate; try assumption.
  - apply good_enq; [reflexivity|]. apply good_pers; [|assumption].
    destruct G as (_ & B & _). apply Forall_app. split; [assumption|]. constructor; [assumption | constructor].
  - apply good_dispose_per; assumption.
Qed.

Lemma exec_body_good h b : forall s, good h s -> forallb (wr_cmd h) b = true -> bgood h (exec_body s b).
Proof.
  induction b as [|c t IH]; intros s G Hb; simpl in *; [assumption|].
  apply andb_true_iff in Hb. destruct Hb as [Hc Ht].
  pose proof (exec_cmd_good h s c G Hc) as H.
  destruct (exec_cmd s c) as [s'|e s']; simpl in *; [apply IH; assumption | assumption].
Qed.

Lemma plookup_wr h f z : wr_tab h f = true -> wr_pres h (plookup f z) = true.
Proof.
  destruct f as [l d]. unfold wr_tab, plookup; simpl. intro H. apply andb_true_iff in H. destruct H as [Hl Hd].
  induction l as [|[k v] t IH]; simpl in *; [assumption|].
  apply andb_true_iff in Hl. destruct Hl as [Hv Ht]. destruct (k =? z); auto.
Qed.

Lemma resched_disposed_good h s pid p : good h s -> bgood h (resched_disposed s pid p).
Proof.
  intro G. unfold resched_disposed; simpl. apply good_cancel. apply good_enq; [reflexivity|].
  apply good_dispose_per; assumption.
Qed.

Lemma invoke_good h s p : good h s -> wr_pay h p = true -> bgood h (invoke s p).
Proof.
  intros G Hp. destruct p as [l b|pid stt]; simpl in *; [apply exec_body_good; assumption|].
  destruct (nth_error (pers s) pid) as [pi|] eqn:Hn; [|assumption].
  destruct (p_disposed pi); [assumption|].
  assert (Hf : wr_tab h (p_fn pi) = true).
  { destruct G as (_ & B & _). rewrite Forall_forall in B. apply B. eapply nth_error_In; eassumption. }
  pose proof (plookup_wr h (p_fn pi) stt Hf) as Hr.
  assert (G1 : forall ns, good h (add_notes (add_log s (ETick pid stt (clock s))) ns)).
  { intro ns. apply good_notes. apply good_log; try exact I; try discriminate; try assumption. }
  destruct (plookup (p_fn pi) stt) as [ns sl st'|ns|ns e|ns e v]; simpl in *; try discriminate.
  - apply good_enq; [reflexivity|]. apply good_pers; [|apply good_clock; apply G1].
    apply Forall_set_nth; [exact Hf|]. destruct (G1 ns) as (_ & B & _). exact B.
  - apply resched_disposed_good. apply G1.
  - set (s2 := add_log (add_log (add_notes (add_log s (ETick pid stt (clock s))) ns) (ERaise e)) (EHandler e)).
    assert (G2 : good h s2).
    { destruct (G1 ns) as (A & B & C & D). repeat split; simpl; auto.
      intros x [E|[E|Hin]]; try discriminate. auto. }
    destruct v; simpl.
    + apply resched_disposed_good. exact G2.
    + simpl in Hr. apply Bool.negb_true_iff in Hr.
      split; [apply good_dispose_per; exact G2 | split; [assumption | apply In_log_dispose_per; simpl; auto]].
Qed.

Lemma run_item_good h s it q' newclk bumped :
  queue s = it :: q' -> good h s -> bgood h (run_item s it q' newclk bumped).
Proof.
  intros Hq G. unfold run_item.
  assert (G1 : good h (add_log (set_clock (dequeue s q') newclk)
                         (mkpop s it newclk bumped (negb (memb (i_id it) (cancelled s)))))).
  { destruct G as (A & B & C & D). rewrite Hq in A. inversion A; subst.
    repeat split; simpl; auto. intros x [E|Hin]; [discriminate | auto]. }
  destruct (negb (memb (i_id it) (cancelled s))); simpl; [|exact G1].
  apply invoke_good; [exact G1|]. destruct G as (A & _). rewrite Hq in A. inversion A; assumption.
Qed.

Definition ogood (h : Z -> bool) (o : outcome) : Prop :=
  match o with
  | Raised e s' => good h s' /\ ((h e = false /\ In (EHandler e) (log s')) \/ e = AOOR)
  | o => good h (ostate o)
  end.

Lemma start_loop_good h c fuel : forall s sp, good h s -> ogood h (start_loop c fuel s sp).
Proof.
  induction fuel as [|fuel IH]; intros s sp G; simpl.
  - destruct (negb (enabled s)); simpl; [apply good_enabled; assumption|].
    destruct (queue s); simpl; [apply good_enabled; assumption | assumption].
  - destruct (negb (enabled s)); simpl; [apply good_enabled; assumption|].
    destruct (queue s) as [|it q'] eqn:Hq; simpl; [apply good_enabled; assumption|].
    assert (Hstep : forall newclk bumped sp',
      ogood h match run_item s it q' newclk bumped with
              | BOk s' => start_loop c fuel s' sp'
              | BRaise e s' => Raised e s' end).
    { intros newclk bumped sp'. pose proof (run_item_good h s it q' newclk bumped Hq G) as H.
      destruct (run_item s it q' newclk bumped) as [s'|e s']; simpl in *; [apply IH; assumption|].
      destruct H as (A & B & C). split; [assumption | left; split; assumption]. }
    destruct (clock s <? i_due it); [apply Hstep|].
    destruct (MAX_SPINNING <? sp)%nat; [|apply Hstep].
    destruct (c_kind c); [apply Hstep|]. destruct (c_prop_bump c); simpl; [assumption | apply Hstep].
Qed.

Lemma advance_loop_good h fuel t : forall s, good h s -> ogood h (advance_loop fuel s t).
Proof.
  assert (Hfin : forall s, good h s -> ogood h (finish_adv s t)).
  { intros s G. unfold finish_adv; simpl. apply good_enabled. destruct (clock s <? t); [apply good_clock|]; assumption. }
  induction fuel as [|fuel IH]; intros s G; simpl.
  - destruct (negb (enabled s)); [apply Hfin; assumption|].
    destruct (queue s) as [|it q']; [apply Hfin; assumption|].
    destruct (t <? i_due it); [apply Hfin; assumption | assumption].
  - destruct (negb (enabled s)); [apply Hfin; assumption|].
    destruct (queue s) as [|it q'] eqn:Hq; [apply Hfin; assumption|].
    destruct (t <? i_due it); [apply Hfin; assumption|].
    pose proof (run_item_good h s it q' (if clock s <? i_due it then i_due it else clock s) false Hq G) as H.
    destruct (run_item s it q' _ false) as [s'|e s']; simpl in *; [apply IH; assumption|].
    destruct H as (A & B & C). split; [assumption | left; split; assumption].
Qed.

Lemma step_t_good h c fuel s cmd : good h s -> wr_t h cmd = true -> ogood h (step_t c fuel s cmd).
Proof.
  intros G Hc. destruct cmd as [k| | |t|d]; simpl in *.
  - pose proof (exec_cmd_good h s k G Hc) as H. destruct (exec_cmd s k) as [s'|e s']; simpl in *; [assumption|].
    destruct H as (A & B & C). split; [assumption | left; split; assumption].
  - unfold start. destruct (enabled s); simpl; [assumption|]. apply start_loop_good. apply good_enabled; assumption.
  - unfold start, silent. simpl. destruct (enabled s); simpl.
    + repeat apply good_enq; auto.
    + apply start_loop_good. apply good_enabled. repeat apply good_enq; auto.
  - unfold advance_to. destruct (t <? clock s); simpl; [split; [assumption | right; reflexivity]|].
    destruct ((clock s =? t) || enabled s); simpl; [assumption|].
    apply advance_loop_good. apply good_enabled; assumption.
  - unfold advance_to. destruct (clock s + d <? clock s); simpl; [split; [assumption | right; reflexivity]|].
    destruct ((clock s =? clock s + d) || enabled s); simpl; [assumption|].
    apply advance_loop_good. apply good_enabled; assumption.
Qed.

Lemma run_good h c fuel : forall hs s, good h s -> forallb (wr_t h) hs = true -> good h (state_of (run c fuel s hs)).
Proof.
  induction hs as [|cmd t IH]; intros s G Hh; simpl in *; [assumption|].
  apply andb_true_iff in Hh. destruct Hh as [Hc Ht].
  pose proof (step_t_good h c fuel s cmd G Hc) as H.
  destruct (step_t c fuel s cmd) as [s'|e s'|s'|s']; simpl in *; try assumption.
  - apply IH; [|assumption]. apply good_log; try exact I; try discriminate; try assumption.
  - destruct H as (A & B). apply IH; [|assumption].
    apply good_log; try exact I; try discriminate.
    destruct A as (A1 & A2 & A3 & A4). repeat split; simpl; auto.
    intros x [E|Hin]; [|auto]. inversion E; subst. destruct B as [[B _]|B]; auto.
Qed.

Lemma catch_history_wr h hs :
  forallb raw_t hs = true -> forallb top_quiet hs = true -> forallb (wr_t h) (catch_history h hs) = true.
Proof.
  induction hs as [|c t IH]; simpl; [reflexivity|]. intros H1 H2.
  apply andb_true_iff in H1. destruct H1 as [R1 R2]. apply andb_true_iff in H2. destruct H2 as [Q1 Q2].
  rewrite (cwrap_t_wr h c R1 Q1). simpl. auto.
Qed.

(* Every exception raised by an action -- at any depth of recursive scheduling
   through the scheduler handed to the action, and in periodic actions -- is
   passed to the handler, exactly once, immediately; exceptions that leave
   start()/advance_to() were rejected by the handler. *)
Theorem catch_routes_all c fuel h c0 hs :
  forallb raw_t hs = true -> forallb top_quiet hs = true ->
  let s := state_of (run_catch c fuel h (init c0) hs) in
  routed (log s) /\ excs_ok h (log s).
Proof.
  intros H1 H2. pose proof (run_good h c fuel (catch_history h hs) (init c0) (good_init h c0)
                                     (catch_history_wr h hs H1 H2)) as (_ & _ & A & B).
  split; assumption.
Qed.

(* handler verdict False: the exception propagates out of start(); verdict True:
   it does not.  Stated for one call of start()/advance_to() in any state whose
   pending work is wrapped. *)
Theorem catch_escape_only_if_rejected_start h c fuel s e s' :
  good h s -> start c fuel s = Raised e s' -> h e = false /\ In (EHandler e) (log s').
Proof.
  intros G E. pose proof (step_t_good h c fuel s TStart G eq_refl) as H. simpl in H. rewrite E in H.
  destruct H as (_ & [H|H]); [assumption|].
  (* e = AOOR cannot come from start itself: redo with the precise loop lemma *)
  subst e. unfold start in E. destruct (enabled s); [discriminate|].
  assert (forall fuel s sp, good h s -> start_loop c fuel s sp = Raised AOOR s' ->
                            h AOOR = false /\ In (EHandler AOOR) (log s')) as L.
  { clear. induction fuel as [|fuel IH]; intros s sp G; simpl.
    - destruct (negb (enabled s)); [discriminate|]. destruct (queue s); discriminate.
    - destruct (negb (enabled s)); [discriminate|]. destruct (queue s) as [|it q'] eqn:Hq; [discriminate|].
      assert (Hstep : forall newclk bumped sp',
        match run_item s it q' newclk bumped with
        | BOk s1 => start_loop c fuel s1 sp'
        | BRaise e s1 => Raised e s1 end = Raised AOOR s' -> h AOOR = false /\ In (EHandler AOOR) (log s')).
      { intros newclk bumped sp'. pose proof (run_item_good h s it q' newclk bumped Hq G) as H.
        destruct (run_item s it q' newclk bumped) as [s1|e s1]; simpl in *; [apply IH; assumption|].
        intro E. inversion E; subst. tauto. }
      destruct (clock s <? i_due it); [apply Hstep|].
      destruct (MAX_SPINNING <? sp)%nat; [|apply Hstep].
      destruct (c_kind c); [apply Hstep|]. destruct (c_prop_bump c); [discriminate | apply Hstep]. }
  eapply L; [|exact E]. apply good_enabled; assumption.
Qed.

Theorem catch_all_accepted_never_escapes h c fuel s e s' :
  (forall x, h x = true) -> good h s -> start c fuel s <> Raised e s'.
Proof.
  intros Hall G E. destruct (catch_escape_only_if_rejected_start h c fuel s e s' G E) as [H _].
  rewrite Hall in H. discriminate.
Qed.

(* reachable states of a catch history are [good] *)
Theorem catch_history_good c fuel h c0 hs :
  forallb raw_t hs = true -> forallb top_quiet hs = true ->
  good h (state_of (run_catch c fuel h (init c0) hs)).
Proof.
  intros H1 H2. apply run_good; [apply good_init | apply catch_history_wr; assumption].
Qed.

(* the wrapped periodic action: a raising call becomes a handled call *)
Lemma plookup_cwrap h f z : plookup (cwrap_tab h f) z = cwrap_pres h (plookup f z).
Proof.
  destruct f as [l d]. unfold plookup, cwrap_tab; simpl.
  induction l as [|[k v] t IH]; simpl; [reflexivity|]. destruct (k =? z); auto.
Qed.

Lemma cwrap_raise_not_next h f z ns e :
  plookup f z = PRaise ns e ->
  plookup (cwrap_tab h f) z = PHandled ns e (h e).
Proof. intro H. rewrite plookup_cwrap, H. reflexivity. Qed.

(* a periodic action is never called after its subscription was disposed, also through a CatchScheduler *)
Theorem catch_no_call_after_dispose c fuel h c0 hs :
  no_tick_after_dispose (log (state_of (run_catch c fuel h (init c0) hs))).
Proof. unfold run_catch. apply no_tick_after_dispose_run. Qed.

(* ---- witnesses used in Props/C42.v ------------------------------------ *)

(* handler accepts 1, rejects 2 *)
Definition hv : Z -> bool := verdict [(1, true); (2, false)].

Definition ex_c42 : list tcmd :=
  [ TDo (SSched (Abs 1) 0 [SSched (Rel 1) 1 [SNote 7; SRaise 1; SNote 8]; SNote 9]);
    TDo (SSched (Abs 5) 2 [SSched Now 3 [SRaise 2]]);
    TDo (SSched (Abs 6) 4 []);
    TStart ].

