(* More facts about Core/AsyncIO.v (C33):
   - the PLAIN AsyncIOScheduler (ts = false) with ANY foreign threads: in the model every call of the plain
     class owns one handle, dispose() is always the direct path and is ONE atomic step (handle.cancel()),
     and the loop re-tests the flag right before running the handle -- so "no start after dispose() returned"
     holds without the side condition of [aio_cancel_effective];
   - the no-op return of a second dispose();
   - actions start on the loop thread, with no side condition. *)
From RxVerif Require Import Base.Prelude Core.AsyncIO Core.AsyncIOFacts.
Local Open Scope Z_scope.

(* handle tables of the plain scheduler: call u <-> handle u, one CbAction each *)
Record PS (hs : list cb) (hl : list (bool * list nat)) (canc : list nat) (log : list aev) : Prop := {
  ps_len : length hs = length hl;
  ps_hs : forall h c, nth_error hs h = Some c -> c = CbAction h;
  ps_hl : forall u e, nth_error hl u = Some e -> e = (false, [u]);
  ps_log : disp_ok [] log = true;
  ps_seen : forall u, In u (dseen [] log) -> amem u canc = true }.

Lemma PS_nil : forall hs hl canc log, PS hs hl canc log -> PS hs hl canc (log ++ []).
Proof. intros. rewrite app_nil_r. assumption. Qed.

Lemma PS_other : forall hs hl canc log e, PS hs hl canc log ->
  (forall u, e <> AStart u) -> (forall u, e <> ADispRet u) -> PS hs hl canc (log ++ [e]).
Proof.
  intros hs hl canc log e P H1 H2. destruct P as [A B C D E]. constructor; try assumption.
  - rewrite disp_ok_app, D. cbn [andb]. apply disp_ok_one_other, H1.
  - intros u I. rewrite dseen_app, (dseen_one_other _ _ H2) in I. apply E, I.
Qed.

Lemma PS_sched : forall hs hl canc log u, PS hs hl canc log ->
  PS (hs ++ [CbAction (length hl)]) (hl ++ [(false, [length hs])]) canc (log ++ [ARet u]).
Proof.
  intros hs hl canc log u P.
  assert (P' : PS hs hl canc (log ++ [ARet u])) by (apply PS_other; [exact P|discriminate|discriminate]).
  destruct P' as [A B C D E]. constructor; try assumption.
  - rewrite !app_length. cbn. lia.
  - intros h c N. apply nth_error_app_inv in N. destruct N as [N|[-> ->]]; [apply B, N|]. rewrite A. reflexivity.
  - intros v e N. apply nth_error_app_inv in N. destruct N as [N|[-> ->]]; [apply C, N|]. rewrite A. reflexivity.
Qed.

Lemma PS_disp : forall hs hl canc log u, PS hs hl canc log -> PS hs hl ([u] ++ canc) (log ++ [ADispRet u]).
Proof.
  intros hs hl canc log u [A B C D E]. constructor; try assumption.
  - rewrite disp_ok_app, D. reflexivity.
  - intros v I. rewrite dseen_app in I. cbn [dseen] in I. cbn [app amem]. destruct I as [<-|I].
    + rewrite Nat.eqb_refl. reflexivity.
    + rewrite (E v I). apply orb_true_r.
Qed.

Lemma PS_start : forall hs hl canc log h, PS hs hl canc log -> amem h canc = false -> PS hs hl canc (log ++ [AStart h]).
Proof.
  intros hs hl canc log h [A B C D E] M. constructor; try assumption.
  - rewrite disp_ok_app, D. cbn [andb disp_ok]. rewrite andb_true_r. apply negb_true_iff.
    destruct (amem h (dseen [] log)) eqn:X; [|reflexivity]. apply amem_in in X. rewrite (E h X) in M. discriminate M.
  - intros u I. rewrite dseen_app in I. cbn [dseen] in I. apply E, I.
Qed.

Definition PSs (s : ash) (log : list aev) : Prop := PS (ahs s) (ahl s) (acanc s) log.
Definition tabs (s s' : ash) : Prop := ahs s' = ahs s /\ ahl s' = ahl s /\ acanc s' = acanc s.
Lemma PSs_tabs : forall s s' log, tabs s s' -> PSs s log -> PSs s' log.
Proof. intros s s' log (A & B & C) P. unfold PSs. rewrite A, B, C. exact P. Qed.
Lemma tabs_refl : forall s, tabs s s.
Proof. intros. repeat split. Qed.
Lemma tabs_trans : forall a b c, tabs a b -> tabs b c -> tabs a c.
Proof. intros a b c (A & B & C) (A' & B' & C'). repeat split; congruence. Qed.

(* no dispose in progress, not inside stage2 *)
Definition okph (ph : aphase) : Prop :=
  match ph with LStage2b _ _ _ => False | LPre c _ | LAct _ c _ _ => c = None | _ => True end.

Lemma plain_do_sched : forall s d,
  ahs (fst (do_sched false s d)) = ahs s ++ [CbAction (length (ahl s))] /\
  ahl (fst (do_sched false s d)) = ahl s ++ [(false, [length (ahs s)])] /\
  acanc (fst (do_sched false s d)) = acanc s.
Proof. intros s d. unfold do_sched. destruct (d <=? 0); cbn; repeat split. Qed.

Section Plain.
Variable fixed : bool.
Variable abody : nat -> list aop.

Lemma PSs_do_sched : forall s d log, PSs s log -> PSs (fst (do_sched false s d)) (log ++ snd (do_sched false s d)).
Proof.
  intros s d log P. unfold PSs. destruct (plain_do_sched s d) as (A & B & C). rewrite A, B, C, do_sched_out.
  apply PS_sched, P.
Qed.

(* a call of the plain scheduler: no dispose is ever left in progress *)
Lemma plain_cstep : forall ol s todo s' cur' todo' out log,
  cstep false fixed ol s None todo s' cur' todo' out -> PSs s log -> PSs s' (log ++ out) /\ cur' = None.
Proof.
  intros ol s todo s' cur' todo' out log C P. inversion C; subst.
  - split; [apply PSs_do_sched, P|reflexivity].
  - split; [apply PSs_do_sched, P|reflexivity].
  - split; [|reflexivity]. apply PS_other; [exact P|discriminate|discriminate].
  - split; [|reflexivity]. apply PS_other; [exact P|discriminate|discriminate].
  - split; [|reflexivity]. unfold PSs. cbn [ahs ahl acanc].
    match goal with H : nth_error (ahl s) u = Some (false, ?l) |- _ =>
      pose proof (ps_hl _ _ _ _ P u _ H) as E; injection E as -> end.
    apply PS_disp, P.
  - exfalso. match goal with H : nth_error (ahl s) u = Some (true, _) |- _ =>
      pose proof (ps_hl _ _ _ _ P u _ H) as E; discriminate E end.
  - exfalso. match goal with H : nth_error (ahl s) u = Some (true, _) |- _ =>
      pose proof (ps_hl _ _ _ _ P u _ H) as E; discriminate E end.
  - exfalso. match goal with H : (_ || _ || negb (false && fixed)) = false |- _ =>
      cbn [andb negb] in H; rewrite orb_true_r in H; discriminate H end.
  - split; [|reflexivity]. apply PS_other; [exact P|discriminate|discriminate].
  - split; [|reflexivity]. apply PS_other; [exact P|discriminate|discriminate].
  - split; [apply PSs_do_sched, P|reflexivity].
Qed.

Lemma tabs_begin : forall s, tabs s (fst (begin_iter s)) /\ okph (snd (begin_iter s)).
Proof. intros s. unfold begin_iter. cbn. repeat split. Qed.
Lemma tabs_stop : forall s, tabs s (fst (stop_loop s)) /\ okph (snd (stop_loop s)).
Proof. intros s. unfold stop_loop. destruct (asegs s); cbn; repeat split. Qed.
Lemma tabs_end : forall s, tabs s (fst (end_iter s)) /\ okph (snd (end_iter s)).
Proof. intros s. unfold end_iter. destruct (astopping s); [apply tabs_stop|apply tabs_begin]. Qed.
Lemma tabs_next : forall s k, tabs s (fst (next_handle s k)) /\ okph (snd (next_handle s k)).
Proof.
  intros s k. unfold next_handle. destruct k as [|k']; [apply tabs_end|].
  destruct (aready s); [apply tabs_end|]. cbn. repeat split.
Qed.

Lemma plain_loop_step : forall quiet s ph s' ph' out log,
  loop_step false fixed abody quiet s ph = Some (s', ph', out) ->
  okph ph -> PSs s log -> PSs s' (log ++ out) /\ okph ph'.
Proof.
  intros quiet s ph s' ph' out log H OK P. unfold loop_step in H.
  destruct ph as [cur todo|dl|h k|h k|u cur todo k|u h k|]; cbn [okph] in OK.
  - subst cur. destruct todo as [|o r].
    + destruct quiet; [|discriminate H].
      match type of H with (let '(_, _) := begin_iter ?s1 in _) = _ =>
        pose proof (tabs_begin s1) as [T K]; destruct (begin_iter s1) as [s2 p2] end.
      inv H. cbn [fst snd] in *. split; [|exact K]. apply PS_nil. eapply PSs_tabs; [exact T|]. exact P.
    + destruct (call_step false fixed true s None (o :: r)) as [[[[s1 c1] t1] o1]|] eqn:CS; [|discriminate H].
      inv H. destruct (plain_cstep _ _ _ _ _ _ _ log (call_step_spec _ _ _ _ _ _ _ _ _ _ CS) P) as [P' ->].
      split; [exact P'|reflexivity].
  - destruct (awoken s || _); [|discriminate H].
    destruct (split_due (aclock s) (atimers s)) as [due rst].
    match type of H with (let '(_, _) := next_handle ?s1 ?k in _) = _ =>
      pose proof (tabs_next s1 k) as [T K]; destruct (next_handle s1 k) as [s2 p2] end.
    inv H. cbn [fst snd] in *. split; [|exact K]. apply PS_nil. eapply PSs_tabs; [exact T|].
    unfold PSs, set_core. cbn [ahs ahl acanc]. exact P.
  - destruct (amem h (acanc s)).
    + pose proof (tabs_next s k) as [T K]. destruct (next_handle s k) as [s2 p2].
      inv H. cbn [fst snd] in *. split; [|exact K]. apply PS_nil. eapply PSs_tabs; [exact T|exact P].
    + inv H. split; [apply PS_nil, P|exact I].
  - destruct (amem h (acanc s)) eqn:M.
    + pose proof (tabs_next s k) as [T K]. destruct (next_handle s k) as [s2 p2].
      inv H. cbn [fst snd] in *. split; [|exact K]. eapply PSs_tabs; [exact T|].
      apply PS_other; [exact P|discriminate|discriminate].
    + destruct (nth_error (ahs s) h) as [c|] eqn:N.
      * pose proof (ps_hs _ _ _ _ P h c N) as ->. inv H. split; [|reflexivity]. apply PS_start; assumption.
      * pose proof (tabs_next s k) as [T K]. destruct (next_handle s k) as [s2 p2].
        inv H. cbn [fst snd] in *. split; [|exact K]. apply PS_nil. eapply PSs_tabs; [exact T|exact P].
  - subst cur. destruct todo as [|o r].
    + pose proof (tabs_next s k) as [T K]. destruct (next_handle s k) as [s2 p2].
      inv H. cbn [fst snd] in *. split; [|exact K]. eapply PSs_tabs; [exact T|].
      apply PS_other; [exact P|discriminate|discriminate].
    + destruct (call_step false fixed true s None (o :: r)) as [[[[s1 c1] t1] o1]|] eqn:CS; [|discriminate H].
      inv H. destruct (plain_cstep _ _ _ _ _ _ _ log (call_step_spec _ _ _ _ _ _ _ _ _ _ CS) P) as [P' ->].
      split; [exact P'|reflexivity].
  - destruct OK.
  - discriminate H.
Qed.

Definition okth (t : athread) : Prop := match t with AF c _ => c = None | AL ph => okph ph end.
Definition invPl (c : aconfig) : Prop :=
  PSs (a_sh c) (AL_ c) /\ forall tid t, nth_error (a_ths c) tid = Some t -> okth t.

Lemma okth_upd : forall ths tid t,
  (forall j y, nth_error ths j = Some y -> okth y) -> okth t ->
  forall j y, nth_error (aupd tid t ths) j = Some y -> okth y.
Proof.
  intros ths tid t H Ht j y N. destruct (Nat.eq_dec j tid) as [->|NE].
  - destruct (nth_error ths tid) as [old|] eqn:O.
    + rewrite (anth_upd_same _ _ _ _ _ O) in N. inv N. exact Ht.
    + rewrite aupd_none in N by exact O. eapply H, N.
  - rewrite anth_upd_other in N by exact NE. eapply H, N.
Qed.

Lemma invPl_step : forall c tid, invPl c -> invPl (atstep false fixed abody c tid).
Proof.
  intros c tid [P T]. unfold atstep. destruct (nth_error (a_ths c) tid) as [[cur todo|ph]|] eqn:N; [| |split; assumption].
  - pose proof (T tid _ N) as K. cbn [okth] in K. subst cur.
    destruct (call_step false fixed false (a_sh c) None todo) as [[[[s' cur'] todo'] out]|] eqn:CS; [|split; assumption].
    destruct (plain_cstep _ _ _ _ _ _ _ (AL_ c) (call_step_spec _ _ _ _ _ _ _ _ _ _ CS) P) as [P' ->].
    split; [rewrite AL_step; exact P'|]. cbn [a_ths]. apply okth_upd; [exact T|reflexivity].
  - destruct (loop_step false fixed abody _ (a_sh c) ph) as [[[s' ph'] out]|] eqn:LS; [|split; assumption].
    destruct (plain_loop_step _ _ _ _ _ _ (AL_ c) LS (T tid _ N) P) as [P' K].
    split; [rewrite AL_step; exact P'|]. cbn [a_ths]. apply okth_upd; [exact T|exact K].
Qed.

Lemma invPl_tick : forall c d, invPl c -> invPl (atick c d).
Proof. intros c d [P T]. split; [exact P|exact T]. Qed.

Lemma invPl_init : forall t0 pre segs progs, invPl (ainit t0 pre segs progs).
Proof.
  intros. split.
  - unfold PSs, ainit, AL_. cbn. constructor; try reflexivity.
    + intros h c N. destruct h; discriminate N.
    + intros u e N. destruct u; discriminate N.
    + intros u [].
  - intros tid t N. unfold ainit in N. cbn [a_ths] in N. destruct tid as [|n]; cbn [nth_error] in N.
    + inv N. reflexivity.
    + apply nth_error_In, in_map_iff in N. destruct N as [p [<- _]]. reflexivity.
Qed.

Lemma invPl_run : forall sched c, invPl c -> invPl (arun false fixed abody c sched).
Proof.
  induction sched as [|m s IH]; intros c H; [exact H|]. cbn. apply IH.
  destruct m; cbn; [apply invPl_step|apply invPl_tick]; exact H.
Qed.

(* the plain AsyncIOScheduler, ANY foreign threads, repaired or not: once dispose() has returned the
   action does not start *)
Theorem aio_cancel_effective_plain : forall t0 pre segs progs sched l1 u l2,
  AL_ (arun false fixed abody (ainit t0 pre segs progs) sched) = l1 ++ ADispRet u :: l2 -> ~ In (AStart u) l2.
Proof.
  intros t0 pre segs progs sched l1 u l2 E.
  destruct (invPl_run sched _ (invPl_init t0 pre segs progs)) as [P _].
  pose proof (ps_log _ _ _ _ P) as L. rewrite E in L. eapply disp_ok_spec, L.
Qed.

(* ... and at that moment (and ever after) the call's handle is cancelled *)
Theorem aio_dispose_returns_cancelled_plain : forall t0 pre segs progs sched u h,
  let c := arun false fixed abody (ainit t0 pre segs progs) sched in
  In (ADispRet u) (AL_ c) -> owner (a_sh c) h = Some u -> amem h (acanc (a_sh c)) = true.
Proof.
  intros t0 pre segs progs sched u h c I O.
  destruct (invPl_run sched _ (invPl_init t0 pre segs progs)) as [P _]. fold c in P.
  unfold owner in O. destruct (nth_error (ahs (a_sh c)) h) as [x|] eqn:N; [|discriminate O].
  pose proof (ps_hs _ _ _ _ P h x N) as ->. inv O.
  apply (ps_seen _ _ _ _ P). apply amem_in. apply amem_dseen. right. exact I.
Qed.

(* in the model the plain scheduler's dispose() is never left in progress: no thread is ever inside a
   two-step direct dispose or waiting in future.result() *)
Theorem aio_plain_dispose_atomic : forall t0 pre segs progs sched tid cur todo,
  nth_error (a_ths (arun false fixed abody (ainit t0 pre segs progs) sched)) tid = Some (AF cur todo) -> cur = None.
Proof.
  intros t0 pre segs progs sched tid cur todo N.
  destruct (invPl_run sched _ (invPl_init t0 pre segs progs)) as [_ T]. exact (T tid _ N).
Qed.
End Plain.

(* ---- both classes under one statement ---------------------------------------------------- *)
Theorem aio_cancel_effective_all : forall ts fixed abody t0 pre segs progs sched l1 u l2,
  (ts = true -> fixed = true \/ progs = []) ->
  AL_ (arun ts fixed abody (ainit t0 pre segs progs) sched) = l1 ++ ADispRet u :: l2 -> ~ In (AStart u) l2.
Proof.
  intros ts fixed abody t0 pre segs progs sched l1 u l2 H. destruct ts.
  - apply aio_cancel_effective. destruct (H eq_refl) as [ -> | -> ]; [left; reflexivity|right; reflexivity].
  - apply aio_cancel_effective_plain.
Qed.

Theorem aio_dispose_returns_cancelled_all : forall ts fixed abody t0 pre segs progs sched u h,
  (ts = true -> fixed = true \/ progs = []) ->
  let c := arun ts fixed abody (ainit t0 pre segs progs) sched in
  In (ADispRet u) (AL_ c) -> owner (a_sh c) h = Some u -> amem h (acanc (a_sh c)) = true.
Proof.
  intros ts fixed abody t0 pre segs progs sched u h H. destruct ts.
  - apply aio_dispose_returns_cancelled. destruct (H eq_refl) as [ -> | -> ]; [left; reflexivity|right; reflexivity].
  - apply aio_dispose_returns_cancelled_plain.
Qed.

(* ---- the no-op return of dispose() ----------------------------------------------------------- *)
(* a dispose() that returns at once because the disposable is already disposed: IF the winning dispose()
   has returned before, the action does not start afterwards either *)
Corollary aio_noop_after_winner_returned : forall ts fixed abody t0 pre segs progs sched l1 u l2,
  (ts = true -> fixed = true \/ progs = []) ->
  AL_ (arun ts fixed abody (ainit t0 pre segs progs) sched) = l1 ++ ADispNoop u :: l2 ->
  In (ADispRet u) l1 -> ~ In (AStart u) l2.
Proof.
  intros ts fixed abody t0 pre segs progs sched l1 u l2 H E I S.
  destruct (in_split _ _ I) as (a & b & ->).
  rewrite <- app_assoc in E. cbn [app] in E.
  apply (aio_cancel_effective_all ts fixed abody t0 pre segs progs sched a u _ H E).
  apply in_or_app. right. right. exact S.
Qed.

(* ... but not otherwise: while the winner is still in future.result() a second dispose() of the same
   disposable returns at once (Disposable.dispose is idempotent), and the action starts after that return.
   T1: schedule(); T1: dispose() -- marshalled, waits; T2: dispose() -- no-op, returns; loop: runs the action *)
Definition noop_witness : aconfig :=
  arun true true noaction (ainit 0 [] [] [[ANow; ADispose 0%nat]; [ADispose 0%nat]])
       [AMStep 0; AMStep 1; AMStep 1; AMStep 2; AMStep 0; AMStep 0; AMStep 0]%nat.

Lemma aio_noop_dispose_refuted :
  map snd (a_log noop_witness) = [ARet 0; ADispNoop 0; AStart 0]%nat /\
  nth_error (a_ths noop_witness) 1 = Some (AF (Some (FWait 0 0)) []) /\
  ~ In (ADispRet 0%nat) (map snd (a_log noop_witness)).
Proof.
  vm_compute. split; [reflexivity|]. split; [reflexivity|].
  intros [H|[H|[H|[]]]]; discriminate H.
Qed.

(* ---- actions start on the loop thread: no side condition -------------------------------------- *)
Section Loop.
Variable ts : bool.
Variable fixed : bool.
Variable abody : nat -> list aop.

Definition invL0 (c : aconfig) : Prop :=
  (forall tid ph, nth_error (a_ths c) tid = Some (AL ph) -> tid = 0%nat) /\
  (forall tid t u, In (tid, t, AStart u) (a_log c) -> tid = 0%nat).

Lemma invL0_step : forall c tid, invL0 c -> invL0 (atstep ts fixed abody c tid).
Proof.
  intros c tid [S L]. unfold atstep. destruct (nth_error (a_ths c) tid) as [[cur todo|ph]|] eqn:N; [| |split; assumption].
  - destruct (call_step ts fixed false (a_sh c) cur todo) as [[[[s' cur'] todo'] out]|] eqn:CS; [|split; assumption].
    split; cbn [a_ths a_log].
    + intros j ph Nj. destruct (Nat.eq_dec j tid) as [->|NE].
      * rewrite (anth_upd_same _ _ _ _ _ N) in Nj. discriminate Nj.
      * rewrite anth_upd_other in Nj by exact NE. eapply S, Nj.
    + intros j t u I. apply in_app_or in I. destruct I as [I|I]; [eapply L, I|].
      apply in_astamp in I. destruct I as [_ [_ I]]. exfalso.
      eapply cstep_no_start; [apply call_step_spec; exact CS|exact I].
  - pose proof (S tid ph N) as ->.
    destruct (loop_step ts fixed abody _ (a_sh c) ph) as [[[s' ph'] out]|]; [|split; assumption].
    split; cbn [a_ths a_log].
    + intros j p Nj. destruct (Nat.eq_dec j 0) as [->|NE]; [reflexivity|].
      rewrite anth_upd_other in Nj by exact NE. eapply S, Nj.
    + intros j t u I. apply in_app_or in I. destruct I as [I|I]; [eapply L, I|]. apply in_astamp in I. apply I.
Qed.

Theorem aio_on_loop_thread_all : forall t0 pre segs progs sched tid t u,
  In (tid, t, AStart u) (a_log (arun ts fixed abody (ainit t0 pre segs progs) sched)) -> tid = 0%nat.
Proof.
  intros t0 pre segs progs sched tid t u.
  assert (G : forall sched c, invL0 c -> invL0 (arun ts fixed abody c sched)).
  { induction sched0 as [|m s IH]; intros c C; [exact C|]. cbn. apply IH. destruct m as [tid0|d]; cbn.
    - apply invL0_step, C.
    - exact C. }
  assert (I0 : invL0 (ainit t0 pre segs progs)).
  { split.
    - intros j ph N. unfold ainit in N. cbn [a_ths] in N. destruct j as [|n]; [reflexivity|]. cbn [nth_error] in N.
      apply nth_error_In, in_map_iff in N. destruct N as [p [E _]]. discriminate E.
    - intros ? ? ? []. }
  apply (proj2 (G sched _ I0)).
Qed.
End Loop.
