(* C36 -- further facts about Core/TimeConv.v: strict order of to_seconds in the round-trip
   range (value-level, [fl_le]), and [rn] is THE correctly rounded binary64 quotient. *)
From Coq Require Import ZArith Lia Bool.
From RxVerif Require Import Core.TimeConv Core.TimeConvFacts.
Open Scope Z_scope.

(* strict order within the round-trip range, on float VALUES (fl_le), hence also value-level
   injectivity *)
Theorem to_seconds_strict_in_range : forall n n',
  Z.abs n < 2 ^ 33 * us_per_s -> Z.abs n' < 2 ^ 33 * us_per_s -> n < n' ->
  ~ fl_le (to_seconds_td n') (to_seconds_td n).
Proof.
  intros n n' H H' L C. apply us_of_float_mono in C.
  rewrite (roundtrip_us n H), (roundtrip_us n' H') in C. lia.
Qed.

Theorem to_seconds_value_injective_in_range : forall n n',
  Z.abs n < 2 ^ 33 * us_per_s -> Z.abs n' < 2 ^ 33 * us_per_s ->
  fl_eqb (to_seconds_td n) (to_seconds_td n') = true -> n = n'.
Proof.
  intros n n' H H' E. unfold fl_eqb in E. apply andb_true_iff in E. destruct E as [E1 E2].
  assert (L1 : fl_le (to_seconds_td n) (to_seconds_td n')).
  { revert E1. destruct (to_seconds_td n) as [m e], (to_seconds_td n') as [m' e'].
    unfold fl_leb, fl_le. intros E1. apply Z.leb_le in E1. exact E1. }
  assert (L2 : fl_le (to_seconds_td n') (to_seconds_td n)).
  { revert E2. destruct (to_seconds_td n) as [m e], (to_seconds_td n') as [m' e'].
    unfold fl_leb, fl_le. intros E2. apply Z.leb_le in E2. exact E2. }
  apply us_of_float_mono in L1. apply us_of_float_mono in L2.
  rewrite (roundtrip_us n H), (roundtrip_us n' H') in L1, L2. lia.
Qed.

(* rn a b is the correctly rounded binary64 of a / b (a, b > 0; 2^e = up e / dn e):
   exponent at least -1074, mantissa at most 2^53 (and at least 2^52 unless subnormal),
   error at most half a unit in the last place, ties to the even mantissa *)
Definition rn_spec (a b : Z) (x : fl) : Prop :=
  let 'F m e := x in
  -1074 <= e /\ 0 <= m <= 2 ^ 53 /\ (-1074 < e -> 2 ^ 52 <= m) /\
  2 * Z.abs (m * (b * up e) - a * dn e) <= b * up e /\
  (2 * Z.abs (m * (b * up e) - a * dn e) = b * up e -> Z.even m = true).

Theorem rn_correct : forall a b, 0 < a -> 0 < b -> rn_spec a b (rn a b).
Proof.
  intros a b Ha Hb. rewrite (rn_pos_form a b Ha). unfold rn_spec.
  destruct (rn_exp_spec a b Ha Hb) as [N1 [N2 N3]].
  set (e := rn_exp a b) in *.
  pose proof (up_pos e) as U. pose proof (dn_pos e) as D.
  assert (HY : 0 < b * up e) by nia.
  split; [exact N1|]. split; [split|]; [| |split; [|split]].
  - apply rne_div_ge_bound; [exact HY | nia].
  - apply rne_div_le_bound; [exact HY | lia].
  - intros C. apply rne_div_ge_bound; [exact HY | apply N3; exact C].
  - apply rne_div_err. exact HY.
  - apply rne_div_tie_even. exact HY.
Qed.

(* the mantissa/exponent pair satisfying rn_spec is unique up to the one non-canonical
   writing 2^53 * 2^e = 2^52 * 2^(e+1); at a fixed exponent it is unique *)
Lemma rn_spec_unique_at_exp : forall a b m m' e, 0 < b ->
  rn_spec a b (F m e) -> rn_spec a b (F m' e) -> m = m'.
Proof.
  intros a b m m' e Hb [_ [_ [_ [E1 T1]]]] [_ [_ [_ [E2 T2]]]].
  pose proof (up_pos e) as U. assert (HY : 0 < b * up e) by nia.
  rewrite <- (rne_div_charact (a * dn e) (b * up e) m HY E1 T1).
  apply (rne_div_charact (a * dn e) (b * up e) m' HY E2 T2).
Qed.

(* negative numerators: the mirror image *)
Corollary rn_correct_neg : forall a b, a < 0 -> 0 < b ->
  exists m e, rn a b = F (- m) e /\ rn_spec (- a) b (F m e).
Proof.
  intros a b Ha Hb. pose proof (rn_opp (- a) b Hb) as O. rewrite Z.opp_involutive in O. rewrite O.
  pose proof (rn_correct (- a) b ltac:(lia) Hb) as S. destruct (rn (- a) b) as [m e].
  exists m, e. split; [reflexivity | exact S].
Qed.

(* to_seconds(timedelta) is the correctly rounded n / 10^6 *)
Corollary to_seconds_correctly_rounded : forall n, 0 < n -> rn_spec n us_per_s (to_seconds_td n).
Proof. intros n H. apply rn_correct; [exact H | reflexivity]. Qed.
