(* More facts about the transition system of ScheduledObserver / ObserveOnObserver (Core/SchedObs.v):
   deliveries are made by worker threads of the target scheduler; the ReplaySubject call pattern end to
   end; which states are dead (no thread can step).  All schedules, all programs, any number of threads. *)
From RxVerif Require Import Base.Prelude Core.Lts Core.LtsFacts Core.SchedObs Core.SchedObsFacts.
Local Open Scope nat_scope.

(* positions inside the worker loop / inside one `run` started by the scheduler *)
Definition wpos (l : so_loc) : Prop :=
  match l with LW_pop | LR_lock | LR_enter _ | LR_exit _ | LR_fault | LR_resched => True | _ => False end.
Definition rpos (l : so_loc) : Prop :=
  match l with LR_lock | LR_enter _ | LR_exit _ | LR_fault | LR_resched => True | _ => False end.
Definition owpos (o : option so_loc) : Prop := match o with Some l => wpos l | None => False end.
Definition orpos (o : option so_loc) : Prop := match o with Some l => rpos l | None => False end.

Section Worker.
Variable raises : nat -> bool.

Lemma so_act_pos : forall tid s l s' l' out,
  so_act raises tid s l = Some (s', l', out) ->
  (owpos l' -> wpos l) /\ (orpos l' -> rpos l \/ In OPop out) /\ (forall i, In (OEnter i) out -> rpos l).
Proof.
  intros tid [q acq flt pend recv] l s' l' out A. destruct l; cbn [so_act] in A.
  - injection A as <- <- <-. destruct ens; cbn; repeat split; try tauto.
  - destruct flt, q, acq; injection A as <- <- <-; cbn; repeat split; tauto.
  - injection A as <- <- <-. cbn. repeat split; try tauto. intros i [H|[]]; discriminate H.
  - destruct pend; [discriminate A|]. injection A as <- <- <-. cbn. repeat split; try tauto.
    intros i [H|[]]; discriminate H.
  - destruct q; injection A as <- <- <-; cbn; repeat split; tauto.
  - injection A as <- <- <-. cbn. repeat split; tauto.
  - destruct (raises i); injection A as <- <- <-; cbn; repeat split; tauto.
  - injection A as <- <- <-. cbn. repeat split; tauto.
  - injection A as <- <- <-. cbn. repeat split; tauto.
Qed.

(* every thread executes a suffix of its program; a thread inside the worker loop has [OWork] in its
   program; a thread inside a `run` has logged the scheduler's start of it; so has every thread that
   logged a delivery *)
Definition InvO (progs : list (list so_op)) (c : config) : Prop :=
  (forall tid t, nth_error (c_ths c) tid = Some t ->
     exists p, nth_error progs tid = Some p /\ (forall o, In o (t_todo t) -> In o p) /\
               (owpos (t_cur t) -> In OWork p) /\ (orpos (t_cur t) -> In (tid, OPop) (c_log c))) /\
  (forall tid i, In (tid, OEnter i) (c_log c) ->
     In (tid, OPop) (c_log c) /\ exists p, nth_error progs tid = Some p /\ In OWork p).

Lemma invo_init : forall progs, InvO progs (init so_init progs).
Proof.
  intros progs. split.
  - intros tid t N. cbn [init c_ths] in N. rewrite nth_error_map in N.
    destruct (nth_error progs tid) as [p|]; [|discriminate N]. injection N as <-.
    exists p. cbn. repeat split; tauto.
  - intros tid i H. destruct H.
Qed.

Lemma invo_step : forall progs c tid, InvO progs c ->
  InvO progs (@tstep so_state so_loc so_op so_obs so_start (so_act raises) c tid).
Proof.
  intros progs c tid [J1 J2].
  destruct (tstep_cases so_start (so_act raises) c tid) as [E|(t & l & todo & s' & l' & out & N & F & A & E)];
    rewrite E; [split; assumption|]. clear E.
  destruct (so_act_pos _ _ _ _ _ _ A) as (Pw & Pr & Pe).
  destruct (J1 tid t N) as (p & Np & Jt & Jw & Jr).
  assert (FT : (forall o, In o todo -> In o p) /\ (wpos l -> In OWork p) /\ (rpos l -> In (tid, OPop) (c_log c))).
  { destruct (next_frame_cur so_start t l todo F) as [[Ec ->]|[Ec [o [Et ->]]]].
    - rewrite Ec in Jw, Jr. repeat split; assumption.
    - rewrite Et in Jt. split; [intros o' Ho; apply Jt; right; exact Ho|].
      split; destruct o; cbn [so_start wpos rpos]; try tauto. intros _. apply Jt. left. reflexivity. }
  destruct FT as (Ft & Fw & Fr).
  assert (Hlog : forall x, In x (c_log c) -> In x (c_log c ++ map (pair tid) out))
    by (intros x Hx; apply in_or_app; left; exact Hx).
  split.
  - intros j y Ny. cbn [c_ths c_log] in *. destruct (Nat.eq_dec j tid) as [->|Hj].
    + rewrite (nth_upd_same _ _ _ _ _ N) in Ny. injection Ny as <-. exists p. cbn [t_cur t_todo].
      split; [exact Np|]. split; [exact Ft|]. split; [intros H; exact (Fw (Pw H))|].
      intros H. destruct (Pr H) as [H1|H1]; [apply Hlog, Fr, H1|].
      apply in_or_app. right. apply in_map_iff. exists OPop. split; [reflexivity|exact H1].
    + rewrite nth_upd_other in Ny by exact Hj. destruct (J1 j y Ny) as (p' & Np' & Jt' & Jw' & Jr').
      exists p'. repeat split; try assumption. intros H. apply Hlog, Jr', H.
  - intros j i H. cbn [c_log] in *. apply in_app_or in H. destruct H as [H|H].
    + destruct (J2 j i H) as [H1 H2]. split; [apply Hlog, H1|exact H2].
    + apply in_map_iff in H. destruct H as (o & Eo & Ho). injection Eo as <- ->.
      pose proof (Pe i Ho) as R. split; [apply Hlog, Fr, R|]. exists p. split; [exact Np|]. apply Fw.
      destruct l; cbn in R |- *; tauto.
Qed.

Lemma so_invo : forall progs sched, InvO progs (so_run raises progs sched).
Proof.
  intros progs sched. unfold so_run.
  apply (run_invariant so_start (so_act raises) (InvO progs) (invo_step progs)), invo_init.
Qed.

(* "on the target scheduler": every delivery is made by a thread that is a worker of the target
   scheduler (its program contains the worker loop) and that has started a pending `run` *)
Theorem so_on_worker : forall progs sched tid i,
  In (tid, OEnter i) (c_log (so_run raises progs sched)) ->
  In (tid, OPop) (c_log (so_run raises progs sched)) /\
  exists p, nth_error progs tid = Some p /\ In OWork p.
Proof. intros progs sched tid i H. exact (proj2 (so_invo progs sched) tid i H). Qed.

(* a thread whose program has no worker loop never delivers *)
Corollary so_producer_never_delivers : forall progs sched tid p i,
  nth_error progs tid = Some p -> ~ In OWork p ->
  ~ In (tid, OEnter i) (c_log (so_run raises progs sched)).
Proof.
  intros progs sched tid p i Np Hp H. destruct (so_on_worker progs sched tid i H) as [_ (p' & Np' & Hw)].
  rewrite Np in Np'. injection Np' as <-. exact (Hp Hw).
Qed.

(* ---- ReplaySubject's call pattern end to end ------------------------------------ *)
Definition replay_prog (ids : list nat) : list so_op := map OEnq ids ++ [OEnsure].

Lemma covered_replay : forall ids, covered (replay_prog ids) = true /\ has_ens (replay_prog ids) = true.
Proof.
  induction ids as [|i r [IH1 IH2]]; [split; reflexivity|]. unfold replay_prog in *. cbn [map app covered has_ens].
  rewrite IH1, IH2. split; reflexivity.
Qed.
Lemma ids_of_replay : forall ids, ids_of (replay_prog ids) = ids.
Proof.
  induction ids as [|i r IH]; [reflexivity|]. unfold replay_prog in *. cbn [map app ids_of flat_map].
  fold (ids_of (map OEnq r ++ [OEnsure])). rewrite IH. reflexivity.
Qed.
Lemma replay_no_work : forall ids, ~ In OWork (replay_prog ids).
Proof.
  intros ids H. unfold replay_prog in H. apply in_app_or in H. destruct H as [H|[H|[]]]; [|discriminate H].
  apply in_map_iff in H. destruct H as (x & E & _). discriminate E.
Qed.

(* one thread enqueues [ids] and then calls ensure_active, any number of scheduler workers: the
   delivered sequence is always a prefix of [ids]; at quiescence without a fault it IS [ids] and
   every delivery has returned *)
Theorem so_replay_style : forall ids nworkers sched,
  let c := so_run raises (replay_prog ids :: repeat [OWork] nworkers) sched in
  (exists rest, ids = entered (untag (c_log c)) ++ rest) /\
  (quiescent c = true -> so_flt (c_sh c) = false ->
     entered (untag (c_log c)) = ids /\ left (untag (c_log c)) = ids).
Proof.
  intros ids nw sched c.
  assert (Hw : forall w, In w (repeat [OWork] nw) -> ids_of w = []).
  { intros w Hw. apply repeat_spec in Hw. subst w. reflexivity. }
  destruct (so_invp raises (replay_prog ids) (repeat [OWork] nw) sched Hw) as [[t0 [N0 R0]] _]. fold c in N0, R0.
  rewrite ids_of_replay in R0.
  assert (Hc : forallb covered (replay_prog ids :: repeat [OWork] nw) = true).
  { cbn [forallb]. rewrite (proj1 (covered_replay ids)). cbn [andb]. apply forallb_forall. intros w Hw'.
    apply repeat_spec in Hw'. subst w. reflexivity. }
  split.
  - destruct (so_delivered_prefix raises (replay_prog ids :: repeat [OWork] nw) sched) as [rest [E _]]. fold c in E.
    exists (rest ++ pend_ids t0). rewrite app_assoc, <- E. symmetry. exact R0.
  - intros Q Hf.
    destruct (so_quiescent_all_delivered raises _ sched Hc Q Hf) as (E1 & E2 & _). fold c in E1, E2.
    assert (Z : pend_ids t0 = []).
    { unfold quiescent in Q. apply andb_true_iff in Q. destruct Q as [Q1 _]. rewrite forallb_forall in Q1.
      pose proof (Q1 t0 (nth_error_In _ _ N0)) as I0. unfold idle in I0. unfold pend_ids.
      destruct (proj1 (so_invo (replay_prog ids :: repeat [OWork] nw) sched) 0 t0 N0) as (p & Np & _ & Pw & _).
      cbn [nth_error] in Np. injection Np as <-.
      destruct (t_cur t0) as [[]|]; try discriminate I0.
      - exfalso. apply (replay_no_work ids), Pw. exact I.
      - destruct (t_todo t0); [reflexivity|discriminate I0]. }
    rewrite Z, app_nil_r in R0. split; congruence.
Qed.
End Worker.

(* ---- which states are dead --------------------------------------------------------- *)
(* the thread is finished / is a worker of the scheduler waiting for a pending `run` (inside the loop
   or about to enter it) *)
Definition waiting (t : thread) : Prop := exists todo, next_frame so_start t = Some (LW_pop, todo).

Lemma upd_nth_neq : forall A (l : list A) k x old,
  nth_error l k = Some old -> x <> old -> upd_nth k x l <> l.
Proof.
  intros A l k x old N Hx E. pose proof (nth_upd_same _ l k x old N) as H. rewrite E, N in H.
  injection H as H. exact (Hx (eq_sym H)).
Qed.

Section Progress.
Variable raises : nat -> bool.
Notation tstep := (@tstep so_state so_loc so_op so_obs so_start (so_act raises)).

(* every position except the worker's wait is enabled, and the step moves the thread *)
Lemma so_act_enabled : forall tid s l,
  l <> LW_pop -> exists s' l' out, so_act raises tid s l = Some (s', l', out) /\ l' <> Some l.
Proof.
  intros tid [q acq flt pend recv] l Hl. destruct l; cbn [so_act]; try congruence.
  - eexists _, _, _. split; [reflexivity|]. destruct ens; discriminate.
  - destruct flt, q, acq; eexists _, _, _; (split; [reflexivity|discriminate]).
  - eexists _, _, _; (split; [reflexivity|discriminate]).
  - destruct q; eexists _, _, _; (split; [reflexivity|discriminate]).
  - eexists _, _, _; (split; [reflexivity|discriminate]).
  - destruct (raises i); eexists _, _, _; (split; [reflexivity|discriminate]).
  - eexists _, _, _; (split; [reflexivity|discriminate]).
  - eexists _, _, _; (split; [reflexivity|discriminate]).
Qed.

Lemma frame_moves : forall (t : thread) l todo l',
  next_frame so_start t = Some (l, todo) -> l' <> Some l -> Thread l' todo <> t.
Proof.
  intros t l todo l' F Hl E. subst t. unfold next_frame in F. cbn [t_cur t_todo] in F.
  destruct l' as [l0|].
  - injection F as ->. congruence.
  - destruct todo as [|o r]; [discriminate F|]. injection F as _ F.
    apply (f_equal (@length so_op)) in F. cbn [length] in F. lia.
Qed.

(* a thread standing anywhere but at the worker's wait can step *)
Lemma so_step_enabled : forall (c : config) tid t l todo,
  nth_error (c_ths c) tid = Some t -> next_frame so_start t = Some (l, todo) -> l <> LW_pop ->
  tstep c tid <> c.
Proof.
  intros c tid t l todo N F Hl. destruct (so_act_enabled tid (c_sh c) l Hl) as (s' & l' & out & A & Hm).
  unfold Lts.tstep. rewrite N, F, A. intros E. apply (f_equal c_ths) in E. cbn [c_ths] in E.
  exact (upd_nth_neq _ _ _ _ _ N (frame_moves t l todo l' F Hm) E).
Qed.

(* a waiting worker can step as soon as a `run` is pending *)
Lemma so_worker_enabled : forall (c : config) tid t,
  nth_error (c_ths c) tid = Some t -> waiting t -> so_pend (c_sh c) <> 0 -> tstep c tid <> c.
Proof.
  intros c tid t N [todo F] Hp. unfold Lts.tstep. rewrite N, F.
  destruct (c_sh c) as [q acq flt pend recv] eqn:Es. cbn [so_pend] in Hp. cbn [so_act].
  destruct pend as [|p]; [congruence|]. intros E. apply (f_equal c_sh) in E. cbn [c_sh] in E.
  rewrite Es in E. injection E as E. lia.
Qed.

(* exact characterisation: NO thread can step iff every thread is finished or a worker waiting for
   work, and nothing is pending on the scheduler unless it has no worker at all *)
Theorem so_dead_iff : forall c : config,
  (forall tid, tstep c tid = c) <->
  (forall tid t, nth_error (c_ths c) tid = Some t -> finished t = true \/ waiting t) /\
  (so_pend (c_sh c) = 0 \/ forall tid t, nth_error (c_ths c) tid = Some t -> ~ waiting t).
Proof.
  intros c. split.
  - intros D. split.
    + intros tid t N. destruct (next_frame so_start t) as [[l todo]|] eqn:F.
      * right. destruct l; try (exists todo; exact F);
          (exfalso; apply (so_step_enabled c tid t _ todo N F); [discriminate|apply D]).
      * left. unfold next_frame in F. unfold finished. destruct (t_cur t); [discriminate F|].
        destruct (t_todo t); [reflexivity|discriminate F].
    + destruct (Nat.eq_dec (so_pend (c_sh c)) 0) as [Z|NZ]; [left; exact Z|right].
      intros tid t N W. exact (so_worker_enabled c tid t N W NZ (D tid)).
  - intros [H1 H2] tid. unfold Lts.tstep.
    destruct (nth_error (c_ths c) tid) as [t|] eqn:N; [|reflexivity].
    destruct (H1 tid t N) as [Fi|[todo F]].
    + unfold finished in Fi. unfold next_frame. destruct (t_cur t); [discriminate Fi|].
      destruct (t_todo t); [reflexivity|discriminate Fi].
    + rewrite F. destruct H2 as [Z|NW]; [|exfalso; exact (NW tid t N (ex_intro _ todo F))].
      destruct (c_sh c) as [q acq flt pend recv]. cbn [so_pend] in Z. subst pend. reflexivity.
Qed.

(* progress: in a non-quiescent state that has a worker inside its loop waiting for work, and in which
   no thread stands in front of a worker loop it has not entered yet, some thread can step *)
Theorem so_progress : forall c : config,
  quiescent c = false ->
  (exists w t, nth_error (c_ths c) w = Some t /\ t_cur t = Some LW_pop) ->
  (forall tid t r, nth_error (c_ths c) tid = Some t -> t_cur t = None -> t_todo t <> OWork :: r) ->
  exists tid, tstep c tid <> c.
Proof.
  intros c Q (w & tw & Nw & Cw) NU.
  destruct (Nat.eq_dec (so_pend (c_sh c)) 0) as [Z|NZ].
  - unfold quiescent in Q. rewrite Z, Nat.eqb_refl, andb_true_r in Q.
    assert (exists t, In t (c_ths c) /\ idle t = false) as (t & Ht & Hi).
    { clear - Q. induction (c_ths c) as [|y r IH]; [discriminate Q|]. cbn [forallb] in Q.
      destruct (idle y) eqn:Ey.
      - destruct (IH Q) as (t & Ht & Hi). exists t. split; [right; exact Ht|exact Hi].
      - exists y. split; [left; reflexivity|exact Ey]. }
    apply In_nth_error in Ht. destruct Ht as [tid N]. exists tid.
    unfold idle in Hi. destruct (t_cur t) as [l|] eqn:Ec.
    + apply (so_step_enabled c tid t l (t_todo t) N); [unfold next_frame; rewrite Ec; reflexivity|].
      intros ->. discriminate Hi.
    + destruct (t_todo t) as [|o r] eqn:Et; [discriminate Hi|].
      apply (so_step_enabled c tid t (so_start o) r N); [unfold next_frame; rewrite Ec, Et; reflexivity|].
      destruct o; cbn [so_start]; try discriminate. exfalso. exact (NU tid t r N Ec Et).
  - exists w. apply (so_worker_enabled c w tw Nw); [|exact NZ]. exists (t_todo tw). unfold next_frame. rewrite Cw. reflexivity.
Qed.
End Progress.

(* the third hypothesis of [so_progress] cannot be dropped: a REACHABLE state that is not [quiescent]
   (worker 2 has not entered its loop, and [idle] does not count that as idle), has worker 1 waiting
   inside its loop, and in which no thread can step -- an artefact of the definition of [idle], not of
   the code (a scheduler thread that has nothing to run is idle) *)
Definition so_progress_cex : config :=
  so_run (fun _ => false) [producer [1]; [OWork]; [OWork]] [0;0;0;1;1;1;1;1;1;1].

Lemma so_progress_without_side_condition_refuted :
  let c := so_progress_cex in
  quiescent c = false /\
  nth_error (c_ths c) 1 = Some (Thread (Some LW_pop) []) /\
  c_ths c = [Thread None []; Thread (Some LW_pop) []; Thread None [OWork]] /\ so_pend (c_sh c) = 0 /\
  entered (untag (c_log c)) = [1] /\
  forall tid, @tstep so_state so_loc so_op so_obs so_start (so_act (fun _ => false)) c tid = c.
Proof.
  vm_compute. repeat split. intros tid. do 3 (destruct tid as [|tid]; [reflexivity|]). destruct tid; reflexivity.
Qed.
