(* Generic interleaving semantics used by Core/SchedObs.v (C32) and
   Core/CombConc.v (C43).

   A concurrent object is a labelled transition system
       act : tid -> shared -> local -> option (shared * option local * list obs)
   where a [local] is the POSITION of a thread parked at one of its yield points
   (a lock acquisition, an unlocked access to a shared variable, a call out of
   the object) and one scheduled step of thread [tid] executes the code from
   that yield point to the next one.  [None] = the thread cannot take the step
   now (the lock is held by another thread, nothing is pending for a worker):
   scheduling it is a stutter.  [Some (s, None, out)] = the call returned.
   A thread is a list of calls; [run] folds an ARBITRARY schedule (list of
   thread ids).  Theorems quantify over all schedules, all programs and any
   number of threads.

   (Same conventions as Core/DispConc.v, which fixes the observation type of the
   disposables; this file is parametric in it and adds blocking and thread ids.) *)
From RxVerif Require Import Base.Prelude.
Local Open Scope nat_scope.

Fixpoint upd_nth {A} (k : nat) (x : A) (l : list A) : list A :=
  match l, k with
  | [], _ => []
  | _ :: t, O => x :: t
  | y :: t, S k' => y :: upd_nth k' x t
  end.

(* sums over the thread list *)
Definition nsum {A} (f : A -> nat) (l : list A) : nat := fold_right (fun x a => f x + a) 0 l.

Section Lts.
Context {Sh L O Ob : Type}.
Variable start : O -> L.                                             (* position at the first yield point of a call *)
Variable act : nat -> Sh -> L -> option (Sh * option L * list Ob).

Record thread := Thread {
  t_cur : option L;        (* call in progress, parked at its next yield point *)
  t_todo : list O }.       (* calls not yet started *)

Record config := Config { c_sh : Sh; c_ths : list thread; c_log : list (nat * Ob) }.

Definition next_frame (t : thread) : option (L * list O) :=
  match t_cur t with
  | Some l => Some (l, t_todo t)
  | None => match t_todo t with
            | o :: r => Some (start o, r)
            | [] => None
            end
  end.

Definition tstep (c : config) (tid : nat) : config :=
  match nth_error (c_ths c) tid with
  | None => c
  | Some t =>
      match next_frame t with
      | None => c                                           (* finished thread *)
      | Some (l, todo) =>
          match act tid (c_sh c) l with
          | None => c                                       (* blocked: stutter *)
          | Some (s', l', out) =>
              Config s' (upd_nth tid (Thread l' todo) (c_ths c)) (c_log c ++ map (pair tid) out)
          end
      end
  end.

Definition run (c : config) (sched : list nat) : config := fold_left tstep sched c.

Definition init (s : Sh) (progs : list (list O)) : config :=
  Config s (map (fun p => Thread None p) progs) [].

Definition finished (t : thread) : bool :=
  match t_cur t, t_todo t with None, [] => true | _, _ => false end.

(* the position a thread is parked at (None: between two calls / finished) *)
Definition at_pos (p : L -> bool) (t : thread) : bool :=
  match t_cur t with Some l => p l | None => false end.
End Lts.

Arguments Thread {L O}. Arguments Config {Sh L O Ob}.
Arguments t_cur {L O}. Arguments t_todo {L O}.
Arguments c_sh {Sh L O Ob}. Arguments c_ths {Sh L O Ob}. Arguments c_log {Sh L O Ob}.
Arguments finished {L O}. Arguments at_pos {L O}.

Definition untag {Ob} (l : list (nat * Ob)) : list Ob := map snd l.
