(* Transition system of reactivex/scheduler/eventloopscheduler.py (EventLoopScheduler), with
   reactivex/scheduler/scheduleditem.py and the abstract view of internal/priorityqueue.py.

   Threads: any number of SCHEDULING threads, each running a list of calls
   (schedule / schedule_relative / schedule_absolute / dispose of a returned disposable /
   scheduler.dispose()), and the LOOP threads that `_ensure_thread` starts.  The ENVIRONMENT
   advances the clock (move [MTick d]).  A schedule is an arbitrary list of moves.

   Granularity (= the yield points of harness/k3_time.py in coarse mode, re-derived from the
   source by the AST pass of harness/eldrv.py on every run):
     - reading the clock outside a locked block (`self.now` in schedule / schedule_relative)   1 step
     - the unlocked read `if self._is_disposed:` in schedule_absolute                          1 step
     - one whole `with self._condition:` block                                                  1 step
     - `item.is_cancelled()` (unlocked read of the item's disposable)                          1 step
     - entering the action (call out) ; leaving the action                                      1 step each
     - Condition.wait: releasing the lock and blocking is part of the locked block's step;
       waking up (after notify, or once the clock reached the timeout) and re-acquiring is 1 step
     - a new thread: from its entry to its first lock acquisition                               1 step
   Actions are labelled; the body of an action is a list of calls executed by the loop thread
   inside the action ([body]), so re-entrant scheduling, cancelling and disposing from inside an
   action are covered.

   Time is integer microseconds.  The queue is the abstract view of PriorityQueue: heapq on
   (item, count) tuples compared by ScheduledItem.__lt__/__eq__ on duetime, i.e. a list sorted by
   (due, insertion order) -- heapq itself is trusted.

   Ghost data (never read by the model): the uid of a call (allocated at its first step), the
   events ECall / EPass / EAcc.  Everything else in the log is observable on the implementation. *)
From RxVerif Require Import Base.Prelude.
Local Open Scope Z_scope.

Inductive op :=
| SchedNow (a : nat)               (* scheduler.schedule(action a) *)
| SchedRel (d : Z) (a : nat)       (* scheduler.schedule_relative(d us, action a) *)
| SchedAbs (t : Z) (a : nat)       (* scheduler.schedule_absolute(t, action a) *)
| Cancel (a : nat)                 (* dispose() of the disposable returned for action a *)
| Dispose.                         (* scheduler.dispose() *)

(* it_uid and it_imm are ghost: the call that made the item, and whether it went to _ready_list *)
Record item := Item { it_uid : nat; it_lbl : nat; it_due : Z; it_imm : bool }.

Inductive ev :=
| ECall (u a : nat)                (* ghost: first step of a schedule call; u fresh *)
| EPass (u : nat)                  (* ghost: the unlocked `_is_disposed` test was passed *)
| EAcc (it : item)                 (* ghost: enqueued (it_imm: into _ready_list) *)
| ERet (a : nat)                   (* the schedule call returned a disposable *)
| ERaise (a : nat)                 (* the schedule call raised DisposedException *)
| ECancelRet (a : nat)             (* dispose() of the item's disposable returned *)
| EDisposeRet                      (* scheduler.dispose() returned *)
| ECheck (it : item) (c : bool)    (* item.is_cancelled() returned c on the loop thread *)
| EStart (it : item)               (* the action was entered *)
| EEnd (it : item)                 (* the action returned *)
| ESpawn (tid : nat)               (* _ensure_thread started thread tid *)
| EExit.                           (* run() returned *)

(* a thread parked in Condition.wait *)
Record wait := Wait { w_tid : nat; w_deadline : option Z; w_notified : bool }.

Record shared := Sh {
  clock : Z;
  disposed : bool;               (* _is_disposed *)
  rl : list item;                (* _ready_list *)
  q : list item;                 (* _queue, sorted by (due, insertion) *)
  thr : option nat;              (* _thread *)
  wt : option wait;              (* the waiter of _condition, if any *)
  cancelled : list nat;          (* labels whose disposable was disposed *)
  nuid : nat }.                  (* ghost: next uid *)

(* a schedule call in progress *)
Inductive opst :=
| PS1 (u a : nat) (due : Z)      (* at `if self._is_disposed:` *)
| PS2 (u a : nat) (due : Z).     (* at `with self._condition:` *)

Inductive lphase :=
| LNew                                           (* started, not yet at the first lock *)
| LCollect                                       (* at the first locked block of the loop *)
| LExec (ready : list item)                      (* at `item.is_cancelled()` of the head *)
| LInvoke (i : item) (ready : list item)         (* about to enter the action *)
| LBody (i : item) (cur : option opst) (todo : list op) (ready : list item)   (* inside the action *)
| LWaitSec                                       (* at the second locked block *)
| LWaiting                                       (* parked in Condition.wait *)
| LExited.

Inductive tstate :=
| TSched (cur : option opst) (todo : list op)
| TLoop (ph : lphase).

Record config := Config {
  c_sh : shared;
  c_ths : list tstate;
  c_log : list (nat * Z * ev) }.    (* thread, clock reading, event *)

Inductive move := MStep (tid : nat) | MTick (d : nat).

(* ---- the data structures -------------------------------------------------- *)
Fixpoint mem (a : nat) (l : list nat) : bool :=
  match l with [] => false | b :: t => Nat.eqb a b || mem a t end.

(* PriorityQueue.enqueue: after every queued item that is due no later *)
Fixpoint insert (x : item) (l : list item) : list item :=
  match l with
  | [] => [x]
  | y :: t => if it_due x <? it_due y then x :: l else y :: insert x t
  end.

(* `while self._ready_list and due > self._ready_list[0].duetime: ready.append(popleft())` *)
Fixpoint take_lt (due : Z) (l : list item) : list item * list item :=
  match l with
  | [] => ([], [])
  | r :: t => if due >? it_due r
              then let '(m, rest) := take_lt due t in (r :: m, rest)
              else ([], l)
  end.

(* the merge of run(): returns (ready, remaining queue); _ready_list is always drained *)
Fixpoint collect (time : Z) (qu rdy : list item) : list item * list item :=
  match qu with
  | [] => (rdy, [])
  | x :: qu' =>
      let '(m, rest) := take_lt (it_due x) rdy in
      if it_due x >? time then (m ++ rest, qu)
      else let '(r, qu'') := collect time qu' rest in (m ++ x :: r, qu'')
  end.

Definition notify (w : option wait) : option wait :=
  match w with Some (Wait t d _) => Some (Wait t d true) | None => None end.

Fixpoint upd {A} (k : nat) (x : A) (l : list A) : list A :=
  match l, k with
  | [], _ => []
  | _ :: t, O => x :: t
  | y :: t, S k' => y :: upd k' x t
  end.

Section System.
Variable eie : bool.                 (* exit_if_empty *)
Variable body : nat -> list op.      (* what action a does, on the loop thread *)

(* ---- one step of a call (executed by a scheduling thread or inside an action) ----
   [ntid]: the id the next started thread gets.  Result: new shared state, call in progress,
   remaining calls, events, and whether a thread was started. *)
Definition s1 (s : shared) (u a : nat) (due : Z) (todo : list op)
  : shared * option opst * list op * list ev * bool :=
  if disposed s then (s, None, todo, [ERaise a], false)
  else (s, Some (PS2 u a due), todo, [EPass u], false).

Definition s2 (ntid : nat) (s : shared) (u a : nat) (due : Z) (todo : list op)
  : shared * option opst * list op * list ev * bool :=
  let imm := due <=? clock s in
  let it := Item u a due imm in
  let rl' := if imm then rl s ++ [it] else rl s in
  let q' := if imm then q s else insert it (q s) in
  match thr s with
  | Some _ =>
      (Sh (clock s) (disposed s) rl' q' (thr s) (notify (wt s)) (cancelled s) (nuid s),
       None, todo, [EAcc it; ERet a], false)
  | None =>
      (Sh (clock s) (disposed s) rl' q' (Some ntid) (notify (wt s)) (cancelled s) (nuid s),
       None, todo, [EAcc it; ESpawn ntid; ERet a], true)
  end.

Definition bump (s : shared) : shared :=
  Sh (clock s) (disposed s) (rl s) (q s) (thr s) (wt s) (cancelled s) (S (nuid s)).

Definition op_step (ntid : nat) (s : shared) (cur : option opst) (todo : list op)
  : option (shared * option opst * list op * list ev * bool) :=
  match cur with
  | Some (PS1 u a due) => Some (s1 s u a due todo)
  | Some (PS2 u a due) => Some (s2 ntid s u a due todo)
  | None =>
      match todo with
      | [] => None
      | SchedNow a :: r =>                         (* schedule: `self.now` *)
          Some (bump s, Some (PS1 (nuid s) a (clock s)), r, [ECall (nuid s) a], false)
      | SchedRel d a :: r =>                       (* schedule_relative: `self.now + max(0, d)` *)
          Some (bump s, Some (PS1 (nuid s) a (clock s + Z.max 0 d)), r, [ECall (nuid s) a], false)
      | SchedAbs t a :: r =>                       (* schedule_absolute: straight to the test *)
          let '(s', c', r', out, sp) := s1 (bump s) (nuid s) a t r in
          Some (s', c', r', ECall (nuid s) a :: out, sp)
      | Cancel a :: r =>
          Some (Sh (clock s) (disposed s) (rl s) (q s) (thr s) (wt s) (a :: cancelled s) (nuid s),
                None, r, [ECancelRet a], false)
      | Dispose :: r =>
          Some ((if disposed s then s
                 else Sh (clock s) true (rl s) (q s) (thr s) (notify (wt s)) (cancelled s) (nuid s)),
                None, r, [EDisposeRet], false)
      end
  end.

Definition next_phase (r : list item) : lphase :=
  match r with [] => LWaitSec | _ => LExec r end.

Definition timed_out (s : shared) (w : wait) : bool :=
  match w_deadline w with Some d => d <=? clock s | None => false end.

(* one step of a loop thread *)
Definition loop_step (me ntid : nat) (s : shared) (ph : lphase)
  : option (shared * lphase * list ev * bool) :=
  match ph with
  | LNew => Some (s, LCollect, [], false)
  | LCollect =>
      if disposed s then Some (s, LExited, [EExit], false)
      else let '(ready, q') := collect (clock s) (q s) (rl s) in
           Some (Sh (clock s) (disposed s) [] q' (thr s) (wt s) (cancelled s) (nuid s),
                 next_phase ready, [], false)
  | LExec [] => Some (s, LWaitSec, [], false)                     (* not reachable *)
  | LExec (i :: r) =>
      if mem (it_lbl i) (cancelled s)
      then Some (s, next_phase r, [ECheck i true], false)
      else Some (s, LInvoke i r, [ECheck i false], false)
  | LInvoke i r => Some (s, LBody i None (body (it_lbl i)) r, [EStart i], false)
  | LBody i cur todo r =>
      match op_step ntid s cur todo with
      | Some (s', cur', todo', out, sp) => Some (s', LBody i cur' todo' r, out, sp)
      | None => Some (s, next_phase r, [EEnd i], false)
      end
  | LWaitSec =>
      match rl s with
      | _ :: _ => Some (s, LCollect, [], false)                               (* continue *)
      | [] =>
          match q s with
          | x :: _ =>
              if it_due x - clock s >? 0
              then Some (Sh (clock s) (disposed s) (rl s) (q s) (thr s)
                            (Some (Wait me (Some (it_due x)) false)) (cancelled s) (nuid s),
                         LWaiting, [], false)
              else Some (s, LCollect, [], false)
          | [] =>
              if eie
              then Some (Sh (clock s) (disposed s) (rl s) (q s) None (wt s) (cancelled s) (nuid s),
                         LExited, [EExit], false)
              else Some (Sh (clock s) (disposed s) (rl s) (q s) (thr s)
                            (Some (Wait me None false)) (cancelled s) (nuid s),
                         LWaiting, [], false)
          end
      end
  | LWaiting =>
      match wt s with
      | Some w =>
          if Nat.eqb (w_tid w) me && (w_notified w || timed_out s w)
          then Some (Sh (clock s) (disposed s) (rl s) (q s) (thr s) None (cancelled s) (nuid s),
                     LCollect, [], false)
          else None                                                           (* blocked *)
      | None => None
      end
  | LExited => None
  end.

Definition stamp (tid : nat) (t : Z) (out : list ev) : list (nat * Z * ev) :=
  map (fun e => (tid, t, e)) out.

Definition tstep (c : config) (tid : nat) : config :=
  let s := c_sh c in
  let ntid := length (c_ths c) in
  match nth_error (c_ths c) tid with
  | None => c
  | Some (TSched cur todo) =>
      match op_step ntid s cur todo with
      | None => c
      | Some (s', cur', todo', out, sp) =>
          Config s' (upd tid (TSched cur' todo') (c_ths c) ++ (if sp then [TLoop LNew] else []))
                 (c_log c ++ stamp tid (clock s) out)
      end
  | Some (TLoop ph) =>
      match loop_step tid ntid s ph with
      | None => c
      | Some (s', ph', out, sp) =>
          Config s' (upd tid (TLoop ph') (c_ths c) ++ (if sp then [TLoop LNew] else []))
                 (c_log c ++ stamp tid (clock s) out)
      end
  end.

Definition tick (c : config) (d : nat) : config :=
  let s := c_sh c in
  Config (Sh (clock s + Z.of_nat d) (disposed s) (rl s) (q s) (thr s) (wt s) (cancelled s) (nuid s))
         (c_ths c) (c_log c).

Definition mstep (c : config) (m : move) : config :=
  match m with MStep tid => tstep c tid | MTick d => tick c d end.

Definition run (c : config) (sched : list move) : config := fold_left mstep sched c.

Definition sh0 (t0 : Z) : shared := Sh t0 false [] [] None None [] 0.
Definition init (t0 : Z) (progs : list (list op)) : config :=
  Config (sh0 t0) (map (fun p => TSched None p) progs) [].
End System.

(* ---- projections of the log --------------------------------------------------- *)
Definition evs (l : list (nat * Z * ev)) : list ev := map snd l.

(* the observable part, as the harness logs it: (kind, label) with
   0 ret, 1 raise, 2 cancelret, 3 disposeret, 4 check-false, 5 check-true, 6 start, 7 end,
   8 spawn (label = tid), 9 exit *)
Definition obs_of (e : ev) : option (nat * nat) :=
  match e with
  | ECall _ _ | EPass _ | EAcc _ => None
  | ERet a => Some (0, a) | ERaise a => Some (1, a)
  | ECancelRet a => Some (2, a) | EDisposeRet => Some (3, 0)
  | ECheck i false => Some (4, it_lbl i) | ECheck i true => Some (5, it_lbl i)
  | EStart i => Some (6, it_lbl i) | EEnd i => Some (7, it_lbl i)
  | ESpawn t => Some (8, t) | EExit => Some (9, 0)
  end%nat.

Fixpoint observable (l : list (nat * Z * ev)) : list (nat * Z * (nat * nat)) :=
  match l with
  | [] => []
  | (tid, t, e) :: r =>
      match obs_of e with
      | Some o => (tid, t, o) :: observable r
      | None => observable r
      end
  end.

Definition obs_eqb (x y : nat * Z * (nat * nat)) : bool :=
  let '(a, t, (k, l)) := x in let '(b, t', (k', l')) := y in
  Nat.eqb a b && Z.eqb t t' && Nat.eqb k k' && Nat.eqb l l'.

(* what the correspondence check compares: the observable log and whether each thread is
   finished / exited (1), parked in Condition.wait (2), or has work left (0) *)
Definition tstatus (t : tstate) : nat :=
  match t with
  | TSched None [] => 1
  | TSched _ _ => 0
  | TLoop LExited => 1
  | TLoop LWaiting => 2
  | TLoop _ => 0
  end%nat.

Definition outcome (c : config) : list (nat * Z * (nat * nat)) * list nat :=
  (observable (c_log c), map tstatus (c_ths c)).

Definition outcome_eqb (x y : list (nat * Z * (nat * nat)) * list nat) : bool :=
  list_eqb obs_eqb (fst x) (fst y) && list_eqb Nat.eqb (snd x) (snd y).

(* finite action bodies for the harness: association list, default = no calls *)
Fixpoint body_of (tbl : list (nat * list op)) (a : nat) : list op :=
  match tbl with
  | [] => []
  | (b, l) :: t => if Nat.eqb a b then l else body_of t a
  end.
