(* C43: the subscriber's AutoDetachObserver with its check and its update as TWO steps.

   Core/CombConc.v runs the subscriber's wrapper ([fin]) as ONE atomic test-and-set of is_stopped,
   so "what the subscriber's callbacks see obeys Next* (Err|Done)?" holds there of every operator,
   the refuted ones included (CombConcFacts2.grammar_is_wrapper).  The real wrapper
   (reactivex/observer/autodetachobserver.py) is unsynchronised:
       on_next:       if self.is_stopped: return          # read
                      self._on_next(value)                # callback
       on_error / on_completed:
                      if self.is_stopped: return          # read
                      self.is_stopped = True; self._on_xxx(..)   # set + callback
   This file refines the GENERIC part only ([gact] -> [gact2]); the operators' step functions
   ([zip_step], [cl_step], .. of Core/CombConc.v) are used UNCHANGED.  A thread inside a downstream
   call d first reads is_stopped ([Q (PI h d k)]): stopped -> the call returns; not stopped -> it
   parks at the new yield point [QW h d k] ("read False, callback not yet run").  From [QW] it runs
   the callback and (for a terminal d) sets the flag -- whatever the flag has become meanwhile.

   - [split_covers]: every run of the atomic model (the one K3 ties to /repo) is a run of the split
     model with the same log (schedule the two halves back to back).
   - [split_gen]: in the split model the grammar is a CONSEQUENCE of mutual exclusion of the
     downstream calls: any step-invariant that implies "two threads inside are the same thread"
     gives Next* (Err|Done)? for all schedules; instantiated for the lock discipline
     ([split_lock], the seven lock-based operators) and for amb ([split_amb]).
   - the code before the fixes is NOT grammatical in the split model (vm_compute witnesses):
     the conjunct now discriminates.
   The split yield point is finer than K3's granularity (K3 does not preempt inside the
   AutoDetachObserver), so these are theorems about a refinement of the tied model, connected to it
   by [split_covers]. *)
From RxVerif Require Import Base.Prelude Core.Lts Core.LtsFacts Core.CombConc Core.CombConcFacts.
Local Open Scope nat_scope.

Inductive pos2 :=
| Q (l : pos)                          (* a yield point of Core/CombConc.v *)
| QW (h : bool) (d : dev) (k : nat).   (* inside the call d: is_stopped was read False, callback not yet run *)

Definition base (q : pos2) : pos := match q with Q l => l | QW h d k => PI h d k end.
Definition start2 (e : sev) : pos2 := Q (start e).
Definition holds2 (q : pos2) : bool := holds (base q).
Definition inside2 (q : pos2) : bool := inside (base q).

Definition liftr {S} (r : option (gsh S * option pos * list cobs)) : option (gsh S * option pos2 * list cobs) :=
  match r with Some (sh, nxt, out) => Some (sh, option_map Q nxt, out) | None => None end.

Section Split.
Context {S : Type}.
Variable ostep : nat -> S -> pos -> option (S * option pos).

Definition gact2 (tid : nat) (sh : gsh S) (q : pos2) : option (gsh S * option pos2 * list cobs) :=
  match q with
  | Q (PI h d k) =>
      if g_dn sh then liftr (gact ostep tid sh (PI h d k))       (* stopped: the call returns *)
      else Some (sh, Some (QW h d k), [])                          (* read False *)
  | Q l => liftr (gact ostep tid sh l)
  | QW h d k =>                                                    (* callback (+ set), on the stale reading *)
      match gact ostep tid (GS (g_lock sh) false (g_st sh)) (PI h d k) with
      | Some (sh', nxt, out) => Some (GS (g_lock sh') (g_dn sh || g_dn sh') (g_st sh'), option_map Q nxt, out)
      | None => None
      end
  end.

Definition grun2 (st0 : S) (progs : list (list sev)) (sched : list nat) : @config (gsh S) pos2 sev cobs :=
  run start2 gact2 (init (GS None false st0) progs) sched.

Notation config2 := (@config (gsh S) pos2 sev cobs).
Notation thread2 := (@Lts.thread pos2 sev).
Notation gstep2 := (tstep start2 gact2).

Definition enter_of (nxt : option pos) : list cobs := match nxt with Some (PI _ d _) => [CEnter d] | _ => [] end.

(* what one step of the split wrapper is *)
Lemma gact2_inv : forall tid sh q sh' nxt2 out,
  gact2 tid sh q = Some (sh', nxt2, out) ->
  (exists h d k, q = Q (PI h d k) /\ g_dn sh = false /\ sh' = sh /\ nxt2 = Some (QW h d k) /\ out = []) \/
  (exists nxt,
     nxt2 = option_map Q nxt /\
     ostep tid (g_st sh) (base q) = Some (g_st sh', nxt) /\
     (is_acq (base q) = true -> lock_free tid (g_lock sh) = true) /\
     g_lock sh' = (if match nxt with Some p => holds p | None => false end then Some tid
                   else if holds (base q) || is_acq (base q) then None else g_lock sh) /\
     (forall h d k, q = Q (PI h d k) -> g_dn sh = true) /\
     g_dn sh' = match q with QW _ d _ => g_dn sh || is_term d | _ => g_dn sh end /\
     out = match q with Q (PI _ d _) => [CExit d] | QW _ d _ => [CUser d; CExit d] | _ => [] end ++ enter_of nxt).
Proof.
  intros tid sh q sh' nxt2 out A. unfold gact2 in A.
  assert (L : forall l, (forall h d k, l = PI h d k -> g_dn sh = true) ->
              liftr (gact ostep tid sh l) = Some (sh', nxt2, out) ->
              exists nxt, nxt2 = option_map Q nxt /\ ostep tid (g_st sh) l = Some (g_st sh', nxt) /\
                (is_acq l = true -> lock_free tid (g_lock sh) = true) /\
                g_lock sh' = (if match nxt with Some p => holds p | None => false end then Some tid
                              else if holds l || is_acq l then None else g_lock sh) /\
                g_dn sh' = g_dn sh /\
                out = match l with PI _ d _ => [CExit d] | _ => [] end ++ enter_of nxt).
  { intros l Hdn B. unfold liftr in B. destruct (gact ostep tid sh l) as [[[s1 n1] o1]|] eqn:G; [|discriminate B].
    injection B as <- <- <-. destruct (gact_inv ostep _ _ _ _ _ _ G) as (st' & Os & Es & Ha & El & Ed & Eo).
    exists n1. split; [reflexivity|]. rewrite Es. split; [exact Os|]. split; [exact Ha|]. split; [exact El|].
    split.
    - rewrite Ed. destruct l as [| | | | |h d k]; try reflexivity. rewrite (Hdn h d k eq_refl). reflexivity.
    - rewrite Eo. unfold enter_of. destruct l as [| | | | |h d k]; try reflexivity. rewrite (Hdn h d k eq_refl). reflexivity. }
  destruct q as [l|h d k].
  - destruct l as [e| |k0 a|k0 a|h0 a|h d k].
    1-5: right;
         match type of A with liftr (gact _ _ _ ?l) = _ =>
           assert (Hn : forall h d k, l = PI h d k -> g_dn sh = true) by (intros; discriminate);
           destruct (L l Hn A) as (nxt & E1 & E2 & E3 & E4 & E5 & E6)
         end;
         exists nxt; cbn [base]; repeat split; try assumption; intros; discriminate.
    destruct (g_dn sh) eqn:Dn.
    + right. assert (Hn : forall h0 d0 k0, PI h d k = PI h0 d0 k0 -> true = true) by (intros; reflexivity).
      destruct (L (PI h d k) Hn A) as (nxt & E1 & E2 & E3 & E4 & E5 & E6).
      exists nxt. cbn [base]. repeat split; try assumption.
    + left. injection A as <- <- <-. exists h, d, k. repeat split; assumption.
  - right. destruct (gact ostep tid (GS (g_lock sh) false (g_st sh)) (PI h d k)) as [[[s1 n1] o1]|] eqn:G; [|discriminate A].
    injection A as <- <- <-. destruct (gact_inv ostep _ _ _ _ _ _ G) as (st' & Os & Es & Ha & El & Ed & Eo).
    cbn [g_st g_lock g_dn] in *. exists n1. cbn [base]. split; [reflexivity|]. rewrite Es.
    split; [exact Os|]. split; [exact Ha|]. split; [exact El|]. split; [intros; discriminate|].
    split.
    + rewrite Ed. reflexivity.
    + rewrite Eo. reflexivity.
Qed.

(* ---- mutual exclusion of the downstream calls, state form --------------------------------- *)
Definition tinside2 (t : thread2) : bool := at_pos inside2 t.
Definition excl2 (c : config2) : Prop :=
  forall i j ti tj, nth_error (c_ths c) i = Some ti -> nth_error (c_ths c) j = Some tj ->
                    tinside2 ti = true -> tinside2 tj = true -> i = j.

(* ---- the subscriber's view -------------------------------------------------------------- *)
(* grammatical so far; all Next while not stopped; whoever has read False and not yet run its
   callback: the flag is still False *)
Definition GInv2 (c : config2) : Prop :=
  gram (users (untag (c_log c))) = true /\
  (g_dn (c_sh c) = false -> all_next (users (untag (c_log c))) = true) /\
  (forall tid t h d k, nth_error (c_ths c) tid = Some t -> t_cur t = Some (QW h d k) -> g_dn (c_sh c) = false).

Lemma users_enter : forall nxt, users (enter_of nxt) = [].
Proof. intros [[]|]; reflexivity. Qed.

Lemma frame2_cur : forall (t : thread2) q todo,
  next_frame start2 t = Some (q, todo) -> inside2 q = true -> t_cur t = Some q.
Proof.
  intros t q todo F H. destruct (next_frame_cur start2 t q todo F) as [[E _]|[_ [o [_ ->]]]]; [exact E|].
  destruct o; discriminate H.
Qed.

Lemma ginv2_step : forall c tid, excl2 c -> GInv2 c -> GInv2 (gstep2 c tid).
Proof.
  intros c tid Ex (G1 & G2 & G3).
  destruct (tstep_cases start2 gact2 c tid) as [E|(t & q & todo & s' & nxt2 & out & N & F & A & E)];
    rewrite E; [repeat split; assumption|]. clear E.
  destruct (gact2_inv _ _ _ _ _ _ A) as [(h & d & k & -> & Dn & -> & -> & ->)|(nxt & -> & _ & _ & _ & Hpi & Edn & Eout)].
  - (* the read *)
    unfold GInv2. cbn [c_log c_sh c_ths map]. rewrite app_nil_r. split; [exact G1|]. split; [exact G2|].
    intros; exact Dn.
  - unfold GInv2. cbn [c_log c_sh c_ths]. rewrite untag_app, untag_tag, users_app, Eout, users_app, users_enter, app_nil_r.
    assert (Hoth : forall j y h d k, j <> tid ->
              nth_error (upd_nth tid (Thread (option_map Q nxt) todo) (c_ths c)) j = Some y ->
              t_cur y = Some (QW h d k) -> nth_error (c_ths c) j = Some y).
    { intros j y h d k Hj Ny _. rewrite nth_upd_other in Ny by exact Hj. exact Ny. }
    assert (Hnew : forall j y h d k,
              nth_error (upd_nth tid (Thread (option_map Q nxt) todo) (c_ths c)) j = Some y ->
              t_cur y = Some (QW h d k) -> j <> tid).
    { intros j y h d k Ny Cy ->. rewrite (nth_upd_same _ _ _ _ _ N) in Ny. injection Ny as <-. cbn [t_cur] in Cy.
      destruct nxt; discriminate Cy. }
    destruct q as [l|h d k].
    + (* an ordinary step, or a call returning because the flag was set *)
      assert (Eu : users (match l with PI _ d _ => [CExit d] | _ => [] end) = []) by (destruct l; reflexivity).
      rewrite Eu, app_nil_r, Edn. split; [exact G1|]. split; [exact G2|].
      intros j y h d k Ny Cy. pose proof (Hnew j y h d k Ny Cy) as Hj.
      exact (G3 j y h d k (Hoth j y h d k Hj Ny Cy) Cy).
    + (* the callback: the flag is still False, and nobody else is between read and callback *)
      assert (Ct : t_cur t = Some (QW h d k)) by exact (frame2_cur t _ todo F eq_refl).
      pose proof (G3 tid t h d k N Ct) as Dn. specialize (G2 Dn). rewrite Edn, Dn. cbn [orb users flat_map app].
      split; [apply gram_snoc, G2|]. split.
      * intros Hd. destruct d; try discriminate Hd. apply all_next_snoc, G2.
      * intros j y h1 d1 k1 Ny Cy. exfalso. pose proof (Hnew j y h1 d1 k1 Ny Cy) as Hj. apply Hj.
        apply (Ex j tid y t (Hoth j y h1 d1 k1 Hj Ny Cy) N).
        -- unfold tinside2, at_pos. rewrite Cy. reflexivity.
        -- unfold tinside2, at_pos. rewrite Ct. reflexivity.
Qed.

Lemma ginv2_init : forall st0 progs, GInv2 (init (GS None false st0) progs).
Proof. intros. split; [reflexivity|]. split; [reflexivity|]. intros; reflexivity. Qed.

(* the generic theorem: any step-invariant that implies exclusivity of the downstream call gives
   the grammar of what the subscriber's callbacks see *)
Theorem split_gen : forall (J : config2 -> Prop) st0 progs,
  J (init (GS None false st0) progs) ->
  (forall c tid, J c -> J (gstep2 c tid)) ->
  (forall c, J c -> excl2 c) ->
  forall sched, let c := grun2 st0 progs sched in
  J c /\ gram (users (untag (c_log c))) = true.
Proof.
  intros J st0 progs J0 Js Je sched c.
  assert (H : J c /\ GInv2 c).
  { unfold c, grun2. apply (run_invariant start2 gact2 (fun c => J c /\ GInv2 c)).
    - intros c0 tid (Hj & Hg). split; [apply Js, Hj|]. apply ginv2_step; [apply Je, Hj|exact Hg].
    - split; [exact J0|apply ginv2_init]. }
  destruct H as (Hj & Hg & _). split; [exact Hj|exact Hg].
Qed.

(* ---- operators that make every downstream call while holding their lock ------------------ *)
Hypothesis wf_lock : forall tid st l st' q,
  ostep tid st l = Some (st', Some q) -> holds q = true -> holds l = true \/ is_acq l = true.
Hypothesis wf_inside : forall tid st l st' h d k,
  ostep tid st l = Some (st', Some (PI h d k)) -> h = true.

Lemma lock2_HA : forall tid (s : gsh S) l s' l' out,
  gact2 tid s l = Some (s', Some l', out) -> holds2 l' = true ->
  (holds2 l = true -> g_lock s = Some tid) -> g_lock s' = Some tid.
Proof.
  intros tid s l s' l' out A H Hl.
  destruct (gact2_inv _ _ _ _ _ _ A) as [(h & d & k & -> & _ & -> & E & _)|(nxt & E & _ & _ & El & _)].
  - injection E as ->. apply Hl. exact H.
  - rewrite El. destruct nxt as [p|]; [|discriminate E]. injection E as ->. unfold holds2 in H. cbn [base] in H.
    rewrite H. reflexivity.
Qed.

Lemma lock2_HB : forall tid (s : gsh S) l s' l' out tid',
  gact2 tid s l = Some (s', l', out) -> g_lock s = Some tid' -> tid' <> tid -> holds2 l = false ->
  g_lock s' = Some tid'.
Proof.
  intros tid s l s' l' out tid' A Ho Hn Hl.
  destruct (gact2_inv _ _ _ _ _ _ A) as [(h & d & k & _ & _ & -> & _)|(nxt & _ & Os & Hacq & El & _)]; [exact Ho|].
  unfold holds2 in Hl.
  assert (Ia : is_acq (base l) = false).
  { destruct (is_acq (base l)) eqn:Ia; [|reflexivity]. specialize (Hacq eq_refl). rewrite Ho in Hacq.
    cbn [lock_free] in Hacq. apply Nat.eqb_eq in Hacq. congruence. }
  rewrite El, Hl, Ia. cbn [orb].
  destruct nxt as [p|]; [|exact Ho]. destruct (holds p) eqn:Hp; [|exact Ho].
  destruct (wf_lock tid (g_st s) (base l) (g_st s') p Os Hp) as [H|H]; congruence.
Qed.

Lemma holds2_start : forall e, holds2 (start2 e) = false.
Proof. destruct e; reflexivity. Qed.

(* every thread inside a downstream call (before or after its read) holds the lock *)
Definition AllH2 (c : config2) : Prop :=
  forall tid t q h d k, nth_error (c_ths c) tid = Some t -> t_cur t = Some q -> base q = PI h d k -> h = true.

Lemma allh2_step : forall c tid, AllH2 c -> AllH2 (gstep2 c tid).
Proof.
  intros c tid I.
  destruct (tstep_cases start2 gact2 c tid) as [E|(t & q & todo & s' & nxt2 & out & N & F & A & E)];
    rewrite E; [exact I|]. clear E.
  intros j y q1 h d k Ny Cy Bq. cbn [c_ths] in Ny. destruct (Nat.eq_dec j tid) as [->|Hj].
  - rewrite (nth_upd_same _ _ _ _ _ N) in Ny. injection Ny as <-. cbn [t_cur] in Cy. subst nxt2.
    destruct (gact2_inv _ _ _ _ _ _ A) as [(h0 & d0 & k0 & -> & _ & _ & E & _)|(nxt & E & Os & _)].
    + injection E as ->. cbn [base] in Bq. injection Bq as <- <- <-.
      assert (Ct : t_cur t = Some (Q (PI h0 d0 k0))) by exact (frame2_cur t _ todo F eq_refl).
      exact (I tid t _ h0 d0 k0 N Ct eq_refl).
    + destruct nxt as [p|]; [|discriminate E]. injection E as ->. cbn [base] in Bq. subst p.
      exact (wf_inside tid _ _ _ h d k Os).
  - rewrite nth_upd_other in Ny by exact Hj. exact (I j y q1 h d k Ny Cy Bq).
Qed.

Definition JLock2 (c : config2) : Prop := OInv g_lock holds2 c /\ AllH2 c.

Lemma jlock2_excl : forall c, JLock2 c -> excl2 c.
Proof.
  intros c [Io Ia] i j ti tj Ni Nj Ti Tj.
  assert (H : forall k t, nth_error (c_ths c) k = Some t -> tinside2 t = true -> at_pos holds2 t = true).
  { intros k t Nk Tk. unfold tinside2, at_pos in *. destruct (t_cur t) as [q|] eqn:Ec; [|discriminate Tk].
    unfold inside2 in Tk. unfold holds2. destruct (base q) as [| | | | |h d kk] eqn:Bq; try discriminate Tk.
    cbn [holds]. exact (Ia k t q h d kk Nk Ec Bq). }
  exact (oinv_excl g_lock holds2 c i j ti tj Io Ni Nj (H i ti Ni Ti) (H j tj Nj Tj)).
Qed.

Theorem split_lock : forall st0 progs sched,
  let c := grun2 st0 progs sched in
  gram (users (untag (c_log c))) = true /\ excl2 c /\
  (forall tid t, nth_error (c_ths c) tid = Some t -> at_pos holds2 t = true -> g_lock (c_sh c) = Some tid).
Proof.
  intros st0 progs sched c.
  destruct (split_gen JLock2 st0 progs) with (sched := sched) as (Hj & Hg).
  - split; [apply oinv_init|]. intros tid t q h d k N Ec. rewrite (init_threads _ _ _ _ N) in Ec. discriminate Ec.
  - intros c0 tid [Io Ia]. split; [|apply allh2_step, Ia].
    apply (oinv_step start2 gact2 g_lock holds2 holds2_start lock2_HA lock2_HB), Io.
  - exact jlock2_excl.
  - fold c in Hj, Hg. split; [exact Hg|]. split; [apply jlock2_excl, Hj|]. destruct Hj as [Io _]. exact Io.
Qed.
End Split.

(* ---- amb: forwards outside the lock; exclusive because only the chosen side forwards ------- *)
Lemma am_step_inside : forall tid st l st' h d k,
  am_step tid st l = Some (st', Some (PI h d k)) -> am_choice st' = Some tid.
Proof.
  intros tid st l st' h d k Os. unfold am_step in Os. destruct st as [ch gate].
  destruct l as [e| |k0 a|k0 a|h0 a|h0 d0 k1].
  - destruct e; try discriminate Os; destruct (getb gate tid); discriminate Os.
  - discriminate Os.
  - destruct k0; [|discriminate Os]. destruct ch as [c|]; [|discriminate Os].
    destruct (Nat.eqb c tid) eqn:Ec; [|discriminate Os]. injection Os as <- _ _ _.
    cbn [am_choice]. f_equal. apply Nat.eqb_eq, Ec.
  - destruct k0; [|discriminate Os]. destruct ch; discriminate Os.
  - discriminate Os.
  - discriminate Os.
Qed.

Lemma am_step_stable : forall tid st l st' nxt c,
  am_step tid st l = Some (st', nxt) -> am_choice st = Some c -> am_choice st' = Some c.
Proof.
  intros tid st l st' nxt c Os Ho. unfold am_step in Os. destruct st as [ch gate].
  cbn [am_choice] in Ho. subst ch. wf_tac Os; injection Os as <- <-; reflexivity.
Qed.

Lemma am2_HA : forall tid (s : gsh amst) l s' l' out,
  gact2 am_step tid s l = Some (s', Some l', out) -> inside2 l' = true ->
  (inside2 l = true -> am_owner s = Some tid) -> am_owner s' = Some tid.
Proof.
  intros tid s l s' l' out A H Hl.
  destruct (gact2_inv _ _ _ _ _ _ _ A) as [(h & d & k & -> & _ & -> & _)|(nxt & E & Os & _)].
  - apply Hl. reflexivity.
  - destruct nxt as [p|]; [|discriminate E]. injection E as ->. unfold inside2 in H. cbn [base] in H.
    destruct p as [| | | | |h d k]; try discriminate H. unfold am_owner.
    exact (am_step_inside tid _ _ _ h d k Os).
Qed.

Lemma am2_HB : forall tid (s : gsh amst) l s' l' out tid',
  gact2 am_step tid s l = Some (s', l', out) -> am_owner s = Some tid' -> tid' <> tid -> inside2 l = false ->
  am_owner s' = Some tid'.
Proof.
  intros tid s l s' l' out tid' A Ho _ _.
  destruct (gact2_inv _ _ _ _ _ _ _ A) as [(h & d & k & _ & _ & -> & _)|(nxt & _ & Os & _)]; [exact Ho|].
  unfold am_owner in *. exact (am_step_stable tid _ _ _ nxt tid' Os Ho).
Qed.

Lemma inside2_start : forall e, inside2 (start2 e) = false.
Proof. destruct e; reflexivity. Qed.

Theorem split_amb : forall progs sched,
  let c := grun2 am_step am_init progs sched in
  gram (users (untag (c_log c))) = true /\ excl2 c /\
  (forall tid t, nth_error (c_ths c) tid = Some t -> tinside2 t = true -> am_choice (g_st (c_sh c)) = Some tid).
Proof.
  intros progs sched c.
  destruct (split_gen am_step (OInv am_owner inside2) am_init progs) with (sched := sched) as (Hj & Hg).
  - apply oinv_init.
  - intros c0 tid I. apply (oinv_step start2 (gact2 am_step) am_owner inside2 inside2_start am2_HA am2_HB), I.
  - intros c0 I i j ti tj Ni Nj Ti Tj. exact (oinv_excl am_owner inside2 c0 i j ti tj I Ni Nj Ti Tj).
  - fold c in Hj, Hg. split; [exact Hg|split].
    + intros i j ti tj Ni Nj Ti Tj. exact (oinv_excl am_owner inside2 c i j ti tj Hj Ni Nj Ti Tj).
    + exact Hj.
Qed.

(* ---- the seven lock-based operators of the current tree ----------------------------------- *)
Definition split_statement {S} (c : @config (gsh S) pos2 sev cobs) : Prop :=
  gram (users (untag (c_log c))) = true /\ excl2 c /\
  (forall tid t, nth_error (c_ths c) tid = Some t -> at_pos holds2 t = true -> g_lock (c_sh c) = Some tid).

Definition run2_zip fx progs sched := grun2 (zip_step fx) (zip_init (length progs)) progs sched.
Definition run2_cl fx progs sched := grun2 (cl_step fx) (cl_init (length progs)) progs sched.
Definition run2_wl fx progs sched := grun2 (wl_step fx) (wl_init (length progs)) progs sched.
Definition run2_ma fx progs sched := grun2 (ma_step fx (length progs)) (ma_init (length progs)) progs sched.
Definition run2_mm fx m progs sched := grun2 (mm_step fx (length progs) m) (mm_init (length progs)) progs sched.
Definition run2_am progs sched := grun2 am_step am_init progs sched.
Definition run2_wc count progs sched := grun2 (wc_step count) wc_init progs sched.
Definition run2_wt span shift progs sched := grun2 (wt_step shift) (wt_init span shift) progs sched.

Theorem split_operators : forall progs sched,
  split_statement (run2_zip true progs sched) /\
  split_statement (run2_cl true progs sched) /\
  split_statement (run2_wl true progs sched) /\
  split_statement (run2_ma true progs sched) /\
  (forall m, split_statement (run2_mm true m progs sched)) /\
  (forall count, split_statement (run2_wc count progs sched)) /\
  (forall span shift, split_statement (run2_wt span shift progs sched)).
Proof.
  intros progs sched.
  split; [apply (split_lock (zip_step true) zip_wf_lock zip_wf_inside)|].
  split; [apply (split_lock (cl_step true) cl_wf_lock cl_wf_inside)|].
  split; [apply (split_lock (wl_step true) wl_wf_lock wl_wf_inside)|].
  split; [apply (split_lock (ma_step true (length progs)) (ma_wf_lock _) (ma_wf_inside _))|].
  split; [intros m; apply (split_lock (mm_step true (length progs) m) (mm_wf_lock _ _) (mm_wf_inside _ _))|].
  split; [intros count; apply (split_lock (wc_step count) (wc_wf_lock _) (wc_wf_inside _))|].
  intros span shift. apply (split_lock (wt_step shift) (wt_wf_lock _) (wt_wf_inside _)).
Qed.

(* ---- the atomic model is covered: run the two halves back to back ------------------------- *)
Section Cover.
Context {S : Type}.
Variable ostep : nat -> S -> pos -> option (S * option pos).
Notation config1 := (@config (gsh S) pos sev cobs).
Notation config2 := (@config (gsh S) pos2 sev cobs).

Definition liftt (t : @Lts.thread pos sev) : @Lts.thread pos2 sev := Thread (option_map Q (t_cur t)) (t_todo t).
Definition liftc (c : config1) : config2 := Config (c_sh c) (map liftt (c_ths c)) (c_log c).

(* the split schedule of one atomic step: nothing for a stutter, twice for a downstream call that
   finds the subscriber not stopped, once otherwise *)
Definition expand1 (c : config1) (tid : nat) : list nat :=
  match nth_error (c_ths c) tid with
  | None => []
  | Some t =>
      match next_frame start t with
      | None => []
      | Some (l, _) =>
          match gact ostep tid (c_sh c) l with
          | None => []
          | Some _ => match l with PI _ _ _ => if g_dn (c_sh c) then [tid] else [tid; tid] | _ => [tid] end
          end
      end
  end.
Fixpoint expand (c : config1) (sched : list nat) : list nat :=
  match sched with
  | [] => []
  | tid :: r => expand1 c tid ++ expand (tstep start (gact ostep) c tid) r
  end.

Lemma next_frame_lift : forall t l todo,
  next_frame start t = Some (l, todo) -> next_frame start2 (liftt t) = Some (Q l, todo).
Proof.
  intros [cur td] l todo F. unfold next_frame, liftt in *. cbn [t_cur t_todo option_map] in *.
  destruct cur as [l0|]; [injection F as <- <-; reflexivity|].
  destruct td as [|o r]; [discriminate F|]. injection F as <- <-. reflexivity.
Qed.

Lemma tstep2_eq : forall (c2 : config2) tid t2 q todo s' l' out,
  nth_error (c_ths c2) tid = Some t2 -> next_frame start2 t2 = Some (q, todo) ->
  gact2 ostep tid (c_sh c2) q = Some (s', l', out) ->
  tstep start2 (gact2 ostep) c2 tid
  = Config s' (upd_nth tid (Thread l' todo) (c_ths c2)) (c_log c2 ++ map (pair tid) out).
Proof. intros c2 tid t2 q todo s' l' out N F A. unfold tstep. rewrite N, F, A. reflexivity. Qed.

Lemma map_upd_nth : forall A B (f : A -> B) k x l, map f (upd_nth k x l) = upd_nth k (f x) (map f l).
Proof.
  intros A B f k x l. revert k. induction l as [|y t IH]; intros k; [destruct k; reflexivity|].
  destruct k; cbn [upd_nth map]; [reflexivity|]. rewrite IH. reflexivity.
Qed.
Lemma upd_upd_nth : forall A k (x y : A) l, upd_nth k x (upd_nth k y l) = upd_nth k x l.
Proof.
  intros A k x y l. revert k. induction l as [|z t IH]; intros k; [destruct k; reflexivity|].
  destruct k; cbn [upd_nth]; [reflexivity|]. rewrite IH. reflexivity.
Qed.

Lemma gsh_eta : forall sh : gsh S, GS (g_lock sh) (g_dn sh) (g_st sh) = sh.
Proof. intros []. reflexivity. Qed.

Lemma cover_step : forall (c : config1) tid,
  run start2 (gact2 ostep) (liftc c) (expand1 c tid) = liftc (tstep start (gact ostep) c tid).
Proof.
  intros c tid. unfold expand1, tstep at 1.
  destruct (nth_error (c_ths c) tid) as [t|] eqn:N; [|reflexivity].
  destruct (next_frame start t) as [[l todo]|] eqn:F; [|reflexivity].
  destruct (gact ostep tid (c_sh c) l) as [[[s' l'] out]|] eqn:A; [|reflexivity].
  assert (N2 : nth_error (c_ths (liftc c)) tid = Some (liftt t)) by (cbn [liftc c_ths]; apply map_nth_error, N).
  pose proof (next_frame_lift t l todo F) as F2.
  assert (Once : forall (Hl : gact2 ostep tid (c_sh c) (Q l) = liftr (gact ostep tid (c_sh c) l)),
            run start2 (gact2 ostep) (liftc c) [tid]
            = liftc (Config s' (upd_nth tid (Thread l' todo) (c_ths c)) (c_log c ++ map (pair tid) out))).
  { intros Hl. rewrite run_cons, run_nil. rewrite A in Hl. cbn [liftr] in Hl.
    rewrite (tstep2_eq (liftc c) tid (liftt t) (Q l) todo s' (option_map Q l') out N2 F2 Hl).
    unfold liftc. cbn [c_sh c_ths c_log]. rewrite map_upd_nth. reflexivity. }
  destruct l as [e| |k0 a|k0 a|h0 a|h d k]; try (apply Once; reflexivity).
  destruct (g_dn (c_sh c)) eqn:Dn.
  - apply Once. cbn [gact2]. rewrite Dn. reflexivity.
  - (* the read, then the callback *)
    rewrite run_cons, run_cons, run_nil.
    assert (A1 : gact2 ostep tid (c_sh (liftc c)) (Q (PI h d k)) = Some (c_sh c, Some (QW h d k), []))
      by (cbn [gact2 liftc c_sh]; rewrite Dn; reflexivity).
    rewrite (tstep2_eq (liftc c) tid (liftt t) _ todo _ _ _ N2 F2 A1).
    set (c1 := Config (c_sh c) (upd_nth tid (Thread (Some (QW h d k)) todo) (c_ths (liftc c)))
                      (c_log (liftc c) ++ map (pair tid) [])).
    assert (N3 : nth_error (c_ths c1) tid = Some (Thread (Some (QW h d k)) todo))
      by (cbn [c1 c_ths]; exact (nth_upd_same _ _ _ _ _ N2)).
    assert (A2 : gact2 ostep tid (c_sh c1) (QW h d k) = Some (s', option_map Q l', out)).
    { cbn [gact2 c1 c_sh]. rewrite <- Dn, gsh_eta, A, Dn. cbn [orb]. rewrite gsh_eta. reflexivity. }
    rewrite (tstep2_eq c1 tid _ (QW h d k) todo _ _ _ N3 eq_refl A2).
    unfold liftc, c1. cbn [c_sh c_ths c_log map]. rewrite app_nil_r, upd_upd_nth, map_upd_nth. reflexivity.
Qed.

Lemma cover_run : forall sched (c : config1),
  run start2 (gact2 ostep) (liftc c) (expand c sched) = liftc (run start (gact ostep) c sched).
Proof.
  induction sched as [|tid r IH]; intros c; [reflexivity|].
  cbn [expand]. rewrite run_app, cover_step, IH. reflexivity.
Qed.

Lemma liftc_init : forall sh progs, liftc (init sh progs) = init sh progs.
Proof.
  intros sh progs. unfold liftc, init. cbn [c_sh c_ths c_log]. rewrite map_map. reflexivity.
Qed.

(* every run of the atomic model is a run of the split model: same log, same shared state *)
Theorem split_covers : forall st0 progs sched,
  exists sched2, grun2 ostep st0 progs sched2 = liftc (grun ostep st0 progs sched).
Proof.
  intros st0 progs sched. exists (expand (init (GS None false st0) progs) sched).
  unfold grun2, grun. rewrite <- cover_run, liftc_init. reflexivity.
Qed.
End Cover.

(* ---- the code before the fixes is NOT grammatical in the split model --------------------- *)
Definition users2 {S} (c : @config (gsh S) pos2 sev cobs) : list dev := users (untag (c_log c)).

Lemma old_zip_users : users2 (run2_zip false [[SErr]; [SDone]] [0;0;1;1;1;1;0;1]) = [DErr; DDone].
Proof. vm_compute. reflexivity. Qed.

(* on the programs of the recorded refuting schedule of the old zip: both on_completed calls pass
   the check before either sets the flag -- the subscriber is completed twice *)
Lemma old_zip_users_twice :
  users2 (run2_zip false [[SNext; SDone]; [SNext; SNext]] [0;0;0;0;0;1;1;1;1;1;0;0;1;1;1;1;0;1]) = [DNext; DDone; DDone].
Proof. vm_compute. reflexivity. Qed.
(* an element after the error: the locked on_next has read False, the passed-through on_error overtakes it *)
Lemma old_cl_users : users2 (run2_cl false [[SNext; SErr]; [SNext]] [0;0;1;1;1;0;0;0;1]) = [DErr; DNext].
Proof. vm_compute. reflexivity. Qed.
Lemma old_wl_users : users2 (run2_wl false [[SNext; SDone]; [SNext; SErr]] [1;1;0;0;0;1;1;1;0]) = [DErr; DNext].
Proof. vm_compute. reflexivity. Qed.
Lemma old_ma_users : users2 (run2_ma false [[SNext; SErr]; [SNext]] [0;0;0;1;1;1;0;0;0;1]) = [DErr; DNext].
Proof. vm_compute. reflexivity. Qed.
Lemma old_mm_users : users2 (run2_mm false 1 [[SNext; SErr]; [SNext]] [0;0;0;0;0;1;1;1;0;0;0;1]) = [DErr; DNext].
Proof. vm_compute. reflexivity. Qed.

Theorem split_old_code_refuted :
  gram (users2 (run2_zip false [[SErr]; [SDone]] [0;0;1;1;1;1;0;1])) = false /\
  gram (users2 (run2_zip false [[SNext; SDone]; [SNext; SNext]] [0;0;0;0;0;1;1;1;1;1;0;0;1;1;1;1;0;1])) = false /\
  gram (users2 (run2_cl false [[SNext; SErr]; [SNext]] [0;0;1;1;1;0;0;0;1])) = false /\
  gram (users2 (run2_wl false [[SNext; SDone]; [SNext; SErr]] [1;1;0;0;0;1;1;1;0])) = false /\
  gram (users2 (run2_ma false [[SNext; SErr]; [SNext]] [0;0;0;1;1;1;0;0;0;1])) = false /\
  gram (users2 (run2_mm false 1 [[SNext; SErr]; [SNext]] [0;0;0;0;0;1;1;1;0;0;0;1])) = false.
Proof.
  rewrite old_zip_users, old_zip_users_twice, old_cl_users, old_wl_users, old_ma_users, old_mm_users.
  repeat split; reflexivity.
Qed.
