(* Sequential runs and controlled (macro-step) runs of Core/Trampoline.v are schedules of
   micro-steps; executable checkers for the witnesses of Props/C30.v. *)
From RxVerif Require Import Base.Prelude Core.Trampoline Core.TrampolineFacts Core.TrampolineOrder.

(* ---------- sequential runs and macro steps are schedules ---------- *)
Lemma crun_app : forall c cf s1 s2, crun c cf (s1 ++ s2) = crun c (crun c cf s1) s2.
Proof. intros; unfold crun; apply fold_left_app. Qed.

Lemma crun_one : forall c w ts th t w' t',
  nth_error ts th = Some t -> mstep c th w t = Some (w', t') ->
  crun c (w, ts) [Run th] = (w', set_nth th t' ts).
Proof. intros. unfold crun. cbn [fold_left cstep]. rewrite H, H0. reflexivity. Qed.

Lemma run1_is_crun : forall c fuel w t,
  exists n t', crun c (w, [t]) (repeat (Run 0) n) = (world_of (run1 c fuel 0 w t), [t']) /\
               (forall w', run1 c fuel 0 w t = Finished w' -> stk t' = []).
Proof.
  induction fuel; intros w t; cbn [run1].
  - destruct (mstep c 0 w t) as [[w' t']|] eqn:M.
    + exists 0%nat, t. cbn. split; auto. intros; discriminate.
    + exists 0%nat, t. cbn. split; auto. intros _ _. unfold mstep in M. destruct (stk t); auto.
      destruct (exc t); try discriminate. destruct f; try discriminate. destruct cs; discriminate.
  - destruct (mstep c 0 w t) as [[w' t']|] eqn:M.
    + destruct (IHfuel w' t') as (n & t'' & E & Fn). exists (S n), t''. cbn [repeat].
      change (Run 0 :: repeat (Run 0) n) with ([Run 0] ++ repeat (Run 0) n). rewrite crun_app.
      rewrite (crun_one c w [t] 0%nat t w' t' eq_refl M). cbn [set_nth]. auto.
    + exists 0%nat, t. cbn. split; auto. intros _ _. unfold mstep in M. destruct (stk t); auto.
      destruct (exc t); try discriminate. destruct f; try discriminate. destruct cs; discriminate.
Qed.

Lemma set_nth_same : forall {A} (l : list A) n x, nth_error l n = Some x -> set_nth n x l = l.
Proof. induction l; destruct n; cbn; intros; try discriminate; auto; [congruence|f_equal; auto]. Qed.

Lemma set_nth_twice : forall {A} (l : list A) n x y, set_nth n y (set_nth n x l) = set_nth n y l.
Proof. induction l; destruct n; cbn; intros; auto. f_equal; auto. Qed.

Lemma settle_is_crun : forall c fuel th w t ts,
  nth_error ts th = Some t ->
  exists n, crun c (w, ts) (repeat (Run th) n) =
            (fst (settle c fuel th w t), set_nth th (snd (settle c fuel th w t)) ts).
Proof.
  induction fuel; intros th w t ts N; cbn [settle].
  - exists 0%nat. destruct (yields t); cbn; rewrite set_nth_same; auto.
  - destruct (yields t).
    + exists 0%nat. cbn. rewrite set_nth_same; auto.
    + destruct (mstep c th w t) as [[w' t']|] eqn:M.
      * destruct (IHfuel th w' t' (set_nth th t' ts) (nth_error_set_nth_eq _ _ _ _ N)) as (n & E).
        exists (S n). cbn [repeat].
        change (Run th :: repeat (Run th) n) with ([Run th] ++ repeat (Run th) n). rewrite crun_app.
        rewrite (crun_one _ _ _ _ _ _ _ N M), E, set_nth_twice. reflexivity.
      * exists 0%nat. cbn. rewrite set_nth_same; auto.
Qed.

Lemma macro_is_crun : forall c fuel cf th, exists n, macro c fuel cf th = crun c cf (repeat (Run th) n).
Proof.
  intros c fuel [w ts] th. unfold macro.
  destruct (nth_error ts th) as [t|] eqn:N; [|exists 0%nat; reflexivity].
  destruct (mstep c th w t) as [[w' t']|] eqn:M; [|exists 0%nat; reflexivity].
  destruct (settle_is_crun c fuel th w' t' (set_nth th t' ts) (nth_error_set_nth_eq _ _ _ _ N)) as (n & E).
  exists (S n). cbn [repeat].
  change (Run th :: repeat (Run th) n) with ([Run th] ++ repeat (Run th) n). rewrite crun_app.
  rewrite (crun_one _ _ _ _ _ _ _ N M), E, set_nth_twice.
  destruct (settle c fuel th w' t'); reflexivity.
Qed.

(* every controlled (K3) run is a schedule of micro-steps: the theorems over all schedules apply *)
Theorem macro_run_is_crun : forall c fuel sch cf, exists sch', macro_run c fuel cf sch = crun c cf sch'.
Proof.
  unfold macro_run. induction sch; intros cf; cbn [fold_left].
  - exists []. reflexivity.
  - destruct (macro_is_crun c fuel cf a) as (n & E). destruct (IHsch (macro c fuel cf a)) as (sch' & E').
    exists (repeat (Run a) n ++ sch'). rewrite crun_app. rewrite <- E. exact E'.
Qed.

(* a sequential run, seen as a schedule *)
Theorem run_history_is_crun : forall c c0 h,
  exists n t', crun c (start_config c0 [h]) (repeat (Run 0) n) = (world_of (run_history c c0 h), [t']) /\
               (forall w', run_history c c0 h = Finished w' -> finished [t']).
Proof.
  intros. unfold run_history, start_config. cbn [map].
  destruct (run1_is_crun c (2 + bsize h) (init_world c0) (start_thread h)) as (n & t' & E & F).
  exists n, t'. split; auto. intros w' Hf u [<-|[]]. eauto.
Qed.

(* ---------- executable checkers, used only by the witnesses in Props/C30.v ---------- *)
Definition ev_is_start (k : key) (id : nat) (e : event) : bool :=
  match e with EStart k' id' _ _ _ _ _ _ => key_eqb k' k && Nat.eqb id' id | _ => false end.
Definition ev_is_skip (k : key) (id : nat) (e : event) : bool :=
  match e with ESkip k' id' => key_eqb k' k && Nat.eqb id' id | _ => false end.
Definition ev_is_drop (k : key) (id : nat) (e : event) : bool :=
  match e with EDrop k' ids _ => key_eqb k' k && memb id ids | _ => false end.
Definition ev_is_enq (k : key) (id : nat) (e : event) : bool :=
  match e with EEnq k' id' _ _ => key_eqb k' k && Nat.eqb id' id | _ => false end.

Definition pendingb (k : key) (id : nat) (lg : list event) : bool :=
  existsb (ev_is_enq k id) lg && negb (existsb (ev_is_start k id) lg) &&
  negb (existsb (ev_is_skip k id) lg) && negb (existsb (ev_is_drop k id) lg).

(* ids of items created on k in lg, with their due times *)
Fixpoint created_on (k : key) (lg : list event) : list (nat * Z) :=
  match lg with
  | [] => []
  | ECreate k' id _ due _ :: t => if key_eqb k' k then (id, due) :: created_on k t else created_on k t
  | _ :: t => created_on k t
  end.

(* (x, y): action x started while y was pending and y comes strictly before x in (due, id) *)
Fixpoint order_violations (k : key) (lg : list event) : list (nat * nat) :=
  match lg with
  | [] => []
  | e :: before =>
      (match e with
       | EStart k' x _ _ duex _ _ _ =>
           if key_eqb k' k
           then map (fun p => (x, fst p))
                    (filter (fun p => pendingb k (fst p) before && negb (Nat.eqb (fst p) x) &&
                                      ((snd p <? duex) || ((snd p =? duex) && (fst p <? x)%nat)))
                            (created_on k before))
           else []
       | _ => []
       end) ++ order_violations k before
  end.

Fixpoint dropped_without_exception (lg : list event) : list nat :=
  match lg with
  | [] => []
  | EDrop _ ids false :: t => ids ++ dropped_without_exception t
  | _ :: t => dropped_without_exception t
  end.

Definition no_pastb (k : key) (lg : list event) : bool :=
  forallb (fun e => match e with ECreate k' _ _ due clk => negb (key_eqb k' k) || (clk <=? due) | _ => true end) lg.

(* the checkers mean what they say *)
Lemma pendingb_sound : forall k id lg, pendingb k id lg = true -> pending k id lg.
Proof.
  unfold pendingb, pending. intros k id lg H.
  repeat (apply andb_true_iff in H; destruct H as [H ?]).
  apply negb_true_iff in H0, H1, H2.
  repeat split.
  - apply existsb_exists in H. destruct H as (e & Hin & He). destruct e; try discriminate.
    cbn in He. apply andb_true_iff in He. destruct He as [A B]. apply key_eqb_eq in A. apply Nat.eqb_eq in B.
    subst. exists th, runner. exact Hin.
  - intros (l & th & due & clk & dk & d & Hin).
    assert (existsb (ev_is_start k id) lg = true); [|congruence].
    apply existsb_exists. eexists; split; [exact Hin|]. cbn. rewrite key_eqb_refl, Nat.eqb_refl. reflexivity.
  - intro Hin. assert (existsb (ev_is_skip k id) lg = true); [|congruence].
    apply existsb_exists. eexists; split; [exact Hin|]. cbn. rewrite key_eqb_refl, Nat.eqb_refl. reflexivity.
  - intros (ids & exn & Hin & Hi). assert (existsb (ev_is_drop k id) lg = true); [|congruence].
    apply existsb_exists. eexists; split; [exact Hin|]. cbn. rewrite key_eqb_refl. cbn.
    apply memb_true. exact Hi.
Qed.

(* ---------- the statements of Props/C30.v ---------- *)
Lemma never_nested : forall c c0 hs sch l2 k id l th due clk dk d l1,
  log (fst (crun c (start_config c0 hs) sch)) = l2 ++ EStart k id l th due clk dk d :: l1 ->
  dk = 0%nat.
Proof. intros. destruct (start_facts _ _ _ _ _ _ _ _ _ _ _ _ _ _ H) as (A & B & C & D & E). exact A. Qed.

Lemma not_early : forall c c0 hs sch l2 k id l th due clk dk d l1,
  log (fst (crun c (start_config c0 hs) sch)) = l2 ++ EStart k id l th due clk dk d :: l1 ->
  due <= clk /\ exists th' clk', In (ECreate k id th' due clk') l1.
Proof. intros. destruct (start_facts _ _ _ _ _ _ _ _ _ _ _ _ _ _ H) as (A & B & C & D & E). auto. Qed.

Lemma cancelled_never_run : forall c c0 hs sch l2 k id l th due clk dk d l1,
  log (fst (crun c (start_config c0 hs) sch)) = l2 ++ EStart k id l th due clk dk d :: l1 ->
  ~ In (ECancel id) l1.
Proof. intros. destruct (start_facts _ _ _ _ _ _ _ _ _ _ _ _ _ _ H) as (A & B & C & D & E). exact C. Qed.

Lemma same_thread : forall c c0 hs sch k o id l th due clk dk d th' due' clk',
  let lg := log (fst (crun c (start_config c0 hs) sch)) in
  owner k = Some o ->
  In (EStart k id l th due clk dk d) lg -> In (ECreate k id th' due' clk') lg ->
  th = o /\ th' = o.
Proof.
  intros c c0 hs sch k o id l th due clk dk d th' due' clk' lg Ho Hs Hc. split.
  - apply in_split in Hs. destruct Hs as (l2 & l1 & E).
    destruct (start_facts _ _ _ _ _ _ _ _ _ _ _ _ _ _ E) as (_ & _ & _ & Hw & _). apply Hw. exact Ho.
  - apply (create_facts _ _ _ _ _ _ _ _ _ Hc). exact Ho.
Qed.

Lemma run_order_current_thread : forall c c0 hs sch k o l2 x l th due clk dk d l1,
  owner k = Some o ->
  log (fst (crun c (start_config c0 hs) sch)) = l2 ++ EStart k x l th due clk dk d :: l1 ->
  no_past k l1 ->
  forall y th' duey clk', y <> x -> pending k y l1 -> In (ECreate k y th' duey clk') l1 ->
                          lexlt due x duey y.
Proof.
  intros c c0 hs sch k o l2 x l th due clk dk d l1 Ho E NP y th' duey clk' Ny P Hc.
  eapply (run_order c c0 hs sch k o l2 x l th due clk dk d l1 (excl_private k o _ Ho) E NP); eauto.
Qed.

Lemma run_order_single_thread : forall c c0 h sch k l2 x l th due clk dk d l1,
  log (fst (crun c (start_config c0 [h]) sch)) = l2 ++ EStart k x l th due clk dk d :: l1 ->
  no_past k l1 ->
  forall y th' duey clk', y <> x -> pending k y l1 -> In (ECreate k y th' duey clk') l1 ->
                          lexlt due x duey y.
Proof.
  intros c c0 h sch k l2 x l th due clk dk d l1 E NP y th' duey clk' Ny P Hc.
  eapply (run_order c c0 [h] sch k 0%nat l2 x l th due clk dk d l1 (excl_single k) E NP); eauto.
Qed.

Lemma drained_at_return : forall c c0 hs sch k,
  let cf := crun c (start_config c0 hs) sch in
  finished (snd cf) ->
  t_idle (tramps (fst cf) k) = true /\ t_queue (tramps (fst cf) k) = [] /\
  t_active (tramps (fst cf) k) = 0%nat.
Proof. intros. eapply finished_idle; eauto. apply reachable_Inv. Qed.

Lemma dropped_only_by_exception : forall c0 hs sch k ids exn,
  In (EDrop k ids exn) (log (fst (crun (Cfg false) (start_config c0 hs) sch))) -> exn = true.
Proof. intros c0 hs sch k ids exn H. exact (drop_facts (Cfg false) c0 hs sch k ids exn eq_refl H). Qed.
