(* Facts about Core/SyncSources.v: the producer loops against an emitting net and a consumer
   (bounded work), starvation of the trampoline by the from_iterable action, consumers. *)
From RxVerif Require Import Base.Prelude Core.SyncSources.

Section Facts.
Variable gen : nat -> Z.

Arguments St {N C}.

Lemma run_step : forall K N C f s s', step gen K N C s = Some s' -> run gen K N C (S f) s = run gen K N C f s'.
Proof. intros. cbn [run]. rewrite H. reflexivity. Qed.

Lemma run_end : forall K N C f s, step gen K N C s = None ->
  run gen K N C f s = Returned (s_pulls N C s) (s_out N C s) (s_done N C s).
Proof. intros. destruct f; cbn [run]; rewrite H; reflexivity. Qed.

(* after the root completed every remaining task is skipped *)
Lemma run_done : forall K N C q f ns cs live i p o,
  (length q <= f)%nat ->
  run gen K N C f (St ns cs true live q i p o) = Returned p o true.
Proof.
  induction q as [|t q IH]; intros f ns cs live i p o L.
  - apply run_end. reflexivity.
  - destruct f; [cbn in L; lia|]. rewrite (run_step _ _ _ _ _ (St ns cs true live q i p o)).
    + apply IH. cbn in L. lia.
    + reflexivity.
Qed.

(* ---------- linear pipelines: source -> element-wise stages -> consumer ---------- *)
Section Linear.
Variable C : cons.

(* the consumer, fed elems i, elems (i+1), ..., completes exactly at the k-th of them *)
Fixpoint stops_at (elems : nat -> Z) (s : c_st C) (i : nat) (k : nat) : Prop :=
  match k with
  | O => False
  | S k' => let '(s', n, stop) := c_step C s (elems i) in
            if stop then k' = 0%nat else stops_at elems s' (S i) k'
  end.

(* ... and does not complete on the first k of them *)
Fixpoint feed (elems : nat -> Z) (s : c_st C) (i : nat) (k : nat) : option (c_st C) :=
  match k with
  | O => Some s
  | S k' => let '(s', n, stop) := c_step C s (elems i) in
            if stop then None else feed elems s' (S i) k'
  end.
Definition never_stops (elems : nat -> Z) (s : c_st C) (i : nat) : Prop :=
  forall k, feed elems s i k <> None.

End Linear.

(* ---------- general loops: an emitting net in front of a consumer ---------- *)
Section Loops.
Variable N : net.
Variable C : cons.

Definition unsubs (ps : list nat) : list ncmd := map NUnsub ps.

Lemma memn_removen : forall p q l, p <> q -> memn p (removen q l) = memn p l.
Proof.
  unfold memn. induction l as [|x l IH]; intros Hn; cbn [removen existsb]; auto.
  destruct (Nat.eqb q x) eqn:E.
  - apply Nat.eqb_eq in E. subst x. rewrite IH by auto.
    destruct (Nat.eqb p q) eqn:E2; auto. apply Nat.eqb_eq in E2. congruence.
  - cbn [existsb]. rewrite IH by auto. reflexivity.
Qed.

(* disposing other ports changes nothing but the set of live ports *)
Lemma apply_unsubs : forall K ps rest ns cs live q i p o,
  ~ In 0%nat ps ->
  exists live', memn 0 live' = memn 0 live /\
    apply K N C (unsubs ps ++ rest) (St (N:=N) (C:=C) ns cs false live q i p o) =
    apply K N C rest (St (N:=N) (C:=C) ns cs false live' q i p o).
Proof.
  induction ps as [|x ps IH]; intros rest ns cs live q i p o Hn.
  - exists live. split; auto.
  - cbn [unsubs map app apply s_done apply1 s_net s_cons s_live s_q s_idx s_pulls s_out].
    destruct (IH rest ns cs (removen x live) q i p o) as (live' & M & E).
    { intro; apply Hn; right; auto. }
    exists live'. split; [|exact E]. rewrite M. apply memn_removen. intro; apply Hn; left; auto.
Qed.

Variable P : n_st N -> Prop.
Hypothesis emits : forall ns, P ns -> forall v, exists ns' ps,
  n_on N ns 0 (Next v) = (ns', unsubs ps ++ [NEmit v]) /\ ~ In 0%nat ps /\ P ns'.

(* from_iterable: the loop is one action; nothing else runs until the consumer completes *)
Lemma iter_loop : forall k s ns live q i p o f,
  P ns -> memn 0 live = true -> stops_at C gen s i k -> (k + 1 + length q <= f)%nat ->
  exists o', run gen KIter N C f (St (N:=N) (C:=C) ns s false live (TIter 0 :: q) i p o)
             = Returned (p + k)%nat o' true.
Proof.
  induction k as [|k IH]; intros s ns live q i p o f HP HL H L; [destruct H|].
  cbn [stops_at] in H. destruct (c_step C s (gen i)) as [[s' n] stop] eqn:E.
  destruct f; [lia|].
  destruct (emits ns HP (gen i)) as (ns' & ps & En & Hps & HP').
  destruct (apply_unsubs KIter ps [NEmit (gen i)] ns' s live (TIter 0 :: q) (S i) (S p) o Hps) as (live' & M & EA).
  assert (ST : step gen KIter N C (St (N:=N) (C:=C) ns s false live (TIter 0 :: q) i p o) =
               Some (apply KIter N C [NEmit (gen i)] (St (N:=N) (C:=C) ns' s false live' (TIter 0 :: q) (S i) (S p) o))).
  { cbn [step s_q s_done s_live]. rewrite HL. unfold deliver, pulled, set_net.
    cbn [s_net s_cons s_done s_live s_q s_idx s_pulls s_out]. rewrite En. rewrite <- EA. reflexivity. }
  rewrite (run_step _ _ _ _ _ _ ST). clear ST EA.
  cbn [apply s_done apply1 s_net s_cons s_live s_q s_idx s_pulls s_out]. rewrite E.
  destruct stop.
  - subst k. eexists. cbn [apply]. rewrite run_done by (cbn; lia). f_equal. lia.
  - cbn [apply s_done].
    destruct (IH s' ns' live' q (S i) (S p) (o + n)%nat f HP' ltac:(congruence) H ltac:(lia)) as (o' & R).
    exists o'. rewrite R. f_equal. lia.
Qed.

(* range / generate: one element per action; the action is alone in the queue *)
Lemma step_loop : forall k s ns live i p o f,
  P ns -> memn 0 live = true -> stops_at C gen s i k -> (k + 1 <= f)%nat ->
  exists o', run gen KStep N C f (St (N:=N) (C:=C) ns s false live [TStep 0] i p o)
             = Returned (p + k)%nat o' true.
Proof.
  induction k as [|k IH]; intros s ns live i p o f HP HL H L; [destruct H|].
  cbn [stops_at] in H. destruct (c_step C s (gen i)) as [[s' n] stop] eqn:E.
  destruct f; [lia|].
  destruct (emits ns HP (gen i)) as (ns' & ps & En & Hps & HP').
  destruct (apply_unsubs KStep ps [NEmit (gen i)] ns' s live [] (S i) (S p) o Hps) as (live' & M & EA).
  assert (ST : step gen KStep N C (St (N:=N) (C:=C) ns s false live [TStep 0] i p o) =
               Some (let s1 := apply KStep N C [NEmit (gen i)] (St (N:=N) (C:=C) ns' s false live' [] (S i) (S p) o) in
                     set_q N C s1 (s_q N C s1 ++ [TStep 0]))).
  { cbn [step s_q s_done s_live]. rewrite HL. unfold deliver, pulled, set_net, set_q.
    cbn [s_net s_cons s_done s_live s_q s_idx s_pulls s_out]. rewrite En. rewrite <- EA. reflexivity. }
  rewrite (run_step _ _ _ _ _ _ ST). clear ST EA. cbv zeta.
  cbn [apply s_done apply1 s_net s_cons s_live s_q s_idx s_pulls s_out]. rewrite E.
  destruct stop.
  - subst k. eexists. cbn [apply]. unfold set_q. cbn [s_q s_net s_cons s_done s_live s_idx s_pulls s_out app].
    rewrite run_done by (cbn; lia). f_equal. lia.
  - cbn [apply s_done]. unfold set_q. cbn [s_q s_net s_cons s_done s_live s_idx s_pulls s_out app].
    destruct (IH s' ns' live' (S i) (S p) (o + n)%nat f HP' ltac:(congruence) H ltac:(lia)) as (o' & R).
    exists o'. rewrite R. f_equal. lia.
Qed.
End Loops.

(* ---------- starvation: the loop of from_iterable never yields ---------- *)
Section Starve.
Variable N : net.
Variable C : cons.

(* commands that neither complete the root nor touch port 0; emitting is harmless when the
   consumer never completes *)
Definition quiet (allow_emit : bool) (c : ncmd) : Prop :=
  match c with
  | NSub p _ => p <> 0%nat
  | NUnsub p => p <> 0%nat
  | NSched _ => True
  | NEmit _ => allow_emit = true
  | NFin => False
  end.

Hypothesis ae : bool.
Hypothesis never_completes : ae = true -> forall s v, snd (c_step C s v) = false.

Lemma apply_quiet : forall K cmds ns cs live q i p o,
  Forall (quiet ae) cmds -> memn 0 live = true ->
  exists cs' live' q' o',
    apply K N C cmds (St (N:=N) (C:=C) ns cs false live (TIter 0 :: q) i p o) =
    St (N:=N) (C:=C) ns cs' false live' (TIter 0 :: q') i p o' /\ memn 0 live' = true.
Proof.
  induction cmds as [|c cmds IH]; intros ns cs live q i p o F HL.
  - exists cs, live, q, o. split; auto.
  - inversion F; subst. cbn [apply s_done].
    destruct c; cbn [quiet] in H1; cbn [apply1 s_net s_cons s_done s_live s_q s_idx s_pulls s_out].
    + pose proof (never_completes H1 cs v) as NC.
      destruct (c_step C cs v) as [[c' n] stop]. cbn in NC. subst stop.
      apply IH; auto.
    + contradiction.
    + cbn [app]. destruct (IH ns cs (p0 :: live) (q ++ first_task K p0 s) i p o H2) as (a & b & c & d & E & M).
      { unfold memn in *. cbn [existsb]. rewrite HL. apply orb_true_r. }
      exists a, b, c, d. split; auto.
    + apply IH; auto. rewrite memn_removen; auto.
    + cbn [app]. apply IH; auto.
Qed.

Variable Q : n_st N -> Prop.
Hypothesis quietly : forall ns, Q ns -> forall v, exists ns' cmds,
  n_on N ns 0 (Next v) = (ns', cmds) /\ Forall (quiet ae) cmds /\ Q ns'.

Lemma iter_starves : forall f ns cs live q i p o,
  Q ns -> memn 0 live = true ->
  run gen KIter N C f (St (N:=N) (C:=C) ns cs false live (TIter 0 :: q) i p o) = OutOfFuel.
Proof.
  induction f as [|f IH]; intros ns cs live q i p o HQ HL;
  destruct (quietly ns HQ (gen i)) as (ns' & cmds & En & Fq & HQ');
  destruct (apply_quiet KIter cmds ns' cs live q (S i) (S p) o Fq HL) as (cs' & live' & q' & o' & EA & M);
  assert (ST : step gen KIter N C (St (N:=N) (C:=C) ns cs false live (TIter 0 :: q) i p o) =
               Some (St (N:=N) (C:=C) ns' cs' false live' (TIter 0 :: q') (S i) (S p) o'))
    by (cbn [step s_q s_done s_live]; rewrite HL; unfold deliver, pulled, set_net;
        cbn [s_net s_cons s_done s_live s_q s_idx s_pulls s_out]; rewrite En, EA; reflexivity).
  - cbn [run]. rewrite ST. reflexivity.
  - rewrite (run_step _ _ _ _ _ _ ST). apply IH; auto.
Qed.
End Starve.

(* ---------- consumers ---------- *)
Lemma take_stops : forall n r i, stops_at (c_take n) gen (S r) i (S r).
Proof.
  intros n. induction r as [|r IH]; intros i; cbn [stops_at c_take c_step].
  - reflexivity.
  - cbn [Nat.eqb]. apply IH.
Qed.

Lemma first_stops : forall i, stops_at c_first gen tt i 1.
Proof. intros; cbn. reflexivity. Qed.

Lemma element_at_stops : forall n r i, stops_at (c_element_at n) gen r i (S r).
Proof.
  intros n. induction r as [|r IH]; intros i; cbn [stops_at c_element_at c_step].
  - reflexivity.
  - apply IH.
Qed.

(* take_while completes at the first element that fails the predicate *)
Lemma take_while_stops : forall pr incl k i,
  (forall j, (j < k)%nat -> pr (gen (i + j)%nat) = true) -> pr (gen (i + k)%nat) = false ->
  stops_at (c_take_while pr incl) gen tt i (S k).
Proof.
  intros pr incl. induction k as [|k IH]; intros i Ht Hf; cbn [stops_at c_take_while c_step].
  - rewrite Nat.add_0_r in Hf. rewrite Hf. reflexivity.
  - assert (E : pr (gen i) = true) by (specialize (Ht 0%nat ltac:(lia)); rewrite Nat.add_0_r in Ht; exact Ht).
    rewrite E. apply IH.
    + intros j Hj. replace (S i + j)%nat with (i + S j)%nat by lia. apply Ht. lia.
    + replace (S i + k)%nat with (i + S k)%nat by lia. exact Hf.
Qed.
End Facts.
