(* C36 -- non-aligned floats: what to_timedelta(x) / to_datetime(x) IS relative to x.
   timedelta(seconds=x) and fromtimestamp(x) compute  trunc(x) * 10^6 + rhe(fl(frac(x) * 1e6)):
   the product is rounded to a double first, then half-even to an integer.  Hence the result is within
   1/2 + 2^-34 microsecond of x * 10^6 (so strictly within one microsecond); it is NOT always the nearest
   microsecond count: when frac(x) * 10^6 lies less than half an ulp below k + 1/2, the first rounding
   lands on the tie and the second goes to the even neighbour (witness at the end). *)
From Coq Require Import ZArith Lia Bool.
From RxVerif Require Import Core.TimeConv Core.TimeConvFacts.
Open Scope Z_scope.

(* the contribution of the fractional part r / P (P = 2^s, |r| < P): error at most (1/2 + 2^-34) us,
   stated on integers after multiplying by P *)
Lemma contrib_err : forall r s, 0 <= s -> Z.abs r < 2 ^ s ->
  2 ^ 33 * (2 * Z.abs (contrib r (2 ^ s) * 2 ^ s - r * us_per_s) - 2 ^ s) <= 2 ^ s.
Proof.
  intros r s Hs Hr. assert (HP : 0 < 2 ^ s) by (apply Z.pow_pos_nonneg; lia). set (P := 2 ^ s) in *.
  destruct (Z.eq_dec r 0) as [->|Hnz].
  { rewrite contrib_zero. change (2 ^ 33) with 8589934592. lia. }
  unfold contrib, rn.
  assert (Ha : (r * us_per_s =? 0) = false) by (apply Z.eqb_neq; unfold us_per_s; lia). rewrite Ha.
  pose proof (rn_exp_frac r s Hs Hnz Hr) as HE. fold P in HE. set (E := rn_exp (r * us_per_s) P) in *.
  destruct (scaled_neg (r * us_per_s) P E ltac:(lia)) as [S1 S2]. rewrite S1, S2.
  unfold fl_rhe. assert (A : (E <? 0) = true) by (apply Z.ltb_lt; lia). rewrite A.
  assert (HT : 2 ^ 33 <= 2 ^ (- E)) by (apply Z.pow_le_mono_r; lia).
  set (T := 2 ^ (- E)) in *. assert (HT0 : 0 < T) by (change (2 ^ 33) with 8589934592 in HT; lia).
  pose proof (rne_div_err (r * us_per_s * T) P HP) as E1.
  set (M := rne_div (r * us_per_s * T) P) in *.
  pose proof (rne_div_err M T HT0) as E2. set (K := rne_div M T) in *.
  set (a := r * us_per_s) in *.
  assert (Hk : T * (2 * Z.abs (K * P - a) - P) <= P).
  { assert (2 * Z.abs ((K * T - M) * P) <= T * P) by (rewrite Z.abs_mul, (Z.abs_eq P) by lia; nia).
    assert (Z.abs (K * P - a) * T = Z.abs ((K * T - M) * P + (M * P - a * T))).
    { rewrite <- (Z.abs_eq T) at 1 by lia. rewrite <- Z.abs_mul. f_equal. ring. }
    pose proof (Z.abs_triangle ((K * T - M) * P) (M * P - a * T)). nia. }
  destruct (Z_le_gt_dec (2 * Z.abs (K * P - a) - P) 0) as [L|G].
  - change (2 ^ 33) with 8589934592 in *. nia.
  - nia.
Qed.

(* x = m * 2^e, e < 0.  us_of_float x * 2^-e  vs  m * 10^6 : the distance is at most (1/2 + 2^-34) * 2^-e *)
Theorem us_of_float_close : forall m e, e < 0 ->
  2 ^ 33 * (2 * Z.abs (us_of_float (F m e) * 2 ^ (- e) - m * us_per_s) - 2 ^ (- e)) <= 2 ^ (- e).
Proof.
  intros m e He. rewrite (us_of_float_form m e He).
  assert (HP : 0 < 2 ^ (- e)) by (apply Z.pow_pos_nonneg; lia).
  pose proof (Z.quot_rem' m (2 ^ (- e))) as QR.
  assert (NZ : 2 ^ (- e) <> 0) by lia.
  pose proof (Z.rem_bound_abs m (2 ^ (- e)) NZ) as RB. rewrite (Z.abs_eq (2 ^ (- e))) in RB by lia.
  assert (He' : 0 <= - e) by lia.
  pose proof (contrib_err (Z.rem m (2 ^ (- e))) (- e) He' RB) as C.
  set (P := 2 ^ (- e)) in *. set (q := Z.quot m P) in *. set (r := Z.rem m P) in *.
  replace ((q * us_per_s + contrib r P) * P - m * us_per_s) with (contrib r P * P - r * us_per_s)
    by (assert (X : m * us_per_s = (P * q + r) * us_per_s) by (rewrite <- QR; reflexivity); rewrite X; ring).
  exact C.
Qed.

(* the proposed form: |to_timedelta(x) - x * 10^6| < 1 microsecond *)
Theorem us_of_float_nearest : forall m e, e < 0 ->
  Z.abs (us_of_float (F m e) * 2 ^ (- e) - m * us_per_s) < 2 ^ (- e).
Proof.
  intros m e He. pose proof (us_of_float_close m e He) as C.
  assert (HP : 0 < 2 ^ (- e)) by (apply Z.pow_pos_nonneg; lia).
  change (2 ^ 33) with 8589934592 in C. lia.
Qed.

(* hence the result is one of the two microsecond counts around x * 10^6 (floor or ceiling) *)
Corollary us_of_float_floor_or_ceil : forall m e, e < 0 ->
  let P := 2 ^ (- e) in
  us_of_float (F m e) = (m * us_per_s) / P \/ us_of_float (F m e) = (m * us_per_s) / P + 1 \/
  (us_of_float (F m e) = (m * us_per_s) / P - 1 /\ (m * us_per_s) mod P = 0).
Proof.
  intros m e He P. pose proof (us_of_float_nearest m e He) as N. fold P in N.
  assert (HP : 0 < P) by (apply Z.pow_pos_nonneg; lia).
  pose proof (Z.div_mod (m * us_per_s) P ltac:(lia)) as DM.
  pose proof (Z.mod_pos_bound (m * us_per_s) P HP) as MB.
  set (u := us_of_float (F m e)) in *. set (d := m * us_per_s / P) in *. set (rr := (m * us_per_s) mod P) in *.
  assert (d - 1 <= u <= d + 1) by nia.
  destruct (Z.eq_dec u d); [auto|]. destruct (Z.eq_dec u (d + 1)); [auto|].
  right. right. assert (u = d - 1) by lia. split; [assumption|]. nia.
Qed.

(* whenever x * 10^6 is farther than 2^-34 from every half-integer... the simplest exact case: the
   microsecond count is exact whenever x * 10^6 is an integer *)
Corollary us_of_float_exact_on_integers : forall m e n, e < 0 ->
  m * us_per_s = n * 2 ^ (- e) -> us_of_float (F m e) = n.
Proof.
  intros m e n He H. pose proof (us_of_float_nearest m e He) as N. rewrite H in N.
  assert (HP : 0 < 2 ^ (- e)) by (apply Z.pow_pos_nonneg; lia).
  set (P := 2 ^ (- e)) in *. set (u := us_of_float (F m e)) in *.
  replace (u * P - n * P) with ((u - n) * P) in N by ring. nia.
Qed.

(* ---- exactly the nearest, ties to even, for floats with at most 33 fractional bits --------------------
   (multiples of 2^-33 s, about 0.12 ns): then frac(x) * 10^6 is itself a double, the first rounding is exact
   and only the half-even rounding to an integer remains *)
Lemma rne_div_add_even : forall a k b, 0 < b -> Z.even k = true -> rne_div (a + k * b) b = k + rne_div a b.
Proof.
  intros a k b Hb Hk. unfold rne_div. rewrite Z.div_add, Z.mod_add by lia.
  rewrite Z.even_add, Hk. destruct (Z.even (a / b)); cbn [Bool.eqb];
  destruct (2 * (a mod b) <? b); try lia; destruct (b <? 2 * (a mod b)); lia.
Qed.

Lemma contrib_exact_coarse : forall r s, 0 <= s <= 33 -> Z.abs r < 2 ^ s ->
  contrib r (2 ^ s) = rne_div (r * us_per_s) (2 ^ s).
Proof.
  intros r s Hs Hr. assert (HP : 0 < 2 ^ s) by (apply Z.pow_pos_nonneg; lia).
  destruct (Z.eq_dec r 0) as [->|Hnz].
  { rewrite contrib_zero. cbn [Z.mul]. unfold rne_div. rewrite Z.div_0_l, Z.mod_0_l by lia.
    replace (2 * 0 <? 2 ^ s) with true by (symmetry; apply Z.ltb_lt; lia). reflexivity. }
  unfold contrib, rn.
  assert (Ha : (r * us_per_s =? 0) = false) by (apply Z.eqb_neq; unfold us_per_s; lia). rewrite Ha.
  pose proof (rn_exp_frac r s ltac:(lia) Hnz Hr) as HE. set (E := rn_exp (r * us_per_s) (2 ^ s)) in *.
  destruct (scaled_neg (r * us_per_s) (2 ^ s) E ltac:(lia)) as [S1 S2]. rewrite S1, S2.
  unfold fl_rhe. assert (A : (E <? 0) = true) by (apply Z.ltb_lt; lia). rewrite A.
  assert (HT : 2 ^ (- E) = 2 ^ (- E - s) * 2 ^ s) by (rewrite <- Z.pow_add_r by lia; f_equal; lia).
  assert (Hk : 0 < 2 ^ (- E - s)) by (apply Z.pow_pos_nonneg; lia).
  rewrite HT at 1. replace (r * us_per_s * (2 ^ (- E - s) * 2 ^ s)) with (r * us_per_s * 2 ^ (- E - s) * 2 ^ s) by ring.
  rewrite rne_div_exact by exact HP.
  rewrite HT. replace (2 ^ (- E - s) * 2 ^ s) with (2 ^ s * 2 ^ (- E - s)) by ring.
  apply rne_div_scale; assumption.
Qed.

Theorem us_of_float_rne_coarse : forall m e, -33 <= e < 0 ->
  us_of_float (F m e) = rne_div (m * us_per_s) (2 ^ (- e)).
Proof.
  intros m e He. rewrite (us_of_float_form m e ltac:(lia)).
  assert (HP : 0 < 2 ^ (- e)) by (apply Z.pow_pos_nonneg; lia).
  pose proof (Z.quot_rem' m (2 ^ (- e))) as QR.
  assert (NZ : 2 ^ (- e) <> 0) by lia.
  pose proof (Z.rem_bound_abs m (2 ^ (- e)) NZ) as RB. rewrite (Z.abs_eq (2 ^ (- e))) in RB by lia.
  rewrite (contrib_exact_coarse (Z.rem m (2 ^ (- e))) (- e) ltac:(lia) RB).
  set (P := 2 ^ (- e)) in *. set (q := Z.quot m P) in *. set (r := Z.rem m P) in *.
  assert (X : m * us_per_s = r * us_per_s + (q * us_per_s) * P) by (rewrite QR at 1; ring).
  rewrite X. rewrite rne_div_add_even; [reflexivity|exact HP|].
  rewrite Z.even_mul. replace (Z.even us_per_s) with true by reflexivity. apply orb_true_r.
Qed.

(* "THE nearest microsecond count" is false of timedelta(seconds=x) / fromtimestamp(x), because of the double
   rounding: x = 582357982919 * 2^-40 (a binary64, 0x1.0f2e7b3d8e000p-1) has x * 10^6 = 529651.5 - 2^-34,
   whose nearest integer is 529651; the product rounds to the double 529651.5 and half-even gives 529652 *)
Definition double_rounding_witness : fl := F 582357982919 (-40).
Lemma us_of_float_nearest_exact_refuted :
  us_of_float double_rounding_witness = 529652 /\
  2 * Z.abs (529652 * 2 ^ 40 - 582357982919 * us_per_s) > 2 ^ 40 /\
  2 * Z.abs (529651 * 2 ^ 40 - 582357982919 * us_per_s) < 2 ^ 40.
Proof. vm_compute. repeat split; reflexivity. Qed.
