(* Run order on a trampoline that a single thread can reach (Core/Trampoline.v), for all
   schedules of all threads.  Used by Props/C30.v. *)
From RxVerif Require Import Base.Prelude Core.Trampoline Core.TrampolineFacts.
From Coq Require Import Sorting.Sorted.

(* run order: due time, then creation order *)
Definition plt (x y : item) : Prop := i_due x < i_due y \/ (i_due x = i_due y /\ (i_id x < i_id y)%nat).

Lemma sorted_app_inv : forall (R : item -> item -> Prop) a b,
  StronglySorted R (a ++ b) -> StronglySorted R a /\ StronglySorted R b /\
  Forall (fun x => Forall (R x) b) a.
Proof.
  induction a; cbn; intros b H.
  - repeat split; auto. constructor.
  - inversion H; subst. destruct (IHa _ H2) as (A & B & C). repeat split; auto.
    + constructor; auto. apply Forall_app in H3. tauto.
    + constructor; auto. apply Forall_app in H3. tauto.
Qed.

Lemma sorted_app : forall (R : item -> item -> Prop) a b,
  StronglySorted R a -> StronglySorted R b -> Forall (fun x => Forall (R x) b) a ->
  StronglySorted R (a ++ b).
Proof.
  induction a; cbn; intros b A B C; auto.
  inversion A; subst. inversion C; subst. constructor; auto. apply Forall_app; auto.
Qed.

(* inserting the newest item (largest count, largest id) into a queue sorted by (due, id) *)
Lemma insert_sorted_q : forall z q,
  StronglySorted plt q ->
  Forall (fun x => i_cnt x < i_cnt z) q -> Forall (fun x => (i_id x < i_id z)%nat) q ->
  StronglySorted plt (insert z q).
Proof.
  induction q as [|y q IH]; cbn; intros S C I.
  - repeat constructor.
  - inversion S; subst. inversion C; subst. inversion I; subst.
    unfold key_lt. destruct (i_due z =? i_due y) eqn:E.
    + assert (i_cnt z <? i_cnt y = false) by lia. rewrite H.
      constructor; auto. apply Forall_forall. intros u Hu. apply insert_In in Hu. destruct Hu as [->|Hu].
      * right. split; [lia|auto].
      * rewrite Forall_forall in H2; auto.
    + destruct (i_due z <? i_due y) eqn:E2.
      * constructor; [constructor; auto|]. constructor; [left; lia|].
        rewrite Forall_forall in *. intros u Hu. specialize (H2 _ Hu). unfold plt in *. lia.
      * constructor; auto. apply Forall_forall. intros u Hu. apply insert_In in Hu. destruct Hu as [->|Hu].
        -- left. lia.
        -- rewrite Forall_forall in H2; auto.
Qed.

Lemma insert_sorted : forall z r q,
  StronglySorted plt (r ++ q) ->
  Forall (fun x => i_cnt x < i_cnt z) q -> Forall (fun x => (i_id x < i_id z)%nat) (r ++ q) ->
  Forall (fun x => i_due x <= i_due z) r ->
  StronglySorted plt (r ++ insert z q).
Proof.
  intros z r q S C I D. destruct (sorted_app_inv _ _ _ S) as (Sr & Sq & X).
  apply Forall_app in I. destruct I as [Ir Iq].
  apply sorted_app; auto.
  - apply insert_sorted_q; auto.
  - rewrite Forall_forall in *. intros x Hx. apply Forall_forall. intros u Hu.
    apply insert_In in Hu. destruct Hu as [->|Hu].
    + specialize (D _ Hx). specialize (Ir _ Hx). unfold plt. lia.
    + specialize (X _ Hx). rewrite Forall_forall in X. auto.
Qed.

Fixpoint ready_of (k : key) (s : list frame) : list item :=
  match s with
  | [] => []
  | FRun k' r _ :: rest => if key_eqb k' k then r else ready_of k rest
  | _ :: rest => ready_of k rest
  end.

Definition enq_of (k : key) (s : list frame) : option item :=
  match s with
  | FEnq k' z :: _ => if key_eqb k' k then Some z else None
  | _ => None
  end.

Definition no_past (k : key) (lg : list event) : Prop :=
  forall id th due clk, In (ECreate k id th due clk) lg -> clk <= due.

Definition ord_ok (k : key) (w : world) (s : list frame) : Prop :=
  (no_past k (log w) -> StronglySorted plt (ready_of k s ++ t_queue (tramps w k))) /\
  Forall (fun x => i_cnt x < t_count (tramps w k)) (t_queue (tramps w k)) /\
  Forall (fun x => (i_id x < next_id w)%nat) (ready_of k s ++ t_queue (tramps w k)) /\
  (forall z, enq_of k s = Some z ->
     (i_id z < next_id w)%nat /\
     Forall (fun x => (i_id x < i_id z)%nat) (ready_of k s ++ t_queue (tramps w k)) /\
     (no_past k (log w) -> Forall (fun x => i_due x <= i_due z) (ready_of k s))).

Lemma ready_of_none : forall k s, sumf (run_c k) s = 0 -> ready_of k s = [].
Proof.
  induction s as [|f s IH]; cbn; intros H; auto.
  assert (0 <= sumf (run_c k) s) by (apply sumf_nonneg; intros; apply run_c_nonneg).
  pose proof (run_c_nonneg k f).
  destruct f; cbn in *; try (apply IH; lia).
  destruct (key_eqb k0 k); [lia|apply IH; lia].
Qed.

Lemma no_past_cons : forall k e lg, no_past k (e :: lg) -> no_past k lg.
Proof. intros k e lg H id th due clk Hin. eapply H. right; eauto. Qed.

(* Trampoline.run(item) frames exist only at the top of a stack *)
Definition noenq (f : frame) : Prop := match f with FEnq _ _ => False | _ => True end.
Definition enq_top_only (s : list frame) : Prop :=
  match s with [] => True | _ :: rest => Forall noenq rest end.

Lemma enq_top_step : forall c th w t w' t',
  mstep c th w t = Some (w', t') -> enq_top_only (stk t) -> enq_top_only (stk t').
Proof.
  intros c th w [s ex] w' t' H E. cbn [stk] in *.
  mstep_inv H; wsimpl; cbn [enq_top_only] in *;
  repeat match goal with H : Forall _ (_ :: _) |- _ => inversion H; subst; clear H end;
  repeat (constructor; auto); cbn [noenq]; auto.
  all: destruct rest; cbn; auto; inversion E; auto.
Qed.

Lemma noenq_enq_of : forall k s, Forall noenq s -> enq_of k s = None.
Proof. intros k [|f s] H; cbn; auto. inversion H; subst. destruct f; cbn in *; auto; contradiction. Qed.

Lemma Forall_lt_mono : forall (l : list item) (a b : nat), (a <= b)%nat ->
  Forall (fun x => (i_id x < a)%nat) l -> Forall (fun x => (i_id x < b)%nat) l.
Proof. intros. eapply Forall_impl; [|eauto]. cbn; intros; lia. Qed.

Lemma ord_step : forall c th w t w' t' k0,
  mstep c th w t = Some (w', t') ->
  Forall (frame_ok (clock w) (log w) th) (stk t) ->
  enq_top_only (stk t) ->
  runs k0 t <= (if t_idle (tramps w k0) then 0 else 1) ->
  ord_ok k0 w (stk t) -> ord_ok k0 w' (stk t').
Proof.
  intros c th w [s ex] w' t' k0 H F ET RC (O1 & O2 & O3 & O4). unfold runs in RC. cbn [stk] in *.
  mstep_inv H; wsimpl; unfold ord_ok; wsimpl; unfold upd, set_active;
  cbn [enq_top_only] in ET;
  try (match goal with ET : Forall noenq ?r |- _ => pose proof (noenq_enq_of k0 r ET) as EN end);
  cbn [ready_of enq_of sumf run_c] in *;
  try (keycase k0 k); cbn [t_queue t_count t_idle] in *;
  rewrite ?EN in *.
  all: try (split; [|split; [|split]]; auto; try (intros; discriminate);
            try (intro NP; apply O1; repeat (apply no_past_cons in NP); exact NP);
            try (eapply Forall_lt_mono; [|exact O3]; lia); fail).
  all: try (assert (NN : 0 <= sumf (run_c k) rest) by (apply sumf_nonneg; intros; apply run_c_nonneg)).
  - (* an exception reaches the drain loop *)
    assert (RR : ready_of k rest = []) by (apply ready_of_none; destruct (t_idle (tramps w k)); lia).
    rewrite RR. cbn. repeat split; auto; try constructor; intros; discriminate.
  - (* schedule: the item is built *)
    split; [|split; [|split]]; auto.
    + intro NP; apply O1; apply no_past_cons in NP; exact NP.
    + eapply Forall_lt_mono; [|exact O3]; lia.
    + intros z Hz. destruct (key_eqb (tkey s0 th) k0) eqn:E; [|discriminate].
      apply key_eqb_eq in E. inversion Hz; subst z. cbn [new_item i_id i_due]. repeat split; auto.
      intro NP. assert (clock w <= due_of (clock w) wh) by (eapply NP; left; rewrite E; reflexivity).
      clear - F H ET. revert F. generalize (FBody top cs). intros f F. inversion F; subst. clear F H2.
      induction rest as [|g rest IH]; cbn; [constructor|].
      inversion H3; subst. inversion ET; subst.
      destruct g; cbn [ready_of]; auto. destruct (key_eqb k k0) eqn:E; auto.
      cbn in H2. destruct H2 as [_ H2]. eapply Forall_impl; [|exact H2]. cbn; intros; lia.
  - split; [|split; [|split]]; auto.
    + intro NP; apply O1; apply no_past_cons in NP; exact NP.
    + eapply Forall_lt_mono; [|exact O3]; lia.
    + intros z Hz. destruct (key_eqb (tkey s0 th) k0) eqn:E; [|discriminate].
      apply key_eqb_eq in E. inversion Hz; subst z. cbn [new_item i_id i_due]. repeat split; auto.
      intro NP. assert (clock w <= due_of (clock w) Now) by (eapply NP; left; rewrite E; reflexivity).
      clear - F H ET. revert F. generalize (FBody top cs). intros f F. inversion F; subst. clear F H2.
      induction rest as [|g rest IH]; cbn; [constructor|].
      inversion H3; subst. inversion ET; subst.
      destruct g; cbn [ready_of]; auto. destruct (key_eqb k k0) eqn:E; auto.
      cbn in H2. destruct H2 as [_ H2]. eapply Forall_impl; [|exact H2]. cbn; intros; lia.
  - (* enqueue; this call becomes the drain loop *)
    assert (RR : ready_of k rest = []) by (apply ready_of_none; rewrite Eidle in RC; lia).
    rewrite RR in *. destruct (O4 it eq_refl) as (Z1 & Z2 & Z3).
    split; [|split; [|split]]; [| | |intros; discriminate].
    + intro NP. apply no_past_cons in NP. apply (insert_sorted _ []); cbn [i_cnt i_id i_due]; auto.
    + apply insert_Forall; cbn [i_cnt]; [lia|]. eapply Forall_impl; [|exact O2]. cbn; intros; lia.
    + cbn [app]. apply insert_Forall; cbn [i_id]; auto.
  - destruct (O4 it eq_refl) as (Z1 & Z2 & Z3).
    split; [|split; [|split]]; [| | |intros; discriminate].
    + intro NP. apply no_past_cons in NP. apply insert_sorted; cbn [i_cnt i_id i_due]; auto.
    + apply insert_Forall; cbn [i_cnt]; [lia|]. eapply Forall_impl; [|exact O2]. cbn; intros; lia.
    + apply Forall_app in O3. destruct O3 as [O3a O3b]. apply Forall_app. split; auto.
      apply insert_Forall; cbn [i_id]; auto.
  - (* first locked block of _run *)
    destruct (split_due_spec _ _ _ _ Esplit) as (S1 & _). rewrite S1 in *.
    rewrite <- !app_assoc.
    split; [|split; [|split]]; auto; [|intros; discriminate].
    apply Forall_app in O2. destruct O2 as [_ O2].
    destruct moved; auto. destruct q'; auto.
  - (* skip a cancelled item *)
    cbn [app] in *. inversion O3; subst.
    split; [|split; [|split]]; auto; [|intros; discriminate].
    intro NP. apply no_past_cons in NP. specialize (O1 NP). inversion O1; auto.
  - (* invoke *)
    cbn [app] in *. inversion O3; subst.
    split; [|split; [|split]]; auto; [|intros; discriminate].
    intro NP. apply no_past_cons in NP. specialize (O1 NP). inversion O1; auto.
  - (* normal exit *)
    assert (RR : ready_of k rest = []) by (apply ready_of_none; destruct (t_idle (tramps w k)); lia).
    rewrite RR. cbn. repeat split; auto; try constructor; intros; discriminate.
  - rewrite Eq in *. repeat split; auto; intros; discriminate.
  - (* old code: finally *)
    assert (RR : ready_of k rest = []) by (apply ready_of_none; destruct (t_idle (tramps w k)); lia).
    rewrite RR. cbn. repeat split; auto; try constructor; intros; discriminate.
Qed.

(* ---------- stability under the steps of other threads ---------- *)
Lemma ord_env : forall k w w' s,
  ord_ok k w s -> tramps w' k = tramps w k -> (next_id w <= next_id w')%nat ->
  (exists evs, log w' = evs ++ log w) -> ord_ok k w' s.
Proof.
  intros k w w' s (O1 & O2 & O3 & O4) T N (evs & L). unfold ord_ok. rewrite T.
  assert (NP : no_past k (log w') -> no_past k (log w)).
  { intros H id th due clk Hin. eapply H. rewrite L. apply in_or_app; right; eauto. }
  split; [|split; [|split]]; auto.
  - eapply Forall_lt_mono; eauto.
  - intros z Hz. destruct (O4 z Hz) as (A & B & C). repeat split; auto. lia.
Qed.

Definition nokey (k : key) (s : list frame) : Prop := Forall (fun f => frame_key f <> Some k) s.

Lemma nokey_step : forall c th w t w' t' k,
  mstep c th w t = Some (w', t') -> (forall s0, tkey s0 th <> k) -> nokey k (stk t) ->
  nokey k (stk t') /\ tramps w' k = tramps w k.
Proof.
  intros c th w [s ex] w' t' k0 H NK N. unfold nokey in *. cbn [stk] in *.
  mstep_inv H; wsimpl; unfold upd, set_active;
  repeat match goal with H : Forall _ (_ :: _) |- _ => inversion H; subst; clear H end;
  cbn [frame_key] in *;
  try (assert (k <> k0) by congruence; rewrite (key_eqb_neq k0 k) by congruence);
  (split; [|reflexivity]); repeat (constructor; auto); cbn [frame_key]; try congruence;
  try (intro E; inversion E; eapply NK; eauto).
Qed.

(* ---------- item ids are unique ---------- *)
Definition ids_lt (w : world) : Prop :=
  forall k id th due clk, In (ECreate k id th due clk) (log w) -> (id < next_id w)%nat.
Definition uniq (lg : list event) : Prop :=
  forall k1 k2 id th1 th2 d1 d2 c1 c2,
    In (ECreate k1 id th1 d1 c1) lg -> In (ECreate k2 id th2 d2 c2) lg -> d1 = d2.

Lemma ids_step : forall c th w t w' t',
  mstep c th w t = Some (w', t') -> ids_lt w -> uniq (log w) -> ids_lt w' /\ uniq (log w').
Proof.
  intros c th w [s ex] w' t' H I U. unfold ids_lt, uniq in *.
  mstep_inv H; wsimpl; (split; [intros k1 id1 th1 due1 clk1 Hin|intros k1 k2 id1 th1 th2 d1 d2 c1 c2 H1 H2]);
  repeat match goal with H : In _ (_ :: _) |- _ => destruct H as [H|H]; [try discriminate|] end;
  try (eapply I; eauto; fail); try (eapply U; eauto; fail);
  try (inversion Hin; subst; lia); try (apply I in Hin; lia).
  all: try (inversion H1; inversion H2; subst; reflexivity).
  all: try (inversion H1; subst; apply I in H2; lia).
  all: try (inversion H2; subst; apply I in H1; lia).
Qed.

(* ---------- the run-order statement on the log ---------- *)
Definition lexlt (d1 : Z) (i1 : nat) (d2 : Z) (i2 : nat) : Prop := d1 < d2 \/ (d1 = d2 /\ (i1 < i2)%nat).

Definition start_ok (k : key) (e : event) (before : list event) : Prop :=
  match e with
  | EStart k' x _ _ duex _ _ _ =>
      k' = k -> no_past k before ->
      forall y th duey clk, y <> x -> pending k y before -> In (ECreate k y th duey clk) before ->
                            lexlt duex x duey y
  | _ => True
  end.

Fixpoint order_log (k : key) (lg : list event) : Prop :=
  match lg with [] => True | e :: before => start_ok k e before /\ order_log k before end.

Lemma order_log_at : forall k l2 e l1, order_log k (l2 ++ e :: l1) -> start_ok k e l1.
Proof. induction l2; cbn; intros e l1 H; [tauto|]. apply IHl2. tauto. Qed.

Lemma head_order : forall k lg x r y duey th clk,
  StronglySorted plt (x :: r) -> Forall (item_ok lg k) (x :: r) -> uniq lg ->
  In y (ids_of (x :: r)) -> y <> i_id x -> In (ECreate k y th duey clk) lg ->
  lexlt (i_due x) (i_id x) duey y.
Proof.
  intros k lg x r y duey th clk S I U Hy Ne Hc.
  unfold ids_of in Hy. apply in_map_iff in Hy. destruct Hy as (y' & <- & Hin).
  destruct Hin as [->|Hin]; [congruence|].
  inversion S; subst. rewrite Forall_forall in H2. specialize (H2 _ Hin).
  rewrite Forall_forall in I. destruct (I y' (or_intror Hin)) as (th' & clk' & Hc').
  assert (i_due y' = duey) by (eapply U; eauto). subst duey. exact H2.
Qed.

Lemma held_in_single : forall k y s, held_in k y s -> sumf (run_c k) s <= 1 -> In y (ids_of (ready_of k s)).
Proof.
  induction s as [|f s IH]; intros (r & ph & Hin & Hy) L; [destruct Hin|].
  assert (NN : 0 <= sumf (run_c k) s) by (apply sumf_nonneg; intros; apply run_c_nonneg).
  cbn [sumf] in L. pose proof (run_c_nonneg k f).
  destruct Hin as [->|Hin].
  - cbn. rewrite key_eqb_refl. exact Hy.
  - assert (HH : held_in k y s) by (exists r, ph; auto).
    destruct f; cbn [ready_of run_c] in *; try (apply IH; auto; lia).
    destruct (key_eqb k0 k) eqn:E; [|apply IH; auto; lia].
    exfalso. assert (1 <= sumf (run_c k) s); [|lia].
    clear - Hin. induction s as [|g s IH]; [destruct Hin|]. cbn [sumf].
    assert (0 <= sumf (run_c k) s) by (apply sumf_nonneg; intros; apply run_c_nonneg).
    pose proof (run_c_nonneg k g).
    destruct Hin as [->|Hin]; [cbn; rewrite key_eqb_refl; lia|]. specialize (IH Hin). lia.
Qed.

Lemma held_in_nokey : forall k y s, nokey k s -> held_in k y s -> False.
Proof.
  intros k y s N (r & ph & Hin & _). unfold nokey in N. rewrite Forall_forall in N.
  apply (N _ Hin). reflexivity.
Qed.

Lemma order_step : forall c th w t w' t' k0,
  mstep c th w t = Some (w', t') -> order_log k0 (log w) ->
  (forall x r' rest, stk t = FRun k0 (x :: r') P2 :: rest -> exc t = None -> no_past k0 (log w) ->
     forall y th' duey clk, y <> i_id x -> pending k0 y (log w) -> In (ECreate k0 y th' duey clk) (log w) ->
                            lexlt (i_due x) (i_id x) duey y) ->
  order_log k0 (log w').
Proof.
  intros c th w [s ex] w' t' k0 H L B. cbn [stk exc] in *.
  mstep_inv H; wsimpl; cbn [order_log start_ok]; auto.
  split; auto. intros -> NP. eapply B; eauto.
Qed.

Definition excl (k : key) (o : nat) (n : nat) : Prop :=
  forall th, th <> o -> (th < n)%nat -> forall s0, tkey s0 th <> k.

Definition OInv (c : cfg) (k : key) (o : nat) (cf : config) : Prop :=
  Inv c cf /\ conserved cf /\
  (forall t, In t (snd cf) -> enq_top_only (stk t)) /\
  ids_lt (fst cf) /\ uniq (log (fst cf)) /\
  (forall th t, nth_error (snd cf) th = Some t -> th <> o -> nokey k (stk t)) /\
  (forall t, nth_error (snd cf) o = Some t -> ord_ok k (fst cf) (stk t)) /\
  order_log k (log (fst cf)).

Lemma runs_bound : forall w ts th t k, counts_ok (w, ts) -> nth_error ts th = Some t ->
  runs k t <= (if t_idle (tramps w k) then 0 else 1).
Proof.
  intros w ts th t k C N. destruct (C k) as (_ & C2 & _). cbn [fst snd] in C2.
  rewrite (sumf_split _ _ _ _ N) in C2.
  assert (0 <= sumf (runs k) (others th ts)) by (apply sumf_nonneg; intros; apply runs_nonneg). lia.
Qed.

Lemma OInv_step : forall c k o cf s,
  excl k o (length (snd cf)) -> OInv c k o cf -> OInv c k o (cstep c cf s).
Proof.
  intros c k o [w ts] s X (I & C & ET & IL & U & NK & OK & OL).
  pose proof (Inv_step c (w, ts) s I) as I'.
  pose proof (conserved_step c (w, ts) s (proj1 I) C) as C'.
  unfold cstep in *. cbn [fst snd] in *. destruct s as [th|d].
  2: { split; [exact I'|split; [exact C'|split; [exact ET|split; [exact IL|split; [exact U|
       split; [exact NK|split; [|exact OL]]]]]]].
       cbn [fst snd]. intros t N. eapply ord_env; eauto; cbn; auto. exists []; auto. }
  destruct (nth_error ts th) as [t|] eqn:N; [|unfold OInv; cbn [fst snd]; tauto].
  destruct (mstep c th w t) as [[w' t']|] eqn:M; [|unfold OInv; cbn [fst snd]; tauto].
  destruct (ids_step _ _ _ _ _ _ M IL U) as (IL' & U').
  destruct (mstep_ext _ _ _ _ _ _ M) as (X1 & X2 & X3).
  destruct I as (W & CO & (F & Q & K) & FI & LO). cbn [fst snd] in *.
  assert (Lth : (th < length ts)%nat) by (apply nth_error_Some; congruence).
  split; [exact I'|]. split; [exact C'|]. cbn [fst snd].
  split; [|split; [exact IL'|split; [exact U'|split; [|split]]]].
  - intros u Hu. apply In_nth_error in Hu. destruct Hu as [m Hm].
    destruct (Nat.eq_dec th m).
    + subst m. rewrite (nth_error_set_nth_eq _ _ _ _ N) in Hm. inversion Hm; subst.
      eapply enq_top_step; eauto. apply ET. eapply nth_error_In; eauto.
    + rewrite nth_error_set_nth_neq in Hm by auto. apply ET. eapply nth_error_In; eauto.
  - intros th2 t2 N2 Hne. destruct (Nat.eq_dec th th2).
    + subst th2. rewrite (nth_error_set_nth_eq _ _ _ _ N) in N2. inversion N2; subst.
      eapply nokey_step; eauto.
    + rewrite nth_error_set_nth_neq in N2 by auto. eauto.
  - intros t2 N2. destruct (Nat.eq_dec th o).
    + subst th. rewrite (nth_error_set_nth_eq _ _ _ _ N) in N2. inversion N2; subst.
      eapply ord_step; eauto.
      * apply ET. eapply nth_error_In; eauto.
      * eapply runs_bound; eauto.
    + rewrite nth_error_set_nth_neq in N2 by auto.
      destruct (nokey_step _ _ _ _ _ _ k M (X th n Lth) (NK _ _ N n)) as (_ & T).
      eapply ord_env; eauto.
  - eapply order_step; eauto.
    intros x r' rest Es Ee NP y th' duey clk Ny P Hc.
    assert (th = o).
    { destruct (Nat.eq_dec th o); auto. exfalso. specialize (NK _ _ N n).
      rewrite Es in NK. inversion NK; subst. apply H1. reflexivity. }
    subst th. specialize (OK _ N). rewrite Es in OK. destruct OK as (O1 & _).
    cbn [ready_of] in O1. rewrite key_eqb_refl in O1. specialize (O1 NP).
    pose proof (runs_bound _ _ _ _ k CO N) as RB. unfold runs in RB. rewrite Es in RB.
    cbn [sumf run_c] in RB. rewrite key_eqb_refl in RB.
    assert (NN : 0 <= sumf (run_c k) rest) by (apply sumf_nonneg; intros; apply run_c_nonneg).
    assert (In y (ids_of ((x :: r') ++ t_queue (tramps w k)))).
    { destruct (C k y P) as [Hq|(th2 & t2 & N2 & Hh)]; cbn [fst snd] in *.
      - rewrite ids_of_app. apply in_or_app; right; auto.
      - destruct (Nat.eq_dec th2 o).
        + subst th2. rewrite N in N2. inversion N2; subst t2.
          apply held_in_single in Hh.
          * rewrite Es in Hh. cbn [ready_of] in Hh. rewrite key_eqb_refl in Hh.
            rewrite ids_of_app. apply in_or_app; left; auto.
          * rewrite Es. cbn [sumf run_c]. rewrite key_eqb_refl. destruct (t_idle (tramps w k)); lia.
        + exfalso. eapply held_in_nokey; eauto. }
    eapply head_order with (lg := log w) (r := r' ++ t_queue (tramps w k)); eauto.
    specialize (F _ _ N). rewrite Es in F. inversion F; subst. cbn in H2. destruct H2 as [_ H2].
    change (x :: r' ++ t_queue (tramps w k)) with ((x :: r') ++ t_queue (tramps w k)).
    apply Forall_app. split.
    + eapply Forall_impl; [|exact H2]. cbn; tauto.
    + apply Q.
Qed.

Lemma OInv_init : forall c k o c0 hs, OInv c k o (start_config c0 hs).
Proof.
  intros. unfold OInv. split; [apply Inv_init|]. split; [apply conserved_init|].
  unfold start_config; cbn [fst snd init_world log].
  split; [|split; [|split; [|split; [|split]]]]; auto.
  - intros t Ht. apply in_map_iff in Ht. destruct Ht as (h & <- & _). cbn. constructor.
  - intros k0 id th due clk [].
  - intros k1 k2 id th1 th2 d1 d2 c1 c2 [].
  - intros th t N _. apply nth_error_In in N. apply in_map_iff in N. destruct N as (h & <- & _).
    cbn. repeat constructor. cbn. congruence.
  - intros t N. apply nth_error_In in N. apply in_map_iff in N. destruct N as (h & <- & _).
    unfold ord_ok. cbn. repeat split; auto; try constructor; intros; discriminate.
  - exact I.
Qed.

Lemma crun_length : forall c sch cf, length (snd (crun c cf sch)) = length (snd cf).
Proof.
  unfold crun. induction sch; cbn; intros; auto. rewrite IHsch. destruct cf as [w ts]. unfold cstep.
  destruct a; cbn; auto. destruct (nth_error ts th); cbn; auto.
  destruct (mstep c th w t) as [[w' t']|]; cbn; auto. apply length_set_nth.
Qed.

Lemma crun_OInv : forall c k o sch cf, excl k o (length (snd cf)) -> OInv c k o cf -> OInv c k o (crun c cf sch).
Proof.
  unfold crun. induction sch; cbn; intros; auto. apply IHsch.
  - pose proof (crun_length c [a] cf) as L. cbn in L. rewrite L. auto.
  - apply OInv_step; auto.
Qed.

(* Run order on a trampoline that only thread [o] can reach (a current-thread scheduler, or any
   scheduler when there is a single thread): if nothing was ever scheduled on it with a due time
   already in the past, then whenever an action starts, every item that is pending (enqueued,
   not started, not skipped, not dropped) comes later in the order (due time, creation order). *)
Theorem run_order : forall c c0 hs sch k o l2 x l th due clk dk d l1,
  excl k o (length hs) ->
  log (fst (crun c (start_config c0 hs) sch)) = l2 ++ EStart k x l th due clk dk d :: l1 ->
  no_past k l1 ->
  forall y th' duey clk', y <> x -> pending k y l1 -> In (ECreate k y th' duey clk') l1 ->
                          lexlt due x duey y.
Proof.
  intros c c0 hs sch k o l2 x l th due clk dk d l1 X E NP y th' duey clk' Ny P Hc.
  assert (OI : OInv c k o (crun c (start_config c0 hs) sch)).
  { apply crun_OInv; [|apply OInv_init]. unfold start_config. cbn [snd]. rewrite map_length. exact X. }
  destruct OI as (_ & _ & _ & _ & _ & _ & _ & OL). rewrite E in OL. apply order_log_at in OL.
  cbn in OL. eapply OL; eauto.
Qed.

Lemma excl_private : forall k o n, owner k = Some o -> excl k o n.
Proof. intros k o n Ho th Hn _ s0 E. subst k. apply tkey_owner in Ho. auto. Qed.

Lemma excl_single : forall k, excl k 0%nat 1%nat.
Proof. intros k th Hn Hl. lia. Qed.

