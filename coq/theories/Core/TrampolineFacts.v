(* Facts about Core/Trampoline.v: the invariant of all reachable configurations (any number of
   threads, all schedules) and its consequences.  Used by Props/C30.v. *)
From RxVerif Require Import Base.Prelude Core.Trampoline.
From Coq Require Import Sorting.Sorted.

(* ---------- keys ---------- *)
Lemma key_eqb_eq : forall a b, key_eqb a b = true <-> a = b.
Proof.
  destruct a, b; cbn; split; intro H; try discriminate; try congruence.
  - apply Nat.eqb_eq in H; congruence.
  - inversion H; apply Nat.eqb_refl.
  - apply andb_true_iff in H; destruct H as [H1 H2]; apply Nat.eqb_eq in H1, H2; congruence.
  - inversion H; rewrite !Nat.eqb_refl; reflexivity.
  - apply Nat.eqb_eq in H; congruence.
  - inversion H; apply Nat.eqb_refl.
Qed.

Lemma key_eqb_refl : forall k, key_eqb k k = true.
Proof. intro; apply key_eqb_eq; reflexivity. Qed.

Lemma key_eqb_neq : forall a b, a <> b -> key_eqb a b = false.
Proof. intros a b H; destruct (key_eqb a b) eqn:E; auto; apply key_eqb_eq in E; contradiction. Qed.

Lemma key_eqb_sym : forall a b, key_eqb a b = key_eqb b a.
Proof.
  intros; destruct (key_eqb a b) eqn:E.
  - apply key_eqb_eq in E; subst; symmetry; apply key_eqb_refl.
  - destruct (key_eqb b a) eqn:E2; auto. apply key_eqb_eq in E2; subst. rewrite key_eqb_refl in E; discriminate.
Qed.

Lemma upd_same : forall k t f, upd k t f k = t.
Proof. intros; unfold upd; rewrite key_eqb_refl; reflexivity. Qed.

Lemma upd_other : forall k k' t f, k' <> k -> upd k t f k' = f k'.
Proof. intros; unfold upd; rewrite key_eqb_neq; auto. Qed.

(* ---------- lists of threads ---------- *)
Lemma nth_error_set_nth_eq : forall {A} (l : list A) n x y,
  nth_error l n = Some x -> nth_error (set_nth n y l) n = Some y.
Proof. induction l; destruct n; cbn; intros; try discriminate; eauto. Qed.

Lemma nth_error_set_nth_neq : forall {A} (l : list A) n m y,
  n <> m -> nth_error (set_nth n y l) m = nth_error l m.
Proof. induction l; destruct n, m; cbn; intros; try congruence; auto. Qed.

Lemma length_set_nth : forall {A} (l : list A) n y, length (set_nth n y l) = length l.
Proof. induction l; destruct n; cbn; intros; auto. Qed.

Fixpoint sumf {A} (f : A -> Z) (l : list A) : Z :=
  match l with [] => 0 | x :: t => f x + sumf f t end.

Definition others {A} (n : nat) (l : list A) : list A := firstn n l ++ skipn (S n) l.

Lemma sumf_app : forall {A} (f : A -> Z) l1 l2, sumf f (l1 ++ l2) = sumf f l1 + sumf f l2.
Proof. induction l1; cbn; intros; auto. rewrite IHl1; lia. Qed.

Lemma sumf_split : forall {A} (f : A -> Z) l n x,
  nth_error l n = Some x -> sumf f l = f x + sumf f (others n l).
Proof.
  unfold others. induction l; destruct n; cbn; intros; try discriminate.
  - inversion H; subst. reflexivity.
  - rewrite (IHl _ _ H). destruct l; cbn; lia.
Qed.

Lemma others_set_nth : forall {A} (l : list A) n y, others n (set_nth n y l) = others n l.
Proof.
  unfold others. induction l; destruct n; cbn; intros; auto.
  f_equal. specialize (IHl n y). destruct l; cbn in *; auto.
Qed.

Lemma sumf_set_nth : forall {A} (f : A -> Z) l n x y,
  nth_error l n = Some x -> sumf f (set_nth n y l) = f y + sumf f (others n l).
Proof.
  intros. rewrite (sumf_split f _ n y (nth_error_set_nth_eq _ _ _ _ H)). rewrite others_set_nth. reflexivity.
Qed.

Lemma sumf_nonneg : forall {A} (f : A -> Z) l, (forall x, In x l -> 0 <= f x) -> 0 <= sumf f l.
Proof. induction l; cbn; intros; [lia|]. assert (0 <= f a) by auto. assert (0 <= sumf f l) by auto. lia. Qed.

Lemma sumf_le : forall {A} (f g : A -> Z) l, (forall x, In x l -> f x <= g x) -> sumf f l <= sumf g l.
Proof. induction l; cbn; intros; [lia|]. assert (f a <= g a) by auto. assert (sumf f l <= sumf g l) by auto. lia. Qed.

Lemma In_others : forall {A} (l : list A) n x, In x (others n l) -> In x l.
Proof.
  unfold others. induction l; intros n x H.
  - destruct n; cbn in H; contradiction.
  - destruct n; cbn in H.
    + right; exact H.
    + destruct H as [H|H]; [left; exact H|]. right. apply (IHl n). exact H.
Qed.

(* ---------- case analysis of one micro-step ---------- *)
Ltac fin H := inversion H; subst; clear H.
Ltac mstep_inv H :=
  let f := fresh "f" in let rest := fresh "rest" in let e := fresh "e" in
  let top := fresh "top" in let cm := fresh "cm" in let cs := fresh "cs" in
  let k := fresh "k" in let it := fresh "it" in let id := fresh "id" in let l := fresh "l" in
  let ready := fresh "ready" in let ph := fresh "ph" in
  let s := fresh "s" in let wh := fresh "wh" in let b := fresh "b" in let r := fresh "r" in
  let dt := fresh "dt" in let u := fresh "u" in let x := fresh "x" in let q := fresh "q" in
  let moved := fresh "moved" in let q' := fresh "q'" in let ready' := fresh "ready'" in
  let Er := fresh "Er" in let Eidle := fresh "Eidle" in let Esplit := fresh "Esplit" in
  let Ememb := fresh "Ememb" in let Eq := fresh "Eq" in let Erace := fresh "Erace" in
  let Elt := fresh "Elt" in let Esig := fresh "Esig" in
  unfold mstep in H; cbn [stk exc] in H;
  match type of H with
  | match ?s0 with [] => _ | _ => _ end = _ => destruct s0 as [|f rest]; [discriminate|]
  end;
  match type of H with
  | match ?e0 with Some _ => _ | None => _ end = _ => destruct e0 as [e|]
  end;
  [ unfold step_exc in H; destruct f as [[|] cs|k it|k id l|l|k ready ph]; fin H
  | destruct f as [top [|cm cs]|k it|k id l|l|k ready ph];
    [ fin H
    | unfold step_cmd in H; destruct cm as [s wh l b|r|dt|e|s|s l b];
      [ | destruct (r <? next_id _)%nat eqn:Er | | | | destruct (t_idle (tramps _ (tkey s _))) eqn:Eidle ];
      fin H
    | unfold step_enq in H; destruct (t_idle (tramps _ k)) eqn:Eidle; fin H
    | fin H
    | fin H
    | unfold step_run in H; destruct ph as [| | |u|];
      [ destruct (split_due _ _) as [moved q'] eqn:Esplit
      | destruct ready as [|x ready']; [| destruct (memb _ _) eqn:Ememb]
      | destruct (t_queue (tramps _ k)) as [|x q] eqn:Eq;
        [destruct (exit_race _) eqn:Erace | destruct (_ <? _) eqn:Elt]
      | destruct (t_signal _) eqn:Esig
      | ]; fin H ] ].

Fixpoint wf_stk (s : list frame) : Prop :=
  match s with
  | [] => True
  | FInvoke k _ _ :: rest => match rest with FRun k' _ P2 :: _ => k' = k | _ => False end /\ wf_stk rest
  | FRun _ r ph :: rest => (ph <> P2 -> r = []) /\ wf_stk rest
  | _ :: rest => wf_stk rest
  end.

Lemma wf_step : forall c th w t w' t',
  mstep c th w t = Some (w', t') -> wf_stk (stk t) -> wf_stk (stk t').
Proof.
  intros c th w [s ex] w' t' H W. cbn [stk] in W.
  mstep_inv H; cbn [stk wf_stk] in *; intuition (try congruence; auto).
Qed.

(* ---------- counting frames ---------- *)
Definition run_c (k : key) (f : frame) : Z :=
  match f with FRun k' _ _ => if key_eqb k' k then 1 else 0 | _ => 0 end.
Definition inv_c (k : key) (f : frame) : Z :=
  match f with FInvoke k' _ _ => if key_eqb k' k then 1 else 0 | _ => 0 end.
Definition runs (k : key) (t : thread) : Z := sumf (run_c k) (stk t).
Definition invs (k : key) (t : thread) : Z := sumf (inv_c k) (stk t).

Lemma run_c_nonneg : forall k f, 0 <= run_c k f.
Proof. destruct f; cbn; try lia. destruct (key_eqb _ _); lia. Qed.
Lemma inv_c_nonneg : forall k f, 0 <= inv_c k f.
Proof. destruct f; cbn; try lia. destruct (key_eqb _ _); lia. Qed.
Lemma runs_nonneg : forall k t, 0 <= runs k t.
Proof. intros; apply sumf_nonneg; intros; apply run_c_nonneg. Qed.
Lemma invs_nonneg : forall k t, 0 <= invs k t.
Proof. intros; apply sumf_nonneg; intros; apply inv_c_nonneg. Qed.

Lemma inv_le_run_n : forall k n s, (length s <= n)%nat -> wf_stk s ->
  sumf (inv_c k) s <= sumf (run_c k) s.
Proof.
  induction n; intros s L W.
  - destruct s; cbn in *; [lia | lia].
  - destruct s as [|f s]; [cbn; lia|].
    cbn [length] in L.
    destruct f; cbn [wf_stk] in W; cbn [sumf inv_c run_c].
    + assert (sumf (inv_c k) s <= sumf (run_c k) s) by (apply IHn; [lia|auto]). lia.
    + assert (sumf (inv_c k) s <= sumf (run_c k) s) by (apply IHn; [lia|auto]). lia.
    + destruct W as [W1 W2]. destruct s as [|g s']; [contradiction|].
      destruct g; try contradiction. destruct ph; try contradiction. subst k1.
      cbn [wf_stk] in W2. destruct W2 as [_ W3].
      cbn [sumf inv_c run_c length] in *.
      assert (sumf (inv_c k) s' <= sumf (run_c k) s') by (apply IHn; [lia|auto]).
      destruct (key_eqb k0 k); lia.
    + assert (sumf (inv_c k) s <= sumf (run_c k) s) by (apply IHn; [lia|auto]). lia.
    + destruct W as [_ W2].
      assert (sumf (inv_c k) s <= sumf (run_c k) s) by (apply IHn; [lia|auto]).
      destruct (key_eqb k0 k); lia.
Qed.

Lemma inv_le_run : forall k s, wf_stk s -> sumf (inv_c k) s <= sumf (run_c k) s.
Proof. intros; eapply inv_le_run_n; eauto. Qed.

Definition all_wf (ts : list thread) : Prop := forall t, In t ts -> wf_stk (stk t).

Definition counts_ok (cf : config) : Prop :=
  forall k,
    sumf (invs k) (snd cf) = Z.of_nat (t_active (tramps (fst cf) k)) /\
    sumf (runs k) (snd cf) = (if t_idle (tramps (fst cf) k) then 0 else 1) /\
    (t_idle (tramps (fst cf) k) = true -> t_queue (tramps (fst cf) k) = []).

Lemma all_wf_step : forall c th w ts t w' t',
  nth_error ts th = Some t -> mstep c th w t = Some (w', t') -> all_wf ts -> all_wf (set_nth th t' ts).
Proof.
  intros c th w ts t w' t' N H W u Hu.
  apply In_nth_error in Hu. destruct Hu as [m Hm].
  destruct (Nat.eq_dec th m).
  - subst m. rewrite (nth_error_set_nth_eq _ _ _ _ N) in Hm. inversion Hm; subst.
    eapply wf_step; eauto. apply W. eapply nth_error_In; eauto.
  - rewrite nth_error_set_nth_neq in Hm by auto. apply W. eapply nth_error_In; eauto.
Qed.

Ltac keycase k0 k :=
  let E := fresh "E" in let NE := fresh "NE" in let NE' := fresh "NE'" in
  rewrite ?(key_eqb_sym k k0) in *;
  destruct (key_eqb k0 k) eqn:E;
  [apply key_eqb_eq in E; subst k0; rewrite ?key_eqb_refl in *
  |assert (NE : k <> k0) by (intro; subst; rewrite key_eqb_refl in E; discriminate);
   assert (NE' : k0 <> k) by (intro; subst; rewrite key_eqb_refl in E; discriminate);
   rewrite ?E in *].

Ltac nn :=
  repeat match goal with
  | H : context [sumf (run_c ?k) ?r] |- _ =>
      lazymatch goal with
      | _ : 0 <= sumf (run_c k) r |- _ => fail
      | _ => assert (0 <= sumf (run_c k) r) by (apply sumf_nonneg; intros; apply run_c_nonneg)
      end
  | H : context [sumf (inv_c ?k) ?r] |- _ =>
      lazymatch goal with
      | _ : 0 <= sumf (inv_c k) r |- _ => fail
      | _ => assert (0 <= sumf (inv_c k) r) by (apply sumf_nonneg; intros; apply inv_c_nonneg)
      end
  end.

Lemma counts_step : forall c th w ts t w' t',
  nth_error ts th = Some t -> mstep c th w t = Some (w', t') -> all_wf ts ->
  counts_ok (w, ts) -> counts_ok (w', set_nth th t' ts).
Proof.
  intros c th w ts t w' t' N H W C k0. specialize (C k0). cbn [fst snd] in *.
  rewrite !(sumf_set_nth _ _ _ _ _ N). rewrite !(sumf_split _ _ _ _ N) in C.
  assert (A0 : 0 <= sumf (invs k0) (others th ts)) by (apply sumf_nonneg; intros; apply invs_nonneg).
  assert (AB : sumf (invs k0) (others th ts) <= sumf (runs k0) (others th ts)).
  { apply sumf_le. intros x Hx. apply inv_le_run. apply W. eapply In_others; eauto. }
  assert (Lt : invs k0 t <= runs k0 t) by (apply inv_le_run; apply W; eapply nth_error_In; eauto).
  set (A := sumf (invs k0) (others th ts)) in *. set (B := sumf (runs k0) (others th ts)) in *.
  clearbody A B. clear N W.
  destruct t as [s ex]. unfold invs, runs in *. cbn [stk] in *.
  destruct C as (C1 & C2 & C3).
  mstep_inv H; cbn [stk sumf inv_c run_c tramps set_tramp add_log set_clock create_item exit_path
                   t_idle t_queue t_active] in *; unfold upd, set_active;
  try (keycase k0 k); cbn [t_idle t_queue t_active] in *;
  repeat match goal with H : t_idle _ = _ |- _ => rewrite H in * end;
  try (destruct (t_idle (tramps w _)) eqn:?);
  nn;
  (split; [|split]); try lia; try congruence; auto;
  try (destruct (t_active (tramps w _)) eqn:?; cbn [Init.Nat.pred] in *; lia);
  try (exfalso; lia).
Qed.

(* ---------- queue operations ---------- *)
Lemma insert_In : forall z q x, In x (insert z q) <-> x = z \/ In x q.
Proof.
  induction q; cbn; intros.
  - intuition.
  - destruct (key_lt z a); cbn; [intuition|]. rewrite IHq. intuition.
Qed.

Lemma insert_Forall : forall (P : item -> Prop) z q, P z -> Forall P q -> Forall P (insert z q).
Proof.
  intros. apply Forall_forall. intros x Hx. apply insert_In in Hx. destruct Hx; [subst; auto|].
  rewrite Forall_forall in H0; auto.
Qed.

Lemma split_due_spec : forall now q a b, split_due now q = (a, b) ->
  q = a ++ b /\ Forall (fun x => i_due x <= now) a /\
  match b with [] => True | y :: _ => now < i_due y end.
Proof.
  induction q; cbn; intros a0 b H.
  - inversion H; subst. auto.
  - destruct (i_due a <=? now) eqn:E.
    + destruct (split_due now q) as [a1 b1] eqn:E1. inversion H; subst.
      destruct (IHq _ _ eq_refl) as (Q1 & Q2 & Q3). subst q. repeat split; auto.
      constructor; auto. lia.
    + inversion H; subst. repeat split; auto. lia.
Qed.

(* ---------- monotonicity of a step ---------- *)
Definition ext (w w' : world) : Prop :=
  clock w <= clock w' /\ (exists evs, log w' = evs ++ log w) /\ (next_id w <= next_id w')%nat.

Lemma ext_refl : forall w, ext w w.
Proof. intro; repeat split; try lia. exists []; reflexivity. Qed.

Lemma mstep_ext : forall c th w t w' t', mstep c th w t = Some (w', t') -> ext w w'.
Proof.
  intros c th w [s ex] w' t' H. unfold ext.
  mstep_inv H; cbn [clock log next_id set_tramp add_log set_clock create_item exit_path];
  (split; [try lia|split; [|lia]]);
  try (exists []; reflexivity);
  try (eexists [_]; reflexivity); try (eexists [_; _]; reflexivity).
Qed.

(* ---------- items and frames carry what the log says ---------- *)
Definition item_ok (lg : list event) (k : key) (x : item) : Prop :=
  exists th clk, In (ECreate k (i_id x) th (i_due x) clk) lg.

Definition owned (k : key) (th : nat) : Prop := forall o, owner k = Some o -> th = o.

Definition frame_ok (clk : Z) (lg : list event) (th : nat) (f : frame) : Prop :=
  match f with
  | FRun k r _ => owned k th /\ Forall (fun x => i_due x <= clk /\ item_ok lg k x) r
  | FEnq k z => owned k th /\ item_ok lg k z
  | _ => True
  end.

Definition state_ok (cf : config) : Prop :=
  (forall th t, nth_error (snd cf) th = Some t ->
                Forall (frame_ok (clock (fst cf)) (log (fst cf)) th) (stk t)) /\
  (forall k, Forall (item_ok (log (fst cf)) k) (t_queue (tramps (fst cf) k))) /\
  (forall id, In (ECancel id) (log (fst cf)) -> memb id (cancelled (fst cf)) = true).

Lemma item_ok_ext : forall lg evs k x, item_ok lg k x -> item_ok (evs ++ lg) k x.
Proof. intros lg evs k x (th & clk & H). exists th, clk. apply in_or_app; auto. Qed.

Lemma frame_ok_ext : forall clk clk' lg evs th f,
  clk <= clk' -> frame_ok clk lg th f -> frame_ok clk' (evs ++ lg) th f.
Proof.
  intros clk clk' lg evs th f X H. destruct f; cbn in *; auto.
  - destruct H; split; auto. apply item_ok_ext; auto.
  - destruct H as [H1 H2]; split; auto. eapply Forall_impl; [|exact H2].
    cbn; intros a [Ha1 Ha2]. split; [lia|apply item_ok_ext; auto].
Qed.

Lemma owned_tkey : forall s th, owned (tkey s th) th.
Proof. intros [i|i|] th o; cbn; congruence. Qed.

Lemma memb_true : forall n l, memb n l = true <-> In n l.
Proof.
  unfold memb; intros; rewrite existsb_exists; split.
  - intros (x & Hx & E). apply Nat.eqb_eq in E; subst; auto.
  - intros; exists n; split; auto. apply Nat.eqb_refl.
Qed.

Ltac wsimpl := cbn [log tramps cancelled clock next_id add_log set_tramp set_clock create_item exit_path
                       new_item i_id i_due i_cnt i_label i_body stk fst snd] in *.

Lemma cancel_step : forall c th w t w' t',
  mstep c th w t = Some (w', t') ->
  (forall id, In (ECancel id) (log w) -> memb id (cancelled w) = true) ->
  (forall id, In (ECancel id) (log w') -> memb id (cancelled w') = true).
Proof.
  intros c th w [s ex] w' t' H K id0 Hin.
  mstep_inv H; wsimpl; auto;
  repeat (destruct Hin as [Hin|Hin]; [try discriminate|]); auto.
  - inversion Hin; subst. apply memb_true; left; reflexivity.
  - apply memb_true; right; apply memb_true; auto.
Qed.

Lemma queue_step : forall c th w t w' t',
  mstep c th w t = Some (w', t') ->
  Forall (frame_ok (clock w) (log w) th) (stk t) ->
  (forall k, Forall (item_ok (log w) k) (t_queue (tramps w k))) ->
  (forall k, Forall (item_ok (log w') k) (t_queue (tramps w' k))).
Proof.
  intros c th w t w' t' H F Q k0.
  destruct (mstep_ext _ _ _ _ _ _ H) as (X1 & (evs & X2) & X3).
  assert (Q' : forall k, Forall (item_ok (log w') k) (t_queue (tramps w k))).
  { intro k. eapply Forall_impl; [|apply Q]. intros; rewrite X2; apply item_ok_ext; auto. }
  assert (F' : Forall (frame_ok (clock w') (log w') th) (stk t)).
  { eapply Forall_impl; [|apply F]. intros a Ha; rewrite X2; eapply frame_ok_ext; [exact X1|exact Ha]. }
  clear F Q X1 X2 X3 evs.
  destruct t as [s ex]. cbn [stk] in *.
  mstep_inv H; wsimpl; unfold upd, set_active; try (keycase k0 k); cbn [t_queue]; auto.
  - apply insert_Forall; auto. inversion F'; subst. cbn in H1. destruct H1 as [_ H1]. exact H1.
  - apply insert_Forall; auto. inversion F'; subst. cbn in H1. destruct H1 as [_ H1]. exact H1.
  - specialize (Q' k). destruct (split_due_spec _ _ _ _ Esplit) as (S1 & _). rewrite S1 in Q'.
    apply Forall_app in Q'. tauto.
  - specialize (Q' k). rewrite Eq in Q'. exact Q'.
Qed.

Lemma frames_step : forall c th w t w' t',
  mstep c th w t = Some (w', t') ->
  Forall (frame_ok (clock w) (log w) th) (stk t) ->
  (forall k, Forall (item_ok (log w) k) (t_queue (tramps w k))) ->
  Forall (frame_ok (clock w') (log w') th) (stk t').
Proof.
  intros c th w t w' t' H F Q.
  destruct (mstep_ext _ _ _ _ _ _ H) as (X1 & (evs & X2) & X3).
  assert (Q' : forall k, Forall (item_ok (log w') k) (t_queue (tramps w k))).
  { intro k. eapply Forall_impl; [|apply Q]. intros; rewrite X2; apply item_ok_ext; auto. }
  assert (F' : Forall (frame_ok (clock w') (log w') th) (stk t)).
  { eapply Forall_impl; [|apply F]. intros a Ha; rewrite X2; eapply frame_ok_ext; [exact X1|exact Ha]. }
  clear F Q X2 X3 evs.
  destruct t as [s ex]. cbn [stk] in *.
  mstep_inv H; wsimpl;
  repeat match goal with H : Forall _ (_ :: _) |- _ => inversion H; subst; clear H end;
  repeat (constructor; auto); cbn [frame_ok] in *;
  repeat match goal with H : _ /\ _ |- _ => destruct H end; auto;
  try apply owned_tkey;
  try (unfold item_ok, new_item; cbn [i_id i_due]; eexists _, _; left; reflexivity);
  repeat match goal with H : Forall _ (_ :: _) |- _ => inversion H; subst; clear H end; auto.
  apply Forall_app; split; auto.
  destruct (split_due_spec _ _ _ _ Esplit) as (S1 & S2 & _).
  specialize (Q' k). rewrite S1 in Q'. apply Forall_app in Q'. destruct Q' as [Q1 _].
  rewrite Forall_forall in *. intros y Hy. split; auto.
Qed.

Lemma state_step : forall c cf s, state_ok cf -> state_ok (cstep c cf s).
Proof.
  intros c [w ts] s (F & Q & K). unfold cstep. destruct s as [th|d].
  - destruct (nth_error ts th) as [t|] eqn:N; [|repeat split; auto].
    destruct (mstep c th w t) as [[w' t']|] eqn:M; [|repeat split; auto].
    destruct (mstep_ext _ _ _ _ _ _ M) as (X1 & (evs & X2) & X3).
    repeat split; cbn [fst snd].
    + intros th2 t2 N2. destruct (Nat.eq_dec th th2).
      * subst th2. rewrite (nth_error_set_nth_eq _ _ _ _ N) in N2. inversion N2; subst.
        eapply frames_step; eauto; apply (F _ _ N).
      * rewrite nth_error_set_nth_neq in N2 by auto.
        eapply Forall_impl; [|apply (F _ _ N2)]. cbn [fst].
        intros a Ha. rewrite X2. eapply frame_ok_ext; eauto.
    + eapply queue_step; eauto; apply (F _ _ N).
    + eapply cancel_step; eauto.
  - repeat split; cbn [fst snd clock log set_clock tramps cancelled]; auto.
    intros th t N. eapply Forall_impl; [|apply (F _ _ N)]. cbn [fst].
    intros a Ha. apply (frame_ok_ext (clock w) _ _ [] _ _); [lia|exact Ha].
Qed.



(* ---------- PFin exists only in the old code ---------- *)
Definition fin_frame (c : cfg) (f : frame) : Prop :=
  match f with FRun _ _ PFin => exit_race c = true | _ => True end.

Lemma fin_step : forall c th w t w' t',
  mstep c th w t = Some (w', t') -> Forall (fin_frame c) (stk t) -> Forall (fin_frame c) (stk t').
Proof.
  intros c th w [s ex] w' t' H F. cbn [stk] in *.
  mstep_inv H; wsimpl;
  repeat match goal with H : Forall _ (_ :: _) |- _ => inversion H; subst; clear H end;
  repeat (constructor; auto); cbn [fin_frame] in *; auto.
Qed.

(* ---------- what every event of the log satisfies ---------- *)
Definition ev_ok (c : cfg) (e : event) (before : list event) : Prop :=
  match e with
  | EStart k id l th due clk dk d =>
      dk = 0%nat /\ due <= clk /\ ~ In (ECancel id) before /\ owned k th /\
      (exists th' clk', In (ECreate k id th' due clk') before)
  | ECreate k id th due clk => owned k th
  | EEnq k id th r => owned k th
  | EDrop k ids exn => exit_race c = false -> exn = true
  | _ => True
  end.

Fixpoint log_ok (c : cfg) (l : list event) : Prop :=
  match l with [] => True | e :: t => ev_ok c e t /\ log_ok c t end.

Lemma start_active_zero : forall w ts th k x r rest ex,
  all_wf ts -> counts_ok (w, ts) ->
  nth_error ts th = Some (Thread (FRun k (x :: r) P2 :: rest) ex) ->
  t_active (tramps w k) = 0%nat.
Proof.
  intros w ts th k x r rest ex W C N. specialize (C k). cbn [fst snd] in C.
  rewrite !(sumf_split _ _ _ _ N) in C.
  assert (A0 : 0 <= sumf (invs k) (others th ts)) by (apply sumf_nonneg; intros; apply invs_nonneg).
  assert (AB : sumf (invs k) (others th ts) <= sumf (runs k) (others th ts)).
  { apply sumf_le. intros y Hy. apply inv_le_run. apply W. eapply In_others; eauto. }
  assert (Wt : wf_stk (FRun k (x :: r) P2 :: rest)) by (apply (W _ (nth_error_In _ _ N))).
  cbn [wf_stk] in Wt. destruct Wt as [_ Wr].
  pose proof (inv_le_run k _ Wr) as Lr.
  unfold invs, runs in *. cbn [stk sumf inv_c run_c] in C. rewrite key_eqb_refl in C.
  destruct C as (C1 & C2 & _). nn.
  destruct (t_idle (tramps w k)); lia.
Qed.

Lemma log_step : forall c th w ts t w' t',
  nth_error ts th = Some t -> mstep c th w t = Some (w', t') ->
  all_wf ts -> counts_ok (w, ts) -> state_ok (w, ts) -> Forall (fin_frame c) (stk t) ->
  log_ok c (log w) -> log_ok c (log w').
Proof.
  intros c th w ts t w' t' N H W C (F & Q & K) Fin L. cbn [fst snd] in *.
  specialize (F _ _ N).
  destruct t as [s ex]. cbn [stk] in *.
  mstep_inv H; wsimpl; cbn [log_ok ev_ok]; auto;
  repeat match goal with H : Forall _ (_ :: _) |- _ => inversion H; subst; clear H end;
  cbn [frame_ok fin_frame] in *;
  repeat match goal with H : _ /\ _ |- _ => destruct H end;
  repeat split; auto; try apply owned_tkey; try congruence.
  - eapply start_active_zero; eauto.
  - rewrite Forall_forall in H0. apply (H0 x); left; reflexivity.
  - intro Hc. apply K in Hc. congruence.
  - rewrite Forall_forall in H0. apply (H0 x); left; reflexivity.
Qed.

(* ---------- the invariant of all reachable configurations ---------- *)
Definition Inv (c : cfg) (cf : config) : Prop :=
  all_wf (snd cf) /\ counts_ok cf /\ state_ok cf /\
  (forall t, In t (snd cf) -> Forall (fin_frame c) (stk t)) /\
  log_ok c (log (fst cf)).

Lemma Inv_step : forall c cf s, Inv c cf -> Inv c (cstep c cf s).
Proof.
  intros c [w ts] s (W & C & S & F & L).
  pose proof (state_step c (w, ts) s S) as S'.
  unfold cstep in *. cbn [fst snd] in *. destruct s as [th|d].
  - destruct (nth_error ts th) as [t|] eqn:N; [|unfold Inv; auto].
    destruct (mstep c th w t) as [[w' t']|] eqn:M; [|unfold Inv; auto].
    split; [|split; [|split; [|split]]]; cbn [fst snd]; auto.
    + eapply all_wf_step; eauto.
    + apply (counts_step _ _ _ _ _ _ _ N M W C).
    + intros u Hu. apply In_nth_error in Hu. destruct Hu as [m Hm].
      destruct (Nat.eq_dec th m).
      * subst m. rewrite (nth_error_set_nth_eq _ _ _ _ N) in Hm. inversion Hm; subst.
        eapply fin_step; eauto. apply F. eapply nth_error_In; eauto.
      * rewrite nth_error_set_nth_neq in Hm by auto. apply F. eapply nth_error_In; eauto.
    + eapply log_step; eauto. apply F. eapply nth_error_In; eauto.
  - split; [|split; [|split; [|split]]]; cbn [fst snd log set_clock]; auto.
Qed.

Lemma Inv_init : forall c c0 hs, Inv c (start_config c0 hs).
Proof.
  intros c c0 hs. unfold Inv, start_config. cbn [fst snd init_world log].
  split; [|split; [|split; [|split]]].
  - intros t Ht. apply in_map_iff in Ht. destruct Ht as (h & <- & _). cbn. auto.
  - intro k. cbn [fst snd tramps fresh t_active t_idle t_queue]. repeat split; auto.
    + induction hs; cbn; auto.
    + induction hs; cbn; auto.
  - split; [|split]; cbn [fst snd tramps fresh t_queue log clock cancelled].
    + intros th t N. apply nth_error_In in N. apply in_map_iff in N. destruct N as (h & <- & _).
      cbn. repeat constructor.
    + intro k. constructor.
    + intros id [].
  - intros t Ht. apply in_map_iff in Ht. destruct Ht as (h & <- & _). cbn. repeat constructor.
  - exact I.
Qed.

Lemma crun_Inv : forall c sch cf, Inv c cf -> Inv c (crun c cf sch).
Proof. induction sch; cbn; intros; auto. apply IHsch. apply Inv_step; auto. Qed.

Theorem reachable_Inv : forall c c0 hs sch, Inv c (crun c (start_config c0 hs) sch).
Proof. intros; apply crun_Inv; apply Inv_init. Qed.


(* ---------- consequences ---------- *)
Lemma log_ok_at : forall c l2 e l1, log_ok c (l2 ++ e :: l1) -> ev_ok c e l1.
Proof. induction l2; cbn; intros e l1 H; [tauto|]. apply IHl2. tauto. Qed.

Lemma active_le_1 : forall c cf k, Inv c cf -> (t_active (tramps (fst cf) k) <= 1)%nat.
Proof.
  intros c [w ts] k (W & C & _). cbn [fst snd] in *. destruct (C k) as (C1 & C2 & _). cbn [fst snd] in *.
  assert (sumf (invs k) ts <= sumf (runs k) ts).
  { apply sumf_le. intros x Hx. apply inv_le_run. apply W; auto. }
  destruct (t_idle (tramps w k)); lia.
Qed.

(* events that concern trampoline k *)
Definition ev_key (e : event) : option key :=
  match e with
  | ECreate k _ _ _ _ | EEnq k _ _ _ | EStart k _ _ _ _ _ _ _ | EEnd k _ _ _ | ESkip k _
  | EDrop k _ _ | EIdle k _ | ERequired k _ _ => Some k
  | _ => None
  end.

Lemma owned_other : forall k o th, owner k = Some o -> o <> th -> owned k th -> False.
Proof. intros k o th Ho Hn Hw. apply Hn. symmetry. apply Hw. exact Ho. Qed.

Lemma tkey_owner : forall s th o, owner (tkey s th) = Some o -> o = th.
Proof. intros [i|i|] th o; cbn; congruence. Qed.

Definition frame_key (f : frame) : option key :=
  match f with FRun k _ _ | FEnq k _ | FInvoke k _ _ => Some k | _ => None end.

Lemma frames_owned : forall clk lg th s, wf_stk s -> Forall (frame_ok clk lg th) s ->
  forall f k, In f s -> frame_key f = Some k -> owned k th.
Proof.
  induction s as [|g s IH]; intros W F f k Hin Hk; [destruct Hin|].
  inversion F; subst. destruct Hin as [->|Hin].
  - destruct f; cbn in Hk; try discriminate; inversion Hk; subst; cbn [frame_ok wf_stk] in *; try tauto.
    destruct W as [W1 W2]. destruct s as [|[] s']; try contradiction. destruct ph; try contradiction. subst.
    inversion H2; subst. cbn in H3. tauto.
  - apply (IH) with (f := f); auto. destruct g; cbn [wf_stk] in W; tauto.
Qed.

(* a step of thread th neither touches nor reports on a trampoline that belongs to another thread *)
Lemma indep_step : forall c th w t w' t' k o,
  mstep c th w t = Some (w', t') ->
  wf_stk (stk t) -> Forall (frame_ok (clock w) (log w) th) (stk t) ->
  owner k = Some o -> o <> th ->
  tramps w' k = tramps w k /\
  exists evs, log w' = evs ++ log w /\ Forall (fun e => ev_key e <> Some k) evs.
Proof.
  intros c th w [s ex] w' t' k0 o H W F Ho Hn. cbn [stk] in *.
  assert (NK : forall s0, tkey s0 th <> k0).
  { intros s0 E. subst k0. apply tkey_owner in Ho. auto. }
  pose proof (frames_owned _ _ _ _ W F) as FO.
  mstep_inv H; wsimpl; unfold upd, set_active;
  try (assert (k <> k0) by (intro; subst k; eapply owned_other; [exact Ho|exact Hn|];
                            eapply FO; [left; reflexivity|reflexivity]));
  try (rewrite (key_eqb_neq k0 k) by congruence);
  (split; [reflexivity|]);
  try (exists []; split; [reflexivity|constructor]);
  try (eexists [_]; split; [reflexivity|repeat constructor; cbn [ev_key]; try congruence;
                                      try (intro E; inversion E; subst; eapply NK; eauto)]);
  try (eexists [_; _]; split; [reflexivity|repeat constructor; cbn [ev_key]; congruence]).
Qed.

(* ---------- conservation: an enqueued item is held until it is started, skipped or dropped ---------- *)
Definition started (k : key) (id : nat) (lg : list event) : Prop :=
  exists l th due clk dk d, In (EStart k id l th due clk dk d) lg.
Definition skipped (k : key) (id : nat) (lg : list event) : Prop := In (ESkip k id) lg.
Definition dropped (k : key) (id : nat) (lg : list event) : Prop :=
  exists ids exn, In (EDrop k ids exn) lg /\ In id ids.
Definition enqueued (k : key) (id : nat) (lg : list event) : Prop := exists th r, In (EEnq k id th r) lg.
Definition pending (k : key) (id : nat) (lg : list event) : Prop :=
  enqueued k id lg /\ ~ started k id lg /\ ~ skipped k id lg /\ ~ dropped k id lg.

Definition held_in (k : key) (id : nat) (s : list frame) : Prop :=
  exists r ph, In (FRun k r ph) s /\ In id (ids_of r).

Lemma pending_cons : forall k id e lg,
  pending k id (e :: lg) -> (forall th r, e <> EEnq k id th r) -> pending k id lg.
Proof.
  intros k id e lg (E & S & K & D) NE. repeat split.
  - destruct E as (th & r & [E|E]); [subst; exfalso; eapply NE; eauto|]. exists th, r; auto.
  - intros (l & th & due & clk & dk & d & H). apply S. exists l, th, due, clk, dk, d. right; auto.
  - intro H. apply K. right; auto.
  - intros (ids & exn & H & Hi). apply D. exists ids, exn. split; auto. right; auto.
Qed.

Lemma pending_not_started : forall k id l th due clk dk d lg,
  pending k id (EStart k id l th due clk dk d :: lg) -> False.
Proof. intros k id l th due clk dk d lg (_ & S & _). apply S. exists l, th, due, clk, dk, d. left; auto. Qed.

Lemma pending_not_skipped : forall k id lg, pending k id (ESkip k id :: lg) -> False.
Proof. intros k id lg (_ & _ & K & _). apply K. left; auto. Qed.

Lemma pending_not_dropped : forall k id ids exn lg, In id ids -> pending k id (EDrop k ids exn :: lg) -> False.
Proof. intros k id ids exn lg Hi (_ & _ & _ & D). apply D. exists ids, exn. split; auto. left; auto. Qed.

Lemma ids_of_app : forall a b, ids_of (a ++ b) = ids_of a ++ ids_of b.
Proof. intros; unfold ids_of; apply map_app. Qed.

Lemma ids_insert : forall id z q, In id (ids_of (insert z q)) <-> id = i_id z \/ In id (ids_of q).
Proof.
  intros. unfold ids_of. rewrite !in_map_iff. split.
  - intros (x & E & Hx). apply insert_In in Hx. destruct Hx; [subst; auto|]. right. exists x; auto.
  - intros [->|(x & E & Hx)]; [exists z; split; auto; apply insert_In; auto|].
    exists x; split; auto. apply insert_In; auto.
Qed.

Lemma held_in_cons : forall k id f s,
  held_in k id (f :: s) <->
  (match f with FRun k' r _ => k' = k /\ In id (ids_of r) | _ => False end) \/ held_in k id s.
Proof.
  intros. unfold held_in. split.
  - intros (r & ph & [E|Hin] & Hi); [subst; left; auto|right; eauto].
  - intros [Hf|(r & ph & Hin & Hi)].
    + destruct f; try contradiction. destruct Hf; subst. exists ready, ph. split; auto. left; auto.
    + exists r, ph. split; auto. right; auto.
Qed.

Lemma cons_local : forall c th w t w' t' (Other : Prop) k id,
  mstep c th w t = Some (w', t') -> wf_stk (stk t) ->
  (pending k id (log w) -> In id (ids_of (t_queue (tramps w k))) \/ held_in k id (stk t) \/ Other) ->
  pending k id (log w') -> In id (ids_of (t_queue (tramps w' k))) \/ held_in k id (stk t') \/ Other.
Proof.
  intros c th w [s ex] w' t' Other k0 id0 H W Hold P. cbn [stk] in *.
  mstep_inv H; wsimpl; unfold upd, set_active;
  rewrite ?held_in_cons in *; cbn [wf_stk] in W;
  try (keycase k0 k); cbn [t_queue] in *;
  try (match type of P with pending ?kk _ _ =>
         assert (P0 : pending kk id0 (log w))
           by (repeat (apply pending_cons in P; [|intros; congruence]); exact P) end;
       specialize (Hold P0));
  try tauto.
  - (* exception reaches the drain loop: everything it held is dropped *)
    destruct Hold as [Hq|[[[_ Hr]|Hr]|Ho]]; auto.
    + exfalso. apply pending_cons in P; [|intros; congruence].
      eapply pending_not_dropped; [|exact P]. apply in_or_app; auto.
    + exfalso. apply pending_cons in P; [|intros; congruence].
      eapply pending_not_dropped; [|exact P]. apply in_or_app; auto.
  - (* enqueue, becomes the runner *)
    rewrite ids_insert. cbn [i_id].
    destruct (Nat.eq_dec id0 (i_id it)); [auto|].
    apply pending_cons in P; [|intros; congruence]. specialize (Hold P). tauto.
  - rewrite ids_insert. cbn [i_id].
    destruct (Nat.eq_dec id0 (i_id it)); [auto|].
    apply pending_cons in P; [|intros; congruence]. specialize (Hold P). tauto.
  - (* first locked block: due items move from the queue to ready *)
    destruct (split_due_spec _ _ _ _ Esplit) as (S1 & _). rewrite S1 in Hold.
    rewrite !ids_of_app, !in_app_iff in *. tauto.
  - (* a cancelled item is skipped *)
    cbn [ids_of map In] in Hold.
    destruct (Nat.eq_dec (i_id x) id0); [subst; exfalso; eapply pending_not_skipped; eauto|]. tauto.
  - cbn [ids_of map In] in Hold.
    destruct (Nat.eq_dec (i_id x) id0); [subst; exfalso; eapply pending_not_started; eauto|]. tauto.
  - (* normal exit: nothing is held *)
    rewrite Eq in Hold. destruct W as [W1 _]. rewrite W1 in Hold by congruence. cbn in Hold. tauto.
  - rewrite Eq in Hold. tauto.
  - (* old code: finally *)
    destruct Hold as [Hq|[[[_ Hr]|Hr]|Ho]]; auto.
    + exfalso. apply pending_cons in P; [|intros; congruence].
      eapply pending_not_dropped; [|exact P]. apply in_or_app; auto.
    + exfalso. apply pending_cons in P; [|intros; congruence].
      eapply pending_not_dropped; [|exact P]. apply in_or_app; auto.
Qed.


Definition held (cf : config) (k : key) (id : nat) : Prop :=
  In id (ids_of (t_queue (tramps (fst cf) k))) \/
  exists th t, nth_error (snd cf) th = Some t /\ held_in k id (stk t).

Definition conserved (cf : config) : Prop :=
  forall k id, pending k id (log (fst cf)) -> held cf k id.

Lemma conserved_step : forall c cf s, all_wf (snd cf) -> conserved cf -> conserved (cstep c cf s).
Proof.
  intros c [w ts] s W C. unfold cstep. cbn [fst snd] in *. destruct s as [th|d]; [|exact C].
  destruct (nth_error ts th) as [t|] eqn:N; [|exact C].
  destruct (mstep c th w t) as [[w' t']|] eqn:M; [|exact C].
  intros k id P. cbn [fst snd] in *.
  assert (Wt : wf_stk (stk t)) by (apply W; eapply nth_error_In; eauto).
  pose proof (cons_local c th w t w' t'
                (exists th2 t2, th2 <> th /\ nth_error ts th2 = Some t2 /\ held_in k id (stk t2))
                k id M Wt) as L.
  destruct L as [L|[L|L]]; auto.
  - intro P0. destruct (C k id P0) as [Hq|(th2 & t2 & N2 & Hh)]; cbn [fst snd] in *; auto.
    destruct (Nat.eq_dec th2 th).
    + subst. rewrite N in N2. inversion N2; subst. auto.
    + right; right. exists th2, t2. auto.
  - left; auto.
  - right. exists th, t'. cbn [fst snd]. split; auto. eapply nth_error_set_nth_eq; eauto.
  - destruct L as (th2 & t2 & Hn & N2 & Hh). right. exists th2, t2. cbn [fst snd]. split; auto.
    rewrite nth_error_set_nth_neq; auto.
Qed.

Lemma conserved_init : forall c0 hs, conserved (start_config c0 hs).
Proof. intros c0 hs k id (E & _). destruct E as (th & r & []). Qed.

Lemma crun_conserved : forall c sch cf, Inv c cf -> conserved cf -> conserved (crun c cf sch).
Proof.
  induction sch; cbn; intros; auto. apply IHsch. apply Inv_step; auto.
  apply conserved_step; auto. apply H.
Qed.

Theorem reachable_conserved : forall c c0 hs sch, conserved (crun c (start_config c0 hs) sch).
Proof. intros. apply crun_conserved. apply Inv_init. apply conserved_init. Qed.

(* every thread has returned *)
Definition finished (ts : list thread) : Prop := forall t, In t ts -> stk t = [].

Lemma finished_idle : forall c cf k, Inv c cf -> finished (snd cf) ->
  t_idle (tramps (fst cf) k) = true /\ t_queue (tramps (fst cf) k) = [] /\ t_active (tramps (fst cf) k) = 0%nat.
Proof.
  intros c [w ts] k (_ & C & _) F. cbn [fst snd] in *. destruct (C k) as (C1 & C2 & C3). cbn [fst snd] in *.
  assert (Z1 : sumf (runs k) ts = 0).
  { clear -F. induction ts; cbn; auto. rewrite IHts by (intros u Hu; apply F; right; auto).
    unfold runs. rewrite (F a) by (left; auto). reflexivity. }
  assert (Z2 : sumf (invs k) ts = 0).
  { clear -F. induction ts; cbn; auto. rewrite IHts by (intros u Hu; apply F; right; auto).
    unfold invs. rewrite (F a) by (left; auto). reflexivity. }
  destruct (t_idle (tramps w k)); [|lia]. repeat split; auto. lia.
Qed.

(* when every thread has returned nothing is pending: every enqueued item has been started,
   skipped (found cancelled) or dropped *)
Theorem all_run : forall c c0 hs sch k id,
  let cf := crun c (start_config c0 hs) sch in
  finished (snd cf) -> ~ pending k id (log (fst cf)).
Proof.
  intros c c0 hs sch k id cf F P.
  pose proof (reachable_Inv c c0 hs sch) as I. pose proof (reachable_conserved c c0 hs sch) as C.
  fold cf in I, C.
  destruct (finished_idle c cf k I F) as (_ & Q & _).
  destruct (C k id P) as [Hq|(th & t & N & (r & ph & Hin & _))].
  - rewrite Q in Hq. destruct Hq.
  - rewrite (F t) in Hin by (eapply nth_error_In; eauto). destruct Hin.
Qed.

(* ---------- statements over all schedules ---------- *)
Theorem start_facts : forall c c0 hs sch l2 k id l th due clk dk d l1,
  log (fst (crun c (start_config c0 hs) sch)) = l2 ++ EStart k id l th due clk dk d :: l1 ->
  dk = 0%nat /\ due <= clk /\ ~ In (ECancel id) l1 /\ owned k th /\
  exists th' clk', In (ECreate k id th' due clk') l1.
Proof.
  intros. destruct (reachable_Inv c c0 hs sch) as (_ & _ & _ & _ & L).
  rewrite H in L. apply log_ok_at in L. exact L.
Qed.

Theorem create_facts : forall c c0 hs sch k id th due clk,
  In (ECreate k id th due clk) (log (fst (crun c (start_config c0 hs) sch))) -> owned k th.
Proof.
  intros. destruct (reachable_Inv c c0 hs sch) as (_ & _ & _ & _ & L).
  apply in_split in H. destruct H as (l2 & l1 & E). rewrite E in L. apply log_ok_at in L. exact L.
Qed.

Theorem drop_facts : forall c c0 hs sch k ids exn,
  exit_race c = false ->
  In (EDrop k ids exn) (log (fst (crun c (start_config c0 hs) sch))) -> exn = true.
Proof.
  intros c c0 hs sch k ids exn R H. destruct (reachable_Inv c c0 hs sch) as (_ & _ & _ & _ & L).
  apply in_split in H. destruct H as (l2 & l1 & E). rewrite E in L. apply log_ok_at in L. exact (L R).
Qed.

Theorem one_at_a_time : forall c c0 hs sch k,
  (t_active (tramps (fst (crun c (start_config c0 hs) sch)) k) <= 1)%nat.
Proof. intros. eapply active_le_1. apply reachable_Inv. Qed.

Theorem independent : forall c c0 hs sch th k o,
  let cf := crun c (start_config c0 hs) sch in
  let cf' := cstep c cf (Run th) in
  owner k = Some o -> o <> th ->
  tramps (fst cf') k = tramps (fst cf) k /\
  exists evs, log (fst cf') = evs ++ log (fst cf) /\ Forall (fun e => ev_key e <> Some k) evs.
Proof.
  intros c c0 hs sch th k o cf cf' Ho Hn.
  pose proof (reachable_Inv c c0 hs sch) as I. fold cf in I. subst cf'.
  destruct cf as [w ts]. destruct I as (W & _ & (F & _) & _). cbn [fst snd] in *.
  unfold cstep. destruct (nth_error ts th) as [t|] eqn:N.
  2: { split; auto. exists []; split; auto. }
  destruct (mstep c th w t) as [[w' t']|] eqn:M.
  2: { split; auto. exists []; split; auto. }
  cbn [fst]. eapply indep_step; eauto. apply W. eapply nth_error_In; eauto.
Qed.
